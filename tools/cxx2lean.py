#!/usr/bin/env python3
"""cxx2lean -- a deliberately small translator from a whitelisted subset of C++ to Lean 4.

It is used to regenerate the arithmetic kernels of the Lean model from /repo's headers on every
run of a check, so that the property theorems (stated over the *generated* definitions) are
re-checked against what the code says now.

Subset: straight-line integer code inside one named function body:
  declarations with initialiser, assignment and compound assignment, ++/-- statements,
  if / else, return, blocks; expressions over + - * / % << >> & | ^ ~ ! && || comparisons ?:,
  C casts / functional casts / static_cast to fixed width integer types, calls to other
  translated functions and std::min / std::max / std::abs; simple for/while loops are NOT
  supported (they are hand-modelled and tied by the correspondence check).

Semantics made explicit (every value is a Lean `Int` holding the mathematical value):
  * integer promotion and the usual arithmetic conversions are followed to find the type an
    operation is carried out in;
  * unsigned arithmetic wraps:   (a op b) % 2^bits   (Int `%` is emod, i.e. always >= 0);
  * signed arithmetic is emitted unbounded: signed overflow is UB in C++ and the theorems state
    their no-overflow side conditions explicitly;
  * `/` and `%` on signed operands truncate towards zero: Int.tdiv / Int.tmod; on unsigned
    operands they are emitted as `/` and `%` (operands are >= 0 so ediv = tdiv);
  * casts to unsigned n-bit: x % 2^n; casts to signed n-bit: ((x + 2^(n-1)) % 2^n) - 2^(n-1);
  * x >> k is x / 2^k (floor; g++ arithmetic shift for negative signed values);
  * x << k is x * 2^k (wrapped for unsigned).

A symbol spec (see class Sym) names the header, a regex anchoring the function's signature, the
parameters and member fields (with C types) that become parameters of the Lean def, optional regex
substitutions applied to the body text before parsing (to flatten `_coords.x` or `_p += point_t(a,b)`
into scalar updates), and -- for void mutators -- the list of state variables returned as a tuple.

If a symbol cannot be found or its body leaves the subset, TranslateError is raised: the caller
reports the tie for that kernel as broken (DESIGN.md 3.3, rule V3) and keeps the previous
generated file so that the correspondence check still runs.
"""
import re, os, sys, json

class TranslateError(Exception):
    pass

# ---------------------------------------------------------------- types
class T:
    __slots__ = ("signed", "bits")
    def __init__(self, signed, bits): self.signed, self.bits = signed, bits
    def __eq__(self, o): return isinstance(o, T) and (self.signed, self.bits) == (o.signed, o.bits)
    def __hash__(self): return hash((self.signed, self.bits))
    def __repr__(self): return ("s" if self.signed else "u") + str(self.bits)

S32, U32, S64, U64, BOOL = T(True, 32), T(False, 32), T(True, 64), T(False, 64), T(False, 1)
TYPE_NAMES = {
    "bool": BOOL, "char": T(True, 8), "signed char": T(True, 8), "unsigned char": T(False, 8),
    "short": T(True, 16), "unsigned short": T(False, 16), "int": S32, "unsigned": U32,
    "unsigned int": U32, "long": S64, "unsigned long": U64, "long long": S64,
    "unsigned long long": U64,
    "int8_t": T(True, 8), "uint8_t": T(False, 8), "int16_t": T(True, 16), "uint16_t": T(False, 16),
    "int32_t": S32, "uint32_t": U32, "int64_t": S64, "uint64_t": U64,
    "std::int8_t": T(True, 8), "std::uint8_t": T(False, 8), "std::int16_t": T(True, 16),
    "std::uint16_t": T(False, 16), "std::int32_t": S32, "std::uint32_t": U32,
    "std::int64_t": S64, "std::uint64_t": U64,
    "std::ptrdiff_t": S64, "ptrdiff_t": S64, "std::size_t": U64, "size_t": U64,
    "difference_type": S64, "std::uintmax_t": U64, "uintmax_t": U64, "std::intmax_t": S64,
}

def parse_type(s):
    s = " ".join(s.replace("const", " ").split())
    if s in TYPE_NAMES: return TYPE_NAMES[s]
    raise TranslateError("unknown type %r" % s)

def promote(t):
    if t.bits < 32: return S32
    return t

def usual(a, b):
    a, b = promote(a), promote(b)
    if a == b: return a
    if a.signed == b.signed: return a if a.bits >= b.bits else b
    u, s = (a, b) if not a.signed else (b, a)
    if u.bits >= s.bits: return u
    return s  # signed type can represent all values of the narrower unsigned type

# ---------------------------------------------------------------- tokenizer
TOK = re.compile(r"""\s*(?:
    (?P<num>0[xX][0-9a-fA-F]+[uUlL]*|\d+[uUlL]*)
  | (?P<id>[A-Za-z_][A-Za-z_0-9]*(?:::[A-Za-z_][A-Za-z_0-9]*)*)
  | (?P<op><<=|>>=|\+\+|--|->|<<|>>|<=|>=|==|!=|&&|\|\||\+=|-=|\*=|/=|%=|&=|\|=|\^=|[-+*/%<>=!~&|^?:;,(){}\[\].])
)""", re.X)

def tokenize(src):
    src = re.sub(r"//[^\n]*", "", src)
    src = re.sub(r"/\*.*?\*/", "", src, flags=re.S)
    pos, out = 0, []
    while True:
        m = re.compile(r"\s*").match(src, pos); pos = m.end()
        if pos >= len(src): break
        m = TOK.match(src, pos)
        if not m: raise TranslateError("cannot tokenize at %r" % src[pos:pos + 30])
        pos = m.end()
        if m.group("num"): out.append(("num", m.group("num")))
        elif m.group("id"): out.append(("id", m.group("id")))
        else: out.append(("op", m.group("op")))
    out.append(("eof", ""))
    return out

# ---------------------------------------------------------------- AST + parser
class Parser:
    def __init__(self, toks, typenames):
        self.t, self.i, self.typenames = toks, 0, typenames
    def peek(self, k=0): return self.t[self.i + k]
    def next(self): x = self.t[self.i]; self.i += 1; return x
    def accept(self, v):
        if self.peek()[1] == v and self.peek()[0] in ("op", "id"): self.i += 1; return True
        return False
    def expect(self, v):
        if not self.accept(v): raise TranslateError("expected %r, got %r" % (v, self.peek()))

    # type names: possibly multi-word (unsigned int), 'const' allowed
    def try_type(self):
        j, words = self.i, []
        while self.t[j][0] == "id" and self.t[j][1] in ("const", "unsigned", "signed", "long", "short", "int", "char", "bool", "constexpr", "static") or \
              (self.t[j][0] == "id" and not words and self.t[j][1] in self.typenames):
            w = self.t[j][1]; j += 1
            if w in ("const", "constexpr", "static"): continue
            words.append(w)
            if w in self.typenames and w not in ("unsigned", "signed", "long", "short", "int", "char"): break
        while self.t[j] == ("id", "const"): j += 1
        if not words: return None
        name = " ".join(words)
        if name == "signed": name = "int"
        if name in ("long int", "signed long"): name = "long"
        if name in self.typenames: return (self.typenames[name], j)
        return None

    def expr(self): return self.ternary()
    def ternary(self):
        c = self.binary(0)
        if self.accept("?"):
            a = self.expr(); self.expect(":"); b = self.ternary()
            return ("?:", c, a, b)
        return c
    PREC = [["||"], ["&&"], ["|"], ["^"], ["&"], ["==", "!="], ["<", ">", "<=", ">="], ["<<", ">>"], ["+", "-"], ["*", "/", "%"]]
    def binary(self, lvl):
        if lvl == len(self.PREC): return self.unary()
        a = self.binary(lvl + 1)
        while self.peek()[0] == "op" and self.peek()[1] in self.PREC[lvl]:
            op = self.next()[1]; b = self.binary(lvl + 1); a = ("bin", op, a, b)
        return a
    def unary(self):
        k, v = self.peek()
        if k == "op" and v in ("-", "+", "~", "!"):
            self.next(); return ("un", v, self.unary())
        if k == "op" and v == "(":
            # C cast?
            save = self.i; self.next(); ty = self.try_type()
            if ty and self.t[ty[1]] == ("op", ")"):
                self.i = ty[1] + 1; return ("cast", ty[0], self.unary())
            self.i = save
        return self.postfix()
    def postfix(self):
        k, v = self.peek()
        if k == "num":
            self.next(); s = v.lower(); uns = "u" in s; lng = "l" in s
            val = int(s.rstrip("ul"), 0)
            if lng: ty = U64 if uns else S64
            elif uns: ty = U32 if val < 2**32 else U64
            else: ty = S32 if val < 2**31 else (U32 if (val < 2**32 and s.startswith("0x")) else S64)
            return ("num", val, ty)
        if k == "op" and v == "(":
            self.next(); e = self.expr(); self.expect(")"); return e
        if k == "id":
            if v in ("static_cast", "std::static_cast"):
                self.next(); self.expect("<"); ty = self.try_type()
                if not ty: raise TranslateError("static_cast to unknown type near %r" % (self.peek(),))
                self.i = ty[1]; self.expect(">"); self.expect("("); e = self.expr(); self.expect(")")
                return ("cast", ty[0], e)
            ty = self.try_type()
            if ty and self.t[ty[1]] == ("op", "("):       # functional cast T(e)
                self.i = ty[1] + 1; e = self.expr(); self.expect(")"); return ("cast", ty[0], e)
            self.next(); name = v
            while self.peek() == ("op", ".") or self.peek() == ("op", "->"):
                self.next(); k2, v2 = self.next()
                if k2 != "id": raise TranslateError("bad member access")
                name = name + "." + v2 if name != "this" else v2
            if self.accept("("):
                args = []
                if not self.accept(")"):
                    while True:
                        args.append(self.expr())
                        if self.accept(")"): break
                        self.expect(",")
                return ("call", name, args)
            return ("var", name)
        raise TranslateError("unexpected token %r" % ((k, v),))

    # statements
    def block(self):
        self.expect("{"); out = []
        while not self.accept("}"): out.append(self.stmt())
        return out
    def stmt(self):
        k, v = self.peek()
        if k == "op" and v == "{": return ("block", self.block())
        if k == "op" and v == ";": self.next(); return ("block", [])
        if k == "id" and v == "if":
            self.next(); self.expect("("); c = self.expr(); self.expect(")")
            a = self.stmt(); b = ("block", [])
            if self.accept("else"): b = self.stmt()
            return ("if", c, a, b)
        if k == "id" and v == "return":
            self.next()
            if self.accept(";"): return ("return", None)
            e = self.expr(); self.expect(";"); return ("return", e)
        if k == "id" and v in ("for", "while", "do", "switch", "goto", "try"):
            raise TranslateError("statement %r is outside the translated subset" % v)
        if k == "id" and v in ("BOOST_ASSERT", "assert", "BOOST_GIL_ASSERT"):
            self.next(); self.expect("("); depth = 1
            while depth:
                t = self.next()
                if t == ("op", "("): depth += 1
                if t == ("op", ")"): depth -= 1
            self.expect(";"); return ("block", [])
        ty = self.try_type()
        if ty and self.t[ty[1]][0] == "id" and self.t[ty[1] + 1][1] in ("=", ";", "(", "{", ","):
            self.i = ty[1]; out = []
            while True:
                name = self.next()[1]
                if self.accept("="): e = self.expr()
                elif self.accept("("): e = self.expr(); self.expect(")")
                elif self.accept("{"): e = self.expr(); self.expect("}")
                else: e = None
                out.append(("decl", ty[0], name, e))
                if self.accept(";"): break
                self.expect(",")
            return ("block", out) if len(out) > 1 else out[0]
        if k == "op" and v in ("++", "--"):
            self.next(); lhs = self.postfix(); self.expect(";")
            return ("assign", lhs, ("bin", v[0], lhs, ("num", 1, S32)), True)
        lhs = self.postfix()
        if lhs[0] != "var": raise TranslateError("unsupported statement starting %r" % (lhs,))
        k, v = self.next()
        if v in ("++", "--"):
            self.expect(";"); return ("assign", lhs, ("bin", v[0], lhs, ("num", 1, S32)), True)
        if v == "=":
            e = self.expr(); self.expect(";"); return ("assign", lhs, e, False)
        if v in ("+=", "-=", "*=", "/=", "%=", "<<=", ">>=", "&=", "|=", "^="):
            e = self.expr(); self.expect(";"); return ("assign", lhs, ("bin", v[:-1], lhs, e), True)
        raise TranslateError("unsupported statement at %r" % ((k, v),))

# ---------------------------------------------------------------- Lean emission
def lean_ident(name):
    n = name.replace("::", "_").replace(".", "_")
    n = re.sub(r"^_+", "", n) or "x"
    if n in ("in", "at", "from", "then", "else", "if", "let", "fun", "do", "end", "open", "by", "have", "show", "with", "match", "where", "def", "theorem", "instance", "section", "namespace", "mut", "for", "return", "type", "Type", "prefix", "infix", "notation", "local", "private", "partial", "unsafe", "deriving", "class", "structure", "inductive", "abbrev", "axiom", "example", "variable", "universe", "import", "export", "macro", "syntax", "at"):
        n += "_"
    return n

def pow2(n): return str(2 ** n)

class Emitter:
    def __init__(self, env, funcs):
        self.env = dict(env)      # C name -> T
        self.funcs = funcs        # C function name -> (lean name, [param T], ret T)
    def conv(self, s, frm, to):
        """convert Lean term s of C type frm to C type to"""
        if frm == to: return s
        if re.fullmatch(r"\d+", s) and int(s) < 2 ** (to.bits - (1 if to.signed else 0)): return s
        if to == BOOL: return "(if %s = 0 then 0 else 1)" % s
        if not to.signed:
            if not frm.signed and frm.bits <= to.bits: return s
            return "(%s %% %s)" % (s, pow2(to.bits))
        # to signed
        if frm.signed and frm.bits <= to.bits: return s
        if not frm.signed and frm.bits < to.bits: return s
        h = pow2(to.bits - 1)
        return "((%s + %s) %% %s - %s)" % (s, h, pow2(to.bits), h)
    def cond(self, e):
        """Lean Prop (decidable) for a C condition"""
        if e[0] == "bin" and e[1] in ("<", ">", "<=", ">=", "==", "!="):
            (a, ta), (b, tb) = self.ex(e[2]), self.ex(e[3]); t = usual(ta, tb)
            a, b = self.conv(a, promote(ta) if ta.bits < 32 else ta, t) if ta != t else a, self.conv(b, tb, t) if tb != t else b
            op = {"<": "<", ">": ">", "<=": "≤", ">=": "≥", "==": "=", "!=": "≠"}[e[1]]
            return "(%s %s %s)" % (a, op, b)
        if e[0] == "bin" and e[1] == "&&": return "(%s ∧ %s)" % (self.cond(e[2]), self.cond(e[3]))
        if e[0] == "bin" and e[1] == "||": return "(%s ∨ %s)" % (self.cond(e[2]), self.cond(e[3]))
        if e[0] == "un" and e[1] == "!": return "(¬ %s)" % self.cond(e[2])
        s, t = self.ex(e)
        return "(%s ≠ 0)" % s
    def ex(self, e):
        """returns (Lean Int term, C type)"""
        k = e[0]
        if k == "num": return (str(e[1]), e[2])
        if k == "var":
            if e[1] in ("true", "false") and e[1] not in self.env: return ("1" if e[1] == "true" else "0", BOOL)
            if e[1] not in self.env: raise TranslateError("unknown identifier %r" % e[1])
            return (lean_ident(e[1]), self.env[e[1]])
        if k == "cast":
            s, t = self.ex(e[2]); return (self.conv(s, t, e[1]), e[1])
        if k == "?:":
            (a, ta), (b, tb) = self.ex(e[2]), self.ex(e[3]); t = usual(ta, tb)
            return ("(if %s then %s else %s)" % (self.cond(e[1]), self.conv(a, ta, t), self.conv(b, tb, t)), t)
        if k == "un":
            if e[1] == "!": return ("(if %s then 0 else 1)" % self.cond(e[2]), S32)
            s, t = self.ex(e[2]); p = promote(t)
            if e[1] == "+": return (s, p)
            if e[1] == "-":
                if e[2][0] == "num": return ("(-%s)" % s, p)
                r = "(-%s)" % s
                return (r if p.signed else "(%s %% %s)" % (r, pow2(p.bits)), p)
            if e[1] == "~":
                r = "(-%s - 1)" % s
                return (r if p.signed else "(%s %% %s)" % (r, pow2(p.bits)), p)
        if k == "bin":
            op = e[1]
            if op in ("<", ">", "<=", ">=", "==", "!=", "&&", "||"):
                return ("(if %s then 1 else 0)" % self.cond(e), S32)
            (a, ta), (b, tb) = self.ex(e[2]), self.ex(e[3])
            if op in ("<<", ">>"):
                t = promote(ta); a = self.conv(a, ta, t) if ta.bits >= 32 else a
                if e[3][0] == "num": p = pow2(e[3][1])
                else: p = "(2 ^ (%s).toNat)" % b
                if op == ">>": return ("(%s / %s)" % (a, p), t)
                r = "(%s * %s)" % (a, p)
                return (r if t.signed else "(%s %% %s)" % (r, pow2(t.bits)), t)
            t = usual(ta, tb); a, b = self.conv(a, ta, t) if not (ta.bits < 32 and t == S32) else a, self.conv(b, tb, t) if not (tb.bits < 32 and t == S32) else b
            if op in ("+", "-", "*"):
                r = "(%s %s %s)" % (a, op, b)
                return (r if t.signed else "(%s %% %s)" % (r, pow2(t.bits)), t)
            if op == "/": return (("(Int.tdiv %s %s)" if t.signed else "(%s / %s)") % (a, b), t)
            if op == "%": return (("(Int.tmod %s %s)" if t.signed else "(%s %% %s)") % (a, b), t)
            if op in ("&", "|", "^"):
                if t.signed: raise TranslateError("bitwise op on signed operands is outside the subset")
                f = {"&": "Nat.land", "|": "Nat.lor", "^": "Nat.xor"}[op]
                return ("(Int.ofNat (%s (%s).toNat (%s).toNat))" % (f, a, b), t)
        if k == "call":
            name = e[1]
            if name in ("std::min", "std::max", "(std::min)", "(std::max)"):
                (a, ta), (b, tb) = self.ex(e[2][0]), self.ex(e[2][1]); t = usual(ta, tb) if ta != tb else ta
                return ("(%s %s %s)" % ("min" if "min" in name else "max", a, b), t)
            if name in ("std::abs", "abs"):
                a, ta = self.ex(e[2][0]); return ("(Int.natAbs %s : Int)" % a, promote(ta))
            if name in self.funcs:
                ln, pts, rt = self.funcs[name]
                if len(pts) != len(e[2]): raise TranslateError("arity mismatch calling %s" % name)
                args = [self.conv(*self.ex(x), pt) for x, pt in zip(e[2], pts)]
                return ("(%s %s)" % (ln, " ".join(args)), rt)
            raise TranslateError("call to untranslated function %r" % name)
        raise TranslateError("unsupported expression %r" % (e,))

def has_return(s):
    if s[0] == "return": return True
    if s[0] == "block": return any(has_return(x) for x in s[1])
    if s[0] == "if": return has_return(s[2]) or has_return(s[3])
    return False

def assigned(s, acc):
    if s[0] == "assign": acc.add(s[1][1])
    elif s[0] == "block":
        for x in s[1]: assigned(x, acc)
    elif s[0] == "if": assigned(s[2], acc); assigned(s[3], acc)
    return acc

def flatten(stmts):
    out = []
    for s in stmts:
        if s[0] == "block": out.extend(flatten(s[1]))
        else: out.append(s)
    return out

def emit_stmts(stmts, em, outputs, ret_t, ind):
    """Lean term (multi-line) for the statement list; `outputs` = state vars returned as a tuple
    at the end of a void mutator (or None for a value-returning function)."""
    pad = "  " * ind
    stmts = flatten(stmts)
    if not stmts:
        if outputs is None: raise TranslateError("control reaches end of non-void function")
        return pad + "(" + ", ".join(lean_ident(o) for o in outputs) + ")"
    s, rest = stmts[0], stmts[1:]
    if s[0] == "return":
        if s[1] is None:
            return emit_stmts([], em, outputs, ret_t, ind)
        if outputs is not None: raise TranslateError("value return in a mutator")
        v, t = em.ex(s[1]); return pad + em.conv(v, t, ret_t)
    if s[0] == "decl":
        if s[3] is None:
            em.env[s[2]] = s[1]
            return pad + "let %s : Int := 0\n" % lean_ident(s[2]) + emit_stmts(rest, em, outputs, ret_t, ind)
        v, t = em.ex(s[3]); em.env[s[2]] = s[1]
        return pad + "let %s : Int := %s\n" % (lean_ident(s[2]), em.conv(v, t, s[1])) + emit_stmts(rest, em, outputs, ret_t, ind)
    if s[0] == "assign":
        name = s[1][1]
        if name not in em.env: raise TranslateError("assignment to unknown variable %r" % name)
        v, t = em.ex(s[2])
        return pad + "let %s : Int := %s\n" % (lean_ident(name), em.conv(v, t, em.env[name])) + emit_stmts(rest, em, outputs, ret_t, ind)
    if s[0] == "if":
        c = em.cond(s[1])
        if has_return(s[2]) or has_return(s[3]):
            e1 = Emitter(em.env, em.funcs); e2 = Emitter(em.env, em.funcs)
            a = emit_stmts([s[2]] + ([] if ends_return(s[2]) else rest), e1, outputs, ret_t, ind + 1)
            b = emit_stmts([s[3]] + ([] if ends_return(s[3]) else rest), e2, outputs, ret_t, ind + 1)
            return pad + "if %s then\n%s\n%selse\n%s" % (c, a, pad, b)
        mod = sorted(x for x in assigned(s, set()) if x in em.env)
        if not mod:
            return emit_stmts(rest, em, outputs, ret_t, ind)
        tup = "(" + ", ".join(lean_ident(m) for m in mod) + ")" if len(mod) > 1 else lean_ident(mod[0])
        e1 = Emitter(em.env, em.funcs); e2 = Emitter(em.env, em.funcs)
        a = emit_stmts([s[2]], e1, mod, None, ind + 2) if mod else ""
        b = emit_stmts([s[3]], e2, mod, None, ind + 2) if mod else ""
        return (pad + "let %s := (if %s then\n%s\n%s  else\n%s)\n" % (tup, c, a, pad, b)
                + emit_stmts(rest, em, outputs, ret_t, ind))
    raise TranslateError("unsupported statement %r" % (s[0],))

def ends_return(s):
    if s[0] == "return": return True
    if s[0] == "block": return bool(s[1]) and ends_return(s[1][-1])
    if s[0] == "if": return ends_return(s[2]) and ends_return(s[3])
    return False

# ---------------------------------------------------------------- locating code in headers
def find_body(text, anchor, which=0):
    """return the text between the braces following the `which`-th match of regex `anchor`"""
    ms = list(re.finditer(anchor, text, flags=re.S))
    if len(ms) <= which: raise TranslateError("anchor %r not found (%d matches)" % (anchor, len(ms)))
    i = text.find("{", ms[which].end() - 1) if text[ms[which].end() - 1] != "{" else ms[which].end() - 1
    if i < 0: raise TranslateError("no body after anchor %r" % anchor)
    depth, j = 0, i
    while j < len(text):
        if text[j] == "{": depth += 1
        elif text[j] == "}":
            depth -= 1
            if depth == 0: return text[i:j + 1]
        j += 1
    raise TranslateError("unbalanced braces after %r" % anchor)

class Sym:
    """One whitelisted symbol.
       header : path relative to the include root
       anchor : regex; the function body is the brace block following its `which`-th match
       lean   : name of the generated Lean def
       params : [(C name, C type name)] -- parameters and member fields read by the body
       ret    : C type name of the result, or None for a void mutator
       outputs: for a mutator, the C names (from params) returned as a tuple
       subst  : [(regex, replacement)] applied to the body text before parsing
       calls  : {C function name: lean name of an already translated Sym in the same file}
       body   : optional literal replacement for the located body (used for expression-only
                anchors: the located text is wrapped as `{ return <expr>; }`)
       expr   : if True the anchor's group(1) is an expression, not a function body
       inline : [(regex of a call statement, anchor of the callee, which)] -- every match of the regex in the located body is
                replaced by the callee's brace block taken from the same header (textual inlining of a void member function
                that works on the same state), before `subst` is applied"""
    def __init__(self, header, anchor, lean, params, ret=None, outputs=None, subst=(), calls=None, which=0, expr=False, doc="", inline=()):
        self.header, self.anchor, self.lean, self.params, self.ret = header, anchor, lean, params, ret
        self.outputs, self.subst, self.calls, self.which, self.expr, self.doc = outputs, list(subst), calls or {}, which, expr, doc
        self.inline = list(inline)

def translate_sym(sym, include_root, known):
    path = os.path.join(include_root, sym.header)
    try: text = open(path).read()
    except OSError as ex: raise TranslateError("cannot read %s: %s" % (path, ex))
    if sym.expr:
        ms = list(re.finditer(sym.anchor, text, flags=re.S))
        if len(ms) <= sym.which: raise TranslateError("anchor %r not found in %s" % (sym.anchor, sym.header))
        body = "{ return " + ms[sym.which].group(1) + "; }"
    else:
        body = find_body(text, sym.anchor, sym.which)
    src = body
    for pat, callee_anchor, callee_which in getattr(sym, "inline", ()):
        callee = find_body(text, callee_anchor, callee_which)
        body = re.sub(pat, lambda m: callee, body)
    for pat, rep in sym.subst: body = re.sub(pat, rep, body)
    env = {n: parse_type(t) for n, t in sym.params}
    funcs = {}
    for cname, lname in sym.calls.items():
        if lname not in known: raise TranslateError("%s calls %s which was not translated" % (sym.lean, lname))
        funcs[cname] = known[lname]
    p = Parser(tokenize(body), TYPE_NAMES)
    stmts = p.block()
    if p.peek()[0] != "eof": raise TranslateError("trailing tokens after body of %s" % sym.lean)
    em = Emitter(env, funcs)
    ret_t = parse_type(sym.ret) if sym.ret else None
    term = emit_stmts(stmts, em, sym.outputs, ret_t, 1)
    args = " ".join("(%s : Int)" % lean_ident(n) for n, _ in sym.params)
    rty = "Int" if sym.outputs is None else " × ".join(["Int"] * len(sym.outputs))
    one_line = " ".join(src.split())
    text = "/-- %s\n    generated from %s:\n    `%s` -/\ndef %s %s : %s :=\n%s\n" % (
        sym.doc or sym.lean, sym.header, one_line.replace("/-", "/ -").replace("-/", "- /")[:600], sym.lean, args, rty, term)
    known[sym.lean] = (sym.lean, [parse_type(t) for _, t in sym.params], ret_t)
    return text

def generate(namespace, syms, include_root, out_path, extra_header=""):
    """Translate all symbols; write out_path only if every symbol translated.
       Returns (ok, [(lean name, error)], changed)"""
    known, parts, errs = {}, [], []
    for s in syms:
        try: parts.append(translate_sym(s, include_root, known))
        except TranslateError as ex: errs.append((s.lean, "%s: %s" % (s.header, ex)))
    if errs: return (False, errs, False)
    body = ("-- GENERATED by tools/cxx2lean.py from the headers under the include root -- do not edit.\n"
            "-- Regenerated by every run of the check; the theorems in Props/ are stated over these defs.\n"
            + extra_header + "namespace %s\n\n" % namespace + "\n".join(parts) + "\nend %s\n" % namespace)
    old = None
    try: old = open(out_path).read()
    except OSError: pass
    if old != body:
        os.makedirs(os.path.dirname(out_path), exist_ok=True)
        with open(out_path, "w") as f: f.write(body)
    return (True, [], old != body)

if __name__ == "__main__":
    # tiny self test
    s = Sym("boost/gil/channel_algorithm.hpp", r"inline auto div255\(uint32_t in\) -> uint32_t", "div255", [("in", "uint32_t")], ret="uint32_t")
    print(translate_sym(s, sys.argv[1] if len(sys.argv) > 1 else "/repo/include", {}))
