"""vlib -- shared machinery of the /verif checks (see DESIGN.md sections 2, 3, 8).

Every check  ./check Cxx --tier quick|thorough  does, in this order:
  1. translator: regenerate lean/GilVerif/Gen/Cxx.lean from the headers of the tree under test;
  2. lake build of the property's theorems (Props.Cxx) and of its model driver (drv_Cxx);
  3. audit: no sorry/admit/axiom/native_decide/... in the sources, `#print axioms` of every
     property theorem shows only propext / Classical.choice / Quot.sound;
  4. correspondence: the C++ harness (compiled now, from the tree under test, ASan+UBSan) and the
     Lean model driver are fed the same generated op lines; their observation lines are diffed;
  5. judge: the Lean driver evaluates the property's *Spec* clauses on the implementation's
     observations (this is what decides whether a concrete input violates the property);
  6. verdict (V0..V3), replay file, evidence file.
"""
import os, sys, re, json, time, subprocess, tempfile, shutil, hashlib, random

VERIF = os.path.dirname(os.path.dirname(os.path.abspath(__file__)))
ALLOWED_AXIOMS = {"propext", "Classical.choice", "Quot.sound"}
FORBIDDEN = re.compile(r"\bsorry\b|\badmit\b|^\s*axiom\s|\bnative_decide\b|\bbv_decide\b|implemented_by|\bunsafe\s|maxHeartbeats\s+0\b|\bextern\b", re.M)

class SplitMix64:
    """the one PRNG every generator derives its choices from (seeded by VERIF_SEED)"""
    def __init__(self, seed): self.s = seed & 0xFFFFFFFFFFFFFFFF
    def next(self):
        self.s = (self.s + 0x9E3779B97F4A7C15) & 0xFFFFFFFFFFFFFFFF
        z = self.s
        z = ((z ^ (z >> 30)) * 0xBF58476D1CE4E5B9) & 0xFFFFFFFFFFFFFFFF
        z = ((z ^ (z >> 27)) * 0x94D049BB133111EB) & 0xFFFFFFFFFFFFFFFF
        return z ^ (z >> 31)
    def below(self, n): return self.next() % n if n > 0 else 0
    def range(self, lo, hi): return lo + self.below(hi - lo + 1)
    def choice(self, xs): return xs[self.below(len(xs))]
    def chance(self, num, den): return self.below(den) < num
    def shuffle(self, xs):
        for i in range(len(xs) - 1, 0, -1):
            j = self.below(i + 1); xs[i], xs[j] = xs[j], xs[i]

class Ctx:
    def __init__(self, prop, tier, seed):
        self.prop, self.tier, self.seed = prop, tier, seed
        self.repo = os.environ.get("GIL_ROOT", "/repo")
        self.include = os.path.join(self.repo, "include")
        if not os.path.isfile(os.path.join(self.include, "boost", "gil.hpp")):
            # never let g++ fall back silently to the system's /usr/include/boost/gil (a different GIL)
            raise RuntimeError("tree under test has no include/boost/gil.hpp: GIL_ROOT=%s" % self.repo)
        self.t0 = time.time()
        self.scratch = tempfile.mkdtemp(prefix="gilverif.%s." % prop, dir=os.environ.get("TMPDIR", "/tmp"))
        self.lean = os.path.join(VERIF, "lean")
        if os.environ.get("VERIF_SCRATCH_LEAN"):
            # isolated copy of the lake project (used when testing scratch trees in parallel)
            dst = os.path.join(self.scratch, "lean")
            subprocess.run(["cp", "-a", self.lean, dst], check=True)
            self.lean = dst
        self.rng = SplitMix64(seed * 1000003 + int(hashlib.sha1(prop.encode()).hexdigest()[:8], 16))
        self.broken = []        # [(kind, name, detail)]  kind in translator|theorem|audit|correspondence|harness
        self.failures = []      # judged failures: dict(op, impl, model, clause)
        self.known_hits = []
        self.notes = []
        self.cov = {}
        self.jobs = int(os.environ.get("VERIF_JOBS", str(os.cpu_count() or 4)))
    def thorough(self): return self.tier == "thorough"
    def cleanup(self): shutil.rmtree(self.scratch, ignore_errors=True)
    def log(self, *a):
        print("[%s %6.1fs]" % (self.prop, time.time() - self.t0), *a, flush=True)

# ------------------------------------------------------------------ translator step
def regen(ctx, namespace, syms, extra_header=""):
    sys.path.insert(0, os.path.join(VERIF, "tools"))
    import cxx2lean
    rel = "GilVerif/Gen/%s.lean" % ctx.prop
    out = os.path.join(ctx.lean, rel)
    ok, errs, changed = cxx2lean.generate(namespace, syms, ctx.include, out, extra_header)
    ctx.cov["translator_symbols"] = {"total": len(syms), "found": len(syms) - len(errs)}
    if not ok:
        for name, err in errs:
            ctx.broken.append(("translator", name, err))
            ctx.log("translator: cannot translate %s: %s" % (name, err))
        # keep the model usable: restore the generated file of the committed (unchanged-tree) state
        r = subprocess.run(["git", "-C", VERIF, "show", "HEAD:lean/" + rel], capture_output=True)
        if r.returncode == 0:
            with open(out, "wb") as f: f.write(r.stdout)
    elif changed:
        ctx.log("translator: %s regenerated (differs from the previous generated file)" % rel)
        ctx.notes.append("generated file %s changed on this run" % rel)
    return ok

# ------------------------------------------------------------------ lake
def lake(ctx, args, timeout=3000):
    env = dict(os.environ); env.pop("LEAN_PATH", None)
    r = subprocess.run(["lake"] + args, cwd=ctx.lean, capture_output=True, text=True, timeout=timeout, env=env)
    return r.returncode, r.stdout + r.stderr

def theorem_at(path, line):
    try: lines = open(path).read().split("\n")
    except OSError: return None
    for i in range(min(line, len(lines)) - 1, -1, -1):
        m = re.match(r"\s*(?:@\[[^\]]*\]\s*)?(?:private\s+|protected\s+)?(?:theorem|lemma|example|def|instance)\s+([^\s:(\[{]+)", lines[i])
        if m: return m.group(1)
    return None

def build(ctx, targets):
    """lake build; on failure record each failing declaration as a broken obligation"""
    rc, out = lake(ctx, ["build"] + targets)
    if rc == 0: return True
    seen = set()
    for m in re.finditer(r"error: ([^\s:]+\.lean):(\d+):(\d+): (.*)", out):
        path = os.path.join(ctx.lean, m.group(1)) if not os.path.isabs(m.group(1)) else m.group(1)
        name = theorem_at(path, int(m.group(2))) or "?"
        key = (m.group(1), name)
        if key in seen: continue
        seen.add(key)
        ctx.broken.append(("theorem", name, "%s:%s: %s" % (m.group(1), m.group(2), m.group(4)[:300])))
        ctx.log("proof obligation broken: %s (%s:%s) %s" % (name, m.group(1), m.group(2), m.group(4)[:160]))
    if not seen:
        ctx.broken.append(("build", " ".join(targets), out[-1500:]))
        ctx.log("lake build failed:\n" + out[-1500:])
    return False

def strip_comments(src):
    src = re.sub(r"/-.*?-/", lambda m: "\n" * m.group(0).count("\n"), src, flags=re.S)
    return re.sub(r"--[^\n]*", "", src)

def property_theorems(ctx, module_rel=None):
    path = os.path.join(ctx.lean, module_rel or "GilVerif/Props/%s.lean" % ctx.prop)
    src = strip_comments(open(path).read())
    ns = None
    m = re.search(r"^namespace\s+(\S+)", src, re.M)
    if m: ns = m.group(1)
    names = re.findall(r"^\s*theorem\s+([^\s:(\[{]+)", src, re.M)
    return [(ns + "." + n) if ns else n for n in names]

def import_closure(ctx, modules):
    """source files of the project-local modules (GilVerif.*, Driver.*) reachable from `modules`"""
    seen, todo, files = set(), list(modules), []
    while todo:
        m = todo.pop()
        if m in seen or not (m.startswith("GilVerif") or m.startswith("Driver")): continue
        seen.add(m)
        p = os.path.join(ctx.lean, *m.split(".")) + ".lean"
        if not os.path.isfile(p): continue
        files.append(p)
        for im in re.findall(r"^\s*(?:public\s+)?import\s+([\w.]+)", open(p).read(), re.M): todo.append(im)
    return files

def audit(ctx, modules, theorems):
    """forbidden-token grep over all library sources + #print axioms on every property theorem"""
    ok = True
    for p in import_closure(ctx, list(modules) + ["GilVerif.Model.%s" % ctx.prop, "Driver.%s" % ctx.prop]):
        m = FORBIDDEN.search(strip_comments(open(p).read()))
        if m and not (os.path.relpath(p, ctx.lean).startswith("Driver") and m.group(0).strip() in ("partial",)):
            ctx.broken.append(("audit", os.path.relpath(p, ctx.lean), "forbidden token %r" % m.group(0).strip()))
            ok = False
    f = os.path.join(ctx.scratch, "Audit_%s.lean" % ctx.prop)
    with open(f, "w") as fh:
        for mod in modules: fh.write("import %s\n" % mod)
        for t in theorems: fh.write("#print axioms %s\n" % t)
    rc, out = lake(ctx, ["env", "lean", f])
    axioms = {}
    for m in re.finditer(r"'([^']+)' (?:depends on axioms: \[([^\]]*)\]|does not depend on any axioms)", out):
        axioms[m.group(1)] = [a.strip() for a in (m.group(2) or "").replace("\n", " ").split(",") if a.strip()]
    good = 0
    for t in theorems:
        if t not in axioms:
            ctx.broken.append(("audit", t, "no #print axioms output (rc=%d): %s" % (rc, out[-300:]))); ok = False; continue
        bad = [a for a in axioms[t] if a not in ALLOWED_AXIOMS]
        if bad:
            ctx.broken.append(("audit", t, "depends on axioms %s" % bad)); ok = False
        else: good += 1
    ctx.cov["axioms"] = sorted({a for v in axioms.values() for a in v})
    return ok, good

# ------------------------------------------------------------------ C++ harness
CXX = os.environ.get("CXX", "g++")
SAN = ["-fsanitize=address,undefined", "-fno-sanitize-recover=all", "-fno-omit-frame-pointer"]

def compile_harness(ctx, src_rel, name=None, flags=(), libs=(), sanitize=True, opt="-O1", defines=()):
    src = os.path.join(VERIF, src_rel)
    out = os.path.join(ctx.scratch, name or os.path.basename(os.path.dirname(src)) + "_" + os.path.splitext(os.path.basename(src))[0])
    cmd = [CXX, "-std=c++17", opt, "-g", "-w"] + (SAN if sanitize else []) + ["-DBOOST_GIL_VERIF"] + ["-D" + d for d in defines] + \
          ["-I" + ctx.include, "-I" + os.path.join(VERIF, "harness", "common"), src, "-o", out] + list(flags) + list(libs)
    r = subprocess.run(cmd, capture_output=True, text=True)
    if r.returncode != 0:
        return None, (r.stdout + r.stderr)
    return out, ""

def sanitizer_site(stderr):
    """classify a sanitizer abort: kind + first frame inside boost/gil"""
    kind = "abort"
    m = re.search(r"ERROR: AddressSanitizer: ([\w-]+)", stderr)
    if m: kind = m.group(1)
    else:
        m = re.search(r"runtime error: ([^\n]+)", stderr)
        if m:
            kind = re.sub(r"[^a-z]+", "-", m.group(1).lower())[:40].strip("-")
            m2 = re.search(r"(boost/gil/[\w/.]+\.hpp):(\d+)", stderr[:stderr.find("runtime error")] if "runtime error" in stderr else stderr)
            if m2: return "ub:%s@%s:%s" % (kind, m2.group(1).replace("boost/gil/", ""), m2.group(2))
    m = re.search(r"include/(boost/gil/[\w/.]+\.hpp):(\d+)", stderr)
    site = "%s:%s" % (m.group(1).replace("boost/gil/", ""), m.group(2)) if m else "?"
    return "ub:%s@%s" % (kind, site)

def run_lines(cmd, lines, timeout=1800, env=None):
    r = subprocess.run(cmd, input="\n".join(lines) + "\n", capture_output=True, text=True, timeout=timeout, env=env)
    out = r.stdout.split("\n")
    if out and out[-1] == "": out.pop()
    out = [" ".join(x.split()) for x in out]      # canonicalise white space
    return r.returncode, out, r.stderr

def run_harness(ctx, binary, ops, timeout=1800, args=()):
    """one observation line per op; a sanitizer abort / crash becomes the observation of the op it
       happened on and the harness is restarted on the remaining ops"""
    env = dict(os.environ)
    env["ASAN_OPTIONS"] = "detect_leaks=1:abort_on_error=0:exitcode=86:allocator_may_return_null=1:detect_stack_use_after_return=0"
    env["UBSAN_OPTIONS"] = "print_stacktrace=1:halt_on_error=1:exitcode=87"
    obs, i, restarts = [], 0, 0
    while i < len(ops):
        try:
            rc, out, err = run_lines([binary] + list(args), ops[i:], timeout=timeout, env=env)
        except subprocess.TimeoutExpired as ex:
            out = (ex.stdout or b"").decode(errors="replace").split("\n") if isinstance(ex.stdout, bytes) else (ex.stdout or "").split("\n")
            if out and out[-1] == "": out.pop()
            obs.extend(out[:len(ops) - i]); i += len(out)
            if i < len(ops): obs.append("timeout"); i += 1
            restarts += 1
            continue
        n = min(len(out), len(ops) - i)
        obs.extend(out[:n]); i += n
        if i < len(ops):
            # died on op i
            if rc == 0:
                obs.append("harness-protocol-error"); i += 1
            else:
                ma = re.search(r"([\w/.]+\.hpp):(\d+): .*Assertion `", err)
                if "Sanitizer" in err or "runtime error" in err: obs.append(sanitizer_site(err))
                elif ma: obs.append("assert:%s:%s" % (ma.group(1).split("boost/gil/")[-1], ma.group(2)))
                else: obs.append("crash:rc=%d" % rc)
                ctx.last_sanitizer_report = err[-4000:]
                i += 1
            restarts += 1
            if restarts > 200:
                obs.extend(["harness-gave-up"] * (len(ops) - i)); break
        elif rc != 0 and ("LeakSanitizer" in err):
            ctx.broken.append(("harness", "leak", err[-1500:]))
    ctx.cov["harness_restarts"] = ctx.cov.get("harness_restarts", 0) + restarts
    return obs

def driver_path(ctx, exe): return os.path.join(ctx.lean, ".lake", "build", "bin", exe)

def run_driver(ctx, exe, mode, lines, timeout=3000):
    rc, out, err = run_lines([driver_path(ctx, exe), mode], lines, timeout=timeout)
    if rc != 0 or len(out) != len(lines):
        raise RuntimeError("driver %s %s failed rc=%d lines %d/%d: %s" % (exe, mode, rc, len(out), len(lines), err[-500:]))
    return out

# ------------------------------------------------------------------ known findings
def load_known():
    p = os.path.join(VERIF, "known_findings.json")
    try: return json.load(open(p))["findings"]
    except OSError: return []

def match_known(prop, failure, known):
    for k in known:
        if k.get("property") != prop or k.get("status") != "known": continue
        m = k.get("match", {})
        if "op" in m and not re.search(m["op"], failure["op"]): continue
        if "clause" in m and not re.search(m["clause"], failure.get("clause", "")): continue
        if "impl" in m and not re.search(m["impl"], failure.get("impl", "")): continue
        return k
    return None

# ------------------------------------------------------------------ correspondence + judge
def correspond(ctx, binary, exe, ops, label="", judge=True, harness_args=()):
    """Feed `ops` to implementation and model, diff, judge. Returns (impl_obs, model_obs)."""
    if not ops: return [], []
    impl = run_harness(ctx, binary, ops, args=harness_args)
    model = run_driver(ctx, exe, "model", ops)
    verdicts = run_driver(ctx, exe, "judge", [o + "\t" + r for o, r in zip(ops, impl)]) if judge else ["ok"] * len(ops)
    known = load_known()
    ndiff = 0
    for op, a, b, v in zip(ops, impl, model, verdicts):
        if v != "ok":
            f = {"op": op, "impl": a[:2000], "model": b[:2000], "clause": v}
            k = match_known(ctx.prop, f, known)
            if k is not None and a == b:   # a listed finding, and the model (which encodes the defect) predicts it
                if k["id"] not in [x["id"] for x in ctx.known_hits]:
                    ctx.known_hits.append({"id": k["id"], "what": k.get("what", ""), "example": f})
            else:
                ctx.failures.append(f)
        if a != b:
            ndiff += 1
            if ndiff <= 5:
                ctx.log("correspondence differs%s: op=%s\n    impl =%s\n    model=%s" % (" [" + label + "]" if label else "", op[:200], a[:300], b[:300]))
            if len([x for x in ctx.broken if x[0] == "correspondence"]) < 20:
                ctx.broken.append(("correspondence", op[:300], "impl=%s | model=%s" % (a[:300], b[:300])))
    ctx.cov["evaluations"] = ctx.cov.get("evaluations", 0) + len(ops)
    ctx.cov["correspondence_diffs"] = ctx.cov.get("correspondence_diffs", 0) + ndiff
    return impl, model

# ------------------------------------------------------------------ verdict, replay, evidence
def write_replay(ctx, kind, payload):
    os.makedirs(os.path.join(VERIF, "replay"), exist_ok=True)
    h = hashlib.sha1(json.dumps(payload, sort_keys=True).encode()).hexdigest()[:10]
    p = os.path.join(VERIF, "replay", "%s-%s.json" % (ctx.prop, h))
    payload = dict(payload, property=ctx.prop, kind=kind, seed=ctx.seed, tier=ctx.tier,
                   how="./check %s --replay replay/%s-%s.json" % (ctx.prop, ctx.prop, h))
    with open(p, "w") as f: json.dump(payload, f, indent=1)
    return p

def finish(ctx, level, obligations, discharged, rule, samples, distinct_nontrivial, assumptions, trusted_base, extra=None, exhaustive=False):
    """print KNOWN-FINDING / VIOLATION lines, write evidence, return exit code"""
    for k in ctx.known_hits:
        print("KNOWN-FINDING: property=%s %s (%s)" % (ctx.prop, k["id"], k["what"]), flush=True)
    rc = 0
    nviol = 0
    if ctx.failures:
        f = ctx.failures[0]
        p = write_replay(ctx, "counterexample", {"op_lines": [f["op"]], "impl_observation": f["impl"], "model_observation": f["model"],
                                                  "spec_clause": f["clause"], "more_failures": [x["op"][:200] for x in ctx.failures[1:20]],
                                                  "broken": [list(b) for b in ctx.broken[:10]],
                                                  "sanitizer_report": getattr(ctx, "last_sanitizer_report", None)})
        print("VIOLATION property=%s replay=%s" % (ctx.prop, p), flush=True)
        rc, nviol = 1, len(ctx.failures)
    elif ctx.broken:
        p = write_replay(ctx, "broken-obligation", {"broken": [list(b) for b in ctx.broken[:40]],
                                                     "searched": "all %d generated inputs of this run were judged against the Spec; none fails" % ctx.cov.get("evaluations", 0)})
        print("VIOLATION property=%s replay=%s no-failing-input-found" % (ctx.prop, p), flush=True)
        rc, nviol = 1, 1
    cov = {
        "obligations": obligations, "discharged": discharged,
        "checker_cmd": "cd lean && lake build GilVerif.Props.%s && lake env lean <#print axioms of every theorem>" % ctx.prop,
        "trusted_base": trusted_base,
        "evaluations": max(1, ctx.cov.get("evaluations", 0)),
        "distinct_nontrivial": distinct_nontrivial,
        "rule": rule, "samples": samples[:12], "exhaustive": exhaustive,
        "correspondence_diffs": ctx.cov.get("correspondence_diffs", 0),
        "translator_symbols": ctx.cov.get("translator_symbols"),
        "axioms_used": ctx.cov.get("axioms"),
        "leanchecker": ctx.cov.get("leanchecker"),
        "known_findings_hit": [k["id"] for k in ctx.known_hits],
        "broken": [list(b)[:2] for b in ctx.broken[:20]],
        "notes": ctx.notes,
    }
    if extra: cov.update(extra)
    ev = {"property_id": ctx.prop, "tier": ctx.tier, "seed": ctx.seed, "level": level, "coverage": cov,
          "assumptions": assumptions, "wall_s": round(time.time() - ctx.t0, 1), "violations": nviol}
    os.makedirs(os.path.join(VERIF, "evidence"), exist_ok=True)
    with open(os.path.join(VERIF, "evidence", "%s.json" % ctx.prop), "w") as f: json.dump(ev, f, indent=1)
    ctx.log("done: rc=%d obligations=%d/%d evaluations=%d diffs=%d failures=%d known=%d broken=%d" % (
        rc, discharged, obligations, cov["evaluations"], cov["correspondence_diffs"], len(ctx.failures), len(ctx.known_hits), len(ctx.broken)))
    return rc

# ------------------------------------------------------------------ kernel-checked tie of an abstract (FloatSpec) model
def f32_to_rat(bits):
    """Lean term (rational literal) of the finite IEEE binary32 value with this bit pattern"""
    import struct
    from fractions import Fraction
    fr = Fraction(struct.unpack("<f", struct.pack("<I", bits & 0xFFFFFFFF))[0])
    return "(%d / %d : ℚ)" % (fr.numerator, fr.denominator) if fr >= 0 else "(-%d / %d : ℚ)" % (-fr.numerator, fr.denominator)

def kernel_tie(ctx, label, imports, opens, typ, claims, batch=48):
    """claims: [(lhs, rhs, tag)] -- closed computable Lean terms of type `typ`.  Every `lhs = rhs` is checked by the Lean
    KERNEL (`decide +kernel`, no native code).  Used to compare an abstract float model of the theorems (Lemmas/CxxFloat.lean),
    instantiated with the genuine IEEE rounding FloatSpec.binary32 / binary64 (Basic/FloatNearest.lean), with what the
    implementation returned on the same inputs.  A refuted claim is a broken correspondence (abstract model != code).
    Returns the number of confirmed claims."""
    if not claims: return 0
    def check(groups):
        f = os.path.join(ctx.scratch, "Tie_%s_%s_%d.lean" % (ctx.prop, re.sub(r"\W", "_", label), len(os.listdir(ctx.scratch))))
        lines = ["import %s" % m for m in imports] + ["open %s" % " ".join(opens)] if opens else ["import %s" % m for m in imports]
        starts = []
        for g in groups:
            starts.append(len(lines) + 1)
            lines.append("example : ([%s] : List %s) = [%s] := by decide +kernel" % (", ".join(c[0] for c in g), typ, ", ".join(c[1] for c in g)))
        with open(f, "w") as fh: fh.write("\n".join(lines) + "\n")
        rc, out = lake(ctx, ["env", "lean", f])
        badlines = {int(m.group(1)) for m in re.finditer(r":(\d+):\d+: error", out)}
        if rc != 0 and not badlines: return None, out
        return [i for i, st in enumerate(starts) if st in badlines], out
    groups = [claims[i:i + batch] for i in range(0, len(claims), batch)]
    bad, out = check(groups)
    if bad is None:
        ctx.broken.append(("correspondence", "kernel-tie %s" % label, "lean failed: " + out[-600:])); return 0
    refuted = []
    if bad:
        single = [[c] for i in bad for c in groups[i]]
        bad1, out1 = check(single)
        refuted = [single[i][0] for i in (bad1 or [])] if bad1 is not None else [c for g in single for c in g]
    for lhs, rhs, tag in refuted[:8]:
        ctx.broken.append(("correspondence", "kernel-tie %s: %s" % (label, tag), "abstract model %s is not the implementation's value %s" % (lhs[:200], rhs[:80])))
        ctx.log("kernel tie broken (%s): %s: %s =/= %s" % (label, tag, lhs[:160], rhs[:60]))
    t = ctx.cov.setdefault("kernel_tie", {"claims": 0, "confirmed": 0})
    t["claims"] += len(claims); t["confirmed"] += len(claims) - len(refuted)
    ctx.log("kernel tie %s: %d/%d abstract-model values confirmed against the implementation by the Lean kernel" % (label, len(claims) - len(refuted), len(claims)))
    return len(claims) - len(refuted)

TRUSTED_BASE = [
    "Lean 4.33.0 kernel (theorems are about the Lean model, not about the C++ directly)",
    "axioms: propext, Classical.choice, Quot.sound only (audited with #print axioms on every run); no native_decide / bv_decide / own axioms / sorry",
    "tools/cxx2lean.py renders the whitelisted C++ subset faithfully (cross-checked by the correspondence run)",
    "correspondence check: g++ 12.2 + libstdc++ + ASan/UBSan, harness sources, generators (reach bounded by the generated inputs)",
    "C++ template/overload selection is observed through behaviour, not proven",
]

def standard_proof_steps(ctx, modules=None, targets=None, extra_props=None):
    """steps 2+3 for the usual layout; returns (obligations, discharged).
    extra_props: additional Props modules of this property (e.g. ["GilVerif.Props.C07Float"]) whose theorems are
    built, audited and counted as obligations together with those of GilVerif.Props.<prop>."""
    prop = ctx.prop
    extra_props = list(extra_props or [])
    targets = targets or (["GilVerif.Props.%s" % prop] + extra_props + ["drv_%s" % prop])
    built = build(ctx, targets)
    theorems = property_theorems(ctx)
    for mod in extra_props:
        theorems += property_theorems(ctx, mod.replace(".", "/") + ".lean")
    if extra_props:
        modules = list(modules or ["GilVerif.Props.%s" % prop]) + [m for m in extra_props if m not in (modules or [])]
        ctx.cov["extra_props"] = extra_props
    if not built:
        # the driver may still build (it does not import Props): needed for the search
        rc, out = lake(ctx, ["build", "drv_%s" % prop])
        if rc != 0:
            ctx.broken.append(("build", "drv_%s" % prop, out[-800:]))
        failed = {b[1] for b in ctx.broken if b[0] == "theorem"}
        short = {t.split(".")[-1] for t in theorems}
        if not failed or not failed <= short:
            return len(theorems), 0      # a helper lemma (or the build itself) failed: nothing of this module is checked
        return len(theorems), len([t for t in theorems if t.split(".")[-1] not in failed])
    ok, good = audit(ctx, modules or ["GilVerif.Props.%s" % prop], theorems)
    if ctx.thorough() and not os.environ.get("VERIF_NO_LEANCHECKER"):
        # thorough tier: the toolchain's independent re-checker replays the compiled Props modules in a fresh kernel
        rechecked = []
        for mod in (modules or ["GilVerif.Props.%s" % prop]):
            rc, out = lake(ctx, ["env", "leanchecker", mod], timeout=1800)
            rechecked.append({"module": mod, "ok": rc == 0})
            if rc != 0:
                ctx.broken.append(("audit", mod, "leanchecker rejects the compiled module: %s" % out[-400:]))
                ctx.log("leanchecker failed on %s:\n%s" % (mod, out[-600:]))
        ctx.cov["leanchecker"] = rechecked
    return len(theorems), good
