#!/usr/bin/env python3
"""summary.py -- prints the per-property status table (markdown) from the files the checks themselves wrote:
evidence/Cxx.json, known_findings.json, seeded/*/meta.json. Used to refresh DESIGN.md section 14."""
import json, os, glob, collections
HERE = os.path.dirname(os.path.dirname(os.path.abspath(__file__)))

def main():
    props = [json.loads(l) for l in open(os.path.join(HERE, "properties.jsonl"))]
    kf = json.load(open(os.path.join(HERE, "known_findings.json")))["findings"]
    seeds = collections.defaultdict(list)
    for d in sorted(glob.glob(os.path.join(HERE, "seeded", "*"))):
        try: m = json.load(open(os.path.join(d, "meta.json")))
        except Exception: continue
        c = m.get("confirmation_by_lead", {})
        oc = c.get("our_check", {})
        pid = os.path.basename(d).split("-")[0]
        seeds[pid].append((os.path.basename(d)[len(pid) + 1:], c.get("kept"), oc.get("caught"), oc.get("concrete_input"),
                           (oc.get("replay") or {}).get("op_lines"), (oc.get("replay") or {}).get("spec_clause")))
    print("| id | theorems (discharged/obligations) | inputs judged (quick) | model≠code | findings fixed / known | seeded defects caught (concrete) |")
    print("|---|---|---|---|---|---|")
    for p in props:
        pid = p["id"]
        try: ev = json.load(open(os.path.join(HERE, "evidence", pid + ".json")))
        except Exception: ev = None
        cov = (ev or {}).get("coverage", {})
        fx = len([f for f in kf if f["property"] == pid and f["status"] == "fixed"])
        kn = len([f for f in kf if f["property"] == pid and f["status"] == "known"])
        s = seeds.get(pid, [])
        caught = len([x for x in s if x[2]]); conc = len([x for x in s if x[2] and x[3]])
        print("| %s | %s/%s | %s | %s | %d / %d | %d of %d (%d) |" % (pid, cov.get("discharged", "-"), cov.get("obligations", "-"),
              cov.get("evaluations", "-"), cov.get("correspondence_diffs", "-"), fx, kn, caught, len(s), conc))
    print()
    print("Seeded defects (independent sub-agents, property text only):")
    print()
    print("| seed | confirmed (demo fails with / passes without, 132 tests pass) | our check | first replay |")
    print("|---|---|---|---|")
    for pid in sorted(seeds):
        for slug, kept, caught, conc, ops, clause in seeds[pid]:
            verdict = "VIOLATION, concrete input" if caught and conc else ("VIOLATION no-failing-input-found" if caught else "MISSED")
            r = ("`%s` → %s" % ((ops or [""])[0][:70], clause)) if ops else ""
            print("| %s-%s | %s | %s | %s |" % (pid, slug, "yes" if kept else "NO", verdict, r.replace("|", "\\|")))

if __name__ == "__main__":
    main()
