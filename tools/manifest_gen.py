#!/usr/bin/env python3
"""writes MANIFEST.json from the table below (kept in one place so it always validates)"""
import json, os
HERE = os.path.dirname(os.path.dirname(os.path.abspath(__file__)))
NOTE = ("Trusted: Lean 4.33 kernel; axioms propext/Classical.choice/Quot.sound only (audited every run); tools/cxx2lean.py (translator) and the "
        "correspondence harness (g++ 12.2, ASan/UBSan, generators). Theorems are about the Lean model; the tie to /repo is the translator "
        "(kernels regenerated every run) plus the correspondence/judge run on the real headers. Template selection is observed, not proven. ")
CHECKS = {
 "C07": dict(text="Machine-checked proof (Lean 4) of the multiply/invert laws over kernels re-translated from channel_algorithm.hpp on every run "
                  "(div255 rounding, closed forms, within-one-unit, commutativity, monotonicity, identity/annihilator for 8/16-bit and the generic integral path for every width; "
                  "invert exact/involution/range for every integral model), tied to the code by the translator and a correspondence+Spec-judge run that is complete for all 8-bit and packed<=8 pairs.",
             note=NOTE + "float32 channels: partial (float) -- Spec judged on the real code's output, model reproduces the IEEE operations with Lean Float32.",
             technique="Lean 4 theorems over translator-generated kernels + differential correspondence", ref="5/C07"),
}
NOT_YET = {}
# per-property snippets written by whoever builds the check: checks/Cxx.manifest.json with keys
# text, note (appended to NOTE), technique, ref, optional category; optional not_applicable reason
import glob
for f in sorted(glob.glob(os.path.join(HERE, "checks", "C*.manifest.json"))):
    d = json.load(open(f)); pid = os.path.basename(f).split(".")[0]
    if d.get("not_applicable"):
        NOT_YET[pid] = d["not_applicable"]; continue
    CHECKS[pid] = dict(text=d["text"], note=NOTE + d.get("note", ""), technique=d["technique"], ref=d.get("ref", "5/" + pid), category=d.get("category", "proof"))
def main():
    props = [json.loads(l)["id"] for l in open(os.path.join(HERE, "properties.jsonl"))]
    checks = []
    for pid in props:
        if pid not in CHECKS: continue
        c = CHECKS[pid]
        checks.append({"property_id": pid, "quick_cmd": "./check %s --tier quick" % pid, "thorough_cmd": "./check %s --tier thorough" % pid,
                       "evidence_file": "evidence/%s.json" % pid, "replay_cmd_template": "./check %s --replay {path}" % pid,
                       "engine": "lean4-gilverif",
                       "level_claimed": {"category": c.get("category", "proof"), "text": c["text"], "design_ref": "DESIGN.md section " + c["ref"]},
                       "level_note": c["note"], "technique": c["technique"]})
    na = [{"property_id": p, "reason": NOT_YET.get(p, "not yet built: model and correspondence check for this property are not in the tree yet (work in progress, see DESIGN.md section 11)")}
          for p in props if p not in CHECKS]
    m = {"version": 1, "setup_cmd": "cd lean && lake build",
         "hooks": {"guard": "BOOST_GIL_VERIF", "enable": "-DBOOST_GIL_VERIF (passed to every harness; no hook code is needed so far)",
                   "baseline_off_cmd": "cmake --build /repo/_build -j16 && ctest --test-dir /repo/_build -j8 --timeout 900", "source_commits": [], "add_only": True},
         "engines": [{"name": "lean4-gilverif", "path": "lean/", "serves_properties": [c["property_id"] for c in checks],
                      "kind_free_text": "Lean 4 lake project (model + theorems + compiled model drivers) with a C++-subset-to-Lean translator and C++ correspondence harnesses"}],
         "checks": checks, "not_applicable": na,
         "notes": "See DESIGN.md. Every check regenerates the Lean kernels from /repo's headers, rebuilds proofs, audits axioms, recompiles the harness from /repo/include and runs model vs implementation."}
    json.dump(m, open(os.path.join(HERE, "MANIFEST.json"), "w"), indent=1)
if __name__ == "__main__": main()
