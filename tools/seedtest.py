#!/usr/bin/env python3
"""seedtest.py <PROP> <worktree> <seed-dir> [--no-suite]
Confirms one seeded defect produced by an independent sub-agent and runs our check against it:
  1. worktree clean -> demo must PASS (exit 0)
  2. apply patch.diff -> library + existing tests build, ctest passes (unless --no-suite), demo must FAIL
  3. ./check PROP with GIL_ROOT=<worktree> VERIF_SCRATCH_LEAN=1 -> verdict recorded
  4. undo the patch; copy patch.diff, demo, meta.json (+ our results) to /verif/seeded/<PROP>-<slug>/
The seed worktree is a git worktree of /repo outside /repo and /verif; /repo itself is never modified."""
import sys, os, subprocess, json, shutil, re, glob, time
VERIF = os.path.dirname(os.path.dirname(os.path.abspath(__file__)))

def sh(cmd, cwd=None, timeout=3600, env=None):
    r = subprocess.run(cmd, shell=True, cwd=cwd, capture_output=True, text=True, timeout=timeout, env=env)
    return r.returncode, (r.stdout + r.stderr)

def build_demo(seed, tree, out):
    demo = os.path.join(seed, "demo.cpp")
    if os.path.exists(os.path.join(seed, "demo.sh")):
        return None
    src = open(demo).read()
    libs = "-lpng -ltiff -ljpeg -lz" if re.search(r"extension/io|-lpng|-ltiff|-ljpeg", src) else ""
    extra = "-lpthread"
    rc, o = sh("g++ -std=c++17 -O1 -I%s/include %s -o %s %s %s" % (tree, demo, out, libs, extra))
    return (rc, o)

def run_demo(seed, tree, tag):
    out = "/tmp/seeddemo_%s_%d" % (tag, os.getpid())
    if os.path.exists(os.path.join(seed, "demo.sh")):
        rc, o = sh("sh %s %s" % (os.path.join(seed, "demo.sh"), tree), cwd=seed, timeout=900)
        return rc, o[-400:]
    b = build_demo(seed, tree, out)
    if b[0] != 0: return 99, "demo does not compile: " + b[1][-600:]
    rc, o = sh(out, timeout=900)
    try: os.remove(out)
    except OSError: pass
    return rc, o[-400:]

def main():
    prop, wt, seed = sys.argv[1], sys.argv[2], sys.argv[3].rstrip("/")
    suite = "--no-suite" not in sys.argv and "--suite-from-seeder" not in sys.argv and "--retest" not in sys.argv
    slug = os.path.basename(seed)
    res = {"confirmed_at": time.strftime("%Y-%m-%d %H:%M:%S"), "steps": []}
    sh("git reset -q --hard && git clean -fdq include", cwd=wt)
    sh("git checkout -q --detach main", cwd=wt)          # the library's current HEAD (fix: commits land while seeders work)
    res["tree"] = sh("git log --format=%h -1", cwd=wt)[1].strip()
    rc0, o0 = run_demo(seed, wt, "clean")
    res["demo_on_unchanged_tree"] = {"exit": rc0, "tail": o0}
    rc, o = sh("git apply %s" % os.path.join(seed, "patch.diff"), cwd=wt)
    if rc != 0: rc, o = sh("git apply -3 %s" % os.path.join(seed, "patch.diff"), cwd=wt)
    if rc != 0: rc, o = sh("patch -p1 -s < %s" % os.path.join(seed, "patch.diff"), cwd=wt)
    if rc != 0:
        print("patch does not apply:", o); res["error"] = "patch does not apply"; rc1 = None
    else:
        rc1, o1 = run_demo(seed, wt, "patched")
        res["demo_on_changed_tree"] = {"exit": rc1, "tail": o1}
        if suite:
            if not os.path.exists(os.path.join(wt, "_build", "build.ninja")):
                sh("cmake -G Ninja -S %s -B %s/_build -DCMAKE_BUILD_TYPE=RelWithDebInfo" % (wt, wt))
            rcb, ob = sh("cmake --build %s/_build -j12 2>&1 | tail -5" % wt, timeout=7200)
            rct, ot = sh("ctest --test-dir %s/_build -j12 --timeout 900 2>&1 | tail -4" % wt, timeout=7200)
            m = re.search(r"(\d+)% tests passed, (\d+) tests failed out of (\d+)", ot)
            res["existing_suite_with_change"] = {"build_tail": ob[-300:], "ctest": m.group(0) if m else ot[-300:]}
        if "--retest" in sys.argv:
            # re-run of the check after it was strengthened: keep the suite confirmation of the first run
            try:
                old = json.load(open(os.path.join(VERIF, "seeded", "%s-%s" % (prop, slug), "meta.json")))["confirmation_by_lead"]
                res["existing_suite_with_change"] = old.get("existing_suite_with_change")
                res["first_run"] = {"confirmed_at": old.get("confirmed_at"), "our_check": {k: old.get("our_check", {}).get(k) for k in ("exit", "lines", "caught", "concrete_input")}}
            except Exception: pass
        if "--suite-from-seeder" in sys.argv:
            # time pressure: the 132-test suite with the change was built and run by the seeding agent (its logs are
            # in the seed directory and its verdict in meta.json "ran"); the lead re-ran only the demonstration and the check
            logs = [f for f in os.listdir(seed) if re.search(r"(ctest|suite|build|tests?)[^/]*\.(log|txt|out)$", f)]
            verdict = None
            for f in logs:
                m = re.search(r"(\d+)% tests passed, (\d+) tests failed out of (\d+)", open(os.path.join(seed, f), errors="replace").read())
                if m: verdict = m.group(0); break
            res["existing_suite_with_change"] = {"run_by": "seeding agent (not re-run by the lead)", "ctest": verdict or "see meta.json 'ran' / logs", "logs": logs}
        env = dict(os.environ, GIL_ROOT=wt, VERIF_SCRATCH_LEAN="1")
        t0 = time.time()
        rcc, oc = sh("./check %s --tier quick" % prop, cwd=VERIF, env=env, timeout=7200)
        vio = [l for l in oc.split("\n") if l.startswith("VIOLATION") or l.startswith("KNOWN-FINDING")]
        replay = None
        m = re.search(r"replay=(\S+)", "\n".join(vio))
        if m and os.path.exists(m.group(1)):
            rp = json.load(open(m.group(1)))
            replay = {"kind": rp.get("kind"), "op_lines": rp.get("op_lines"), "spec_clause": rp.get("spec_clause"),
                      "broken": [b[:2] for b in (rp.get("broken") or [])[:6]]}
        res["our_check"] = {"cmd": "GIL_ROOT=<patched worktree> VERIF_SCRATCH_LEAN=1 ./check %s --tier quick" % prop, "exit": rcc,
                            "lines": vio, "replay": replay, "wall_s": round(time.time() - t0, 1),
                            "caught": rcc == 1, "concrete_input": bool(vio) and "no-failing-input-found" not in " ".join(vio)}
    sh("git reset -q --hard && git clean -fdq include", cwd=wt)
    sh("git checkout -- evidence/%s.json" % prop, cwd=VERIF)
    ok = rc0 == 0 and rc1 not in (0, None, 99)
    res["kept"] = ok and (not suite or "100% tests passed" in json.dumps(res.get("existing_suite_with_change", "")))
    if "--suite-from-seeder" in sys.argv or "--retest" in sys.argv: res["kept"] = ok
    dst = os.path.join(VERIF, "seeded", "%s-%s" % (prop, slug))
    os.makedirs(dst, exist_ok=True)
    for f in os.listdir(seed):
        if os.path.isfile(os.path.join(seed, f)) and os.path.getsize(os.path.join(seed, f)) < 400000:
            shutil.copy(os.path.join(seed, f), dst)
    meta = {}
    try: meta = json.load(open(os.path.join(seed, "meta.json")))
    except Exception: pass
    meta["round"] = 3 if "seedout3" in seed else 2 if "seedout2" in seed else meta.get("round", 1)
    meta["confirmation_by_lead"] = res
    json.dump(meta, open(os.path.join(dst, "meta.json"), "w"), indent=1)
    print(json.dumps({"seed": slug, "kept": res["kept"], "demo_clean": rc0, "demo_patched": rc1,
                      "suite": res.get("existing_suite_with_change", {}).get("ctest"), "check": res.get("our_check", {}).get("lines"),
                      "replay": res.get("our_check", {}).get("replay")}, indent=1))

if __name__ == "__main__":
    main()
