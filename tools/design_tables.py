#!/usr/bin/env python3
"""design_tables.py -- refreshes the generated tables of DESIGN.md (between <!-- BEGIN:x --> / <!-- END:x --> markers):
FIXES (fix: commits of /repo with the findings they repair), KNOWN (open findings), STATUS (tools/summary.py)."""
import json, os, re, subprocess
HERE = os.path.dirname(os.path.dirname(os.path.abspath(__file__)))

def fixes():
    kf = json.load(open(os.path.join(HERE, "known_findings.json")))["findings"]
    log = subprocess.run(["git", "-C", "/repo", "log", "--reverse", "--format=%h\t%s"], capture_output=True, text=True).stdout.strip().split("\n")
    out = ["| # | commit | subject | property / finding | failing input on the tree before the fix |", "|---|---|---|---|---|"]
    n = 0
    for line in log:
        h, s = line.split("\t", 1)
        if not s.startswith("fix:"): continue
        n += 1
        fs = [f for f in kf if f.get("status") == "fixed" and str(f.get("commit", "")).startswith(h[:7])]
        ids = "<br>".join("%s `%s`" % (f["property"], f["id"]) for f in fs) or "(follow-up / see subject)"
        wit = "<br>".join(str(f.get("witness", ""))[:110].replace("|", "\\|").replace("\n", " ") for f in fs)
        out.append("| %d | %s | %s | %s | %s |" % (n, h, s[5:].replace("|", "\\|"), ids, wit))
    return "\n".join(out)

def known():
    kf = json.load(open(os.path.join(HERE, "known_findings.json")))["findings"]
    out = ["| property | id | what fails | why it is recorded, not repaired |", "|---|---|---|---|"]
    for f in kf:
        if f.get("status") != "known": continue
        out.append("| %s | `%s` | %s | %s |" % (f["property"], f["id"], str(f.get("what", ""))[:420].replace("|", "\\|").replace("\n", " "),
                                             str(f.get("why_not_fixed", f.get("disposition", "see checks/%s.notes.md" % f["property"])))[:300].replace("|", "\\|")))
    return "\n".join(out)

def status():
    return subprocess.run(["python3", os.path.join(HERE, "tools", "summary.py")], capture_output=True, text=True).stdout

def main():
    p = os.path.join(HERE, "DESIGN.md"); s = open(p).read()
    for name, fn in (("FIXES", fixes), ("KNOWN", known), ("STATUS", status)):
        b, e = "<!-- BEGIN:%s -->" % name, "<!-- END:%s -->" % name
        if b in s and e in s:
            s = s[:s.index(b) + len(b)] + "\n" + fn() + "\n" + s[s.index(e):]
    open(p, "w").write(s)

if __name__ == "__main__":
    main()
