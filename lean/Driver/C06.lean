import Driver.Common
import GilVerif.Model.C06
open Driver GilVerif.Model.C06

def splitBar (ws : List String) : List String × List String :=
  let a := ws.takeWhile (· ≠ "|"); (a, (ws.dropWhile (· ≠ "|")).drop 1)

/-- `conv S D s0 [n step]` -/
def parseOp (line : String) : Option (Ch × Ch × Int × Nat × Int) :=
  match words line with
  | ["conv", s, d, s0, n, step] =>
    match Ch.parse s, Ch.parse d, ints [s0, n, step] with
    | some S, some D, some [s0, n, step] => some (S, D, s0, n.toNat, step)
    | _, _, _ => none
  | ["conv", s, d, s0] =>
    match Ch.parse s, Ch.parse d, ints [s0] with
    | some S, some D, some [s0] => some (S, D, s0, 1, 1)
    | _, _, _ => none
  | _ => none

def sources (s0 : Int) (n : Nat) (step : Int) : List Int :=
  (List.range n).map (fun i => s0 + (Int.ofNat i) * step)

def model (line : String) : String :=
  match parseOp line with
  | some (S, D, s0, n, step) =>
    let rs := (sources s0 n step).map (conv S D)
    showInts rs ++ " | " ++ showInts (rs.map (conv D S))
  | none => "bad-op"

def firstSome {α} (xs : List α) (f : α → Option String) : Option String :=
  xs.foldl (fun acc x => match acc with | some e => some e | none => f x) none

def judge (op obs : String) : String :=
  let fail (s : String) := "fail " ++ s
  match parseOp op with
  | some (S, D, s0, n, step) =>
    let (r, b) := splitBar (words obs)
    match ints r, ints b with
    | some r, some b =>
      if r.length ≠ n ∨ b.length ≠ n then fail "shape" else
      let xs := sources s0 n step
      match firstSome (xs.zip r) (fun (s, v) => convSpec S D s v) with
      | some e => fail e
      | none =>
        if step > 0 ∧ ¬ monotone r then fail "monotone"
        else if roundTripApplies S D ∧ b ≠ xs then fail "round-trip"
        else "ok"
    | _, _ => fail ("not-a-value:" ++ (obs.take 40).toString)
  | none => fail "bad-op"

def main (args : List String) : IO UInt32 := Driver.main' model judge args
