import Driver.Common
import GilVerif.Model.C09
open Driver GilVerif.Model.C09 GilVerif.Gen.C09

def splitBars (ws : List String) : List (List String) :=
  let rec go (ws : List String) (cur : List String) (acc : List (List String)) : List (List String) :=
    match ws with
    | [] => (cur.reverse :: acc).reverse
    | "|" :: rest => go rest [] (cur.reverse :: acc)
    | w :: rest => go rest (w :: cur) acc
  go ws [] []

/-- `<layout><depth>` -> colour space and channel depth (layouts only permute storage; values are semantic) -/
def parsePix (s : String) : Option (Space × Depth) :=
  let try1 (pre : String) (sp : Space) : Option (Space × Depth) :=
    if s.startsWith pre then
      match (s.drop pre.length).toString with
      | "8" => some (sp, .d8) | "16" => some (sp, .d16) | "32f" => some (sp, .d32f) | _ => none
    else none
  (try1 "gray" .gray).orElse fun _ => (try1 "rgba" .rgba).orElse fun _ => (try1 "bgra" .rgba).orElse fun _ =>
  (try1 "argb" .rgba).orElse fun _ => (try1 "abgr" .rgba).orElse fun _ => (try1 "rgb" .rgb).orElse fun _ =>
  (try1 "bgr" .rgb).orElse fun _ => (try1 "cmyk" .cmyk)

def parseDepth : String → Option Depth
  | "8" => some .d8 | "16" => some .d16 | "32f" => some .d32f | _ => none

/-- aux part of a `cc` observation as the model predicts it -/
def auxOf (c1 c2 : Space) (s t : Depth) (p out : List Int) : List Int :=
  if c1 = .rgb ∧ c2 = .cmyk then colorConvert .cmyk .rgb t s out
  else if c1 = .rgba ∧ c2 ≠ .rgba then let pm := premultiply s p; pm ++ colorConvert .rgb c2 s t pm
  else if c1 = c2 then p.map (chConv s t)
  else []

/-- pixels of a `ccv` image: values reused cyclically -/
def ccvPixels (n w h : Nat) (v : List Int) : List (List Int) :=
  (List.range (w * h)).map fun i => (List.range n).map fun k => v.getD ((i * n + k) % v.length) 0

/-! ### sweeps: FNV-style hash over all outputs, Spec evaluated on every pixel -/

@[inline] def hadd (h : UInt64) (v : Int) : UInt64 := h * 1099511628211 + v.toNat.toUInt64
def h0 : UInt64 := 1469598103934665603

/-- Spec clauses for one rgb8 pixel and the outputs (gray, cmyk, back); lumN = luminance of the three upper neighbours -/
def specRgb8 (r g b y : Int) (c back : List Int) : Bool :=
  let w := 30 * r + 59 * g + 11 * b
  (if r = g ∧ g = b then y = r else true)
  && (100 * y - w).natAbs ≤ 100
  && (r ≥ 255 || lum8 (r + 1) g b ≥ y) && (g ≥ 255 || lum8 r (g + 1) b ≥ y) && (b ≥ 255 || lum8 r g (b + 1) ≥ y)
  && ((back.zip [r, g, b]).all fun (x, o) => (x - o).natAbs ≤ 1)
  && (if r = 0 ∧ g = 0 ∧ b = 0 then c == [0, 0, 0, 255] else true)
  && (if r = 255 ∧ g = 255 ∧ b = 255 then c == [0, 0, 0, 0] else true)
  && 0 ≤ y && y ≤ 255 && c.all (fun x => 0 ≤ x && x ≤ 255) && back.all (fun x => 0 ≤ x && x ≤ 255)

/-- all (g,b) of one r plane: (hash, number of Spec failures, first failing (g,b)) -/
def sweep8 (r : Int) : UInt64 × Nat × Option (Nat × Nat) :=
  (List.range 256).foldl (fun acc (g : Nat) => (List.range 256).foldl (fun (h, nf, first) (b : Nat) =>
      let gi : Int := g; let bi : Int := b
      let y := lum .d8 .d8 r gi bi
      let c := rgbToCmyk .d8 .d8 r gi bi
      let back := colorConvert .cmyk .rgb .d8 .d8 c
      let h := hadd h y
      let h := c.foldl hadd h
      let h := back.foldl hadd h
      if specRgb8 r gi bi y c back then (h, nf, first) else (h, nf + 1, first.orElse fun _ => some (g, b))) acc)
    (h0, 0, none)

def sweepA (g b : Int) : UInt64 × Nat × Option (Nat × Nat) :=
  (List.range 256).foldl (fun acc (r : Nat) => (List.range 256).foldl (fun (h, nf, first) (a : Nat) =>
      let ri : Int := r; let ai : Int := a
      let p := [ri, g, b, ai]
      let o1 := colorConvert .rgba .rgb .d8 .d8 p
      let o2 := colorConvert .rgba .gray .d8 .d8 p
      let o3 := colorConvert .rgba .cmyk .d8 .d8 p
      let o4 := colorConvert .rgb .rgba .d8 .d8 o1
      let pm := premultiply .d8 p
      let ok := o1 == colorConvert .rgb .rgb .d8 .d8 pm && o2 == colorConvert .rgb .gray .d8 .d8 pm
                && o3 == colorConvert .rgb .cmyk .d8 .d8 pm && nth o4 3 == 255
                && ((pm.zip [ri, g, b]).all fun (m, s) => (255 * m - s * ai).natAbs ≤ 255)
      let h := o1.foldl hadd h
      let h := hadd h (nth o2 0)
      let h := o3.foldl hadd h
      let h := hadd h (nth o4 3)
      if ok then (h, nf, first) else (h, nf + 1, first.orElse fun _ => some (r, a))) acc)
    (h0, 0, none)

def showSweep (x : UInt64 × Nat × Option (Nat × Nat)) : String :=
  let (h, nf, first) := x
  s!"{h.toNat} {nf} " ++ (match first with | some (a, b) => s!"{a} {b}" | none => "-")

/-- heterogeneous pixel types: channel widths in semantic order -/
def hetWidths : String → Option (List Nat)
  | "rgb565" => some [5, 6, 5] | "bgr565" => some [5, 6, 5] | "ba565" => some [5, 6, 5]
  | "rgb332" => some [3, 3, 2] | "ba332" => some [3, 3, 2] | _ => none

/-- the harness masks packed source values to the channel width -/
def maskHet (ws : List Nat) (p : List Int) : List Int := (ws.zip p).map fun (w, x) => x % 2 ^ w

def hetModel (src dst : String) (v : List Int) : Option (List Int) :=
  match hetWidths src, hetWidths dst with
  | none, some ws =>
    if src == "gray8" then (if v.length = 1 then some (grayToHet .u8 ws (v.getD 0 0)) else none)
    else if src == "gray16" then (if v.length = 1 then some (grayToHet .u16 ws (v.getD 0 0)) else none)
    else if src == "rgb8" then (if v.length = 3 then some (rgb8ToHet ws v) else none)
    else none
  | some ws, none =>
    if v.length ≠ 3 then none
    else if dst == "rgb8" then some (hetToRgb8 ws (maskHet ws v))
    else if dst == "gray8" then some (hetToGray8 ws (maskHet ws v))
    else none
  | _, _ => none

/-- Spec of one heterogeneous conversion, evaluated on the implementation's channels -/
def hetSpec (src dst : String) (v out : List Int) : Option String :=
  let chk (S D : GilVerif.Model.C06.Ch) (x r : Int) (name : String) : Option String :=
    (GilVerif.Model.C06.convSpec S D x r).map (fun e => name ++ "-" ++ e)
  let names := ["red", "green", "blue"]
  let first (xs : List (Option String)) : Option String := xs.foldl (fun acc x => acc.orElse fun _ => x) none
  match hetWidths src, hetWidths dst with
  | none, some ws =>
    if src == "rgb8" then
      if out.length ≠ 3 ∨ v.length ≠ 3 then some "shape"
      else first ((List.range 3).map fun i => chk .u8 (.packed (ws.getD i 1)) (v.getD i 0) (out.getD i 0) (names.getD i ""))
    else if src == "gray8" || src == "gray16" then
      -- gray v -> rgb (v,v,v): every channel is the neutral v in that channel's OWN range
      let S : GilVerif.Model.C06.Ch := if src == "gray16" then .u16 else .u8
      if out.length ≠ 3 ∨ v.length ≠ 1 then some "shape"
      else first ((List.range 3).map fun i => chk S (.packed (ws.getD i 1)) (v.getD 0 0) (out.getD i 0) ("gray-to-rgb-" ++ names.getD i ""))
    else some "bad-op"
  | some ws, none =>
    let p := maskHet ws v
    if dst == "rgb8" then
      if out.length ≠ 3 then some "shape"
      else first ((List.range 3).map fun i => chk (.packed (ws.getD i 1)) .u8 (p.getD i 0) (out.getD i 0) (names.getD i ""))
    else if dst == "gray8" then
      let y := out.getD 0 0
      let u (i : Nat) : Float := Float.ofInt (p.getD i 0) / Float.ofInt (2 ^ (ws.getD i 1) - 1)
      if out.length ≠ 1 then some "shape"
      else if y < 0 ∨ y > 255 then some "range"
      else if Float.abs (Float.ofInt y / 255.0 - (0.30 * u 0 + 0.59 * u 1 + 0.11 * u 2)) > 1.0 / 255.0 + 1.0e-9 then some "luminance-within-one-unit"
      else none
    else some "bad-op"
  | _, _ => some "bad-op"

def model (line : String) : String :=
  match words line with
  | "cch" :: src :: dst :: vs =>
    match ints vs with | some v => (match hetModel src dst v with | some o => showInts o | none => "bad-op") | none => "bad-op"
  | "cchA" :: src :: dst :: vs =>
    match ints vs with | some v => (match hetModel src dst v with | some o => showInts o | none => "bad-op") | none => "bad-op"
  | "cc" :: src :: dst :: vs =>
    match parsePix src, parsePix dst, ints vs with
    | some (c1, s), some (c2, t), some p =>
      if p.length ≠ c1.size then "bad-op" else
      let out := colorConvert c1 c2 s t p
      showInts out ++ " | " ++ showInts (auxOf c1 c2 s t p out)
    | _, _, _ => "bad-op"
  | "ccv" :: src :: dst :: w :: h :: vs =>
    match parsePix src, parsePix dst, ints [w, h], ints vs with
    | some (c1, s), some (c2, t), some [w, h], some v =>
      if v.isEmpty ∨ w < 1 ∨ h < 1 ∨ w * h > 64 then "bad-op" else
      let px := ccvPixels c1.size w.toNat h.toNat v
      showInts ((px.map (colorConvert c1 c2 s t)).flatten) ++ " | 1 1"
    | _, _, _, _ => "bad-op"
  | ["lumax", sd, td, axis, r, g, b, n, step] =>
    match parseDepth sd, parseDepth td, ints [axis, r, g, b, n, step] with
    | some s, some t, some [axis, r, g, b, n, step] =>
      showInts ((List.range n.toNat).map fun i =>
        let d := Int.ofNat i * step
        lum s t (if axis = 0 then r + d else r) (if axis = 1 then g + d else g) (if axis = 2 then b + d else b))
    | _, _, _ => "bad-op"
  | ["cmykrow", k] =>
    match ints [k] with
    | some [k] => if k < 0 ∨ k > 254 then "bad-op" else
      showInts ((List.range (256 - k.toNat)).map fun d => Int.ofNat (cmykScale k.toNat d))
    | _ => "bad-op"
  | ["sweep8", r] => match ints [r] with | some [r] => showSweep (sweep8 r) | _ => "bad-op"
  | ["sweepA", g, b] => match ints [g, b] with | some [g, b] => showSweep (sweepA g b) | _ => "bad-op"
  | _ => "bad-op"

def monotoneD (d : Depth) : List Int → Bool
  | a :: b :: rest => (if d.isFloat then (f32 a).toFloat ≤ (f32 b).toFloat else a ≤ b) && monotoneD d (b :: rest)
  | _ => true

def hasColor (c : Space) : Bool := c ≠ .gray

/-- |y - (0.30 r + 0.59 g + 0.11 b)| ≤ one unit (the coarser of the source / destination units) -/
def lumWithin (s t : Depth) (r g b y : Int) : Bool :=
  if s = .d8 ∧ t = .d8 then (100 * y - (30 * r + 59 * g + 11 * b)).natAbs ≤ 100
  else
    let e := Float.abs (unit t y - (0.30 * unit s r + 0.59 * unit s g + 0.11 * unit s b))
    let u := if unitStep s > unitStep t then unitStep s else unitStep t
    e ≤ u + 1.0e-9

/-- Spec clauses of one single-pixel conversion -/
def ccSpec (c1 c2 : Space) (s t : Depth) (p out aux : List Int) : Option String :=
  if out.length ≠ c2.size then some "shape"
  else if !(out.all (inRange t)) then some "range"
  else if hasColor c1 && hasColor c2 && isBlack c1 s p && !isBlack c2 t out then some "black-to-black"
  else if hasColor c1 && hasColor c2 && isWhite c1 s p && !isWhite c2 t out then some "white-to-white"
  else if c1 = .rgb ∧ c2 = .gray ∧ s = .d8 ∧ t = .d8 ∧ nth p 0 = nth p 1 ∧ nth p 1 = nth p 2 ∧ nth out 0 ≠ nth p 0 then some "gray-exact"
  else if c1 = .rgb ∧ c2 = .gray ∧ !lumWithin s t (nth p 0) (nth p 1) (nth p 2) (nth out 0) then some "luminance-within-one-unit"
  else if c1 = .gray ∧ c2 = .rgb ∧ ¬ (nth out 0 = nth out 1 ∧ nth out 1 = nth out 2 ∧ (s = t → nth out 0 = nth p 0)) then some "gray-to-rgb"
  -- "within one 8-bit level": measured in 8-bit levels, i.e. after channel_convert to uint8_t (rgb -> cmyk quantises to 8 bits by design)
  else if c1 = .rgb ∧ c2 = .cmyk ∧ (aux.length ≠ 3 ∨ !((aux.zip p).all fun (x, o) => (chConv s .d8 x - chConv s .d8 o).natAbs ≤ 1)) then some "cmyk-round-trip"
  else if c1 = .rgba ∧ c2 ≠ .rgba ∧ (aux.length ≠ 3 + c2.size ∨ aux.drop 3 ≠ out) then some "rgba-premultiplied"
  else if c1 = .rgba ∧ c2 ≠ .rgba ∧ !(((aux.take 3).zip (p.take 3)).all fun (m, x) =>
      Float.abs (unit s m - unit s x * unit s (nth p 3)) ≤ unitStep s + 1.0e-9) then some "premultiply-within-one-unit"
  else if c2 = .rgba ∧ c1 ≠ .rgba ∧ nth out 3 ≠ t.maxV then some "alpha-max"
  else if c1 = c2 ∧ aux ≠ out then some "same-space-per-channel"
  else none

def judgeCore (op obs : String) : String :=
  let fail (s : String) := "fail " ++ s
  match words op with
  | "cc" :: src :: dst :: vs =>
    match parsePix src, parsePix dst, ints vs, splitBars (words obs) with
    | some (c1, s), some (c2, t), some p, [o, a] =>
      match ints o, ints a with
      | some out, some aux => match ccSpec c1 c2 s t p out aux with | some e => fail e | none => "ok"
      | _, _ => fail ("not-a-value:" ++ (obs.take 40).toString)
    | _, _, _, _ => fail ("not-a-value:" ++ (obs.take 40).toString)
  | "ccv" :: src :: dst :: w :: h :: vs =>
    match parsePix src, parsePix dst, ints [w, h], ints vs, splitBars (words obs) with
    | some (_, _), some (c2, t), some [w, h], some _, [o, f] =>
      match ints o with
      | some outs =>
        if f ≠ ["1", "1"] then fail "view-agrees"
        else if outs.length ≠ (w * h).toNat * c2.size then fail "shape"
        else if !(outs.all (inRange t)) then fail "range"
        else "ok"
      | none => fail ("not-a-value:" ++ (obs.take 40).toString)
    | _, _, _, _, _ => fail ("not-a-value:" ++ (obs.take 40).toString)
  | ["lumax", sd, td, axis, r, g, b, n, step] =>
    match parseDepth sd, parseDepth td, ints [axis, r, g, b, n, step], ints (words obs) with
    | some s, some t, some [axis, r, g, b, n, step], some ys =>
      if ys.length ≠ n.toNat then fail "shape"
      else if !(ys.all (inRange t)) then fail "range"
      else if step > 0 ∧ !monotoneD t ys then fail "luminance-monotone"
      else
        let bad := (List.range n.toNat).zip ys |>.any fun (i, y) =>
          let d := Int.ofNat i * step
          !lumWithin s t (if axis = 0 then r + d else r) (if axis = 1 then g + d else g) (if axis = 2 then b + d else b) y
        if bad then fail "luminance-within-one-unit" else "ok"
    | _, _, _, _ => fail ("not-a-value:" ++ (obs.take 40).toString)
  | ["cmykrow", k] =>
    -- Spec-level fact about the implementation's row: every entry within 1.5 of the exact scaled value, never above it
    match ints [k], ints (words obs) with
    | some [k], some row =>
      if row.length ≠ 256 - k.toNat then fail "shape"
      else if ((List.range row.length).zip row).all (fun (d, t) =>
          let y := 255 - k; let dd : Int := d
          decide (0 ≤ t ∧ t ≤ 255 ∧ t * y ≤ dd * 255 ∧ 2 * (dd * 255 - t * y) ≤ 3 * y)) then "ok"
      else fail "cmyk-scale-within-1.5"
    | _, _ => fail ("not-a-value:" ++ (obs.take 40).toString)
  | ["sweep8", r] =>
    -- the judge recomputes every output of the plane in Lean, evaluates the Spec on each, and accepts the
    -- implementation's plane iff its hash equals the hash of the judged outputs (and its own count is 0)
    match ints [r], words obs with
    | some [r], hs :: nf :: _ =>
      let (h, n, first) := sweep8 r
      if n ≠ 0 then fail s!"sweep8-spec {first}"
      else if hs ≠ toString h.toNat then fail "sweep8-hash"
      else if nf ≠ "0" then fail "sweep8-cxx-spec"
      else "ok"
    | _, _ => fail ("not-a-value:" ++ (obs.take 40).toString)
  | ["sweepA", g, b] =>
    match ints [g, b], words obs with
    | some [g, b], hs :: nf :: _ =>
      let (h, n, first) := sweepA g b
      if n ≠ 0 then fail s!"sweepA-spec {first}"
      else if hs ≠ toString h.toNat then fail "sweepA-hash"
      else if nf ≠ "0" then fail "sweepA-cxx-spec"
      else "ok"
    | _, _ => fail ("not-a-value:" ++ (obs.take 40).toString)
  | _ => fail "bad-op"

def judge (op obs : String) : String :=
  match words op with
  | cmd :: src :: dst :: vs =>
    if cmd == "cch" || cmd == "cchA" then
      match ints vs, ints (words obs) with
      | some v, some out => (match hetSpec src dst v out with | some e => "fail " ++ e | none => "ok")
      | _, _ => "fail not-a-value:" ++ (obs.take 40).toString
    else judgeCore op obs
  | _ => judgeCore op obs

def main (args : List String) : IO UInt32 := Driver.main' model judge args
