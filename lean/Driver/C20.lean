import Driver.Common
import GilVerif.Model.C20
import Std.Data.HashSet
open Driver GilVerif.Model.C20

def showPts (ps : List Pt) : String := " ".intercalate (ps.map (fun p => toString p.1 ++ " " ++ toString p.2))

def pairs : List Int → Option (List Pt)
  | [] => some []
  | x :: y :: r => (pairs r).map (fun t => (x, y) :: t)
  | _ => none

def dedup (ps : List Pt) : List Pt := ps.foldl (fun acc p => if acc.contains p then acc else p :: acc) []

def scanLt (p q : Pt) : Bool := p.2 < q.2 || (p.2 == q.2 && p.1 < q.1)
def scanSort (ps : List Pt) : List Pt := (ps.toArray.qsort scanLt).toList

/-- The emitted points form a closed ring: as a set they are 8-connected and (when there are at least three) every point
    has at least two distinct 8-neighbours in the set -- no loose ends, no gaps between the octant arcs.
    (Hash set + breadth first search: the List version would be quadratic.) -/
def closedRing (pts : List Pt) : Bool :=
  let set : Std.HashSet (Int × Int) := pts.foldl (fun s p => s.insert p) {}
  let n := set.size
  if n ≤ 1 then true else
  let nbrs (p : Pt) : List Pt :=
    [(p.1 - 1, p.2 - 1), (p.1, p.2 - 1), (p.1 + 1, p.2 - 1), (p.1 - 1, p.2), (p.1 + 1, p.2),
     (p.1 - 1, p.2 + 1), (p.1, p.2 + 1), (p.1 + 1, p.2 + 1)].filter (fun q => set.contains q)
  let degOk := n < 3 || set.fold (fun ok p => ok && decide ((nbrs p).length ≥ 2)) true
  -- breadth first search from the first point, at most n rounds
  match pts with
  | [] => true
  | p0 :: _ =>
    let rec bfs (fuel : Nat) (front : List Pt) (seen : Std.HashSet (Int × Int)) : Std.HashSet (Int × Int) :=
      match fuel with
      | 0 => seen
      | f + 1 =>
        if front.isEmpty then seen else
        let (front', seen') := front.foldl (fun (acc : List Pt × Std.HashSet (Int × Int)) p =>
          (nbrs p).foldl (fun (a : List Pt × Std.HashSet (Int × Int)) q =>
            if a.2.contains q then a else (q :: a.1, a.2.insert q)) acc) ([], seen)
        bfs f front' seen'
    degOk && (bfs (n + 1) [p0] (({} : Std.HashSet (Int × Int)).insert p0)).size == n

/-- `specSym8` computed with a hash set (same predicate: every point's 8 reflections about the centre are emitted) -/
def sym8Fast (c : Pt) (pts : List Pt) : Bool :=
  let set : Std.HashSet (Int × Int) := pts.foldl (fun s p => s.insert p) {}
  pts.all (fun p => (reflections c p).all (fun q => set.contains q))

def PADc : Int := 3

/-- what the canary harness prints for a point list painted into a W×H view -/
def applyObs (W H : Int) (pts : List Pt) (listInside : Bool) : String :=
  if pts.any (fun p => p.1 < -PADc || p.1 ≥ W + PADc || p.2 < -PADc || p.2 ≥ H + PADc) then "beyond-canary-margin" else
  let d := dedup pts
  let ins := d.filter (inView W H)
  let outs := d.filter (fun p => !inView W H p)
  let asserts := pts.foldl (fun acc p => acc + (if p.1 < 0 || p.1 ≥ W then 1 else 0) + (if p.2 < 0 || p.2 ≥ H then 1 else 0)) 0
  let lst := scanSort (if listInside then ins else outs)
  let body := toString ins.length ++ " " ++ toString outs.length ++ (if lst.isEmpty then "" else " " ++ showPts lst)
  body ++ " a " ++ toString asserts

def trajObs (pc : Int) (pts : List Pt) : String :=
  toString pc ++ " " ++ toString pts.length ++ (if pts.isEmpty then "" else " " ++ showPts pts)

def model (line' : String) : String :=
  match words line' with
  | ["line", a, b, c, d] =>
    match ints [a, b, c, d] with
    | some [x0, y0, x1, y1] => trajObs (pointCount (x0, y0) (x1, y1)) (line (x0, y0) (x1, y1))
    | _ => "bad-op"
  | ["linex", a, b, c, d] =>       -- exact-arithmetic error term (equals the double code when every partial sum is exact)
    match ints [a, b, c, d] with
    | some [x0, y0, x1, y1] => trajObs (pointCount (x0, y0) (x1, y1)) (lineExact (x0, y0) (x1, y1))
    | _ => "bad-op"
  | ["mcirc", a, b, c] =>
    match ints [a, b, c] with
    | some [cx, cy, r] => trajObs (8 * midN r) (midCircle (cx, cy) r)
    | _ => "bad-op"
  | ["tcirc", a, b, c] =>
    match ints [a, b, c] with
    | some [cx, cy, r] => trajObs (8 * trigN r) (trigCircle (cx, cy) r)
    | _ => "bad-op"
  | ["ell", a, b, c, d] =>
    match ints [a, b, c, d] with
    | some [_, _, sa, sb] =>
      let (t, bad) := ellTrajectory sa sb
      if bad then "model-fuel-exhausted" else toString t.length ++ (if t.isEmpty then "" else " " ++ showPts t)
    | _ => "bad-op"
  | ["aline", _, a, b, c, d] =>
    match ints [a, b, c, d] with
    | some [x0, y0, x1, y1] =>
      let bx := min x0 x1; let by' := min y0 y1
      applyObs (iabs (x1 - x0) + 1) (iabs (y1 - y0) + 1) (line (x0 - bx, y0 - by') (x1 - bx, y1 - by')) false
    | _ => "bad-op"
  | ["acirc", _, k, a] =>
    match ints [a] with
    | some [r] => applyObs (2 * r + 1) (2 * r + 1) (if k == "m" then midCircle (r, r) r else trigCircle (r, r) r) false
    | _ => "bad-op"
  | ["aell", _, a, b, c, d, e, f] =>
    match ints [a, b, c, d, e, f] with
    | some [cx, cy, sa, sb, W, H] =>
      let (t, bad) := ellTrajectory sa sb
      if bad then "model-fuel-exhausted" else applyObs W H (drawCurve cx cy W H t) true
    | _ => "bad-op"
  | _ => "bad-op"

/-- split `… a k` -/
def splitA (ws : List String) : List String × List String :=
  (ws.takeWhile (· ≠ "a"), (ws.dropWhile (· ≠ "a")).drop 1)

def judge (op obs : String) : String :=
  let fail (s : String) := "fail " ++ s
  let bad := fail ("not-a-value:" ++ (obs.take 40).toString)
  match words op with
  | [kind, a, b, c, d] =>
    if kind == "line" || kind == "linex" then
      match ints [a, b, c, d], ints (words obs) with
      | some [x0, y0, x1, y1], some (pc :: n :: rest) =>
        match pairs rest with
        | some pts =>
          let s : Pt := (x0, y0); let e : Pt := (x1, y1)
          if n ≠ pc ∨ (pts.length : Int) ≠ n ∨ !specCount s e pts then fail "count"
          else if !specEnds s e pts then fail "endpoints"
          else if !specMajor s e pts then fail "major-monotone"
          else if !specConn pts then fail "connected"
          else if !specBBox s e pts then fail "bbox"
          else if !specNear s e pts then fail "within-one-pixel"
          else "ok"
        | none => bad
      | _, _ => bad
    else if kind == "ell" then
      match ints [a, b, c, d], ints (words obs) with
      | some [_, _, sa, sb], some (n :: rest) =>
        match pairs rest with
        | some pts =>
          if (pts.length : Int) ≠ n ∨ pts.isEmpty then fail "count"
          else if !specEllBBox sa sb pts then fail "bbox"
          else if !specEllNear sa sb pts then fail "within-one-pixel"
          else if !specEllClosed pts then fail "closed"
          else "ok"
        | none => bad
      | _, _ => bad
    else fail "bad-op"
  | [kind, a, b, c] =>
    if kind == "mcirc" || kind == "tcirc" then
      match ints [a, b, c], ints (words obs) with
      | some [cx, cy, r], some (pc :: n :: rest) =>
        match pairs rest with
        | some pts =>
          if n ≠ pc ∨ (pts.length : Int) ≠ n ∨ pc % 8 ≠ 0 ∨ pc < 8 then fail "count"
          else if !sym8Fast (cx, cy) pts then fail "symmetric"
          else if !specCircleBBox (cx, cy) r pts then fail "bbox"
          else if !specCircleNear (cx, cy) r pts then fail "within-one-pixel"
          else if !closedRing pts then fail "closed"
          else "ok"
        | none => bad
      | _, _ => bad
    else if kind == "acirc" then
      let (v, k) := splitA (words obs)
      match ints v, ints k with
      | some (nin :: nout :: _), some [na] =>
        if nout ≠ 0 ∨ na ≠ 0 then fail "bbox-apply" else if nin < 1 then fail "count" else "ok"
      | _, _ => bad
    else fail "bad-op"
  | ["aline", _, _, _, _, _] =>
    let (v, k) := splitA (words obs)
    match ints v, ints k with
    | some (nin :: nout :: _), some [na] =>
      if nout ≠ 0 ∨ na ≠ 0 then fail "bbox-apply" else if nin < 1 then fail "count" else "ok"
    | _, _ => bad
  | ["aell", _, a, b, c, d, e, f] =>
    let (v, k) := splitA (words obs)
    match ints [a, b, c, d, e, f], ints v, ints k with
    | some [cx, cy, sa, sb, W, H], some (nin :: nout :: rest), some [na] =>
      match pairs rest with
      | some pts =>
        let c : Pt := (cx - 1, cy - 1)
        let rel := pts.map (fun p => (p.1 - c.1, p.2 - c.2))
        let whole := decide (c.1 - sa ≥ 0) && decide (c.1 + sa < W) && decide (c.2 - sb ≥ 0) && decide (c.2 + sb < H)
        if nout ≠ 0 ∨ na ≠ 0 ∨ !pts.all (inView W H) then fail "clipped"
        else if (pts.length : Int) ≠ nin then fail "count"
        else if !rel.all (inBox (-sa, -sb) (sa, sb)) then fail "bbox"
        else if !specEllNear sa sb rel then fail "within-one-pixel"
        else if whole && (!specSym4 c pts || pts.isEmpty) then fail "symmetric"
        else "ok"
      | none => bad
    | _, _, _ => bad
  | _ => fail "bad-op"

def main (args : List String) : IO UInt32 := Driver.main' model judge args
