import Driver.Common
import GilVerif.Model.C10
open Driver GilVerif.Model.C10

/-! driver for C10: `model` runs a history on the Lean state machine and prints the observation in the
    harness's format; `judge` evaluates the property's Spec clauses on the implementation's observation. -/

def orgOfName : String → Option Org
  | "rgb8"   => some { mstep := 3, b2m := 1, chans := 3, planar := false, nontrivial := false, pixel := true }
  | "rgb8p"  => some { mstep := 1, b2m := 1, chans := 3, planar := true,  nontrivial := false, pixel := true }
  | "gray16" => some { mstep := 2, b2m := 1, chans := 1, planar := false, nontrivial := false, pixel := true }
  | "rgb565" => some { mstep := 2, b2m := 1, chans := 3, planar := false, nontrivial := false, pixel := true }
  | "gray1"  => some { mstep := 1, b2m := 8, chans := 1, planar := false, nontrivial := false, pixel := true }
  | "elem"   => some { mstep := 4, b2m := 1, chans := 1, planar := false, nontrivial := true,  pixel := false }
  | "elemp"  => some { mstep := 4, b2m := 1, chans := 3, planar := true,  nontrivial := true,  pixel := true }
  | _ => none

def partnerName : String → Option String
  | "rgb8" => some "rgb8p" | "rgb8p" => some "rgb8" | _ => none

def cfgOf0 (mode org alloc : String) : Option Cfg := do
  let o ← orgOfName org
  let po := (partnerName org).bind orgOfName
  let nd ← (match mode with | "dbg" => some false | "rel" => some true | _ => none)
  match alloc with
  | "se"   => some { pocma := false, pocs := false, empty := true,  ntags := 0, ndebug := nd, org := o, porg := po }
  | "sf00" => some { pocma := false, pocs := false, empty := false, ntags := 0, ndebug := nd, org := o, porg := po }
  | "sf01" => some { pocma := false, pocs := true,  empty := false, ntags := 0, ndebug := nd, org := o, porg := po }
  | "sf10" => some { pocma := true,  pocs := false, empty := false, ntags := 0, ndebug := nd, org := o, porg := po }
  | "sf11" => some { pocma := true,  pocs := true,  empty := false, ntags := 0, ndebug := nd, org := o, porg := po }
  | "pmr"  => some { pocma := false, pocs := false, empty := false, ntags := 3, ndebug := nd, org := o, porg := po }
  | _ => none

def cfgOf (mode org alloc mc dg : String) : Option Cfg :=
  (cfgOf0 mode org alloc).bind fun c =>
    match mc.toNat?, dg.toNat? with
    | some m, some d =>
      -- dg: bit 0 = allocate_ keeps the dimensions of a degenerate image; bit 1 = move_assign takes over the dimensions of a source without storage
      if m ≤ 1 ∧ d ≤ 3 then some { c with elemMoveCompiles := m == 1, keepDims := d % 2 == 1, moveKeepsDims := d / 2 == 1 } else none
    | _, _ => none

def nats (ws : List String) : Option (List Nat) := ws.mapM String.toNat?

def sameSide (a b : Nat) : Bool := (a < 4) == (b < 4)

def parseOp (ws : List String) : Op :=
  match ws with
  | name :: args =>
    match name, nats args with
    | "dflt", some [s, t, al] => .dflt s t al
    | "dims", some [s, t, al, w, h, v] => .dims s t al w h v
    | "fill", some [s, t, al, w, h, v] => .fill s t al w h v
    | "fillprobe", some [s, t, al, w, h, v] => .fillprobe s t al w h v
    | "fromview", some [s, t, al, s2] => if sameSide s s2 then .fromview s t al s2 else .bad
    | "copy", some [s, s2] => if sameSide s s2 then .copy s s2 else .bad
    | "ccopy", some [s, s2] => if sameSide s s2 then .bad else .copy s s2
    | "move", some [s, s2] => if sameSide s s2 then .move s s2 else .bad
    | "assign", some [s, s2] => if sameSide s s2 then .assign s s2 else .bad
    | "cassign", some [s, s2] => if sameSide s s2 then .bad else .assign s s2
    | "massign", some [s, s2] => if sameSide s s2 then .massign s s2 else .bad
    | "swap", some [s, s2] => if sameSide s s2 then .swap s s2 else .bad
    | "rec", some [s, w, h, al, v] => .recreate s w h al none none v
    | "recf", some [s, w, h, v, al] => .recreate s w h al (some v) none 0
    | "reca", some [s, w, h, al, t, v] => .recreate s w h al none (some t) v
    | "recfa", some [s, w, h, v, al, t] => .recreate s w h al (some v) (some t) 0
    | "write", some [s, x, y, v] => .write s x y v
    | "destroy", some [s] => .destroy s
    | _, _ => .bad
  | [] => .bad

structure Hist where
  cfg : Cfg
  fa : Nat
  fc : Nat
  ops : List Op
  names : List (List String)

def parseHist (line : String) : Option Hist :=
  match line.splitOn "|" with
  | hd :: rest =>
    match words hd with
    | ["h", mode, org, alloc, fa, fc, mc, dg] =>
      match cfgOf mode org alloc mc dg, fa.toNat?, fc.toNat? with
      | some c, some fa, some fc => some { cfg := c, fa := fa, fc := fc, ops := rest.map (fun o => parseOp (words o)), names := rest.map words }
      | _, _, _ => none
    | _ => none
  | [] => none

/-! ### observation printing -/

def showOutcome : Outcome → String
  | .ok => "ok" | .badAlloc => "bad_alloc" | .ctorThrow => "ctor_throw"
  | .assertFail s => "assert:" ++ s | .nocompile => "nocompile" | .skip => "skip"
  | .okFilled => "ok:filled" | .okUnfilled => "ok:unfilled"

def showEvent : Event → String
  | .alloc id n t => s!"A{id}:{n}:{t}"
  | .dealloc id n t => s!"D{id}:{n}:{t}"

def lowbit64 (a : Nat) : Nat :=
  let a := a % 64
  if a = 0 then 64 else if a % 2 = 1 then 1 else if a % 4 = 2 then 2 else if a % 8 = 4 then 4 else if a % 16 = 8 then 8 else if a % 32 = 16 then 16 else 32

def chk (pix : List Nat) : Nat :=
  (pix.foldl (fun (acc : Nat × Nat) v => ((acc.1 + (acc.2 + 1) * v) % 1000003, acc.2 + 1)) (0, 0)).1

def slotObs (c : Cfg) (w : World) (s : Nat) : String :=
  match c.orgOf s, w.imgs s with
  | some o, some i =>
    let k := chk i.pix
    if i.w * i.h = 0 then s!"{i.w},{i.h},{k},64,1"
    else
      match i.mem with
      | none => s!"{i.w},{i.h},{k},null,0"
      | some b =>
        let unitBits := 8 / o.b2m
        let planes := if o.planar then o.chans else 1
        let rows := (List.range (planes * i.h)).map (fun r => i.off * 8 + r * i.row * unitBits)
        let sub := rows.any (fun sb => sb % 8 ≠ 0)
        let ra := if sub then 0 else rows.foldl (fun m sb => min m (lowbit64 (blockAddr b + sb / 8))) 64
        let blk := w.heap[b]?
        let fit := match blk with
          | some blk => blk.freed == 0 && rows.all (fun sb => (sb + i.w * o.mstep * unitBits + 7) / 8 ≤ blk.size)
          | none => false
        s!"{i.w},{i.h},{k},{ra},{if fit then 1 else 0}"
  | _, _ => "-"

def liveBlocks (w : World) : Nat := (w.heap.filter (fun b => b.freed == 0)).length

def opObs (c : Cfg) (before after : World) (out : Outcome) (last : Bool) : String :=
  let evs := (after.log.take (after.log.length - before.log.length)).reverse
  let head := " ".intercalate (showOutcome out :: evs.map showEvent)
  match out with
  | .assertFail _ => head
  | _ =>
    let sl := slots.map (fun s => " ; " ++ slotObs c after s)
    let cnt := if c.org.nontrivial then s!" ; c={after.ctor} d={after.dtor}" else ""
    head ++ String.join sl ++ cnt ++ (if last then s!" ; live={liveBlocks after}" else "")

def rzero (c : Cfg) (w : World) (op : Op) (out : Outcome) : World :=
  -- harness normalisation: after a recreate that ended with ctor_throw the harness zero-fills the current view
  match op, out with
  | .recreate s _ _ _ _ _ _, .ctorThrow => if (c.orgOf s).isSome then userFill w s 0 else w
  | _, _ => w

partial def runObs (c : Cfg) (w : World) (ops : List Op) (acc : List String) : List String :=
  match ops with
  | [] =>
    let (w', out) := step c w .stop
    (opObs c w w' out true :: acc).reverse
  | op :: rest =>
    let (w', out) := step c w op
    let w' := rzero c w' op out
    -- C10_scratch_slot_free, re-checked at run time on every generated history: the model's scratch slot is free between operations
    let o := opObs c w w' out false ++ (if (w'.imgs tmpSlot).isSome && (match out with | .assertFail _ => false | _ => true) then " model-tmp-not-free" else "")
    match out with
    | .assertFail _ => (o :: acc).reverse
    | _ => runObs c w' rest (o :: acc)

def model (line : String) : String :=
  match parseHist line with
  | none => "bad-op"
  | some h =>
    let w := World.init (if h.fa = 0 then none else some (h.fa - 1)) (if h.fc = 0 then none else some (h.fc - 1))
    " | ".intercalate (runObs h.cfg w h.ops [])

/-! ### judge: the Spec on the implementation's observation -/

structure SlotO where
  w : Nat
  h : Nat
  chk : Nat
  ra : Nat
  fit : Nat
  deriving BEq

structure Rec where
  outcome : String
  events : List Event
  slots : List (Option SlotO)
  c : Option Nat
  d : Option Nat
  live : Option Nat

def parseEvent (s : String) : Option Event :=
  let body := (s.drop 1).toString
  match body.splitOn ":" with
  | [a, b, c] =>
    match a.toInt?, b.toNat?, c.toNat? with
    | some id, some n, some t =>
      if s.startsWith "A" then (if id ≥ 0 then some (.alloc id.toNat n t) else none)
      else if s.startsWith "D" then some (.dealloc (if id < 0 then 1000000000 else id.toNat) n t)
      else none
    | _, _, _ => none
  | _ => none

def parseSlot (s : String) : Option (Option SlotO) :=
  let t := s.trimAscii.toString
  if t = "-" then some none
  else match (t.splitOn ",").mapM (fun x => x.trimAscii.toString.toNat?) with
    | some [w, h, k, ra, fit] => some (some ⟨w, h, k, ra, fit⟩)
    | _ => none

def parseRec (s : String) : Option Rec :=
  match s.splitOn ";" with
  | hd :: rest =>
    match words hd with
    | out :: evs =>
      match evs.mapM parseEvent with
      | none => none
      | some evs =>
        let slotStrs := rest.take 6
        let extra := (rest.drop 6).flatMap words
        match slotStrs.mapM parseSlot with
        | none => if rest.isEmpty then some ⟨out, evs, [], none, none, none⟩ else none
        | some sl =>
          let get (p : String) : Option Nat := extra.findSome? (fun x => if x.startsWith p then (x.drop p.length).toString.toNat? else none)
          some ⟨out, evs, sl, get "c=", get "d=", get "live="⟩
    | [] => none
  | [] => none

/-- abstract heap of the judge: (size, tag, live) by id -/
abbrev JHeap := List (Nat × Nat × Bool)

def applyEvents (h : JHeap) : List Event → Except String JHeap
  | [] => .ok h
  | .alloc id n t :: rest => if id = h.length then applyEvents (h ++ [(n, t, true)]) rest else .error "alloc-ids-sequential"
  | .dealloc id n t :: rest =>
    match h[id]? with
    | some (sz, tg, true) =>
      if sz ≠ n then .error "dealloc-size-matches-alloc"
      else if tg ≠ t then .error "dealloc-through-the-allocating-allocator"
      else applyEvents (h.set id (sz, tg, false)) rest
    | some (_, _, false) => .error "no-double-free"
    | none => .error "dealloc-of-unknown-block"

def slotKey (s : Option SlotO) : Option (Nat × Nat × Nat) := s.map (fun x => (x.w, x.h, x.chk))

/-- slots an operation may change -/
def touched (ws : List String) : List Nat :=
  match ws with
  | name :: args =>
    let a := args.filterMap String.toNat?
    match name with
    | "move" | "massign" | "swap" => a.take 2
    | "fromview" => a.take 1
    | _ => a.take 1
  | [] => []

def judgeOp (h : Hist) (ws : List String) (prev : List (Option SlotO)) (r : Rec) (heapBefore : JHeap) : Option String :=
  let o := h.cfg.org
  let slotAt (k : Nat) : Option SlotO := (r.slots[k]?).join
  -- every slot: storage of the view lies inside one live allocation
  if r.slots.any (fun s => match s with | some x => x.fit ≠ 1 | none => false) then some "view-inside-live-allocation"
  -- slots not named by the operation are unchanged (deep copies: writes to one image never show in another)
  else if (List.range 6).any (fun k => !(touched ws).contains k && slotKey ((prev[k]?).join) != slotKey (slotAt k) ) && ws.head? ≠ some "end" then some "other-images-unaffected"
  else
  match ws with
  | name :: args =>
    let a := args.filterMap String.toNat?
    if r.outcome = "nocompile" then some "compiles"
    else if r.outcome = "ok:unfilled" then some "fill-value-honoured"
    else if r.outcome = "ok:filled" then none
    else if r.outcome ≠ "ok" then none
    else
      let isRec := name = "rec" || name = "recf" || name = "reca" || name = "recfa"
      if isRec then
        let s := a.getD 0 0; let W := a.getD 1 0; let H := a.getD 2 0
        let al := if name = "rec" || name = "reca" then a.getD 3 0 else a.getD 4 0
        let org := if s < 4 then some o else h.cfg.porg
        match slotAt s, org with
        | some x, some org =>
          if (x.w, x.h) ≠ (W, H) then some "recreate-dimensions"
          else if al ≥ 1 ∧ W * H > 0 ∧ x.ra % al ≠ 0 then some "recreate-row-alignment"
          else if name = "recf" ∨ name = "recfa" then
            (let v := a.getD 3 0
             if x.chk ≠ chk (List.replicate (W * H) v) ∧ (prev[s]?).join.map (fun p => (p.w, p.h)) ≠ some (W, H) then some "recreate-fill-value" else
             -- storage is reused when large enough: the operation must not free a block that was big enough
             if r.events.any (fun e => match e with | .dealloc _ n _ => n ≥ org.needed al W H | _ => false) then some "recreate-reuses-storage" else none)
          else if r.events.any (fun e => match e with | .dealloc _ n _ => n ≥ org.needed al W H | _ => false) then some "recreate-reuses-storage"
          else none
        | _, _ => none
      else if name = "copy" || name = "ccopy" || name = "assign" || name = "cassign" || name = "fromview" then
        let s := a.getD 0 0; let s2 := if name = "fromview" then a.getD 3 0 else a.getD 1 0
        if slotKey (slotAt s) != slotKey (slotAt s2) then some "copy-equals-source" else none
      else if name = "move" then
        let s := a.getD 0 0; let s2 := a.getD 1 0
        if slotKey (slotAt s) != slotKey ((prev[s2]?).join) then some "move-transfers-value" else none
      else if name = "massign" then
        let s := a.getD 0 0; let s2 := a.getD 1 0
        if s ≠ s2 ∧ slotKey (slotAt s) != slotKey ((prev[s2]?).join) then some "move-transfers-value" else none
      else if name = "swap" then
        let s := a.getD 0 0; let s2 := a.getD 1 0
        if slotKey (slotAt s) != slotKey ((prev[s2]?).join) ∨ slotKey (slotAt s2) != slotKey ((prev[s]?).join) then some "swap-exchanges-values" else none
      else if name = "dims" || name = "fill" then
        let s := a.getD 0 0; let W := a.getD 3 0; let H := a.getD 4 0; let v := a.getD 5 0
        match slotAt s with
        | some x => if W * H > 0 ∧ ((x.w, x.h) ≠ (W, H) ∨ x.chk ≠ chk (List.replicate (W * H) v)) then some "constructed-as-requested" else none
        | none => some "constructed-as-requested"
      else none
  | [] => none

partial def judgeLoop (h : Hist) (names : List (List String)) (recs : List Rec) (prev : List (Option SlotO)) (heap : JHeap) (idx : Nat) : String :=
  match recs with
  | [] => if names.isEmpty then "ok" else "fail shape:missing-records"
  | r :: rest =>
    let ws := names.headD ["end"]
    let isEnd := names.isEmpty
    let fail (c : String) := s!"fail {c} @op{idx}:{" ".intercalate ws}"
    if !(["ok", "ok:filled", "ok:unfilled", "bad_alloc", "ctor_throw", "nocompile", "skip"].contains r.outcome) ∧ !(r.outcome.startsWith "assert:") then
      fail ("no-crash:" ++ r.outcome)
    else if r.outcome = "assert:_alloc==img._alloc" ∧ ws.head? = some "swap" ∧ !h.cfg.pocs ∧ !h.cfg.empty then
      -- contract of image::swap (BOOST_ASSERT(_alloc == img._alloc) when the allocator does not propagate on swap): a user level swap of
      -- unequal instances is diagnosed in assert-enabled builds; that the instances really were unequal is the model's prediction (correspondence)
      "ok"
    else if r.outcome.startsWith "assert:" then
      -- an assertion inside the library on an in-contract history (user level swap of unequal non-propagating allocators is excluded by the generator)
      fail ("no-assertion-failure:" ++ (r.outcome.drop 7).toString)
    else
    match applyEvents heap r.events with
    | .error e => fail e
    | .ok heap' =>
      let live := (heap'.filter (fun b => b.2.2)).length
      let occupied := (r.slots.filter Option.isSome).length
      let nonEmpty := (r.slots.filter (fun s => match s with | some x => x.w * x.h > 0 | none => false)).length
      if live > occupied then fail "at-most-one-live-allocation-per-image"
      else if live < nonEmpty then fail "every-non-empty-image-owns-an-allocation"
      else
      -- constructed elements alive = pixels of the live images
      let elems := r.slots.foldl (fun acc s => match s with | some x => acc + x.w * x.h | none => acc) 0
      match (match r.c, r.d with | some c, some d => if c ≠ d + h.cfg.org.epp * elems then some "constructed-elements-match-live-images" else none | _, _ => none) with
      | some e => fail e
      | none =>
        match (if isEnd then none else judgeOp h ws prev r heap) with
        | some e => fail e
        | none =>
          if isEnd then
            if live ≠ 0 then fail "no-leak"
            else if r.live.getD 0 ≠ 0 then fail "no-leak"
            else if rest.isEmpty then "ok" else "fail shape:records-after-end"
          else judgeLoop h (names.drop 1) rest r.slots heap' (idx + 1)

def judge (op obs : String) : String :=
  if obs.trimAscii.toString == "err:no-compile" then "fail compiles" else
  match parseHist op with
  | none => "fail bad-op"
  | some h =>
    match (obs.splitOn "|").mapM parseRec with
    | none => "fail not-an-observation:" ++ (obs.take 60).toString
    | some recs =>
      let verdict := judgeLoop h h.names recs (List.replicate 6 none) [] 0
      -- the Spec predicate of theorem C10_log_balanced, evaluated literally on the implementation's complete allocator log of a history that ran to
      -- its end (all images destroyed): every allocate matched by exactly one deallocate with the same id, size and allocator, nothing left allocated
      let ended := recs.length = h.names.length + 1 ∧ recs.all (fun r => !r.outcome.startsWith "assert:")
      if verdict = "ok" ∧ ended ∧ !logBalanced ((recs.flatMap (·.events)).reverse) then "fail log-balanced @end" else verdict

def main (args : List String) : IO UInt32 := Driver.main' model judge args
