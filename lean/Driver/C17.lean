import Driver.Common
import GilVerif.Model.C17
open Driver GilVerif.Model.C17

/-- source content of the harness: channel c of pixel (x,y) -/
def val (x y c : Int) : Int := (x * 37 + y * 101 + c * 53 + 11) % 199

/-- view kinds of the harness: number of channels, value offset (signed), float flag -/
structure VT where
  nch : Nat
  off : Int
  isF : Bool

def VT.parse : String → Option VT
  | "g8" => some ⟨1, 0, false⟩ | "rgb8" => some ⟨3, 0, false⟩ | "rgb8p" => some ⟨3, 0, false⟩
  | "g16" => some ⟨1, 0, false⟩ | "g8s" => some ⟨1, -100, false⟩ | "g32f" => some ⟨1, 0, true⟩
  | "sub" => some ⟨3, 0, false⟩ | "trn" => some ⟨1, 0, false⟩
  | _ => none

def VT.src (v : VT) (c : Nat) (x y : Int) : Int := val x y c + v.off
def VT.sentinel (_ : VT) : Int := 7
def chans (v : VT) : List Nat := List.range v.nch

def joinC (xs : List Int) : String := ",".intercalate (xs.map toString)

/-- result channel value printed by the harness for an exact accumulator -/
def castQ (v : VT) (q : Rat) : Int := if v.isF then truncQ (q * 256) else roundQ q
def showSrc (v : VT) (x : Int) : Int := if v.isF then x * 256 else x

/-- result channel value for a double accumulator -/
def castF (v : VT) (a : Float) : Int :=
  if v.isF then f2i (Float.round (a.toFloat32.toFloat * 256.0)) else castRoundF a

def pointTokenQ (v : VT) (bil : Bool) (w h nx ny D : Int) : String :=
  if bil then
    match (chans v).mapM (fun c => (bilinearQ w h (v.src c) nx ny D).map (fun r => castQ v r.2)) with
    | some vs => joinC vs
    | none => "o"
  else
    match nearestQ w h nx ny D with
    | some (cx, cy) => joinC ((chans v).map (fun c => showSrc v (v.src c cx cy)))
    | none => "o"

def irange (n : Nat) : List Int := (List.range n).map Int.ofNat
def rowPoints (nx0 n step : Int) : List Int := (irange n.toNat).map (fun i => nx0 + i * step)

def tapToken (bil : Bool) (w h nx ny D : Int) : String :=
  let g8 : VT := ⟨1, 0, false⟩
  if bil then
    match bilinearQ w h (g8.src 0) nx ny D with
    | some (taps, acc) => ",".intercalate (taps.map (fun t => toString t.x ++ ":" ++ toString t.y)) ++ "=" ++ toString (roundQ acc)
    | none => "o"
  else
    match nearestQ w h nx ny D with
    | some (cx, cy) => toString cx ++ ":" ++ toString cy ++ "=" ++ toString (g8.src 0 cx cy)
    | none => "o"

def fOfBits (s : String) : Option Float := s.toNat?.map (fun n => Float.ofBits n.toUInt64)
def bitsOf (x : Float) : String := toString x.toBits.toNat
def showM (m : M32 Float) : String := " ".intercalate [bitsOf m.a, bitsOf m.b, bitsOf m.c, bitsOf m.d, bitsOf m.e, bitsOf m.f]
def mOf : List Float → Option (M32 Float)
  | [a, b, c, d, e, f] => some ⟨a, b, c, d, e, f⟩
  | _ => none

/-- dst dump of resample_pixels with the matrix (a..f)/8 (exact: every sample point is on the 1/8 grid) -/
def resDump (v : VT) (bil : Bool) (w h dw dh : Int) (m : List Int) : String :=
  match m with
  | [a, b, c, d, e, f] =>
    let rows := resample (P := String) (K := Int)
      (fun p => let t := pointTokenQ v bil w h p.1 p.2 8; if t == "o" then none else some t)
      (fun xy => (a * xy.1 + c * xy.2 + e, b * xy.1 + d * xy.2 + f))
      (fun _ _ => joinC ((chans v).map (fun _ => showSrc v v.sentinel))) dw.toNat dh.toNat
    " ".intercalate (rows.map (" ".intercalate ·))
  | _ => "bad-op"

/-- dst dump of resample_pixels with a matrix3x2<double>, with the code's double arithmetic -/
def resFDump (v : VT) (bil : Bool) (w h dw dh : Int) (m : M32 Float) : String :=
  let rows := resample (P := String) (K := Float)
    (fun p =>
      if bil then ((chans v).mapM (fun c => (bilinearF w h (v.src c) p.1 p.2).map (castF v))).map joinC
      else (nearestF w h p.1 p.2).map (fun cxy => joinC ((chans v).map (fun c => showSrc v (v.src c cxy.1 cxy.2)))))
    (fun xy => m.apply (Float.ofInt xy.1, Float.ofInt xy.2))
    (fun _ _ => joinC ((chans v).map (fun _ => showSrc v v.sentinel))) dw.toNat dh.toNat
  " ".intercalate (rows.map (" ".intercalate ·))

/-- the same with a matrix3x2<float>: binary32 transform, point<float> sample points -/
def resGDump (v : VT) (bil : Bool) (w h dw dh : Int) (m : M32 Float32) : String :=
  let castG (a : Float32) : Int := if v.isF then f2i (Float.round (a.toFloat * 256.0)) else castRoundF32 a
  let rows := resample (P := String) (K := Float32)
    (fun p =>
      if bil then ((chans v).mapM (fun c => (bilinearF32 w h (v.src c) p.1 p.2).map castG)).map joinC
      else (nearestF32 w h p.1 p.2).map (fun cxy => joinC ((chans v).map (fun c => showSrc v (v.src c cxy.1 cxy.2)))))
    (fun xy => m.apply (Float32.ofInt xy.1, Float32.ofInt xy.2))
    (fun _ _ => joinC ((chans v).map (fun _ => showSrc v v.sentinel))) dw.toNat dh.toNat
  " ".intercalate (rows.map (" ".intercalate ·))

/-- dst dump of resize_view -/
def rszDump (v : VT) (bil : Bool) (w h dw dh : Int) : String :=
  resFDump v bil w h dw dh (M32.resize (Float.ofInt w) (Float.ofInt h) (Float.ofInt dw) (Float.ofInt dh) (Float.sin (-0.0)))

/-- split a list into consecutive groups of six -/
def sixes {α} : List α → List (List α)
  | a :: b :: c :: d :: e :: f :: r => [a, b, c, d, e, f] :: sixes r
  | _ => []

/-- matrices of the op (entries k/8) as exact rationals -/
def matsQ8 (xs : List Int) : List (M32 Rat) :=
  (sixes xs).filterMap (fun g => match g with
    | [a, b, c, d, e, f] => some (⟨(a : Rat) / 8, (b : Rat) / 8, (c : Rat) / 8, (d : Rat) / 8, (e : Rat) / 8, (f : Rat) / 8⟩ : M32 Rat)
    | _ => none)

/-- `resc`: the map is built by `m = identity; m *= M1; …; m *= Mn` in exact arithmetic (on the 1/8^n grid the doubles are exact) -/
def resCDump (v : VT) (bil : Bool) (w h dw dh : Int) (n : Nat) (xs : List Int) (self : Bool := false) : String :=
  let m0 : M32 Rat := M32.chain (M32.one) (matsQ8 xs)
  let m : M32 Rat := if self then M32.mulAssign m0 m0 else m0
  let D : Int := (8 : Int) ^ (if self then 2 * n else n)
  let toG (q : Rat) : Int := (q * (D : Rat)).num      -- exact: every entry is a multiple of 1/8^n
  let rows := resample (P := String) (K := Int)
    (fun p => let t := pointTokenQ v bil w h p.1 p.2 D; if t == "o" then none else some t)
    (fun xy => let p := m.apply ((xy.1 : Rat), (xy.2 : Rat)); (toG p.1, toG p.2))
    (fun _ _ => joinC ((chans v).map (fun _ => showSrc v v.sentinel))) dw.toNat dh.toNat
  " ".intercalate (rows.map (" ".intercalate ·))

def matsI (xs : List Int) : List (M32 Rat) :=
  (sixes xs).filterMap (fun g => match g with
    | [a, b, c, d, e, f] => some (⟨(a : Rat), (b : Rat), (c : Rat), (d : Rat), (e : Rat), (f : Rat)⟩ : M32 Rat)
    | _ => none)

def pxToken (v : VT) (x y : Int) : String := joinC ((chans v).map (fun c => showSrc v (v.src c x y)))
def sentToken (v : VT) : String := joinC ((chans v).map (fun _ => showSrc v v.sentinel))

/-- `resrt`: forward pass with the composed integer map, backward pass with `inverse` of it (nearest neighbour at integer points) -/
def resRtDump (v : VT) (w h dw dh : Int) (xs : List Int) : String :=
  let m : M32 Rat := M32.chain M32.one (matsI xs)
  let mi : M32 Rat := M32.inverse m
  let at1 (x y : Int) : String :=
    let p := m.apply ((x : Rat), (y : Rat))
    match nearestQ w h p.1.num p.2.num 1 with            -- integer coordinates (den = 1)
    | some (cx, cy) => pxToken v cx cy
    | none => sentToken v
  let at2 (u t : Int) : String :=
    let q := mi.apply ((u : Rat), (t : Rat))
    match nearestQ dw dh q.1.num q.2.num 1 with
    | some (cx, cy) => at1 cx cy
    | none => sentToken v
  let d1 := (irange dh.toNat).flatMap (fun y => (irange dw.toNat).map (fun x => at1 x y))
  let s2 := (irange h.toNat).flatMap (fun y => (irange w.toNat).map (fun x => at2 x y))
  " ".intercalate d1 ++ " | " ++ " ".intercalate s2

def model (line : String) : String :=
  match words line with
  | "resrt" :: vt :: w :: h :: dw :: dh :: n :: rest =>
    match VT.parse vt, ints [w, h, dw, dh, n], ints rest with
    | some v, some [w, h, dw, dh, n], some xs =>
      if xs.length ≠ 6 * n.toNat then "bad-op" else resRtDump v w h dw dh xs
    | _, _, _ => "bad-op"
  | "resc" :: vt :: s :: w :: h :: dw :: dh :: n :: rest =>
    match VT.parse vt, ints [w, h, dw, dh, n], ints rest with
    | some v, some [w, h, dw, dh, n], some xs =>
      if xs.length ≠ 6 * n.toNat then "bad-op" else
      let d := resCDump v (s == "b") w h dw dh n.toNat xs; d ++ " | " ++ d
    | _, _, _ => "bad-op"
  | "rescs" :: vt :: s :: w :: h :: dw :: dh :: n :: rest =>
    match VT.parse vt, ints [w, h, dw, dh, n], ints rest with
    | some v, some [w, h, dw, dh, n], some xs =>
      if xs.length ≠ 6 * n.toNat then "bad-op" else
      let d := resCDump v (s == "b") w h dw dh n.toNat xs true; d ++ " | " ++ d
    | _, _, _ => "bad-op"
  | "fop" :: k :: rest =>
    match rest.mapM String.toNat? with
    | some [a1, b1, c1, d1, e1, f1, a2, b2, c2, d2, e2, f2] =>
      let g (n : Nat) : Float32 := Float32.ofBits n.toUInt32
      let sb (x : Float32) : String := toString x.toBits.toNat
      let a : M32 Float32 := ⟨g a1, g b1, g c1, g d1, g e1, g f1⟩; let b : M32 Float32 := ⟨g a2, g b2, g c2, g d2, g e2, g f2⟩
      if k == "t" then let p := a.apply (b.a, b.b); sb p.1 ++ " " ++ sb p.2 else
      let r := if k == "m" then M32.mul a b else if k == "e" then M32.mulAssign a b else if k == "s" then M32.mulAssign a a else M32.inverse a
      " ".intercalate [sb r.a, sb r.b, sb r.c, sb r.d, sb r.e, sb r.f]
    | _ => "bad-op"
  | "resmf" :: vt :: s :: w :: h :: dw :: dh :: n :: rest =>
    match VT.parse vt, ints [w, h, dw, dh, n], rest.mapM fOfBits with
    | some v, some [w, h, dw, dh, n], some fs =>
      if fs.length ≠ 6 * n.toNat then "bad-op" else
      let m : M32 Float := M32.chain M32.one ((sixes fs).filterMap mOf)
      let x := resFDump v (s == "b") w h dw dh m
      showM m ++ " | " ++ x ++ " | " ++ x
    | _, _, _ => "bad-op"
  | "mmuleq" :: rest =>
    match rest.mapM fOfBits with
    | some fs => match mOf (fs.take 6), mOf (fs.drop 6) with
      | some a, some b => showM (M32.mulAssign a b)
      | _, _ => "bad-op"
    | none => "bad-op"
  | "mself" :: rest =>
    match rest.mapM fOfBits with
    | some fs => match mOf fs with
      | some a => showM (M32.mulAssign a a)
      | none => "bad-op"
    | none => "bad-op"
  | "mseq" :: n :: rest =>
    match n.toNat?, rest.mapM fOfBits with
    | some n, some fs =>
      if fs.length ≠ 6 * n then "bad-op" else
      let m : M32 Float := M32.chain M32.one ((sixes fs).filterMap mOf)
      showM m ++ " " ++ showM (M32.mulAssign m m)
    | _, _ => "bad-op"
  | "mpt" :: rest =>
    match rest.mapM fOfBits with
    | some fs => match mOf (fs.take 6), fs.drop 6 with
      | some a, [x, y] => let p := a.apply (x, y); bitsOf p.1 ++ " " ++ bitsOf p.2
      | _, _ => "bad-op"
    | none => "bad-op"
  | ["mpti", a, b, c, d, e, f, x, y] =>
    match [a, b, c, d, e, f].mapM fOfBits, ints [x, y] with
    | some fs, some [x, y] => match mOf fs with
      | some m => let p := m.apply (Float.ofInt x, Float.ofInt y); bitsOf p.1 ++ " " ++ bitsOf p.2 ++ " " ++ bitsOf p.1 ++ " " ++ bitsOf p.2
      | none => "bad-op"
    | _, _ => "bad-op"
  | ["mgenp", k, x, y] =>
    match fOfBits x, fOfBits y with
    | some x, some y =>
      if k == "t" then showM (M32.translate x y) else if k == "s" then showM (M32.scale x y)
      else if k == "u" then showM (M32.scale x x) else "bad-op"
    | _, _ => "bad-op"
  | ["mcr", w, h, r] =>
    match ints [w, h], fOfBits r with
    | some [w, h], some r => showM (M32.centerRotate (Float.ofInt w) (Float.ofInt h) r)
    | _, _ => "bad-op"
  | "iop" :: k :: rest =>
    match ints rest with
    | some [a1, b1, c1, d1, e1, f1, a2, b2, c2, d2, e2, f2] =>
      let a : M32 Int := ⟨a1, b1, c1, d1, e1, f1⟩; let b : M32 Int := ⟨a2, b2, c2, d2, e2, f2⟩
      if k == "p" then let q := a.apply (b.a, b.b); showInts [q.1, q.2] else
      -- inverse<long>: `/` truncates
      let det := a.a * a.d - a.b * a.c
      let inv : M32 Int := ⟨Int.tdiv a.d det, Int.tdiv (-a.b) det, Int.tdiv (-a.c) det, Int.tdiv a.a det,
                            Int.tdiv (a.c * a.f - a.d * a.e) det, Int.tdiv (a.b * a.e - a.a * a.f) det⟩
      let r := if k == "m" then M32.mul a b else if k == "e" then M32.mulAssign a b else if k == "i" then inv else M32.mulAssign a a
      showInts [r.a, r.b, r.c, r.d, r.e, r.f]
    | _ => "bad-op"
  | [k, vt, _, w, h, D, ny, nx0, n, step] =>
    match ints [w, h, D, ny, nx0, n, step] with
    | some [w, h, D, ny, nx0, n, step] =>
      if k == "tap" then " ".intercalate ((rowPoints nx0 n step).map (fun nx => tapToken (vt == "b") w h nx ny D))
      else match VT.parse vt with
        | some v => if k == "bil" || k == "near" then
            " ".intercalate ((rowPoints nx0 n step).map (fun nx => pointTokenQ v (k == "bil") w h nx ny D)) else "bad-op"
        | none => "bad-op"
    | _ => "bad-op"
  | "bilc" :: vt :: F :: w :: h :: k :: v :: pts =>
    match VT.parse vt, ints [w, h, v], pts.mapM String.toNat? with
    | some t, some [w, h, v], some bs =>
      let src : Int → Int → Int := fun x y => if k == "t" && (x + y) % 2 ≠ 0 then v - 1 else v
      let one (bx byy : Nat) : String :=
        if F == "f" then
          match bilinearF32 w h src (Float32.ofBits bx.toUInt32) (Float32.ofBits byy.toUInt32) with
          | some a => joinC ((chans t).map (fun _ => castRoundF32 a))
          | none => "o"
        else
          match bilinearF w h src (Float.ofBits bx.toUInt64) (Float.ofBits byy.toUInt64) with
          | some a => joinC ((chans t).map (fun _ => castRoundF a))
          | none => "o"
      let rec go : List Nat → List String
        | a :: b :: r => one a b :: go r
        | _ => []
      " ".intercalate (go bs)
    | _, _, _ => "bad-op"
  | "res" :: vt :: s :: rest =>
    match VT.parse vt, ints rest with
    | some v, some (w :: h :: dw :: dh :: m) => let d := resDump v (s == "b") w h dw dh m; d ++ " | " ++ d
    | _, _ => "bad-op"
  | ["rsz", vt, s, w, h, dw, dh] =>
    match VT.parse vt, ints [w, h, dw, dh] with
    | some v, some [w, h, dw, dh] => rszDump v (s == "b") w h dw dh
    | _, _ => "bad-op"
  | ["rsub", vt, s, w, h, dw, dh, x1, y1, x2, y2, ang] =>
    match VT.parse vt, ints [w, h, dw, dh], [x1, y1, x2, y2, ang].mapM fOfBits with
    | some v, some [w, h, dw, dh], some [x1, y1, x2, y2, ang] =>
      resFDump v (s == "b") w h dw dh
        (M32.subimage x1 y1 x2 y2 (Float.ofInt dw) (Float.ofInt dh) (Float.cos (-ang)) (Float.sin (-ang)))
    | _, _, _ => "bad-op"
  | ["resf", vt, s, w, h, dw, dh, a, b, c, d, e, f] =>
    match VT.parse vt, ints [w, h, dw, dh], [a, b, c, d, e, f].mapM fOfBits with
    | some v, some [w, h, dw, dh], some fs =>
      match mOf fs with
      | some m => let x := resFDump v (s == "b") w h dw dh m; x ++ " | " ++ x
      | none => "bad-op"
    | _, _, _ => "bad-op"
  | ["resg", vt, s, w, h, dw, dh, a, b, c, d, e, f] =>
    match VT.parse vt, ints [w, h, dw, dh], [a, b, c, d, e, f].mapM String.toNat? with
    | some v, some [w, h, dw, dh], some [a, b, c, d, e, f] =>
      let g (n : Nat) : Float32 := Float32.ofBits n.toUInt32
      let x := resGDump v (s == "b") w h dw dh ⟨g a, g b, g c, g d, g e, g f⟩
      x ++ " | " ++ x
    | _, _, _ => "bad-op"
  | "mmul" :: rest =>
    match rest.mapM fOfBits with
    | some fs => match mOf (fs.take 6), mOf (fs.drop 6) with
      | some a, some b => showM (M32.mul a b)
      | _, _ => "bad-op"
    | none => "bad-op"
  | "massoc" :: rest =>
    match rest.mapM fOfBits with
    | some fs => match mOf (fs.take 6), mOf ((fs.drop 6).take 6), mOf (fs.drop 12) with
      | some a, some b, some c => showM (M32.mul (M32.mul a b) c) ++ " " ++ showM (M32.mul a (M32.mul b c))
      | _, _, _ => "bad-op"
    | none => "bad-op"
  | "minv" :: rest =>
    match rest.mapM fOfBits with
    | some fs => match mOf fs with
      | some a => showM (M32.inverse a)
      | none => "bad-op"
    | none => "bad-op"
  | "mtr" :: rest =>
    match rest.mapM fOfBits with
    | some fs => match mOf (fs.take 6), fs.drop 6 with
      | some a, [x, y] => let p := a.apply (x, y); bitsOf p.1 ++ " " ++ bitsOf p.2
      | _, _ => "bad-op"
    | none => "bad-op"
  | "mrt" :: rest =>
    match rest.mapM fOfBits with
    | some fs => match mOf (fs.take 6), fs.drop 6 with
      | some a, [x, y] => let p := (M32.inverse a).apply (a.apply (x, y)); bitsOf p.1 ++ " " ++ bitsOf p.2
      | _, _ => "bad-op"
    | none => "bad-op"
  | ["mgen", k, x, y] =>
    match fOfBits x, fOfBits y with
    | some x, some y =>
      if k == "t" then showM (M32.translate x y) else if k == "s" then showM (M32.scale x y)
      else if k == "r" then showM (M32.rotate (Float.cos x) (Float.sin x)) else "bad-op"
    | _, _ => "bad-op"
  | _ => "bad-op"

/-! ### judge: the Spec on the implementation's observation -/

/-- exact value of a finite double -/
def ratOfFloat (x : Float) : Option Rat :=
  let b := x.toBits.toNat
  let sign : Rat := if b / 2 ^ 63 = 1 then -1 else 1
  let ex : Nat := (b / 2 ^ 52) % 2048
  let man : Nat := b % 2 ^ 52
  if ex = 2047 then none
  else if ex = 0 then some (sign * (man : Rat) / ((2 : Rat) ^ 1074))
  else
    let mn : Nat := man + 2 ^ 52
    let m : Rat := (mn : Rat)
    some (if ex ≥ 1075 then sign * m * ((2 : Rat) ^ (ex - 1075)) else sign * m / ((2 : Rat) ^ (1075 - ex)))

def absQ (q : Rat) : Rat := if q < 0 then -q else q

def parseC (tok : String) : Option (List Int) := (tok.splitOn ",").mapM String.toInt?

/-- Spec for one sampled point: `none` = satisfied -/
def judgePoint (v : VT) (w h nx ny D : Int) (tok : String) : Option String :=
  if tok == "X" then some "outside-but-result-modified"
  else if tok == "o" then (if inDomain w h nx ny D then some "inside-reported-outside" else none)
  else match parseC tok with
    | none => some "not-a-value"
    | some vs =>
      if vs.length ≠ v.nch then some "shape" else
      -- farther than one pixel from the view: no source pixel surrounds the point, the sampler must say "outside"
      if farOutside w h nx ny D then some "sampled-far-outside" else
      let sur := surrounding w h nx ny D
      let bad := (chans v).zip vs |>.any (fun (c, x) =>
        let ss := sur.map (fun q => showSrc v (v.src c q.1 q.2))
        !(ss.any (· ≤ x) && ss.any (· ≥ x)))
      if bad then some "convex"
      else if nx % D = 0 ∧ ny % D = 0 ∧ inDomain w h nx ny D ∧
              vs ≠ (chans v).map (fun c => showSrc v (v.src c (nx / D) (ny / D))) then some "integer-point"
      else none

def firstSome {α} (xs : List α) (f : α → Option String) : Option String :=
  xs.foldl (fun acc x => match acc with | some e => some e | none => f x) none

def judgeTap (w h nx ny D : Int) (tok : String) : Option String :=
  let g8 : VT := ⟨1, 0, false⟩
  if tok == "X" || tok == "o" then judgePoint g8 w h nx ny D tok else
  match tok.splitOn "=" with
  | [cs, v] =>
    let coords := (cs.splitOn ",").map (fun s => (s.splitOn ":").mapM String.toInt?)
    if coords.any (fun c => match c with
        | some [x, y] => !(decide (0 ≤ x) && decide (x < w) && decide (0 ≤ y) && decide (y < h))
        | _ => true) then some "read-outside"
    else if coords.length > 4 then some "more-than-four-pixels"
    else judgePoint g8 w h nx ny D v
  | _ => some "not-a-value"

def closeQ (a b tol : Rat) : Bool := absQ (a - b) ≤ tol

/-- resample_pixels with a floating point matrix: the library loop must equal the direct per-pixel loop
    `sample(src, transform(map,(x,y)))` (same floating type), every pixel untouched or within the source's range -/
def judgeResFloat (vt w h dw dh obs : String) : String :=
  let fail (s : String) := "fail " ++ s

    match VT.parse vt, ints [w, h, dw, dh] with
    | some v, some [w, h, dw, dh] =>
      match obs.splitOn " | " with
      | [l, r] =>
        if words l ≠ words r then fail "resample-loop" else
        let toks := words l
        if toks.length ≠ (dw * dh).toNat then fail "shape" else
        let sent := joinC ((chans v).map (fun _ => showSrc v v.sentinel))
        let bad := toks.any (fun t => t != sent && match parseC t with
          | some vs => (chans v).zip vs |>.any (fun (c, x) =>
              let all := (irange h.toNat).flatMap (fun y => (irange w.toNat).map (fun xx => showSrc v (v.src c xx y)))
              !(all.any (· ≤ x) && all.any (· ≥ x)))
          | none => true)
        if bad then fail "convex" else "ok"
      | _ => fail "shape"
    | _, _ => fail "bad-op"

/-- resample_pixels with a map whose entries are integers over `D` (sample points on the 1/D grid, exact): the library loop must
    equal the direct loop and every destination pixel must satisfy the sampler Spec at `transform(map,(x,y))` -/
def judgeResGrid (v : VT) (w h dw dh : Int) (m : List Int) (D : Int) (obs : String) : String :=
  let fail (s : String) := "fail " ++ s
  match m with
  | [a, b, c, d, e, f] =>
    match obs.splitOn " | " with
    | [l, r] =>
      if words l ≠ words r then fail "resample-loop" else
      let toks := words l
      if toks.length ≠ (dw * dh).toNat then fail "shape" else
      let sent := joinC ((chans v).map (fun _ => showSrc v v.sentinel))
      let idx := (irange dh.toNat).flatMap (fun y => (irange dw.toNat).map (fun x => (x, y)))
      match firstSome (idx.zip toks) (fun (xy, t) =>
          let nx := a * xy.1 + c * xy.2 + e; let ny := b * xy.1 + d * xy.2 + f
          -- an untouched destination pixel means the sampler said "outside" for its source point
          if t == sent ∧ ¬ inDomain w h nx ny D then none else judgePoint v w h nx ny D t) with
      | some e => fail e | none => "ok"
    | _ => fail "shape"
  | _ => fail "bad-op"

/-- exact product of 3x2 matrices given as six rationals -/
def mulQ6 (m1 m2 : List Rat) : List Rat := match m1, m2 with
  | [a1, b1, c1, d1, e1, f1], [a2, b2, c2, d2, e2, f2] =>
    [a1 * a2 + b1 * c2, a1 * b2 + b1 * d2, c1 * a2 + d1 * c2, c1 * b2 + d1 * d2, e1 * a2 + f1 * c2 + e2, e1 * b2 + f1 * d2 + f2]
  | _, _ => []
def mulI6 (m1 m2 : List Int) : List Int := match m1, m2 with
  | [a1, b1, c1, d1, e1, f1], [a2, b2, c2, d2, e2, f2] =>
    [a1 * a2 + b1 * c2, a1 * b2 + b1 * d2, c1 * a2 + d1 * c2, c1 * b2 + d1 * d2, e1 * a2 + f1 * c2 + e2, e1 * b2 + f1 * d2 + f2]
  | _, _ => []
/-- product of matrices with entries k/8, as integers over 8^n: the running product has denominator `Dacc`, the next factor 8 -/
def prodD8 (ms : List (List Int)) : List Int :=
  (ms.foldl (fun (acc : List Int × Int) m => match acc.1, m with
    | [a1, b1, c1, d1, e1, f1], [a2, b2, c2, d2, e2, f2] =>
      ([a1 * a2 + b1 * c2, a1 * b2 + b1 * d2, c1 * a2 + d1 * c2, c1 * b2 + d1 * d2,
        e1 * a2 + f1 * c2 + e2 * acc.2, e1 * b2 + f1 * d2 + f2 * acc.2], acc.2 * 8)
    | _, _ => ([], acc.2)) ([1, 0, 0, 1, 0, 0], 1)).1
def closeL6 (xs ys : List Rat) (tol : Rat) : Bool := xs.length == ys.length && (xs.zip ys).all (fun (x, y) => closeQ x y tol)
/-- tolerance for a product of the given matrices: 1e-9 relative to the product of their sizes (1 + sum of |entries|) -/
def tolOf6 (ms : List (List Rat)) : Rat := (ms.foldl (fun t m => t * (m.foldl (fun a x => a + absQ x) 1)) 1) * (1 / 1000000000)

def judge (op obs : String) : String :=
  let fail (s : String) := "fail " ++ s
  if obs.startsWith "assert" || obs.startsWith "ub:" || obs.startsWith "crash" || obs.startsWith "timeout" || obs.startsWith "harness-gave-up" then
    fail ("aborted-" ++ (obs.take 60).toString) else
  match words op with
  | [k, vt, _, w, h, D, ny, nx0, n, step] =>
    match ints [w, h, D, ny, nx0, n, step] with
    | some [w, h, D, ny, nx0, n, step] =>
      let toks := words obs
      let pts := rowPoints nx0 n step
      if toks.length ≠ pts.length then fail "shape" else
      if k == "tap" then
        match firstSome (pts.zip toks) (fun (nx, t) => judgeTap w h nx ny D t) with
        | some e => fail e | none => "ok"
      else match VT.parse vt with
        | some v => match firstSome (pts.zip toks) (fun (nx, t) => judgePoint v w h nx ny D t) with
          | some e => fail e | none => "ok"
        | none => fail "bad-op"
    | _ => fail "bad-op"
  | "bilc" :: vt :: F :: w :: h :: k :: v :: pts =>
    match VT.parse vt, ints [w, h, v], pts.mapM String.toNat? with
    | some t, some [w, h, v], some bs =>
      let src : Int → Int → Int := fun x y => if k == "t" && (x + y) % 2 ≠ 0 then v - 1 else v
      let toQ (b : Nat) : Option Rat :=
        if F == "f" then ratOfFloat (Float32.ofBits b.toUInt32).toFloat else ratOfFloat (Float.ofBits b.toUInt64)
      let rec pairsQ : List Nat → Option (List (Rat × Rat))
        | a :: b :: r => match toQ a, toQ b, pairsQ r with
          | some x, some y, some t => some ((x, y) :: t)
          | _, _, _ => none
        | [] => some []
        | _ => none
      match pairsQ bs with
      | some ps =>
        let toks := words obs
        if toks.length ≠ ps.length then fail "shape" else
        -- the exact rational value of the point: common denominator D, then the same Spec as on the grid
        let tv : VT := { t with off := 0 }
        match firstSome (ps.zip toks) (fun (p, tok) =>
            let D : Int := (Nat.lcm p.1.den p.2.den : Nat)
            let nx := p.1.num * (D / p.1.den); let ny := p.2.num * (D / p.2.den)
            if tok == "X" then some "outside-but-result-modified"
            else if tok == "o" then (if inDomain w h nx ny D then some "inside-reported-outside" else none)
            else match parseC tok with
              | none => some "not-a-value"
              | some vs =>
                if vs.length ≠ tv.nch then some "shape"
                else if farOutside w h nx ny D then some "sampled-far-outside" else
                let ss := (surrounding w h nx ny D).map (fun q => src q.1 q.2)
                if vs.any (fun x => !(ss.any (· ≤ x) && ss.any (· ≥ x))) then some "convex" else none) with
        | some e => fail e | none => "ok"
      | none => fail "bad-op"
    | _, _, _ => fail "bad-op"
  | "res" :: vt :: _ :: rest =>
    match VT.parse vt, ints rest with
    | some v, some [w, h, dw, dh, a, b, c, d, e, f] => judgeResGrid v w h dw dh [a, b, c, d, e, f] 8 obs
    | _, _ => fail "bad-op"
  | "resc" :: vt :: _ :: w :: h :: dw :: dh :: n :: rest =>
    match VT.parse vt, ints [w, h, dw, dh, n], ints rest with
    | some v, some [w, h, dw, dh, n], some xs =>
      -- the Spec's map: the PRODUCT M1 * … * Mn (exact, integers over 8^n), independent of how the code composed it
      judgeResGrid v w h dw dh (prodD8 (sixes xs)) ((8 : Int) ^ n.toNat) obs
    | _, _, _ => fail "bad-op"
  | "resrt" :: vt :: w :: h :: dw :: dh :: _ :: rest =>
    match VT.parse vt, ints [w, h, dw, dh], ints rest with
    | some v, some [w, h, dw, dh], some xs =>
      match (sixes xs).foldl mulI6 [1, 0, 0, 1, 0, 0], obs.splitOn " | " with
      | [a, b, c, d, e, f], [l, r] =>
        let det := a * d - b * c
        if det ≠ 1 ∧ det ≠ -1 then fail "bad-op" else
        let d1 := words l; let s2 := words r
        if d1.length ≠ (dw * dh).toNat ∨ s2.length ≠ (w * h).toNat then fail "shape" else
        let inside (w h x y : Int) : Bool := decide (0 ≤ x) && decide (x < w) && decide (0 ≤ y) && decide (y < h)
        let idx1 := (irange dh.toNat).flatMap (fun y => (irange dw.toNat).map (fun x => (x, y)))
        let idx2 := (irange h.toNat).flatMap (fun y => (irange w.toNat).map (fun x => (x, y)))
        -- forward: dst(x,y) = src(transform(M1*..*Mn,(x,y))) or untouched
        match firstSome (idx1.zip d1) (fun (xy, t) =>
            let px := a * xy.1 + c * xy.2 + e; let py := b * xy.1 + d * xy.2 + f
            if inside w h px py then (if t == pxToken v px py then none else some "integer-point")
            else (if t == sentToken v then none else some "outside-but-result-modified")) with
        | some e => fail e
        | none =>
          -- backward with inverse(m): the exact inverse of a unimodular integer map is det * (d, -b, -c, a, cf - de, be - af)
          match firstSome (idx2.zip s2) (fun (uv, t) =>
              let qx := det * (d * uv.1 - c * uv.2 + (c * f - d * e)); let qy := det * (-b * uv.1 + a * uv.2 + (b * e - a * f))
              if inside dw dh qx qy then (if t == pxToken v uv.1 uv.2 then none else some "maps-back")
              else (if t == sentToken v then none else some "outside-but-result-modified")) with
          | some e => fail e
          | none => "ok"
      | _, _ => fail "shape"
    | _, _, _ => fail "bad-op"
  | "rescs" :: vt :: _ :: w :: h :: dw :: dh :: n :: rest =>
    match VT.parse vt, ints [w, h, dw, dh, n], ints rest with
    | some v, some [w, h, dw, dh, n], some xs =>
      -- the Spec's map: (M1 * … * Mn) * (M1 * … * Mn)
      judgeResGrid v w h dw dh (prodD8 (sixes xs ++ sixes xs)) ((8 : Int) ^ (2 * n.toNat)) obs
    | _, _, _ => fail "bad-op"
  | "fop" :: k :: rest =>
    match rest.mapM String.toNat?, (words obs).mapM String.toNat? with
    | some bs, some os =>
      let toQ (b : Nat) : Option Rat := ratOfFloat (Float32.ofBits b.toUInt32).toFloat
      match bs.mapM toQ, os.mapM toQ with
      | some q, some o =>
        let a := q.take 6; let b := q.drop 6
        -- binary32: 1e-9 of the double clauses becomes 1e-5 (relative to the operand sizes)
        let tol (ms : List (List Rat)) : Rat := tolOf6 ms * 10000
        if k == "m" then (if closeL6 o (mulQ6 a b) (tol [a, b]) then "ok" else fail "product")
        else if k == "e" then (if closeL6 o (mulQ6 a b) (tol [a, b]) then "ok" else fail "compound-product")
        else if k == "s" then (if closeL6 o (mulQ6 a a) (tol [a, a]) then "ok" else fail "compound-product-self")
        else if k == "i" then
          let t := tol [o, a] * 100
          if o.length == 6 && closeL6 (mulQ6 o a) [1, 0, 0, 1, 0, 0] t && closeL6 (mulQ6 a o) [1, 0, 0, 1, 0, 0] t then "ok" else fail "inverse"
        else if k == "t" then
          match a, b, o with
          | [a, b, c, d, e, f], x :: y :: _, [rx, ry] =>
            let t := tol [[a, b, c, d, e, f, x, y]]
            if closeQ rx (a * x + c * y + e) t && closeQ ry (b * x + d * y + f) t then "ok" else fail "transform"
          | _, _, _ => fail "shape"
        else fail "bad-op"
      | _, _ => fail "not-a-value"
    | _, _ => fail "not-a-value"
  | "resmf" :: vt :: _ :: w :: h :: dw :: dh :: _ :: rest =>
    match obs.splitOn " | " with
    | [mm, l, r] =>
      match rest.mapM fOfBits, (words mm).mapM fOfBits with
      | some fs, some os => match fs.mapM ratOfFloat, os.mapM ratOfFloat with
        | some q, some o =>
          let want := (sixes q).foldl mulQ6 [1, 0, 0, 1, 0, 0]
          if !(o.length == 6 && closeL6 o want (tolOf6 (sixes q))) then fail "compound-product"
          else judgeResFloat vt w h dw dh (l ++ " | " ++ r)
        | _, _ => fail "not-a-value"
      | _, _ => fail "not-a-value"
    | _ => fail "shape"
  | "iop" :: k :: rest =>
    match ints rest, ints (words obs) with
    | some [a1, b1, c1, d1, e1, f1, a2, b2, c2, d2, e2, f2], some o =>
      let a := [a1, b1, c1, d1, e1, f1]; let b := if k == "s" then a else [a2, b2, c2, d2, e2, f2]
      if k == "i" then (if mulI6 o a = [1, 0, 0, 1, 0, 0] ∧ mulI6 a o = [1, 0, 0, 1, 0, 0] then "ok" else fail "inverse")
      else if k == "p" then (if o = [a1 * a2 + c1 * b2 + e1, b1 * a2 + d1 * b2 + f1] then "ok" else fail "transform")
      else if o = mulI6 a b then "ok" else fail (if k == "m" then "product" else "compound-product")
    | _, _ => fail "not-a-value"
  | ["mcr", _, _, _] =>
    -- center_rotate is not part of the property's statement: only the correspondence with the model is checked
    if (words obs).length == 6 then "ok" else fail "shape"
  | ["mpti", a, b, c, d, e, f, x, y] =>
    match [a, b, c, d, e, f].mapM fOfBits, ints [x, y], (words obs).mapM fOfBits with
    | some fs, some [x, y], some os => match fs.mapM ratOfFloat, os.mapM ratOfFloat with
      | some [a, b, c, d, e, f], some [rx, ry, tx, ty] =>
        let t := tolOf6 [[a, b, c, d, e, f, (x : Rat), (y : Rat)]]
        let wx := a * x + c * y + e; let wy := b * x + d * y + f
        if closeQ rx wx t && closeQ ry wy t && closeQ tx wx t && closeQ ty wy t then "ok" else fail "transform"
      | _, _ => fail "not-a-value"
    | _, _, _ => fail "not-a-value"
  | ["resf", vt, _, w, h, dw, dh, _, _, _, _, _, _] => judgeResFloat vt w h dw dh obs
  | ["resg", vt, _, w, h, dw, dh, _, _, _, _, _, _] => judgeResFloat vt w h dw dh obs
  | ["rsub", vt, _, w, h, dw, dh, _, _, _, _, _] =>
    -- the property states no clause of its own for resample_subimage: per-pixel sampling (untouched, or within the source's range);
    -- the matrix it builds is compared bit for bit through the model
    let base := judgeResFloat vt w h dw dh (obs ++ " | " ++ obs)
    if base != "ok" then base else
    -- documented behaviour ("copy into the destination a rotated rectangular region from the source, rescaling it to fit"; theorem
    -- C17_subimage_centre_corners): for every angle the destination's centre shows the centre of the source rectangle.  Judged when both
    -- centres are pixels: dw, dh odd (>= 3) and the rectangle's centre has integer coordinates inside the source
    match VT.parse vt, ints [w, h, dw, dh], (words op).drop 7 |>.mapM fOfBits with
    | some v, some [w, h, dw, dh], some fs =>
      match fs.mapM ratOfFloat with
      | some [x1, y1, x2, y2, _] =>
        let maxQ (a b : Rat) : Rat := if a < b then b else a
        let cx := x1 + maxQ (x2 - x1 - 1) 1 / 2; let cy := y1 + maxQ (y2 - y1 - 1) 1 / 2
        if dw % 2 = 1 ∧ dh % 2 = 1 ∧ dw ≥ 3 ∧ dh ≥ 3 ∧ cx.den = 1 ∧ cy.den = 1 ∧ 0 ≤ cx.num ∧ cx.num < w ∧ 0 ≤ cy.num ∧ cy.num < h then
          let toks := words obs
          let i := ((dh - 1) / 2 * dw + (dw - 1) / 2).toNat
          if toks.getD i "" == pxToken v cx.num cy.num then "ok" else fail "subimage-centre"
        else "ok"
      | _ => fail "bad-op"
    | _, _, _ => fail "bad-op"
  | ["rsz", vt, _, w, h, dw, dh] =>
    match VT.parse vt, ints [w, h, dw, dh] with
    | some v, some [w, h, dw, dh] =>
      let toks := words obs
      if toks.length ≠ (dw * dh).toNat then fail "shape"
      else if w = dw ∧ h = dh then
        let want := (irange h.toNat).flatMap (fun y => (irange w.toNat).map (fun x =>
          joinC ((chans v).map (fun c => showSrc v (v.src c x y)))))
        if toks = want then "ok" else fail "resize-identity"
      else
        -- other sizes: the property only demands per-pixel sampling; a destination pixel is either left untouched
        -- (its source point was reported outside: this happens for 1-pixel-wide/high sources, see the notes) or within the source's range
        let sent := joinC ((chans v).map (fun _ => showSrc v v.sentinel))
        let bad := toks.any (fun t => t != sent && match parseC t with
          | some vs => (chans v).zip vs |>.any (fun (c, x) =>
              let all := (irange h.toNat).flatMap (fun y => (irange w.toNat).map (fun xx => showSrc v (v.src c xx y)))
              !(all.any (· ≤ x) && all.any (· ≥ x)))
          | none => true)
        if bad then fail "convex" else "ok"
    | _, _ => fail "bad-op"
  | k :: rest =>
    let mats := rest.mapM fOfBits
    let outs := (words obs).mapM fOfBits
    match mats, outs with
    | some fs, some os =>
      match fs.mapM ratOfFloat, os.mapM ratOfFloat with
      | some q, some o =>
        let tolOf (xs : List Rat) : Rat := (xs.foldl (fun a x => a + absQ x) 1) * (1 / 1000000000)
        let mulQ (m1 m2 : List Rat) : List Rat := match m1, m2 with
          | [a1, b1, c1, d1, e1, f1], [a2, b2, c2, d2, e2, f2] =>
            [a1 * a2 + b1 * c2, a1 * b2 + b1 * d2, c1 * a2 + d1 * c2, c1 * b2 + d1 * d2, e1 * a2 + f1 * c2 + e2, e1 * b2 + f1 * d2 + f2]
          | _, _ => []
        let closeL (xs ys : List Rat) (tol : Rat) : Bool := xs.length == ys.length && (xs.zip ys).all (fun (x, y) => closeQ x y tol)
        if k == "mmul" then
          let want := mulQ (q.take 6) (q.drop 6)
          if o.length == 6 && closeL o want (tolOf want) then "ok" else fail "product"
        else if k == "mmuleq" then
          let want := mulQ (q.take 6) (q.drop 6)
          if o.length == 6 && closeL o want (tolOf6 [q.take 6, q.drop 6]) then "ok" else fail "compound-product"
        else if k == "mself" then
          let want := mulQ q q
          if o.length == 6 && closeL o want (tolOf6 [q, q]) then "ok" else fail "compound-product-self"
        else if k == "mseq" then
          let ms := sixes (q.drop 1)
          let want := ms.foldl mulQ [1, 0, 0, 1, 0, 0]
          let t := tolOf6 ms
          if !(o.length == 12 && closeL (o.take 6) want t) then fail "compound-product"
          else if !(closeL (o.drop 6) (mulQ want want) (tolOf6 (ms ++ ms))) then fail "compound-product-self"
          else "ok"
        else if k == "mpt" then
          match q, o with
          | [a, b, c, d, e, f, x, y], [rx, ry] =>
            if closeQ rx (a * x + c * y + e) (tolOf6 [q]) && closeQ ry (b * x + d * y + f) (tolOf6 [q]) then "ok" else fail "transform"
          | _, _ => fail "shape"
        else if k == "massoc" then
          if o.length == 12 && closeL (o.take 6) (o.drop 6) (tolOf (o.take 6) * 1000) then "ok" else fail "associative"
        else if k == "minv" then
          let id : List Rat := [1, 0, 0, 1, 0, 0]
          let t := tolOf o * tolOf q * 1000000000
          if o.length == 6 && closeL (mulQ o q) id t && closeL (mulQ q o) id t then "ok" else fail "inverse"
        else if k == "mtr" then
          match q, o with
          | [a, b, c, d, e, f, x, y], [rx, ry] =>
            if closeQ rx (a * x + c * y + e) (tolOf q) && closeQ ry (b * x + d * y + f) (tolOf q) then "ok" else fail "transform"
          | _, _ => fail "shape"
        else if k == "mrt" then
          match q, o with
          | [a, b, c, d, _, _, x, y], [rx, ry] =>
            let det := absQ (a * d - b * c)
            let t := tolOf q * tolOf q * 1000 / (if det = 0 then 1 else det)
            if closeQ rx x t && closeQ ry y t then "ok" else fail "maps-back"
          | _, _ => fail "shape"
        else fail "bad-op"
      | _, _ => fail ("not-a-value:" ++ (obs.take 40).toString)
    | _, _ =>
      match words op, (words obs).mapM fOfBits with
      | ["mgenp", g, x, y], some [a, b, c, d, e, f] =>
        match fOfBits x, fOfBits y with
        | some x, some y =>
          if g == "t" then (if a == 1 && b == 0 && c == 0 && d == 1 && e == x && f == y then "ok" else fail "translate")
          else if g == "s" then (if a == x && b == 0 && c == 0 && d == y && e == 0 && f == 0 then "ok" else fail "scale")
          else if g == "u" then (if a == x && b == 0 && c == 0 && d == x && e == 0 && f == 0 then "ok" else fail "scale")
          else fail "bad-op"
        | _, _ => fail "bad-op"
      | ["mgen", g, x, y], some [a, b, c, d, e, f] =>
        match fOfBits x, fOfBits y with
        | some x, some y =>
          if g == "t" then (if a == 1 && b == 0 && c == 0 && d == 1 && e == x && f == y then "ok" else fail "translate")
          else if g == "s" then (if a == x && b == 0 && c == 0 && d == y && e == 0 && f == 0 then "ok" else fail "scale")
          else if g == "r" then
            (if a == d && b == -c && e == 0 && f == 0 && Float.abs (a * a + b * b - 1) < 1e-12
                && Float.abs (a - Float.cos x) < 1e-12 && Float.abs (b - Float.sin x) < 1e-12 then "ok" else fail "rotate")
          else fail "bad-op"
        | _, _ => fail "bad-op"
      | _, _ => fail ("not-a-value:" ++ (obs.take 40).toString)
  | _ => fail "bad-op"

def main (args : List String) : IO UInt32 := Driver.main' model judge args
