import Driver.Common
import GilVerif.Model.C15
open Driver GilVerif.Model.C15

/-
  op formats: see harness/C15/main.cpp.
  model : runs the code-structured model (correlateRows / correlateCols / convolveRows / convolveCols,
          convolve2d, extendRows / extendCols / extendBoundary)
  judge : evaluates the Spec (textbook sums, padded images) on the implementation's observation
-/

def splitGroups (ws : List String) : List (List String) :=
  let rec go (ws : List String) (cur : List String) (acc : List (List String)) : List (List String) :=
    match ws with
    | [] => (cur.reverse :: acc).reverse
    | w :: rest => if w = "|" then go rest [] (cur.reverse :: acc) else go rest (w :: cur) acc
  go ws [] []

def f32 (bits : Int) : Float32 := Float32.ofBits bits.toNat.toUInt32
def bitsOf (x : Float32) : Int := Int.ofNat x.toBits.toNat

def arrFn (a : Array Int) (i : Int) : Int := if 0 ≤ i then a.getD i.toNat 0 else 0

def showPlanes (w h : Nat) (planes : List (List (List Int))) : String :=
  toString w ++ " " ++ toString h ++ " : " ++ " | ".intercalate (planes.map fun p => showInts p.flatten)

def isCols (fn : String) : Bool := fn == "cc" || fn == "vc"
def isConv (fn : String) : Bool := fn == "vr" || fn == "vc"

/-- destination pre-fill of the harness -/
def prefill (S : Int) (w h : Nat) (ch : Nat) : List (List Int) :=
  (List.range h).map fun (y : Nat) => (List.range w).map fun (x : Nat) => S + 10 * ((y : Int) * (w : Int) + (x : Int)) + (ch : Int)

/-- source memory function of one plane: P extra samples on both sides along the correlation axis -/
def srcFn (cols : Bool) (w P : Nat) (plane : Array Int) : Int → Int → Int :=
  if cols then fun x y => arrFn plane ((y + (P : Int)) * (w : Int) + x)
  else fun x y => arrFn plane (y * ((w : Int) + 2 * (P : Int)) + (P : Int) + x)

structure C1 where
  fn : String
  fixed : Bool
  pt : String
  opt : Opt
  w : Nat
  h : Nat
  ks : Nat
  c : Nat
  S : Int
  taps : List Int
  planes : List (Array Int)

def parseC1 (line : String) : Option C1 :=
  match splitGroups (words line) with
  | ["c1", fn, var, pt, opt, w, h, ks, c, S] :: tapsW :: planesW =>
    match ints [opt, w, h, ks, c, S], ints tapsW, planesW.mapM ints with
    | some [opt, w, h, ks, c, S], some taps, some planes =>
      match Opt.ofInt opt with
      | some o =>
        if taps.length ≠ ks.toNat ∨ ks < 1 ∨ c < 0 ∨ c ≥ ks ∨ w < 0 ∨ h < 0 then none
        else some { fn := fn, fixed := var == "fix", pt := pt, opt := o, w := w.toNat, h := h.toNat, ks := ks.toNat,
                    c := c.toNat, S := S, taps := taps, planes := planes.map List.toArray }
      | none => none
    | _, _, _ => none
  | _ => none

def isFloatPt (pt : String) : Bool := pt == "g32f"
/-- integral source and destination, float32 accumulator and (fractional) float taps -/
def isMixedPt (pt : String) : Bool := pt == "g8f" || pt == "rgb8f" || pt == "g16f"
def mixedMod (pt : String) : Int := if pt == "g16f" then 65536 else 256

def runC1 {α : Type} [Add α] [Mul α] [OfNat α 0] (o : C1) (inj : Int → α) (out : α → Int)
    (injTap : Int → α := inj) (injDst : Int → α := inj) : List (List (List Int)) :=
  let cols := isCols o.fn
  let P := o.ks - 1
  (List.range o.planes.length).map fun (ch : Nat) =>
    let plane := o.planes.getD ch #[]
    let sf := srcFn cols o.w P plane
    let src : Int → Int → α := fun x y => inj (sf x y)
    let dst : List (List α) := (prefill o.S o.w o.h ch).map (·.map injDst)
    let taps := o.taps.map injTap
    let r := match o.fn with
      | "cr" => correlateRows o.fixed o.opt taps o.c src o.w o.h dst
      | "cc" => correlateCols o.fixed o.opt taps o.c src o.w o.h dst
      | "vr" => convolveRows o.fixed o.opt taps o.c src o.w o.h dst
      | _ => convolveCols o.fixed o.opt taps o.c src o.w o.h dst
    r.map (·.map out)

def modelC1 (o : C1) : String :=
  if isFloatPt o.pt then showPlanes o.w o.h (runC1 o f32 bitsOf)
  else if isMixedPt o.pt then
    -- pixel_assigns_t<PixelAccum, dst>: `Channel2(ch1)`, the float accumulator truncated to the integral destination channel;
    -- the destination pre-fill was stored through the same integral channel type (wrap)
    let m := mixedMod o.pt
    showPlanes o.w o.h (runC1 o (fun v => Float32.ofInt v) (fun x => if m == 256 then (x.toUInt8.toNat : Int) else (x.toUInt16.toNat : Int))
      (injTap := f32) (injDst := fun v => Float32.ofInt (v % m)))
  else showPlanes o.w o.h (runC1 (α := Int) o id id)

/-- Spec of the 1-D operations for one plane (exact integers) -/
def specC1 (o : C1) (ch : Nat) : List (List Int) :=
  let cols := isCols o.fn
  let P := o.ks - 1
  let sf := srcFn cols o.w P (o.planes.getD ch #[])
  let dst := prefill o.S o.w o.h ch
  let rowSpec := fun (mem : Int → Int) (n : Nat) (d : List Int) =>
    if isConv o.fn then specRowConv o.opt o.taps o.c mem n d else specRow o.opt o.taps o.c mem n d
  if cols then
    let colsOut := (List.range o.w).map fun (x : Nat) =>
      rowSpec (fun j => sf (x : Int) j) o.h ((List.range o.h).map fun (y : Nat) => (dst.getD y []).getD x 0)
    (List.range o.h).map fun (y : Nat) => (List.range o.w).map fun (x : Nat) => (colsOut.getD x []).getD y 0
  else
    (List.range o.h).map fun (y : Nat) => rowSpec (fun j => sf j (y : Int)) o.w (dst.getD y [])

def parseObs (obs : String) : Option (Nat × Nat × List (List Int)) :=
  match splitGroups (words obs) with
  | (w :: h :: ":" :: p0) :: rest =>
    match ints [w, h], (p0 :: rest).mapM ints with
    | some [w, h], some planes => some (w.toNat, h.toNat, planes)
    | _, _ => none
  | _ => none

def firstDiff (a b : List Int) : Option Nat :=
  let rec go (a b : List Int) (i : Nat) : Option Nat :=
    match a, b with
    | [], [] => none
    | x :: xs, y :: ys => if x = y then go xs ys (i + 1) else some i
    | _, _ => some i
  go a b 0

/-- float judge: |impl − Σ| ≤ ks·2⁻²²·Σ|terms| (+ tiny), sums evaluated in binary64 -/
def judgeFloatC1 (o : C1) (planes : List (List Int)) : String :=
  let cols := isCols o.fn
  let P := o.ks - 1
  let effC := if isConv o.fn then o.ks - o.c - 1 else o.c          -- centre as seen by the correlation
  let tap := fun (k : Nat) => (f32 (if isConv o.fn then o.taps.getD (o.ks - 1 - k) 0 else o.taps.getD k 0)).toFloat
  let check := fun (ch : Nat) (plane : List Int) =>
    let sf := srcFn cols o.w P (o.planes.getD ch #[])
    let n := if cols then o.h else o.w            -- length along the correlation axis
    (List.range (o.w * o.h)).foldl (fun (acc : Option String) idx =>
      match acc with
      | some e => some e
      | none =>
        let x := idx % o.w; let y := idx / o.w
        let i := if cols then y else x
        let mem := fun (j : Int) => if cols then sf (x : Int) j else sf j (y : Int)
        let got := f32 (plane.getD idx 0)
        let inside := windowInside o.ks effC n i
        let border := (o.opt == .outputIgnore || o.opt == .outputZero) && !inside
        if border then
          let want : Int := if o.opt == .outputZero then 0 else o.S + 10 * ((y : Int) * (o.w : Int) + (x : Int)) + (ch : Int)
          if plane.getD idx 0 = want ∨ (o.opt == .outputZero ∧ got == 0) then none else some "border-output"
        else
          let sample := fun (j : Int) =>
            match o.opt with
            | .extendPadded => (f32 (mem j)).toFloat
            | .extendConstant => (f32 (mem (if j < 0 then 0 else if (n : Int) ≤ j then (n : Int) - 1 else j))).toFloat
            | _ => if 0 ≤ j ∧ j < (n : Int) then (f32 (mem j)).toFloat else 0.0
          let terms := (List.range o.ks).map fun (k : Nat) => sample ((i : Int) + (k : Int) - (effC : Int)) * tap k
          let s := terms.foldl (· + ·) 0.0
          let sa := terms.foldl (fun a t => a + Float.abs t) 0.0
          if Float.abs (got.toFloat - s) ≤ (o.ks.toFloat) * 2.4e-7 * sa + 1.0e-37 then none else some "textbook-sum(float-tolerance)") none
  let rec go (ch : Nat) (ps : List (List Int)) : String :=
    match ps with
    | [] => "ok"
    | p :: rest => match check ch p with
      | some e => "fail " ++ e
      | none => go (ch + 1) rest
  go 0 planes

/-- Spec for integral pixels with a float accumulator: the textbook sum evaluated in the accumulator type, then stored with the
    truncation of the destination channel cast.  The generated taps are multiples of 1/8 and all terms are non-negative, so the sum
    is exact: it is ⌊(Σ ext(src)·(8·tap)) / 8⌋, computed with the integer Spec (`specC1`) on the taps scaled by 8. -/
def judgeMixedC1 (o : C1) (planes : List (List Int)) : String :=
  let taps8 := o.taps.map fun b => ((f32 b).toFloat * 8.0)
  if taps8.any (fun t => t != Float.floor t || t < 0.0) then "fail bad-op(tap-not-a-multiple-of-1/8)" else
  let o8 : C1 := { o with taps := taps8.map fun t => t.toInt64.toInt }
  let m := mixedMod o.pt
  let n := if isCols o.fn then o.h else o.w
  let effC := if isConv o.fn then o.ks - o.c - 1 else o.c
  let rec go (ch : Nat) (ps : List (List Int)) : String :=
    match ps with
    | [] => "ok"
    | p :: rest =>
      let raw := (specC1 o8 ch).flatten
      let expect := (List.range (o.w * o.h)).map fun (idx : Nat) =>
        let x := idx % o.w; let y := idx / o.w
        let i := if isCols o.fn then y else x
        let border := (o.opt == .outputIgnore || o.opt == .outputZero) && !(windowInside o.ks effC n i)
        let v := raw.getD idx 0
        if border then (if o.opt == .outputZero then 0 else v % m) else v / 8
      match firstDiff p expect with
      | none => go (ch + 1) rest
      | some idx =>
        let x := idx % o.w; let y := idx / o.w
        let i := if isCols o.fn then y else x
        let border := (o.opt == .outputIgnore || o.opt == .outputZero) && !(windowInside o.ks effC n i)
        "fail " ++ (if border then "border-output" else "textbook-sum-in-accumulator-type-then-stored") ++ "@" ++ toString x ++ "," ++ toString y
  go 0 planes

def judgeC1 (o : C1) (obs : String) : String :=
  if obs.startsWith "assert:" then
    if o.w == 0 ∨ o.h == 0 then "fail returns-normally-on-empty-image" else "fail no-assertion-failure"
  else match parseObs obs with
  | none => "fail not-an-image:" ++ obs.take 40
  | some (w, h, planes) =>
    if w ≠ o.w ∨ h ≠ o.h ∨ planes.length ≠ o.planes.length then "fail shape"
    else if planes.any (fun p => p.length ≠ o.w * o.h) then "fail shape"
    else if isFloatPt o.pt then judgeFloatC1 o planes
    else if isMixedPt o.pt then judgeMixedC1 o planes
    else
      let rec go (ch : Nat) (ps : List (List Int)) : String :=
        match ps with
        | [] => "ok"
        | p :: rest =>
          match firstDiff p (specC1 o ch).flatten with
          | none => go (ch + 1) rest
          | some idx =>
            let x := idx % o.w; let y := idx / o.w
            let i := if isCols o.fn then y else x
            let n := if isCols o.fn then o.h else o.w
            let effC := if isConv o.fn then o.ks - o.c - 1 else o.c
            let border := (o.opt == .outputIgnore || o.opt == .outputZero) && !(windowInside o.ks effC n i)
            "fail " ++ (if border then "border-output" else "textbook-sum") ++ "@" ++ toString x ++ "," ++ toString y
      go 0 planes

/-! ### convolve_2d -/

structure C2 where
  w : Nat
  h : Nat
  ks : Nat
  cy : Nat
  cx : Nat
  ker : List Int
  planes : List (Array Int)

def parseC2 (line : String) : Option C2 :=
  match splitGroups (words line) with
  | ["c2", _pt, _kt, w, h, ks, cy, cx, _S] :: kerW :: planesW =>
    match ints [w, h, ks, cy, cx], ints kerW, planesW.mapM ints with
    | some [w, h, ks, cy, cx], some ker, some planes =>
      if ker.length ≠ (ks * ks).toNat ∨ ks < 1 ∨ w < 0 ∨ h < 0 ∨ cy < 0 ∨ cx < 0 ∨ cy ≥ ks ∨ cx ≥ ks then none
      else some { w := w.toNat, h := h.toNat, ks := ks.toNat, cy := cy.toNat, cx := cx.toNat, ker := ker, planes := planes.map List.toArray }
    | _, _, _ => none
  | _ => none

def c2Src (o : C2) (ch : Nat) : Int → Int → Int :=
  let a := o.planes.getD ch #[]
  fun x y => arrFn a (y * (o.w : Int) + x)

def modelC2 (o : C2) : String :=
  -- (empty views: convolve_2d returns before nth_channel_view since the fix ffc09f2)
  showPlanes o.w o.h ((List.range o.planes.length).map fun (ch : Nat) => convolve2d (c2Src o ch) o.w o.h o.ker o.ks o.cy o.cx)

def judgeC2 (o : C2) (obs : String) : String :=
  if obs.startsWith "assert:" then
    if o.w == 0 ∨ o.h == 0 then "fail returns-normally-on-empty-image" else "fail no-assertion-failure"
  else match parseObs obs with
  | none => "fail not-an-image:" ++ obs.take 40
  | some (w, h, planes) =>
    if w ≠ o.w ∨ h ≠ o.h ∨ planes.length ≠ o.planes.length then "fail shape" else
    let rec go (ch : Nat) (ps : List (List Int)) : String :=
      match ps with
      | [] => "ok"
      | p :: rest =>
        let spec := ((List.range o.h).map fun (y : Nat) => (List.range o.w).map fun (x : Nat) =>
          conv2dSpecAt (c2Src o ch) o.w o.h o.ker o.ks o.cy o.cx x y).flatten
        match firstDiff p spec with
        | none => go (ch + 1) rest
        | some idx => "fail zero-extended-2d-sum@" ++ toString (idx % o.w) ++ "," ++ toString (idx / o.w)
    go 0 planes

/-! ### extend_row / extend_col / extend_boundary -/

structure Ex where
  which : String
  opt : Opt
  w : Nat
  h : Nat
  n : Nat
  planes : List (Array Int)

def parseEx (line : String) : Option Ex :=
  match splitGroups (words line) with
  | ["ex", which, _pt, opt, w, h, n] :: planesW =>
    match ints [opt, w, h, n], planesW.mapM ints with
    | some [opt, w, h, n], some planes =>
      match Opt.ofInt opt with
      | some o => if w < 0 ∨ h < 0 ∨ n < 0 then none else
        some { which := which, opt := o, w := w.toNat, h := h.toNat, n := n.toNat, planes := planes.map List.toArray }
      | none => none
    | _, _ => none
  | _ => none

def exSrc (o : Ex) (ch : Nat) : Int → Int → Int :=
  let a := o.planes.getD ch #[]
  fun x y => arrFn a ((y + (o.n : Int)) * ((o.w : Int) + 2 * (o.n : Int)) + (o.n : Int) + x)

def exDims (o : Ex) : Nat × Nat :=
  match o.which with
  | "row" => (o.w, o.h + 2 * o.n)
  | "col" => (o.w + 2 * o.n, o.h)
  | _ => (o.w + 2 * o.n, o.h + 2 * o.n)

def modelEx (o : Ex) : String :=
  let (W, H) := exDims o
  showPlanes W H ((List.range o.planes.length).map fun (ch : Nat) =>
    match o.which with
    | "row" => extendRows o.opt o.n (exSrc o ch) o.w o.h
    | "col" => extendCols o.opt o.n (exSrc o ch) o.w o.h
    | _ => extendBoundary o.opt o.n (exSrc o ch) o.w o.h)

def judgeEx (o : Ex) (obs : String) : String :=
  match parseObs obs with
  | none => "fail not-an-image:" ++ obs.take 40
  | some (w, h, planes) =>
    let (W, H) := exDims o
    if w ≠ W ∨ h ≠ H ∨ planes.length ≠ o.planes.length then "fail padded-dimensions" else
    let rec go (ch : Nat) (ps : List (List Int)) : String :=
      match ps with
      | [] => "ok"
      | p :: rest =>
        let spec := (match o.which with
          | "row" => extendRowsSpec o.opt o.n (exSrc o ch) o.w o.h
          | "col" => extendColsSpec o.opt o.n (exSrc o ch) o.w o.h
          | _ => extendBoundarySpec o.opt o.n (exSrc o ch) o.w o.h).flatten
        match firstDiff p spec with
        | none => go (ch + 1) rest
        | some idx => "fail padded-image@" ++ toString (idx % W) ++ "," ++ toString (idx / W)
    go 0 planes

def model (line : String) : String :=
  match (words line).head? with
  | some "c1" => match parseC1 line with | some o => modelC1 o | none => "bad-op"
  | some "c2" => match parseC2 line with | some o => modelC2 o | none => "bad-op"
  | some "ex" => match parseEx line with | some o => modelEx o | none => "bad-op"
  | _ => "bad-op"

def judge (op obs : String) : String :=
  match (words op).head? with
  | some "c1" => match parseC1 op with | some o => judgeC1 o obs | none => "fail bad-op"
  | some "c2" => match parseC2 op with | some o => judgeC2 o obs | none => "fail bad-op"
  | some "ex" => match parseEx op with | some o => judgeEx o obs | none => "fail bad-op"
  | _ => "fail bad-op"

def main (args : List String) : IO UInt32 := Driver.main' model judge args
