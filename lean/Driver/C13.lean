import Driver.Common
import Driver.CodecIO
import GilVerif.Model.C13
open Driver Driver.CodecIO GilVerif.Codec GilVerif.Model.C13

/-
  op lines (file bytes as hex; an image observation is `<w> <h> <pixels hex>` | `err:io` | `ub`)
    crop  <fmt> <dst> <tlx> <tly> <dx> <dy> <file>      F <img> | fn <img> | fp <img> | is <img>
    paths <fmt> <dst> <file>                            img <img> | view <img> <canary> | any <type> <img> | scan <img> | info <w> <h> <depth>
    conv  <fmt> <nat> <dst> <tlx> <tly> <dx> <dy> <file>  nat <img> | conv <img> | ref <img> | cview <img> <canary>
    small <fmt> <dst> <vw> <vh> <tlx> <tly> <dx> <dy> <file>   <err:io|ok> <canary>
    skips <fmt> <dst> <pattern> <file>                  img <img> | full ok|err:io | sk <it==end> <row>... | sk err:io
          pattern letters: d = *it; ++it   D = *it; *it; ++it   s = ++it (the row is never dereferenced: reader.skip)
  fmt: bmp | bmprle (bmp whose reader is run in a child: it may overrun) | pnm | targa;  dst / nat: gray1 | gray8 | rgb8 | rgba8
-/

/-- an image as flat channel bytes -/
structure Flat where
  w : Nat
  h : Nat
  px : Bytes
  deriving DecidableEq

inductive Obs where
  | ok (f : Flat)
  | err
  | ub
  deriving DecidableEq

def Obs.show : Obs → String
  | .ok f => toString f.w ++ " " ++ toString f.h ++ " " ++ hexOf f.px
  | .err => "err:io"
  | .ub => "ub"

def flatOf {α} (f : PixFmt α) (i : Img α) : Flat := ⟨i.w, i.h, bytesOfImg f i⟩
def obsOfRes {α} (f : PixFmt α) : Res α → Obs
  | .ok i => .ok (flatOf f i)
  | .err => .err
  | .ub => .ub
def obsOfOpt {α} (f : PixFmt α) : Option (Img α) → Obs
  | some i => .ok (flatOf f i)
  | none => .err

def chanCount (t : String) : Nat :=
  if t.startsWith "gray1" then 1 else
  match t with
  | "gray8" => 1 | "rgb8" => 3 | "rgba8" => 4 | _ => 0

/-- gray1[-r][s]: the P4 reader (`r`) / scanline reader (`s`) of the tree under test mirror the bits (proposed fix) instead of swapping half bytes -/
def monoReaderFixed (t : String) : Bool := t = "gray1-r" ∨ t = "gray1-rs"
def monoScanFixed (t : String) : Bool := t = "gray1-s" ∨ t = "gray1-rs"

def initPx : Rgba8 := ⟨0xEE, 0xEE, 0xEE, 0xEE⟩

/-- read_image / read_view without conversion: `fmt` file into an image of type `dst` -/
def readNative (fmt dst : String) (file : Bytes) (s : Settings) : Obs :=
  -- bmprlef: the tree's RLE reader decodes whole rows and copies the region (proposed_fixes/C13-bmp-rle-subrectangle.diff)
  let rleFixed := fmt = "bmprlef"
  let fmt := if fmt = "bmprle" ∨ fmt = "bmprlef" then "bmp" else fmt
  match fmt, dst with
  | "bmp", "rgb8" => obsOfRes rgb8 (Res.map (mapImg dropAlpha) (bmpRead initPx file s (some 24) rleFixed))
  | "bmp", "rgba8" => obsOfRes rgba8 (bmpRead initPx file s (some 32) rleFixed)
  | "bmp", "gray8" =>
      -- gray8 is "read supported" for bmp but is_allowed never accepts it (8 bits ≠ 24 / 32); a bad header fails first
      .err
  | "pnm", "gray8" => obsOfRes gray8 (pnmRead gray8 false false file s)
  | "pnm", "rgb8" => obsOfRes rgb8 (pnmRead rgb8 true false file s)
  | "pnm", "gray1" | "pnm", "gray1-s" => obsOfOpt bit8 (decodePnmMono file s)
  | "pnm", "gray1-r" | "pnm", "gray1-rs" => obsOfOpt bit8 (decodePnmMonoFixed file s)
  | "targa", "rgb8" => obsOfOpt rgb8 (decodeTga bgr8 file s)
  | "targa", "rgba8" => obsOfOpt rgba8 (decodeTga bgra8 file s)
  | _, _ => .err

def kindOf : String → Option Kind
  | "gray8" => some .gray8 | "rgb8" => some .rgb8 | "rgba8" => some .rgba8 | _ => none

def convertFlat (src dst : Kind) (f : Flat) : Flat :=
  ⟨f.w, f.h, (chunk src.size (f.w * f.h) f.px).flatMap (colorConvert src dst)⟩

/-- read_and_convert_image / read_and_convert_view into an image of kind `kd` -/
def readConv (fmt : String) (kd : Kind) (file : Bytes) (s : Settings) : Obs :=
  let conv (src : Kind) (o : Obs) : Obs := match o with
    | .ok f => .ok (convertFlat src kd f)
    | o => o
  match fmt with
  | "bmp" | "bmprle" | "bmprlef" =>
    match bmpReadHeader file with
    | none => .err
    | some (info, _) =>
      match obsOfRes rgba8 (bmpRead initPx file s none (fmt = "bmprlef")) with
      | .ok f => .ok ⟨f.w, f.h, (chunk 4 (f.w * f.h) f.px).flatMap (bmpConvPixel info.bpp kd)⟩
      | o => o
  | "pnm" =>
    match pnmReadHeader file with
    | none => .err
    | some (info, _) =>
      if info.type = 3 ∨ info.type = 6 then conv .rgb8 (obsOfRes rgb8 (pnmRead rgb8 true true file s))
      else if info.type = 4 then .err      -- not generated
      else conv .gray8 (obsOfRes gray8 (pnmRead gray8 false true file s))
  | "targa" =>
    match tgaReadHeader file with
    | none => .err
    | some info => if info.bpp = 24 then conv .rgb8 (obsOfOpt rgb8 (decodeTga bgr8 file s)) else conv .rgba8 (obsOfOpt rgba8 (decodeTga bgra8 file s))
  | _ => .err

def settingsOf (tlx tly dx dy : Nat) : Settings := { tlx := tlx, tly := tly, dx := dx, dy := dy }

/-- the image type the dynamic-image reader constructs (format checkers of */detail/read.hpp) out of any_image<gray8, rgb8, rgba8> -/
def anyTypeFixed (fmt : String) (file : Bytes) : Option String :=
  -- format checkers that follow is_allowed (proposed_fixes/C13-any-image-format-checkers.diff)
  match fmt with
  | "bmp" | "bmprle" | "bmprlef" => (bmpReadHeader file).bind fun (info, _) => (bmpNativeBits info).map fun b => if b = 32 then "rgba8" else "rgb8"
  | "pnm" => (pnmReadHeader file).bind fun (info, _) =>
      if info.type = 1 ∨ info.type = 2 ∨ info.type = 5 then some "gray8" else if info.type = 3 ∨ info.type = 6 then some "rgb8" else none
  | _ => none

def anyType (fmt : String) (file : Bytes) : Option String :=
  match fmt with
  | "bmp" | "bmprle" | "bmprlef" => (bmpReadHeader file).map fun (info, _) => if info.bpp < 32 then "rgb8" else "rgba8"
  | "targa" => (tgaReadHeader file).map fun info => if info.bpp < 32 then "rgb8" else "rgba8"
  | "pnm" => (pnmReadHeader file).bind fun (info, _) =>
      if info.type = 2 ∨ info.type = 5 then some "gray8" else if info.type = 3 ∨ info.type = 6 then some "rgb8" else none
  | _ => none

/-- scanline reader: all rows, decoded with the file's pixel layout into `dst` order; `none` = the reader refuses the variant -/
def scanAll (fmt dst : String) (file : Bytes) : Obs :=
  match fmt with
  | "bmp" | "bmprle" | "bmprlef" =>
    match bmpReadHeader file with
    | none => .err
    | some (info, _) =>
      let w := info.width.toNat; let h := info.height.toNat
      if info.bpp = 24 ∧ dst = "rgb8" then
        .ok ⟨w, h, (List.range h).flatMap fun y => encRow rgb8 (decRow bgr8 w (bmpScanRow file info y))⟩
      else if info.bpp = 32 ∧ dst = "rgba8" then
        .ok ⟨w, h, (List.range h).flatMap fun y => encRow rgba8 (decRow bgra8 w (bmpScanRow file info y))⟩
      else if (info.bpp = 4 ∧ info.compression = 2) ∨ (info.bpp = 8 ∧ info.compression = 1) then .err
      else
        -- palette and 15/16 bit rows are produced by the same row decoders as the full read
        match bmpRead initPx file Settings.full none with
        | .ok img => if dst = "rgba8" then .ok (flatOf rgba8 img) else .ok (flatOf rgb8 (mapImg dropAlpha img))
        | .err => .err
        | .ub => .ub
  | "targa" =>
    match tgaReadHeader file with
    | none => .err
    | some info =>
      if info.colorMapType ≠ 0 ∨ info.imageType ≠ 2 ∨ info.colorMapLength ≠ 0 ∨ info.originBit then .err
      else if info.bpp = 24 then
        .ok ⟨info.width, info.height, (List.range info.height).flatMap fun y => encRow rgb8 (decRow bgr8 info.width (tgaScanRow file info y))⟩
      else .ok ⟨info.width, info.height, (List.range info.height).flatMap fun y => encRow rgba8 (decRow bgra8 info.width (tgaScanRow file info y))⟩
  | "pnm" =>
    match pnmReadHeader file with
    | none => .err
    | some (info, data) =>
      if info.type = 5 ∨ info.type = 6 then
        .ok ⟨info.width, info.height, (List.range info.height).flatMap fun y => pnmScanRow data info y⟩
      else if info.type = 4 then obsOfOpt bit8 (if monoScanFixed dst then decodePnmMonoFixed file Settings.full else decodePnmMono file Settings.full)
      else if info.type = 2 ∨ info.type = 1 then obsOfRes gray8 (pnmRead gray8 false true file Settings.full)
      else obsOfRes rgb8 (pnmRead rgb8 true true file Settings.full)
  | _ => .err

/-- `skips`: the scanline iterator driven by a pattern; (it == end, dereferenced rows) or none = the reader refuses the variant.
    pnm byte rows: the stream model (`pnmBinScanReader` / `pnmTextScanReader` under `itRun`); the readers that seek to every row
    (bmp, targa) and P4: the rows of `scanAll` at the dereferenced positions (C13_skip_pattern_bmp / _targa) -/
def skipsModel (fmt dst : String) (pat : String) (file : Bytes) : Option (Bool × List Bytes) :=
  let ops := patternOps pat.toList
  let viaScanAll : Option (Bool × List Bytes) :=
    match scanAll fmt dst file with
    | .ok f =>
      let rows := chunk (f.w * chanCount dst) f.h f.px
      some (decide (pat.length = f.h), (derefPositions 0 ops).map fun p => rows.getD p [])
    | _ => none
  if fmt = "pnm" then
    match pnmReadHeader file with
    | none => none
    | some (info, data) =>
      let sl := pnmScanline info.type info.width
      if info.type = 5 ∨ info.type = 6 then
        let rd := pnmBinScanReader sl
        some (decide (itPos rd (ItState.init [] data) ops = info.height), (itRun rd (ItState.init [] data) ops).map (·.2))
      else if info.type = 1 ∨ info.type = 2 ∨ info.type = 3 then
        let rd := pnmTextScanReader info.maxValue sl
        some (decide (itPos rd (ItState.init [] data) ops = info.height), (itRun rd (ItState.init [] data) ops).map (·.2))
      else viaScanAll
  else viaScanAll

def infoOf (fmt : String) (file : Bytes) : String :=
  match fmt with
  | "bmp" | "bmprle" | "bmprlef" => match bmpReadHeader file with
    | some (info, _) => s!"{info.width} {info.height} {info.bpp}"
    | none => "err:io"
  | "targa" => match tgaReadHeader file with
    | some info => s!"{info.width} {info.height} {info.bpp}"
    | none => "err:io"
  | "pnm" => match pnmReadHeader file with
    | some (info, _) => s!"{info.width} {info.height} {info.type}"
    | none => "err:io"
  | _ => "err:io"

def modelRaw (line : String) : String :=
  match words line with
  | ["crop", fmt, dst, tlx, tly, dx, dy, file] =>
    match ints [tlx, tly, dx, dy] with
    | some [tlx, tly, dx, dy] =>
      let bs := parseHex file
      let full := readNative fmt dst bs Settings.full
      let sub := readNative fmt dst bs (settingsOf tlx.toNat tly.toNat dx.toNat dy.toNat)
      "F " ++ full.show ++ " | fn " ++ sub.show ++ " | fp " ++ sub.show ++ " | is " ++ sub.show
    | _ => "bad-op"
  | [paths, fmt, dst, file] =>
    if paths ≠ "paths" ∧ paths ≠ "pathsA" then "bad-op" else
    let bs := parseHex file
    let img := readNative fmt dst bs Settings.full
    -- pathsA: the tree's bmp / pnm format checkers follow is_allowed
    let any := match (if paths = "pathsA" ∧ fmt ≠ "targa" then anyTypeFixed fmt bs else anyType fmt bs) with
      | some t => (match readNative fmt t bs Settings.full with
          | .ok f => t ++ " " ++ (Obs.ok f).show
          | _ => "none err:io")
      | none => "none err:io"
    "img " ++ img.show ++ " | view " ++ img.show ++ " canary-ok | any " ++ any ++ " | scan " ++ (scanAll fmt dst bs).show ++ " | info " ++ infoOf fmt bs
  | ["skips", fmt, dst, pat, file] =>
    let bs := parseHex file
    let img := readNative fmt dst bs Settings.full
    let full := match scanAll fmt dst bs with
      | .ok _ => "ok"
      | _ => "err:io"
    let sk := match skipsModel fmt dst pat bs with
      | some (e, rows) => (if e then "1" else "0") ++ String.join (rows.map fun r => " " ++ hexOf r)
      | none => "err:io"
    "img " ++ img.show ++ " | full " ++ full ++ " | sk " ++ sk
  | ["conv", fmt, nat, dst, tlx, tly, dx, dy, file] =>
    match ints [tlx, tly, dx, dy], kindOf nat, kindOf dst with
    | some [tlx, tly, dx, dy], some kn, some kd =>
      let bs := parseHex file
      let s := settingsOf tlx.toNat tly.toNat dx.toNat dy.toNat
      let n := readNative fmt nat bs s
      let r := match n with
        | .ok f => Obs.ok (convertFlat kn kd f)
        | o => o
      let c := readConv fmt kd bs s
      "nat " ++ n.show ++ " | conv " ++ c.show ++ " | ref " ++ r.show ++ " | cview " ++ c.show ++ " canary-ok"
    | _, _, _ => "bad-op"
  | ["small", fmt, dst, vw, vh, tlx, tly, dx, dy, file] =>
    match ints [vw, vh, tlx, tly, dx, dy] with
    | some [vw, vh, tlx, tly, dx, dy] =>
      let bs := parseHex file
      -- region size = dim (or the file's size when dim is 0), checked against the view before anything is read
      match readNative fmt dst bs (settingsOf tlx.toNat tly.toNat dx.toNat dy.toNat) with
      | .ok f => if viewAccepted vw.toNat vh.toNat f.w f.h then "ok canary-ok" else "err:io canary-ok"
      | _ => "err:io canary-ok"
    | _ => "bad-op"
  | _ => "bad-op"

/-- `bmprle` ops run in one child process: the first overrun ends the whole op -/
def model (line : String) : String :=
  let r := modelRaw line
  if (words line).getD 1 "" = "bmprle" ∧ (words r).contains "ub" then "ub" else r

/-! judge: the Spec on the implementation's observation -/

def splitBars (ws : List String) : List (List String) :=
  let rec go (acc : List String) (out : List (List String)) : List String → List (List String)
    | [] => (acc.reverse :: out).reverse
    | "|" :: r => go [] (acc.reverse :: out) r
    | w :: r => go (w :: acc) out r
  go [] [] ws

def parseObs : List String → Option Obs
  | ["err:io"] => some .err
  | ["ub"] => some .ub
  | [w, h, px] => match w.toNat?, h.toNat? with
    | some w, some h => some (.ok ⟨w, h, parseHex px⟩)
    | _, _ => none
  | _ => none

/-- crop of a flat image (the Spec's `crop`) -/
def cropFlat (nch : Nat) (tlx tly dx dy : Nat) (f : Flat) : Flat :=
  let dx := if dx = 0 then f.w else dx
  let dy := if dy = 0 then f.h else dy
  let rows := chunk (f.w * nch) f.h f.px
  let rows := (rows.drop tly).take dy
  ⟨dx, dy, rows.flatMap fun r => (r.drop (tlx * nch)).take (dx * nch)⟩

/-- Spec of the skip clause: every row the iterator hands out is that row of read_image; a pattern works where the plain walk works;
    the iterator equals end() exactly after `height` increments.  `nch` = bytes per pixel of the observation -/
def judgeSkips (nch : Nat) (pat : String) (parts : List (List String)) (obs : String) : String :=
  let fail (s : String) := "fail " ++ s
  match parts with
  | [("img" :: i), ["full", f], ("sk" :: sk)] =>
    match parseObs i, sk with
    | some img, ["err:io"] => if f = "ok" ∧ img ≠ .err then fail "scanline-skip-pattern-fails-where-the-plain-walk-works" else "ok"
    | some (.ok fl), e :: rows =>
      let want := (derefPositions 0 (patternOps pat.toList)).map fun p => (chunk (fl.w * nch) fl.h fl.px).getD p []
      if rows.map parseHex ≠ want then fail "scanline-rows-after-skips-equal-full-read"
      else if e ≠ "0" ∧ e ≠ "1" then fail "scanline-iterator-begin-end-comparisons"
      else if decide (e = "1") ≠ decide (pat.length = fl.h) then fail "scanline-iterator-end"
      else "ok"
    | some _, _ :: _ => "ok"          -- read_image refuses the file: nothing to compare with
    | _, _ => fail ("unreadable-observation:" ++ (obs.take 60).toString)
  | _ => fail ("shape:" ++ (obs.take 60).toString)

def judge (op obs : String) : String :=
  let fail (s : String) := "fail " ++ s
  let parts := splitBars (words obs)
  if words obs = ["ub"] then fail "read-undefined-behaviour" else
  let opw := match words op with
    | "pathsA" :: r => "paths" :: r
    | w => w
  match opw with
  | ["crop", _fmt, dst, tlx, tly, dx, dy, _file] =>
    match ints [tlx, tly, dx, dy], parts with
    | some [tlx, tly, dx, dy], [("F" :: f), ("fn" :: a), ("fp" :: b), ("is" :: c)] =>
      match parseObs f, parseObs a, parseObs b, parseObs c with
      | some (.ok full), some a, some b, some c =>
        let want := Obs.ok (cropFlat (chanCount dst) tlx.toNat tly.toNat dx.toNat dy.toNat full)
        if a = .ub ∨ b = .ub ∨ c = .ub then fail "sub-rectangle-read-undefined-behaviour"
        else if a ≠ want then fail "sub-rectangle-is-crop-of-full-read"
        else if b ≠ a ∨ c ≠ a then fail "devices-agree"
        else "ok"
      | some .err, some a, some b, some c =>
        -- a file the full read rejects must be rejected by every other way of reading it
        if a = .err ∧ b = .err ∧ c = .err then "ok" else fail "devices-agree"
      | _, _, _, _ => fail ("unreadable-observation:" ++ (obs.take 60).toString)
    | _, _ => fail ("shape:" ++ (obs.take 60).toString)
  | ["paths", fmt, dst, _file] =>
    match parts with
    | [("img" :: i), ("view" :: v), ("any" :: anyT :: an), ("scan" :: sc), ("info" :: inf)] =>
      let canary := v.getLast?
      match parseObs i, parseObs v.dropLast, parseObs an, parseObs sc with
      | some img, some view, some any, some scan =>
        if canary ≠ some "canary-ok" then fail "write-outside-destination-view"
        else if view ≠ img then fail "read_view-equals-read_image"
        else if (anyT = dst ∧ any ≠ img) then fail "any_image-equals-read_image"
        else if (anyT = "none" ∧ img ≠ .err ∧ !dst.startsWith "gray1") then fail "any_image-reads-the-file"
        else if (scan ≠ .err ∧ scan ≠ img ∧ img ≠ .err) then fail "scanline-rows-equal-full-read"
        else
          match img, inf with
          | .ok f, [w, h, d] =>
            if w.toNat? ≠ some f.w ∨ h.toNat? ≠ some f.h then fail "info-dimensions"
            else if (fmt = "targa" ∨ ((fmt = "bmp" ∨ fmt = "bmprle" ∨ fmt = "bmprlef") ∧ (d = "24" ∨ d = "32"))) ∧ d.toNat? ≠ some (8 * chanCount dst) then fail "info-depth"
            else "ok"
          | .ok _, _ => fail "info-missing"
          | _, _ => "ok"
      | _, _, _, _ => fail ("unreadable-observation:" ++ (obs.take 60).toString)
    | _ => fail ("shape:" ++ (obs.take 60).toString)
  | ["skips", _fmt, dst, pat, _file] => judgeSkips (chanCount dst) pat parts obs
  | ["xskips", _fmt, _pix, bpp, _w, _h, pat, _src] => judgeSkips (bpp.toNat?.getD 0) pat parts obs
  | ["conv", _fmt, _nat, _dst, _tlx, _tly, _dx, _dy, _file] =>
    match parts with
    | [("nat" :: _), ("conv" :: c), ("ref" :: r), ("cview" :: cv)] =>
      match parseObs c, parseObs r, parseObs cv.dropLast with
      | some c, some r, some cv' =>
        if cv.getLast? ≠ some "canary-ok" then fail "write-outside-destination-view"
        else if c ≠ r then fail "read_and_convert-equals-color_convert-of-native-read"
        else if cv' ≠ r then fail "read_and_convert_view-equals-color_convert-of-native-read"
        else "ok"
      | _, _, _ => fail ("unreadable-observation:" ++ (obs.take 60).toString)
    | _ => fail ("shape:" ++ (obs.take 60).toString)
  -- formats decoded by external libraries: same Spec, judged on the implementation's observations only
  | ["xcrop", _fmt, _pix, bpp, _w, _h, tlx, tly, dx, dy, _src] =>
    match ints [bpp, tlx, tly, dx, dy], parts with
    | some [bpp, tlx, tly, dx, dy], (("F" :: f) :: subs) =>
      match parseObs f with
      | some (.ok full) =>
        let want := Obs.ok (cropFlat bpp.toNat tlx.toNat tly.toNat dx.toNat dy.toNat full)
        let got := subs.map fun p => parseObs (p.drop 1)
        if subs.length < 2 then fail "shape"
        else if got.any (· = some Obs.ub) then fail "sub-rectangle-read-undefined-behaviour"
        else if got.head? ≠ some (some want) then fail "sub-rectangle-is-crop-of-full-read"
        else if got.any (· ≠ some want) then fail "devices-agree"
        else "ok"
      | some .err => if subs.all (fun p => parseObs (p.drop 1) = some Obs.err) then "ok" else fail "devices-agree"
      | _ => fail ("unreadable-observation:" ++ (obs.take 60).toString)
    | _, _ => fail ("shape:" ++ (obs.take 60).toString)
  | ["xpaths", _fmt, _pix, _bpp, _w, _h, _src] =>
    match parts with
    | [("img" :: i), ("view" :: v), ("info" :: inf)] =>
      match parseObs i, parseObs v.dropLast with
      | some img, some view =>
        if v.getLast? ≠ some "canary-ok" then fail "write-outside-destination-view"
        else if view ≠ img then fail "read_view-equals-read_image"
        else match img, inf with
          | .ok f, [w, h] => if w.toNat? ≠ some f.w ∨ h.toNat? ≠ some f.h then fail "info-dimensions" else "ok"
          | .ok _, _ => fail "info-missing"
          | _, _ => "ok"
      | _, _ => fail ("unreadable-observation:" ++ (obs.take 60).toString)
    | _ => fail ("shape:" ++ (obs.take 60).toString)
  | ["xconv", _fmt, _pix, _bpp, _w, _h, _dst, _tlx, _tly, _dx, _dy, _src] =>
    match parts with
    | [("nat" :: _), ("conv" :: c), ("ref" :: r), ("cview" :: cv)] =>
      match parseObs c, parseObs r, parseObs cv.dropLast with
      | some c, some r, some cv' =>
        if cv.getLast? ≠ some "canary-ok" then fail "write-outside-destination-view"
        else if c ≠ r then fail "read_and_convert-equals-color_convert-of-native-read"
        else if cv' ≠ r then fail "read_and_convert_view-equals-color_convert-of-native-read"
        else "ok"
      | _, _, _ => fail ("unreadable-observation:" ++ (obs.take 60).toString)
    | _ => fail ("shape:" ++ (obs.take 60).toString)
  | ["xsmall", _fmt, _pix, _bpp, _w, _h, _vw, _vh, _tlx, _tly, _dx, _dy, _src] =>
    match words obs with
    | [r, canary] =>
      if canary ≠ "canary-ok" then fail "write-outside-destination-view"
      else if r ≠ "err:io" then fail "too-small-view-rejected"
      else "ok"
    | _ => fail ("shape:" ++ (obs.take 60).toString)
  | ["small", _fmt, _dst, _vw, _vh, _tlx, _tly, _dx, _dy, _file] =>
    match words obs with
    | [r, canary] =>
      if canary ≠ "canary-ok" then fail "write-outside-destination-view"
      else if r ≠ "err:io" then fail "too-small-view-rejected"
      else "ok"
    | _ => fail ("shape:" ++ (obs.take 60).toString)
  | _ => fail "bad-op"

def main (args : List String) : IO UInt32 := Driver.main' model judge args
