import Driver.Common
-- stub driver for C08 (replaced when the property's model is built)
def main (args : List String) : IO UInt32 := Driver.main' (fun _ => "bad-op") (fun _ _ => "fail bad-op") args
