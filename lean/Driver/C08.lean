import Driver.Common
import GilVerif.Model.C08
open Driver GilVerif.Model.C08

/-! Model driver and Spec judge for C08.  Op vocabulary: see harness/C08/field.cpp and pixel.cpp.
    Field values are numbers in hex; buffers are byte strings in hex (memory order) = one little-endian Nat. -/

def hexDigitVal (c : UInt8) : Nat :=
  if c ≤ 57 then (c - 48).toNat else ((c ||| 32) - 87).toNat

/-- number written in hex, digits `[start, start+len)` of `b` -/
def hexSlice (b : ByteArray) (start len : Nat) : Nat :=
  (List.range len).foldl (fun acc i => acc * 16 + hexDigitVal (b.get! (start + i))) 0

def hexNum (s : String) : Nat := let b := s.toUTF8; hexSlice b 0 b.size

def hexChar (d : Nat) : Char := if d < 10 then Char.ofNat (48 + d) else Char.ofNat (87 + d)

/-- `digits` hex digits of `v`, most significant first -/
def numHex (v digits : Nat) : String :=
  (List.range digits).foldl (fun s i => s.push (hexChar ((v >>> (4 * (digits - 1 - i))) % 16))) ""

/-- bytes `[start, start+len)` (two hex digits each, memory order) of `b` as a little-endian number -/
def memSlice (b : ByteArray) (start len : Nat) : Nat :=
  (List.range len).foldl (fun acc i =>
    let j := len - 1 - i
    acc * 256 + (hexDigitVal (b.get! (start + 2 * j)) * 16 + hexDigitVal (b.get! (start + 2 * j + 1)))) 0

def memOfHex (s : String) : Nat := let b := s.toUTF8; memSlice b 0 (b.size / 2)

def memHexInto (acc : String) (M len : Nat) : String :=
  (List.range len).foldl (fun s j => let byte := (M >>> (8 * j)) % 256; (s.push (hexChar (byte / 16))).push (hexChar (byte % 16))) acc

def memHex (M len : Nat) : String := memHexInto "" M len

def nats (ws : List String) : Option (List Nat) := ws.mapM String.toNat?

def commaNats (s : String) : Option (List Nat) := (s.splitOn ",").mapM String.toNat?
def showCommaNats (xs : List Nat) : String := ",".intercalate (xs.map toString)

/-- configuration description `fb:w0,w1,..:m0,m1,..` -/
structure Desc where
  fb : Nat
  widths : List Nat
  map : List Nat        -- semantic index -> physical index
def Desc.parse (s : String) : Option Desc :=
  match s.splitOn ":" with
  | [a, b, c] => do
    let fb ← a.toNat?; let w ← commaNats b; let m ← commaNats c
    if w.length = m.length ∧ m.all (· < w.length) then some ⟨fb, w, m⟩ else none
  | _ => none
def Desc.n (d : Desc) : Nat := d.widths.length
def Desc.bs (d : Desc) : Nat := bitSize d.widths

def parseArith (s : String) : Option Arith :=
  match s with
  | "inc" => some .inc | "pinc" => some .inc | "dec" => some .dec | "pdec" => some .dec
  | "add" => some .add | "sub" => some .sub | "mul" => some .mul | "div" => some .div
  | _ => none

def listFn (xs : List Nat) : Nat → Nat := fun k => xs.getD k 0

def splitBar (ws : List String) : List String × List String :=
  let a := ws.takeWhile (· ≠ "|"); (a, (ws.dropWhile (· ≠ "|")).drop 1)

def colonPair (s : String) : Option (Nat × Nat) :=
  match s.splitOn ":" with
  | [a, b] => do let x ← a.toNat?; let y ← b.toNat?; some (x, y)
  | _ => none

/-- counter overlay of `dsweep`: the low bytes of `c` replace bytes `[ptr, ptr+cb)` -/
def overlay (M ptr cb c : Nat) : Nat := writeBytes M ptr cb c

def getsPP (W f : Nat) (widths : List Nat) : List Nat := (List.range widths.length).map (fun k => ppGet W f widths k)
def getsBA (fb M : Nat) (c : Cur) (widths : List Nat) : List Nat := (List.range widths.length).map (fun k => baGet fb M c widths k)

def curOf (byte off : Nat) : Cur := ⟨byte, off⟩
def showCur (c : Cur) : String := s!"{c.byte} {c.off}"

/-! ### model -/

def modelStaticOp (W F N : Nat) (op : String) (argS : String) (bf ot : Nat) : Option (Nat × Nat × Nat) :=
  let arg : Int := argS.toInt?.getD 0
  let old := getF W bf F N
  match op with
  | "set" => some (setF W bf F N (arg % 2 ^ carrierBits N).toNat, ot, 0)
  | "setr" => some (setFromRefF W bf F N ot, ot, 0)
  | "setc" => some (setFromRefF W bf F N ot, ot, 0)
  | "setd" =>
    let first := arg.toNat
    let n := dataSize first N (W / 8)
    some (setF W bf F N (getD W (ot % 2 ^ (8 * n)) first N), ot, 0)
  | "swp" =>
    let tmp := valueMask N old
    let bf1 := setFromRefF W bf F N ot
    some (bf1, setF W ot F N tmp, 0)
  | "swv" =>
    let x := valueMask N arg
    let tmp := valueMask N old
    some (setF W bf F N x, ot, tmp)
  | "get" => some (bf, ot, 0)
  | _ => match parseArith op with
    | some a => some (setF W bf F N (arithStore N a old arg), ot, 0)
    | none => none

def modelDynOp (fb N M ptr first : Nat) (op argS : String) : Option (Nat × Nat) :=
  let arg : Int := argS.toInt?.getD 0
  let old := dGet fb M ptr first N
  match op with
  | "set" => some (dSet fb M ptr first N (arg % 2 ^ carrierBits N).toNat, 0)
  | "setr" | "setc" => (colonPair argS).map (fun (p2, f2) => (dCopy fb M ptr first p2 f2 N, 0))
  | "swp" => (colonPair argS).map (fun (p2, f2) => (dSwap fb M ptr first p2 f2 N, 0))
  | "swv" => some (dSet fb M ptr first N (valueMask N arg), valueMask N old)
  | "get" => some (M, 0)
  | _ => match parseArith op with
    | some a => some (dSet fb M ptr first N (arithStore N a old arg), 0)
    | none => none

def modelDop (W N len ptr first op arg buf : String) : String :=
  match nats [W, N, len, ptr, first] with
  | some [W, N, len, ptr, first] =>
    let fb := W / 8
    match modelDynOp fb N (memOfHex buf) ptr first op arg with
    | some (M', aux) => s!"{memHex M' len} {dGet fb M' ptr first N} {aux}"
    | none => "bad-op"
  | _ => "bad-op"

def model (line : String) : String :=
  match words line with
  | ["ssweep", W, F, N, c0, cnt, v0, vs] =>
    match nats [W, F, N, c0, cnt, v0, vs] with
    | some [W, F, N, c0, cnt, v0, vs] =>
      let (a, b) := (List.range cnt).foldl (fun (a, b) i =>
        let f := (c0 + i) % 2 ^ W
        let v := (v0 + i * vs) % 2 ^ N
        let f' := setF W f F N v
        (a ++ numHex f' (W / 4), b ++ numHex (getF W f' F N) ((N + 3) / 4))) ("", "")
      a ++ " | " ++ b
    | _ => "bad-op"
  | ["sop", W, F, N, op, arg, field, other] =>
    match nats [W, F, N] with
    | some [W, F, N] =>
      match modelStaticOp W F N op arg (hexNum field) (hexNum other) with
      | some (bf, ot, aux) => s!"{numHex bf (W / 4)} {numHex ot (W / 4)} {getF W bf F N} {aux}"
      | none => "bad-op"
    | _ => "bad-op"
  | ["dsweep", W, N, len, ptr, first, c0, cnt, v0, vs, templ] =>
    match nats [W, N, len, ptr, first, c0, cnt, v0, vs] with
    | some [W, N, len, ptr, first, c0, cnt, v0, vs] =>
      let fb := W / 8
      let M0 := memOfHex templ
      let cb := if len - ptr ≥ 2 then 2 else 1
      let (a, b) := (List.range cnt).foldl (fun (a, b) i =>
        let M := overlay M0 ptr cb (c0 + i)
        let v := (v0 + i * vs) % 2 ^ N
        let M' := dSet fb M ptr first N v
        (memHexInto a M' len, b ++ numHex (dGet fb M' ptr first N) ((N + 3) / 4))) ("", "")
      a ++ " | " ++ b
    | _ => "bad-op"
  | ["dop", W, N, len, ptr, first, op, arg, buf] => modelDop W N len ptr first op arg buf
  | ["xdop", W, N, len, ptr, first, op, arg, buf] => modelDop W N len ptr first op arg buf
  | ["bset", _, desc, len, byte, off, k, v, buf] =>
    match Desc.parse desc, nats [len, byte, off, k, v] with
    | some d, some [len, byte, off, k, v] =>
      let c := curOf byte off
      let M' := baSet d.fb (memOfHex buf) c d.widths k (v % 2 ^ carrierBits (width d.widths k))
      s!"{memHex M' len} {showCommaNats (getsBA d.fb M' c d.widths)}"
    | _, _ => "bad-op"
  | ["bcopy", _, desc, len, ba, oa, bb, ob, buf] =>
    match Desc.parse desc, nats [len, ba, oa, bb, ob] with
    | some d, some [len, ba, oa, bb, ob] =>
      let a := curOf ba oa; let b := curOf bb ob
      let M' := baCopy d.fb (memOfHex buf) a b d.widths d.map
      s!"{memHex M' len} {showCommaNats (getsBA d.fb M' a d.widths)}"
    | _, _ => "bad-op"
  | ["bswap", _, desc, len, ba, oa, bb, ob, buf] =>
    match Desc.parse desc, nats [len, ba, oa, bb, ob] with
    | some d, some [len, ba, oa, bb, ob] =>
      let a := curOf ba oa; let b := curOf bb ob
      let M' := baSwap d.fb (memOfHex buf) a b d.widths d.map
      s!"{memHex M' len} {showCommaNats (getsBA d.fb M' a d.widths)} {showCommaNats (getsBA d.fb M' b d.widths)}"
    | _, _ => "bad-op"
  | ["pval", N, v] =>
    match N.toNat?, v.toInt? with
    | some N, some v =>
      let viaInt : Int := (v + 2147483648) % 4294967296 - 2147483648
      s!"{valueMask N v} {valueMask N viaInt} {valueMask N v}"
    | _, _ => "bad-op"
  | ["pset", _, desc, k, v, field] =>
    match Desc.parse desc, nats [k, v] with
    | some d, some [k, v] =>
      let W := 8 * d.fb
      let f' := ppSet W (hexNum field) d.widths k (v % 2 ^ carrierBits (width d.widths k))
      s!"{numHex f' (2 * d.fb)} {showCommaNats (getsPP W f' d.widths)}"
    | _, _ => "bad-op"
  | ["parith", _, desc, k, op, arg, field] =>
    match Desc.parse desc, k.toNat?, parseArith op, arg.toInt? with
    | some d, some k, some a, some arg =>
      let W := 8 * d.fb; let f := hexNum field
      let f' := ppSet W f d.widths k (arithStore (width d.widths k) a (ppGet W f d.widths k) arg)
      s!"{numHex f' (2 * d.fb)} {showCommaNats (getsPP W f' d.widths)}"
    | _, _, _, _ => "bad-op"
  | "pctor" :: _ :: desc :: vals =>
    match Desc.parse desc, nats vals with
    | some d, some vals =>
      if vals.length ≠ d.n then "bad-op" else
      let W := 8 * d.fb
      -- the int arguments are converted to integer_t by operator=(integer_t)
      let vs := fun k => (listFn vals k) % 2 ^ carrierBits (width d.widths k)
      let f' := ppAssign W 0 d.widths vs (List.range d.n)
      s!"{numHex f' (2 * d.fb)} {showCommaNats (getsPP W f' d.widths)}"
    | _, _ => "bad-op"
  | ["passign", dn, ddesc, sn, sdesc, srcfield, field] =>
    match Desc.parse ddesc, Desc.parse sdesc with
    | some d, some s =>
      let W := 8 * d.fb; let Ws := 8 * s.fb; let src := hexNum srcfield
      -- the same type on both sides: the implicit copy assignment copies the bit field
      let f' := if dn = sn then src else ppAssignFrom W (hexNum field) d.widths d.map Ws src s.widths s.map
      let eq := (d.map.zip s.map).all (fun (kd, ks) => ppGet W f' d.widths kd == ppGet Ws src s.widths ks)
      s!"{numHex f' (2 * d.fb)} {showCommaNats (getsPP W f' d.widths)} {if eq then "eq" else "ne"}"
    | _, _ => "bad-op"
  | ["bget", _, desc, _, byte, off, buf] =>
    match Desc.parse desc, nats [byte, off] with
    | some d, some [byte, off] => showCommaNats (getsBA d.fb (memOfHex buf) (curOf byte off) d.widths)
    | _, _ => "bad-op"
  | ["barith", _, desc, len, byte, off, k, op, arg, buf] =>
    match Desc.parse desc, nats [len, byte, off, k], parseArith op, arg.toInt? with
    | some d, some [len, byte, off, k], some a, some arg =>
      let c := curOf byte off; let M := memOfHex buf
      let M' := baSet d.fb M c d.widths k (arithStore (width d.widths k) a (baGet d.fb M c d.widths k) arg)
      s!"{memHex M' len} {showCommaNats (getsBA d.fb M' c d.widths)}"
    | _, _, _, _ => "bad-op"
  | ["bcpy", _, desc, len, sb, so, db, dof, count, buf] =>
    match Desc.parse desc, nats [len, sb, so, db, dof, count] with
    | some d, some [len, sb, so, db, dof, count] =>
      memHex (baCopyRun d.fb (memOfHex buf) (curOf sb so) (curOf db dof) d.widths d.map count) len
    | _, _ => "bad-op"
  | ["iadv", _, desc, off, n] =>
    match Desc.parse desc, off.toNat?, n.toInt? with
    | some d, some off, some n =>
      let bs := d.bs; let it : Cur := ⟨0, off⟩
      let it2 := itAdvance bs it n; let it3 := itAdvance bs it2 (-n)
      s!"{showCur it2} {showCur it3} {itDistance bs it it2} {itDistance bs it2 it} {showCur it2} {showCur it2}"
    | _, _, _ => "bad-op"
  | ["iinc", _, desc, off, k] =>
    match Desc.parse desc, nats [off, k] with
    | some d, some [off, k] =>
      let bs := d.bs
      let up := (List.range k).foldl (fun c _ => itInc bs c) (⟨0, off⟩ : Cur)
      let dn := (List.range k).foldl (fun c _ => itDec bs c) up
      s!"{showCur up} {showCur dn}"
    | _, _ => "bad-op"
  | "bassign" :: _ :: desc :: len :: byte :: off :: rest =>
    match Desc.parse desc, nats [len, byte, off], nats rest.dropLast, rest.getLast? with
    | some d, some [len, byte, off], some vals, some buf =>
      if vals.length ≠ d.n then "bad-op" else
      let c := curOf byte off
      let M' := baAssign d.fb (memOfHex buf) c d.widths (listFn vals) d.map
      let gets := getsBA d.fb M' c d.widths
      s!"{memHex M' len} {showCommaNats gets} {if gets == vals then "eq" else "ne"}"
    | _, _, _, _ => "bad-op"
  | "bfill" :: _ :: desc :: len :: byte :: off :: count :: rest =>
    match Desc.parse desc, nats [len, byte, off, count], nats rest.dropLast, rest.getLast? with
    | some d, some [len, byte, off, count], some vals, some buf =>
      if vals.length ≠ d.n then "bad-op" else
      memHex (baWriteRun d.fb (memOfHex buf) (curOf byte off) d.widths d.map (List.replicate count (listFn vals))) len
    | _, _, _, _ => "bad-op"
  | _ => "bad-op"

/-! ### judge: the Spec evaluated on the implementation's observation -/

def fail (s : String) : String := "fail " ++ s

def orElse (a : Option String) (b : Unit → Option String) : Option String :=
  match a with | some e => some e | none => b ()

def verdict (r : Option String) : String := match r with | some e => fail e | none => "ok"

/-- several windows written with given values, everything else unchanged -/
def writesSpec (M M' : Nat) (ws : List (Nat × Nat × Nat)) : Option String :=
  -- read-back of every window
  match ws.find? (fun (lo, num, v) => bitsAt M' lo num ≠ v) with
  | some _ => some "read-back"
  | none =>
    -- frame: clear the windows in the XOR, the rest must be zero
    let x := M ^^^ M'
    let cleared := ws.foldl (fun x (lo, num, _) => x ^^^ (bitsAt x lo num <<< lo)) x
    if cleared ≠ 0 then some "frame-bits" else none

def chanWindows (pos : Nat) (widths : List Nat) (vals : List Nat) : List (Nat × Nat × Nat) :=
  (List.range widths.length).map (fun k => (pos + sumK widths k, width widths k, vals.getD k 0))

def arithExpected (N : Nat) (a : Arith) (old : Nat) (arg : Int) : Nat := (arithSpec a old arg % 2 ^ N).toNat

def expectGets (obs : String) (expected : List Nat) : Option String :=
  if commaNats obs = some expected then none else some "channel-read"

def judgeDop (W N len ptr first o argS buf bufS getS auxS : String) : String :=
  match nats [W, N, len, ptr, first], nats [getS, auxS] with
  | some [_, N, len, ptr, first], some [got, aux] =>
    let arg : Int := argS.toInt?.getD 0
    let M := memOfHex buf; let M' := memOfHex bufS
    let lo := 8 * ptr + first
    let old := bitsAt M lo N
    if bufS.length ≠ 2 * len then fail "shape" else
    if got ≠ bitsAt M' lo N then fail "get" else
    let r := match o with
      | "set" => writeSpec M M' lo N arg.toNat
      | "setr" | "setc" => match colonPair argS with
        | some (p2, f2) => writeSpec M M' lo N (bitsAt M (8 * p2 + f2) N)
        | none => some "bad-op"
      | "swp" => match colonPair argS with
        | some (p2, f2) => writesSpec M M' [(lo, N, bitsAt M (8 * p2 + f2) N), (8 * p2 + f2, N, old)]
        | none => some "bad-op"
      | "swv" => orElse (writeSpec M M' lo N arg.toNat) (fun _ => if aux ≠ old then some "swap-value" else none)
      | "get" => if M' = M then none else some "frame-bits"
      | _ => match parseArith o with
        | some a => writeSpec M M' lo N (arithExpected N a old arg)
        | none => some "bad-op"
    verdict r
  | _, _ => fail "shape"

def judge (op obs : String) : String :=
  if obs.startsWith "ub:" ∨ obs.startsWith "assert:" ∨ obs.startsWith "crash" ∨ obs.startsWith "timeout" then
    fail ("memory-safety " ++ (obs.take 60).toString) else
  match words op, words obs with
  | ["ssweep", W, F, N, c0, cnt, v0, vs], ows =>
    match nats [W, F, N, c0, cnt, v0, vs], splitBar ows with
    | some [W, F, N, c0, cnt, v0, vs], ([a], [b]) =>
      let ab := a.toUTF8; let bb := b.toUTF8; let dw := W / 4; let dn := (N + 3) / 4
      if ab.size ≠ cnt * dw ∨ bb.size ≠ cnt * dn then fail "shape" else
      verdict ((List.range cnt).foldl (fun acc i => orElse acc (fun _ =>
        let f := (c0 + i) % 2 ^ W; let v := (v0 + i * vs) % 2 ^ N
        let f' := hexSlice ab (i * dw) dw
        (orElse (writeSpec f f' F N v) (fun _ => if hexSlice bb (i * dn) dn ≠ v then some "get" else none)).map (· ++ s!" i={i}"))) none)
    | _, _ => fail "shape"
  | ["sop", W, F, N, o, argS, field, other], [bfS, otS, getS, auxS] =>
    match nats [W, F, N], nats [getS, auxS] with
    | some [W, F, N], some [got, aux] =>
      let arg : Int := argS.toInt?.getD 0
      let bf := hexNum field; let ot := hexNum other; let bf' := hexNum bfS; let ot' := hexNum otS
      let old := bitsAt bf F N
      if bfS.length ≠ W / 4 ∨ otS.length ≠ W / 4 then fail "shape" else
      if got ≠ bitsAt bf' F N then fail "get" else
      let other_same := if ot' = ot then none else some "frame-other-field"
      let r := match o with
        | "set" => orElse (writeSpec bf bf' F N arg.toNat) (fun _ => other_same)
        | "setr" | "setc" => orElse (writeSpec bf bf' F N (bitsAt ot F N)) (fun _ => other_same)
        | "setd" => orElse (writeSpec bf bf' F N (bitsAt ot arg.toNat N)) (fun _ => other_same)
        | "swp" => orElse (writeSpec bf bf' F N (bitsAt ot F N)) (fun _ => writeSpec ot ot' F N old)
        | "swv" => orElse (writeSpec bf bf' F N arg.toNat) (fun _ => orElse other_same (fun _ => if aux ≠ old then some "swap-value" else none))
        | "get" => orElse (if bf' = bf then none else some "frame-bits") (fun _ => other_same)
        | _ => match parseArith o with
          | some a => orElse (writeSpec bf bf' F N (arithExpected N a old arg)) (fun _ => other_same)
          | none => some "bad-op"
      verdict r
    | _, _ => fail "shape"
  | ["dsweep", W, N, len, ptr, first, c0, cnt, v0, vs, templ], ows =>
    match nats [W, N, len, ptr, first, c0, cnt, v0, vs], splitBar ows with
    | some [_, N, len, ptr, first, c0, cnt, v0, vs], ([a], [b]) =>
      let ab := a.toUTF8; let bb := b.toUTF8; let dn := (N + 3) / 4
      if ab.size ≠ cnt * 2 * len ∨ bb.size ≠ cnt * dn then fail "shape" else
      let M0 := memOfHex templ
      let cb := if len - ptr ≥ 2 then 2 else 1
      let lo := 8 * ptr + first
      verdict ((List.range cnt).foldl (fun acc i => orElse acc (fun _ =>
        let M := overlay M0 ptr cb (c0 + i); let v := (v0 + i * vs) % 2 ^ N
        let M' := memSlice ab (i * 2 * len) len
        (orElse (writeSpec M M' lo N v) (fun _ => if hexSlice bb (i * dn) dn ≠ v then some "get" else none)).map (· ++ s!" i={i}"))) none)
    | _, _ => fail "shape"
  | ["dop", W, N, len, ptr, first, o, argS, buf], [bufS, getS, auxS] => judgeDop W N len ptr first o argS buf bufS getS auxS
  -- channels of 24 / 32 bits in a 64-bit field (judged since fix 69c04b8)
  | ["xdop", W, N, len, ptr, first, o, argS, buf], [bufS, getS, auxS] => judgeDop W N len ptr first o argS buf bufS getS auxS
  | ["pval", N, v], [a, b, c] =>
    match N.toNat?, v.toInt?, nats [a, b, c] with
    | some N, some v, some [a, b, c] =>
      let e := (v % 2 ^ N).toNat
      if a = e ∧ b = e ∧ c = e then "ok" else fail "value-mask"
    | _, _, _ => fail "shape"
  | ["pset", _, desc, k, v, field], [fS, gS] =>
    match Desc.parse desc, nats [k, v] with
    | some d, some [k, v] =>
      let f := hexNum field; let f' := hexNum fS
      if fS.length ≠ 2 * d.fb then fail "shape" else
      verdict (orElse (writeSpec f f' (sumK d.widths k) (width d.widths k) v)
        (fun _ => expectGets gS ((List.range d.n).map (fun j => bitsAt f' (sumK d.widths j) (width d.widths j)))))
    | _, _ => fail "shape"
  | ["parith", _, desc, k, o, arg, field], [fS, gS] =>
    match Desc.parse desc, k.toNat?, parseArith o, arg.toInt? with
    | some d, some k, some a, some arg =>
      let f := hexNum field; let f' := hexNum fS
      let lo := sumK d.widths k; let n := width d.widths k
      if fS.length ≠ 2 * d.fb then fail "shape" else
      verdict (orElse (writeSpec f f' lo n (arithExpected n a (bitsAt f lo n) arg))
        (fun _ => expectGets gS ((List.range d.n).map (fun j => bitsAt f' (sumK d.widths j) (width d.widths j)))))
    | _, _, _, _ => fail "shape"
  | "pctor" :: _ :: desc :: vals, [fS, gS] =>
    match Desc.parse desc, nats vals with
    | some d, some vals =>
      let f' := hexNum fS
      if fS.length ≠ 2 * d.fb then fail "shape" else
      verdict (orElse (writesSpec 0 f' (chanWindows 0 d.widths vals)) (fun _ => expectGets gS vals))
    | _, _ => fail "shape"
  | ["passign", dn, ddesc, sn, sdesc, srcfield, field], [fS, gS, eqS] =>
    match Desc.parse ddesc, Desc.parse sdesc with
    | some d, some s =>
      let src := hexNum srcfield; let f := hexNum field; let f' := hexNum fS
      -- colour by colour: semantic channel i of dst := semantic channel i of src
      let expected := (List.range d.n).map (fun kd =>
        match (d.map.zip s.map).find? (fun (a, _) => a = kd) with
        | some (_, ks) => bitsAt src (sumK s.widths ks) (width s.widths ks)
        | none => 0)
      if fS.length ≠ 2 * d.fb then fail "shape" else
      -- same type: plain value copy of the pixel object (its padding bits belong to the value); only the channels are judged
      let frame := if dn = sn then (if (List.range d.n).all (fun k => bitsAt f' (sumK d.widths k) (width d.widths k) == expected.getD k 0) then none else some "read-back")
                   else writesSpec f f' (chanWindows 0 d.widths expected)
      verdict (orElse frame (fun _ => orElse (expectGets gS expected) (fun _ => if eqS = "eq" then none else some "assign-then-equal")))
    | _, _ => fail "shape"
  | ["bget", _, desc, _, byte, off, buf], [gS] =>
    match Desc.parse desc, nats [byte, off] with
    | some d, some [byte, off] =>
      let M := memOfHex buf; let pos := 8 * byte + off
      verdict (expectGets gS ((List.range d.n).map (fun j => bitsAt M (pos + sumK d.widths j) (width d.widths j))))
    | _, _ => fail "shape"
  | ["bset", _, desc, len, byte, off, k, v, buf], [bS, gS] =>
    match Desc.parse desc, nats [len, byte, off, k, v] with
    | some d, some [len, byte, off, k, v] =>
      let M := memOfHex buf; let M' := memOfHex bS; let pos := 8 * byte + off
      if bS.length ≠ 2 * len then fail "shape" else
      verdict (orElse (writeSpec M M' (pos + sumK d.widths k) (width d.widths k) v)
        (fun _ => expectGets gS ((List.range d.n).map (fun j => bitsAt M' (pos + sumK d.widths j) (width d.widths j)))))
    | _, _ => fail "shape"
  | ["barith", _, desc, len, byte, off, k, o, arg, buf], [bS, gS] =>
    match Desc.parse desc, nats [len, byte, off, k], parseArith o, arg.toInt? with
    | some d, some [len, byte, off, k], some a, some arg =>
      let M := memOfHex buf; let M' := memOfHex bS; let pos := 8 * byte + off
      let lo := pos + sumK d.widths k; let n := width d.widths k
      if bS.length ≠ 2 * len then fail "shape" else
      verdict (orElse (writeSpec M M' lo n (arithExpected n a (bitsAt M lo n) arg))
        (fun _ => expectGets gS ((List.range d.n).map (fun j => bitsAt M' (pos + sumK d.widths j) (width d.widths j)))))
    | _, _, _, _ => fail "shape"
  | "bassign" :: _ :: desc :: len :: byte :: off :: rest, [bS, gS, eqS] =>
    match Desc.parse desc, nats [len, byte, off], nats rest.dropLast, rest.getLast? with
    | some d, some [len, byte, off], some vals, some buf =>
      let M := memOfHex buf; let M' := memOfHex bS; let pos := 8 * byte + off
      if bS.length ≠ 2 * len then fail "shape" else
      verdict (orElse (writesSpec M M' (chanWindows pos d.widths vals))
        (fun _ => orElse (expectGets gS vals) (fun _ => if eqS = "eq" then none else some "assign-then-equal")))
    | _, _, _, _ => fail "shape"
  | ["bcopy", _, desc, len, ba, oa, bb, ob, buf], [bS, gS] =>
    match Desc.parse desc, nats [len, ba, oa, bb, ob] with
    | some d, some [len, ba, oa, bb, ob] =>
      let M := memOfHex buf; let M' := memOfHex bS; let pa := 8 * ba + oa; let pb := 8 * bb + ob
      let vb := (List.range d.n).map (fun j => bitsAt M (pb + sumK d.widths j) (width d.widths j))
      if bS.length ≠ 2 * len then fail "shape" else
      verdict (orElse (writesSpec M M' (chanWindows pa d.widths vb)) (fun _ => expectGets gS vb))
    | _, _ => fail "shape"
  | ["bswap", _, desc, len, ba, oa, bb, ob, buf], [bS, gaS, gbS] =>
    match Desc.parse desc, nats [len, ba, oa, bb, ob] with
    | some d, some [len, ba, oa, bb, ob] =>
      let M := memOfHex buf; let M' := memOfHex bS; let pa := 8 * ba + oa; let pb := 8 * bb + ob
      let va := (List.range d.n).map (fun j => bitsAt M (pa + sumK d.widths j) (width d.widths j))
      let vb := (List.range d.n).map (fun j => bitsAt M (pb + sumK d.widths j) (width d.widths j))
      if bS.length ≠ 2 * len then fail "shape" else
      verdict (orElse (writesSpec M M' (chanWindows pa d.widths vb ++ chanWindows pb d.widths va))
        (fun _ => orElse (expectGets gaS vb) (fun _ => expectGets gbS va)))
    | _, _ => fail "shape"
  | "bfill" :: _ :: desc :: len :: byte :: off :: count :: rest, [bS] =>
    match Desc.parse desc, nats [len, byte, off, count], nats rest.dropLast, rest.getLast? with
    | some d, some [len, byte, off, count], some vals, some buf =>
      let M := memOfHex buf; let M' := memOfHex bS; let pos := 8 * byte + off
      if bS.length ≠ 2 * len then fail "shape" else
      verdict (writesSpec M M' ((List.range count).flatMap (fun i => chanWindows (pos + i * d.bs) d.widths vals)))
    | _, _, _, _ => fail "shape"
  | ["bcpy", _, desc, len, sb, so, db, dof, count, buf], [bS] =>
    match Desc.parse desc, nats [len, sb, so, db, dof, count] with
    | some d, some [len, sb, so, db, dof, count] =>
      let M := memOfHex buf; let M' := memOfHex bS; let ps := 8 * sb + so; let pd := 8 * db + dof
      if bS.length ≠ 2 * len then fail "shape" else
      verdict (writesSpec M M' ((List.range count).flatMap (fun i =>
        chanWindows (pd + i * d.bs) d.widths ((List.range d.n).map (fun j => bitsAt M (ps + i * d.bs + sumK d.widths j) (width d.widths j))))))
    | _, _ => fail "shape"
  | ["iadv", _, desc, off, n], ows =>
    match Desc.parse desc, off.toInt?, n.toInt?, ints ows with
    | some d, some off, some n, some [b2, o2, b3, o3, d1, d2, bn, on, b4, o4] =>
      let bs : Int := d.bs
      if 8 * b2 + o2 ≠ off + n * bs ∨ o2 < 0 ∨ o2 ≥ 8 then fail "advance-position"
      else if b3 ≠ 0 ∨ o3 ≠ off then fail "advance-roundtrip"
      else if d1 ≠ n ∨ d2 ≠ -n then fail "distance"
      else if bn ≠ b2 ∨ on ≠ o2 ∨ b4 ≠ b2 ∨ o4 ≠ o2 then fail "advance-position"
      else "ok"
    | _, _, _, _ => fail "shape"
  | ["iinc", _, desc, off, k], ows =>
    match Desc.parse desc, off.toInt?, k.toInt?, ints ows with
    | some d, some off, some k, some [b1, o1, b2, o2] =>
      let bs : Int := d.bs
      if 8 * b1 + o1 ≠ off + k * bs ∨ o1 < 0 ∨ o1 ≥ 8 then fail "increment-position"
      else if b2 ≠ 0 ∨ o2 ≠ off then fail "decrement-roundtrip"
      else "ok"
    | _, _, _, _ => fail "shape"
  | _, _ => fail ("shape:" ++ (obs.take 40).toString)

def main (args : List String) : IO UInt32 := Driver.main' model judge args
