/-
  Line protocol shared by all model drivers:
    drv_Cxx model   reads op lines,              prints the model's observation for each
    drv_Cxx judge   reads `op<TAB>observation`,  prints `ok` or `fail <spec clause>` for each
-/
namespace Driver

def words (s : String) : List String :=
  (s.splitOn " ").filter (fun w => w ≠ "")

def stripNl (s : String) : String :=
  let s := if s.endsWith "\n" then (s.dropEnd 1).toString else s
  if s.endsWith "\r" then (s.dropEnd 1).toString else s

def ints (ws : List String) : Option (List Int) := ws.mapM String.toInt?

def showInts (xs : List Int) : String := " ".intercalate (xs.map toString)

partial def loop (hin hout : IO.FS.Stream) (f : String → String) : IO Unit := do
  let line ← hin.getLine
  if line.isEmpty then return ()
  hout.putStrLn (f (stripNl line))
  loop hin hout f

/-- split `op<TAB>obs` -/
def splitJudge (line : String) : String × String :=
  match line.splitOn "\t" with
  | [a, b] => (a, b)
  | a :: rest => (a, "\t".intercalate rest)
  | [] => ("", "")

def main' (model : String → String) (judge : String → String → String) (args : List String) : IO UInt32 := do
  let hin ← IO.getStdin
  let hout ← IO.getStdout
  match args with
  | ["model"] => loop hin hout model; hout.flush; return 0
  | ["judge"] => loop hin hout (fun l => let (o, r) := splitJudge l; judge o r); hout.flush; return 0
  | _ => IO.eprintln "usage: drv model|judge"; return 2

end Driver
