import Driver.Common
import GilVerif.Model.C18
open Driver GilVerif.Model.C18 GilVerif.Gen.C18

def splitBars (ws : List String) : List (List String) :=
  let rec go (ws : List String) (cur : List String) (acc : List (List String)) : List (List String) :=
    match ws with
    | [] => (cur.reverse :: acc).reverse
    | "|" :: rest => go rest [] (cur.reverse :: acc)
    | w :: rest => go rest (w :: cur) acc
  go ws [] []

@[inline] def hadd (h : UInt64) (v : Int) : UInt64 := h * 1099511628211 + v.toNat.toUInt64
def h0 : UInt64 := 1469598103934665603

def modelled (sp : String) : Bool := sp == "hsv" || sp == "hsl" || sp == "ycbcr601" || sp == "ycbcr709" || sp == "cmyka"

/-- tolerance of the round trip in 8-bit levels: exact for hsv, hsl, xyz; one level for lab and cmyka; three for ycbcr -/
def tol (sp : String) : Nat :=
  if sp == "hsv" || sp == "hsl" || sp == "xyz" then 0 else if sp == "ycbcr601" || sp == "ycbcr709" then 3 else 1

/-- one pixel through a modelled space: (intermediate channels, converted back) -/
def viaSpace (sp : String) (r g b : Int) : List Int × List Int :=
  if sp == "hsv" then
    let (h, s, v) := rgbToHsv r g b; let (x, y, z) := hsvToRgb h s v; ([bitsOf h, bitsOf s, bitsOf v], [x, y, z])
  else if sp == "hsl" then
    let (h, s, l) := rgbToHsl r g b; let (x, y, z) := hslToRgb h s l; ([bitsOf h, bitsOf s, bitsOf l], [x, y, z])
  else if sp == "ycbcr601" then
    let (y, cb, cr) := rgbToYcbcr601 r g b; let (x, y2, z) := ycbcr601ToRgb y cb cr; ([y, cb, cr], [x, y2, z])
  else if sp == "ycbcr709" then
    let (y, cb, cr) := rgbToYcbcr709 r g b; let (x, y2, z) := ycbcr709ToRgb y cb cr; ([y, cb, cr], [x, y2, z])
  else
    let (c, m, y, k) := rgbToCmyk8 r g b; ([c, m, y, k, 255], cmykaToRgba8 c m y k 255)

def ratToFloat (q : Rat) : Float := Float.ofInt q.num / Float.ofNat q.den

/-- tie of the exact-rational twin `rgbToHsvQ` (the theorems' model) to the implementation: the float32 hue, saturation,
    value the real code produced are the exact-arithmetic values up to float32 rounding (1e-5) -/
def hsvMatchesExact (orig mid : List Int) : Bool :=
  let q (i : Nat) : Rat := (orig.getD i 0 : Int) / 255
  let (h, s, v) := rgbToHsvQ (q 0) (q 1) (q 2)
  let close (x : Rat) (bits : Int) : Bool := Float.abs (ratToFloat x - (f32 bits).toFloat) ≤ 1.0e-5
  close h (mid.getD 0 0) && close s (mid.getD 1 0) && close v (mid.getD 2 0)

/-- the same tie for the exact-rational twin `rgbToHslQ` (largest deviation over all 2^24 pixels: hue 3.4e-7, saturation 5.1e-6, lightness 6e-8) -/
def hslMatchesExact (orig mid : List Int) : Bool :=
  let q (i : Nat) : Rat := (orig.getD i 0 : Int) / 255
  let (h, s, l) := rgbToHslQ (q 0) (q 1) (q 2)
  let close (x : Rat) (bits : Int) : Bool := Float.abs (ratToFloat x - (f32 bits).toFloat) ≤ 1.0e-5
  close h (mid.getD 0 0) && close s (mid.getD 1 0) && close l (mid.getD 2 0)

/-- tie of the integer relations the theorems of Props/C18Ycbcr.lean quantify over (`ycbcr601Rel`, `ycbcr709Rel`, `ycbcr709BackRel`) to the
    implementation: the y, cb, cr the real code produced (and, for ycbcr_709, the r, g, b it returned) are truncations of the exact
    values of its decimal formulas -/
def ycbcrMatchesExact (sp : String) (orig mid back : List Int) : Bool :=
  let o (i : Nat) : Int := orig.getD i 0
  let m (i : Nat) : Int := mid.getD i 0
  let k (i : Nat) : Int := back.getD i 0
  if sp == "ycbcr601" then ycbcr601Rel (o 0) (o 1) (o 2) (m 0) (m 1) (m 2)
  else if sp == "ycbcr709" then ycbcr709Rel (o 0) (o 1) (o 2) (m 0) (m 1) (m 2) && ycbcr709BackRel (m 0) (m 1) (m 2) (k 0) (k 1) (k 2)
  else true

/-- Spec clauses for one pixel: intermediate range (hsv/hsl) and round trip within the tolerance -/
def pxSpec (sp : String) (orig mid back : List Int) : Option String :=
  let rangeBad : Option String :=
    if sp == "hsv" || sp == "hsl" then
      let xs := mid.map f32
      if xs.all inUnit then none
      else
        -- name the one pattern that is a known finding precisely: only the saturation is out of range, above 1 by at most 2^-15
        -- (float32 rounding of diff / (2 - sum); the worst rgb8 pixel gives 1 + 2^-16)
        let s := (xs.getD 1 0).toFloat
        if inUnit (xs.getD 0 0) && inUnit (xs.getD 2 0) && s > 1.0 && s ≤ 1.0 + 3.0517578125e-5 then some "saturation-above-one-by-rounding"
        else some "intermediate-range"
    else if sp == "cmyka" then (if back.getD 3 0 ≠ 255 then some "alpha" else none)
    else none
  match rangeBad with
  | some e => some e
  | none =>
    let d := ((back.take 3).zip orig).foldl (fun m (x, o) => max m (x - o).natAbs) 0
    if back.length < 3 then some "shape"
    else if sp == "hsv" && !hsvMatchesExact orig mid then some "hsv-differs-from-exact-arithmetic"
    else if sp == "hsl" && !hslMatchesExact orig mid then some "hsl-differs-from-exact-arithmetic"
    else if !ycbcrMatchesExact sp orig mid back then some "ycbcr-differs-from-exact-arithmetic"
    else if d > tol sp then some (if tol sp = 0 then "round-trip-exact" else "round-trip-tolerance") else none

/-- a whole plane of a modelled space: max diff, number of pixels failing a range clause, hash; plus first Spec failure -/
def sweep (sp : String) (r : Int) : Nat × Nat × UInt64 × Option String :=
  (List.range 256).foldl (fun acc (g : Nat) => (List.range 256).foldl (fun (md, nr, h, first) (b : Nat) =>
      let gi : Int := g; let bi : Int := b
      let (mid, back) := viaSpace sp r gi bi
      let h := if sp == "cmyka" then back.foldl hadd (mid.foldl hadd h)
               else ((mid.zip back).foldl (fun h (m, x) => hadd (hadd h m) x) h)
      let d := ((back.take 3).zip [r, gi, bi]).foldl (fun m (x, o) => max m (x - o).natAbs) 0
      let e := pxSpec sp [r, gi, bi] mid back
      let rangeFail := match e with
        | some "saturation-above-one-by-rounding" => true | some "intermediate-range" => true | some "alpha" => true | _ => false
      (max md d, (if rangeFail then nr + 1 else nr), h, first.orElse fun _ => e)) acc)
    (0, 0, h0, none)

def parseDepth : String → Option Depth
  | "8" => some .d8 | "16" => some .d16 | "32f" => some .d32f | _ => none

def showF64Bits (x : Float) : String := toString x.toBits.toNat

def model (line : String) : String :=
  match words line with
  | ["px", sp, r, g, b] =>
    match ints [r, g, b] with
    | some [r, g, b] =>
      if !modelled sp then "unmodelled" else
      let (mid, back) := viaSpace sp r g b
      showInts mid ++ " | " ++ showInts back
    | _ => "bad-op"
  | ["rt", sp, r] =>
    match ints [r] with
    | some [r] =>
      if !modelled sp then "unmodelled" else
      let (md, nr, h, _) := sweep sp r
      s!"{md} {nr} {h.toNat}"
    | _ => "bad-op"
  | ["hsv2rgb", h, s, v] =>
    match ints [h, s, v] with
    | some [h, s, v] => let (x, y, z) := hsvToRgb (f32 h) (f32 s) (f32 v); showInts [x, y, z]
    | _ => "bad-op"
  | ["hsl2rgb", h, s, l] =>
    match ints [h, s, l] with
    | some [h, s, l] => let (x, y, z) := hslToRgb (f32 h) (f32 s) (f32 l); showInts [x, y, z]
    | _ => "bad-op"
  | ["hueper", sp, s, v] =>
    match ints [s, v] with
    | some [s, v] =>
      let f := if sp == "hsv" then hsvToRgb else hslToRgb
      let (a, b, c) := f 0 (f32 s) (f32 v); let (x, y, z) := f 1 (f32 s) (f32 v)
      showInts [a, b, c] ++ " | " ++ showInts [x, y, z]
    | _ => "bad-op"
  | ["ga", g, a] =>
    match ints [g, a] with
    | some [g, a] => showInts (grayAlphaToRgba8 g a) ++ " | " ++ showInts (grayAlphaToRgb8 g a) ++ " | " ++ showInts [mul8 g a] ++ " | " ++ showInts (grayToRgba8 g)
    | _ => "bad-op"
  | ["gax", sd, td, g, a] =>
    match parseDepth sd, parseDepth td, ints [g, a] with
    | some s, some t, some [g, a] =>
      showInts (grayAlphaToRgba s t g a) ++ " | " ++ showInts (grayAlphaToRgb s t g a) ++ " | " ++ showInts ((grayAlphaToRgb s t g a).take 1)
        ++ " | " ++ showInts (grayToRgba s t g)
    | _, _, _ => "bad-op"
  | ["lumd", r, g, b] =>
    match ints [r, g, b] with
    | some [r, g, b] => showF64Bits (lumDouble r g b) ++ " " ++ toString (lum8 r g b)
    | _ => "bad-op"
  | _ => "bad-op"

def judge (op obs : String) : String :=
  let fail (s : String) := "fail " ++ s
  match words op with
  | ["px", sp, r, g, b] =>
    match ints [r, g, b], splitBars (words obs) with
    | some orig, [m, bk] =>
      match ints m, ints bk with
      | some mid, some back => match pxSpec sp orig mid back with | some e => fail e | none => "ok"
      | _, _ => fail ("not-a-value:" ++ (obs.take 40).toString)
    | _, _ => fail ("not-a-value:" ++ (obs.take 40).toString)
  | ["rt", sp, r] =>
    match ints [r], ints (words obs) with
    | some [r], some [md, nr, h] =>
      if modelled sp then
        -- recompute the plane in Lean, evaluate the Spec on every pixel, accept the implementation's plane by hash equality
        let (_, _, hm, first) := sweep sp r
        if hm.toNat ≠ h.toNat then
          -- the implementation's plane is not the model's plane: that is a model/code difference, which the
          -- correspondence reports (the model prints the hash too); it is not by itself a failure of the property.
          -- The per-pixel Spec results of the sweep belong to the MODEL's plane, so only the aggregates the
          -- implementation measured on its own plane are judged here (`px` ops judge its individual pixels).
          if md.toNat > tol sp ∨ nr ≠ 0 then fail "plane-aggregate" else "ok"
        else
        match first with
        | some e => fail e
        | none => if md.toNat > tol sp ∨ nr ≠ 0 then fail "plane-aggregate" else "ok"
      else
        if nr ≠ 0 then fail "intermediate-range"
        else if md.toNat > tol sp then fail (if tol sp = 0 then "round-trip-exact" else "round-trip-tolerance") else "ok"
    | _, _ => fail ("not-a-value:" ++ (obs.take 40).toString)
  | [cmd, _, s, v] =>
    if cmd == "hsv2rgb" || cmd == "hsl2rgb" then
      match ints [s, v], ints (words obs) with
      | some [s, v], some [x, y, z] =>
        if !(0 ≤ x ∧ x ≤ 255 ∧ 0 ≤ y ∧ y ≤ 255 ∧ 0 ≤ z ∧ z ≤ 255) then fail "range"
        else if (f32 s).toFloat == 0 ∧ ¬ (x = y ∧ y = z ∧ x = toU8 (f32 v)) then fail "grey-ignores-hue"
        else "ok"
      | _, _ => fail ("not-a-value:" ++ (obs.take 40).toString)
    else if cmd == "hueper" then
      match splitBars (words obs) with
      | [a, b] => if a == b ∧ a.length = 3 then "ok" else fail "hue-periodic"
      | _ => fail ("not-a-value:" ++ (obs.take 40).toString)
    else if cmd == "lumd" then
      match ints (words op |>.drop 1), ints (words obs) with
      | some [r, g, b], some [bits, y8] =>
        let y := Float.ofBits bits.toNat.toUInt64
        let w := (0.30 * Float.ofInt r + 0.59 * Float.ofInt g + 0.11 * Float.ofInt b) / 255.0
        if Float.abs (y - w) > 1.0e-12 then fail "luminance-weights"
        else if Float.abs (y * 255.0 - Float.ofInt y8) > 1.0 then fail "luminance-agrees-with-core"
        else "ok"
      | _, _ => fail ("not-a-value:" ++ (obs.take 40).toString)
    else fail "bad-op"
  | ["gax", sd, td, g, a] =>
    match parseDepth sd, parseDepth td, ints [g, a], (splitBars (words obs)).map ints with
    | some s, some t, some [g, a], [some o1, some o2, some o3, some o4] =>
      let same3 (o : List Int) : Bool := o.getD 0 0 == o.getD 1 0 && o.getD 1 0 == o.getD 2 0
      -- premultiplied grey: within one source unit plus one destination unit of g*a
      let premOk (v : Int) : Bool := inRangeD t v && Float.abs (unitD t v - unitD s g * unitD s a) ≤ stepD s + stepD t + 1.0e-9
      if o1.length ≠ 4 ∨ o2.length ≠ 3 ∨ o3.length ≠ 1 ∨ o4.length ≠ 4 then fail "shape"
      else if !(same3 o1 && convOk s t g (o1.getD 0 0)) then fail "gray-alpha-to-rgba-gray"
      else if !(convOk s t a (o1.getD 3 0)) then fail "gray-alpha-to-rgba-alpha-carried-over"
      else if !(same3 o4 && convOk s t g (o4.getD 0 0) && o4.getD 3 0 == t.maxV) then fail "gray-to-rgba"
      else if !(same3 o2 && premOk (o2.getD 0 0) && premOk (o3.getD 0 0)) then fail "gray-alpha-premultiplied"
      else "ok"
    | _, _, _, _ => fail ("not-a-value:" ++ (obs.take 40).toString)
  | ["ga", g, a] =>
    match ints [g, a], (splitBars (words obs)).map ints with
    | some [g, a], [some o1, some o2, some o3, some o4] =>
      if o1 ≠ [g, g, g, a] then fail "gray-alpha-to-rgba"
      else if o4 ≠ [g, g, g, 255] then fail "gray-to-rgba"
      else if !(o2.length = 3 ∧ o3.length = 1 ∧ (o2 ++ o3).all (fun v => (255 * v - g * a).natAbs ≤ 255)) then fail "gray-alpha-premultiplied"
      else "ok"
    | _, _ => fail ("not-a-value:" ++ (obs.take 40).toString)
  | _ => fail "bad-op"

def main (args : List String) : IO UInt32 := Driver.main' model judge args
