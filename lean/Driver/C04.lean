import Driver.Common
import GilVerif.Model.C04
open Driver GilVerif.Model.C04

/-! driver for C04: `model` runs the Impl model (the dispatch / chunk structure of algorithm.hpp) on the views the harness builds;
    `judge` evaluates the Spec (the obvious per-pixel loops, written directly on the value lists) on the implementation's observation. -/

/-- memory units per pixel step and number of pixel values of an organisation -/
def orgInfo : String → Option (Nat × Nat)
  | "rgb8" => some (3, 16777216) | "rgb8p" => some (1, 16777216) | "rgb565" => some (2, 65536)
  | "gray1" => some (1, 2) | "gray4" => some (4, 16) | "rgb222" => some (6, 64) | "rgb32f" => some (12, 512)
  | "gray8" => some (1, 256) | "bgr8" => some (3, 16777216)
  | _ => none

def isBits (org : String) : Bool := org == "gray1" || org == "gray4" || org == "rgb222"

/-- source and destination organisation of the `org` field (`a>b` for cross organisation pairs) -/
def orgPair (s : String) : String × String :=
  match s.splitOn ">" with
  | [a, b] => (a, b)
  | _ => (s, s)

/-- the view of kind `kind` with parameter `o` over an underlying image with row padding `pad`, based at `B` (memory units) -/
def mkView (org kind : String) (u w h o pad : Nat) (B : Int) : Option View :=
  let bitoff : Nat := if isBits org then (o / 9) % 8 else 0
  let b0 : Int := B + bitoff
  match kind with
  | "full" => some ⟨b0, u, (w * u + pad : Nat), w, h⟩
  | "sub" =>
    let ox := o % 3; let oy := (o / 3) % 3
    let R := (w + ox + 1) * u + pad
    some ⟨b0 + (oy * R + ox * u : Nat), u, R, w, h⟩
  | "xstep" =>
    let W0 := if w = 0 then 0 else 2 * w - o % 2
    some ⟨b0, 2 * u, (W0 * u + pad : Nat), w, h⟩
  | "trans" => some ⟨b0, (h * u + pad : Nat), u, w, h⟩
  | "flipx" => some ⟨b0 + ((w : Int) - 1) * u, -(u : Int), (w * u + pad : Nat), w, h⟩
  | "flipy" => some ⟨b0 + ((h : Int) - 1) * ((w * u + pad : Nat) : Int), u, -((w * u + pad : Nat) : Int), w, h⟩
  | _ => none

structure Op where
  alg : String
  sorg : String
  dorg : String
  s : View
  s2 : View
  d : View
  arg : Nat
  range : Nat
  sv : List Nat
  dv : List Nat
  s2v : List Nat
  sk : String
  dk : String
  pf : Nat

def parseOp (line : String) : Option Op :=
  match line.splitOn "|" with
  | hd :: svs :: dvs :: rest =>
    match words hd with
    | [alg, org, sk, dk, w, h, so, dof, spad, dpad, arg, pf] =>
      let (sorg, dorg) := orgPair org
      match orgInfo sorg, orgInfo dorg, [w, h, so, dof, spad, dpad, arg].mapM String.toNat?, (words svs).mapM String.toNat?, (words dvs).mapM String.toNat? with
      | some (su, _), some (du, dr), some [w, h, so, dof, spad, dpad, arg], some sv, some dv =>
        -- second source of tr2: same C++ view type, other traversability class (mirrors s2kind / s2o of the harness)
        let s2k := match sk with | "full" => "sub" | "sub" => "full" | "flipy" => "full" | "xstep" => "flipx" | "flipx" => "xstep" | k => k
        let bit := 9 * ((so / 9) % 8)
        let s2o := match sk with | "full" => 4 + bit | "flipx" => 1 + bit | _ => bit
        match mkView sorg sk su w h so spad 0, mkView sorg s2k su w h s2o spad 2000000, mkView dorg dk du w h dof dpad 1000000 with
        | some s, some s2, some d =>
          let s2v := match rest with | x :: _ => ((words x).mapM String.toNat?).getD [] | [] => []
          if alg == "copyov" then
            -- source and destination are views of ONE underlying image (see harness): sk = "full": W0 = w, no padding, views = whole rows
            -- [sy, sy+h) / [dy, dy+h) (1-D traversable); otherwise W0 = w + 2, sub-views at (sx, sy) / (dx, dy), then flipped as sk / dk say
            let oned := sk == "full"
            let W0 := if oned then w else w + 2
            let H0 := h + 2
            let R : Nat := W0 * su + (if oned then 0 else spad)
            let bitoff : Nat := if isBits sorg then (so / 9) % 8 else 0
            let sx := if oned then 0 else arg % 3
            let sy := arg / 3 % 3
            let dx := if oned then 0 else arg / 9 % 3
            let dy := arg / 27 % 3
            let mk (k : String) (x y : Nat) : View :=
              let b : Int := (bitoff + y * R + x * su : Nat)
              if k == "flipx" then ⟨b + ((w : Int) - 1) * su, -(su : Int), R, w, h⟩
              else if k == "flipy" then ⟨b + ((h : Int) - 1) * R, su, -(R : Int), w, h⟩
              else ⟨b, su, R, w, h⟩
            let under : View := ⟨bitoff, su, R, W0, H0⟩
            if sv.length = W0 * H0 then some ⟨alg, sorg, dorg, mk sk sx sy, under, mk dk dx dy, arg, dr, sv, dv, [], sk, dk, pf.toNat?.getD 0⟩ else none
          else
          if alg == "imgeq" then
            -- two images: rows padded to the alignment (so / dof are the alignments), second image is (w + arg) wide
            let rowU (uu ww al : Nat) (org : String) : Nat := let A := al * (if isBits org then 8 else 1); if al = 0 then ww * uu else ((ww * uu + A - 1) / A) * A
            -- image(w, h, alignment): allocate_ returns before setting _view when no byte is needed (w*h = 0 and alignment <= 1), the image then
            -- reports 0x0 (finding C10-copy-of-wx0-image); flag bit 1 of pf: the tree keeps the requested dimensions (source-selected variant)
            let keep := (pf.toNat?.getD 0) / 2 % 2 == 1
            let dimsOf (ww hh al : Nat) : Nat × Nat := if ww * hh = 0 ∧ al ≤ 1 ∧ !keep then (0, 0) else (ww, hh)
            let (w1, h1) := dimsOf w h so
            let (rw2, rh2) := if arg = 2 then (h, w) else (w + arg, h)       -- requested dimensions of image 2
            let (w2, h2) := dimsOf rw2 rh2 dof
            let a : View := ⟨0, su, rowU su w so sorg, w1, h1⟩
            let b : View := ⟨1000000, du, rowU du rw2 dof dorg, w2, h2⟩
            if sv.length = w * h ∧ dv.length = rw2 * rh2 then some ⟨alg, sorg, dorg, a, s2, b, arg, dr, sv, dv, s2v, sk, dk, pf.toNat?.getD 0⟩ else none
          else
          if sv.length = w * h ∧ dv.length = w * h then some ⟨alg, sorg, dorg, s, s2, d, arg, dr, sv, dv, s2v, sk, dk, pf.toNat?.getD 0⟩ else none
        | _, _, _ => none
      | _, _, _, _, _ => none
    | _ => none
  | _ => none

/-- memory holding the given values at the pixels of the views -/
def memOf (l : List (View × List Nat)) : Mem :=
  ⟨l.flatMap (fun p => (specAddrs p.1).zip p.2)⟩

/-- pixel equality of an organisation on encoded values: rgb32f compares three floats from the table
    [0.0, -0.0, 0.25, 0.5, 1.0, 0.75, 0.125, NaN] with IEEE ==; everything else compares the integers -/
def pixEq (org : String) (a b : Nat) : Bool :=
  if org == "rgb32f" then
    let ch (i j : Nat) : Bool := (i == j && i != 7) || (i ≤ 1 && j ≤ 1)
    ch (a % 8) (b % 8) && ch (a / 8 % 8) (b / 8 % 8) && ch (a / 64 % 8) (b / 64 % 8)
  else a == b

/-- do both x-iterators of a copy move blocks?  raw pointers to pixel<T,CS> (the std::copy overload -> memmove of the bytes), planar pointer
    iterators (the overload per plane), raw pointers to a trivially copyable packed pixel (libstdc++'s memmove); flipped left-right /
    subsampled / transposed views have step iterators, bit-aligned views have bit iterators: the forward element loop -/
def ptrKind (k : String) : Bool := k == "full" || k == "sub" || k == "flipy"
/-- whole-view run (both 1-D traversable): `copier_n<I,O>` -> std::copy with GIL's overloads (memmove for pixel<T,CS>*, per plane for planar
    pointers, libstdc++'s memmove for packed pixels); flag bit 3 of the op line = observed on a probe op of this organisation.  Step iterators
    and bit-aligned iterators are element loops. -/
def blockMove1d (pf : Nat) (sk dk : String) : Bool := pf / 8 % 2 == 1 && ptrKind sk && ptrKind dk
/-- row runs go through detail::copy_n (utilities.hpp), whose qualified std::copy does not see GIL's overloads: only libstdc++'s memmove for
    trivially copyable pixels (packed_pixel) is a block move; flag bit 4 = observed on a probe op of this organisation -/
def blockMoveRow (pf : Nat) (sk dk : String) : Bool := pf / 16 % 2 == 1 && ptrKind sk && ptrKind dk

/-- NoHazard of Props/C04, decided on the op's views -/
def noHazard (s d : View) : Bool :=
  let n := d.w * d.h
  (List.range n).all (fun j => (List.range j).all (fun i => d.at2d i != s.at2d j))

def grayToRgb (v : Nat) : Nat := v + 256 * v + 65536 * v

def showVals (m : Mem) (d : View) : String := String.join ((specAddrs d).map (fun a => " " ++ toString (m.get a)))

def model (line : String) : String :=
  match parseOp line with
  | none => "bad-op"
  | some o =>
    let m0 := memOf [(o.s, o.sv), (o.d, o.dv), (o.s2, o.s2v)]
    let R := o.range
    let fin (extra : String) (m : Mem) := "frame=ok" ++ extra ++ " ;" ++ showVals m o.d
    match o.alg with
    | "copyov" =>
      let mu := memOf [(o.s2, o.sv)]
      "frame=ok ;" ++ showVals (implCopyOv (blockMove1d o.pf o.sk o.dk) (blockMoveRow o.pf o.sk o.dk) mu o.s o.d) o.s2
    | "ufill" => fin "" (implUninitFill m0 o.d o.arg)
    | "ucopy" => fin "" (implUninitCopy (isBits o.dorg && !(ptrKind o.sk && ptrKind o.dk) && o.pf / 4 % 2 == 0) m0 o.s o.d)
    | "dcons" =>
      -- pixel<T,CS> / packed_pixel are not trivially default constructible for GIL's trait: `new (p) value_t()` value-initialises (zero)
      -- through raw-pointer x-iterators (per plane for planar); step / bit-aligned iterators: default_construct_range is empty
      fin "" (implDefaultConstruct (isBits o.dorg || !ptrKind o.dk) m0 o.d 0)
    | "destruct" => fin "" (implDefaultConstruct true m0 o.d 0)      -- trivially destructible pixels
    | "copy" => fin "" (implCopy m0 o.s o.d)
    | "cconv" => fin "" (implConvertCopy m0 o.s o.d (o.sorg != "gray8") grayToRgb)
    | "fill" | "fillx" =>
      -- fill_pixels dispatches planar views to static_for_each over the x iterators; for step iterators (subsampled /
      -- transposed planar views) that does not compile (observed by the compile probe, flag bit 0)
      if o.dorg == "rgb8p" && (o.dk == "xstep" || o.dk == "trans" || o.dk == "flipx") && o.pf % 2 == 0 then "err:no-compile"
      else fin "" (implFill m0 o.d o.arg)
    | "equal" => fin (if implEqual m0 o.s o.d (pixEq o.dorg) then " eq=1" else " eq=0") m0
    | "imgeq" => let e := implImageEq m0 o.s o.d (pixEq o.dorg); fin (if e then " eq=1 ne=0" else " eq=0 ne=1") m0
    | "foreach" | "foreachpos" =>
      -- for_each_pixel(_position): the functor sees the pixels in the traversal order of the code and adds `arg`
      let order := if o.alg == "foreach" then implFillAddrs o.d else implPosAddrs o.d      -- foreachpos: the walking locator
      let (m, log) := order.foldl (fun (acc : Mem × List Nat) a => (acc.1.set a ((acc.1.get a + o.arg) % R), acc.1.get a :: acc.2)) (m0, [])
      fin (" log=" ++ ",".intercalate (log.reverse.map toString)) m
    | "generate" | "genx" => fin "" (implGenerate m0 o.d (fun k => (o.arg + k) % R))
    | "tr1" | "tr1x" => fin "" (implTransform m0 o.s o.d (fun v => (v * 3 + o.arg) % R))
    | "trpos" => fin "" (implTransformPos m0 o.s o.d (fun v => (v * 3 + o.arg) % R))
    | "tr2" => fin "" (implTransform2 m0 o.s o.s2 o.d (fun p q => (p + 2 * q + o.arg) % R))
    | _ => "bad-op"

/-! ### judge: the obvious loops on the value lists -/

def judge (line obs : String) : String :=
  match parseOp line with
  | none => "fail bad-op"
  | some o =>
    if obs.trimAscii.toString == "err:no-compile" then "fail compiles" else
    match obs.splitOn ";" with
    | [hd, vals] =>
      let hw := words hd
      match (words vals).mapM String.toNat? with
      | none => "fail not-a-value:" ++ (obs.take 60).toString
      | some got =>
        let R := o.range
        let frame := hw.find? (fun x => x.startsWith "frame=")
        let eqObs := hw.find? (fun x => x.startsWith "eq=")
        let neObs := hw.find? (fun x => x.startsWith "ne=")
        let logObs := (hw.find? (fun x => x.startsWith "log=")).map (fun x => ((x.drop 4).toString.splitOn ",").filter (· ≠ ""))
        let n := o.d.w * o.d.h
        if o.alg == "copyov" then
          -- Spec: the per-pixel loop, demanded when the forward loop is well defined on the ORIGINAL source (no destination pixel written
          -- earlier is read later: std::copy's precondition); nothing outside the destination view changes in any case
          if frame ≠ some "frame=ok" then "fail nothing-else-modified:" ++ (frame.getD "?")
          else if noHazard o.s o.d then
            let mu := memOf [(o.s2, o.sv)]
            let want := (specAddrs o.s2).map (specCopy mu o.s o.d).get
            if got ≠ want then "fail equals-per-pixel-loop" else "ok"
          else
            let outside := ((specAddrs o.s2).zip (o.sv.zip got)).all (fun p => (specAddrs o.d).contains p.1 || p.2.1 == p.2.2)
            if outside then "ok" else "fail nothing-else-modified:pixel"
        else
        let expect : Option (List Nat × Option Bool × Option (List Nat)) :=
          match o.alg with
          | "copy" => some (o.sv, none, none)
          | "cconv" => some (if o.sorg == "gray8" then o.sv.map grayToRgb else o.sv, none, none)
          | "fill" | "fillx" | "ufill" => some (List.replicate n o.arg, none, none)
          | "ucopy" => some (o.sv, none, none)
          | "dcons" | "destruct" => some (got, none, none)     -- trivially constructible / destructible pixels: only the frame is demanded
          | "equal" => some (o.dv, some ((o.sv.zip o.dv).all (fun p => pixEq o.dorg p.1 p.2)), none)
          | "imgeq" =>
            -- equal iff same dimensions and all pixels equal; arg = 2 requests h x w for image 2 (equal dimensions only for square images)
            let sameDims := o.arg == 0 || (o.arg == 2 && o.s.w == o.s.h)
            some (o.dv, some (sameDims && (o.sv.zip o.dv).all (fun p => pixEq o.dorg p.1 p.2)), none)
          | "foreach" | "foreachpos" => some (o.dv.map (fun v => (v + o.arg) % R), none, some o.dv)
          | "generate" | "genx" => some ((List.range n).map (fun k => (o.arg + k) % R), none, none)
          | "tr1" | "trpos" | "tr1x" => some (o.sv.map (fun v => (v * 3 + o.arg) % R), none, none)
          | "tr2" => some ((o.sv.zip o.s2v).map (fun p => (p.1 + 2 * p.2 + o.arg) % R), none, none)
          | _ => none
        match expect with
        | none => "fail bad-op"
        | some (vals, eq, log) =>
          if frame ≠ some "frame=ok" then "fail nothing-else-modified:" ++ (frame.getD "?")
          else if hw.any (fun x => x.startsWith "srcframe") then "fail source-unmodified"
          else if got ≠ vals then "fail equals-per-pixel-loop"
          else if eq.isSome ∧ eqObs ≠ eq.map (fun b => if b then "eq=1" else "eq=0") then "fail equal-iff-all-pixels-equal"
          else if o.alg == "imgeq" ∧ (neObs ≠ eq.map (fun b => if b then "ne=0" else "ne=1") ∨ hw.any (fun x => x.startsWith "self=")) then "fail image-inequality-is-negation"
          else if log.isSome ∧ logObs ≠ log.map (fun l => l.map toString) then "fail row-major-call-order"
          else "ok"
    | _ => "fail not-an-observation:" ++ (obs.take 60).toString

def main (args : List String) : IO UInt32 := Driver.main' model judge args
