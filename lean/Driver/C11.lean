import Driver.Common
import GilVerif.Model.C11
open Driver GilVerif.Model.C11

/-
  op line:   <fmt> <entry> <dev> <dst> <x0> <y0> <dw> <dh> <vw> <vh> <hex bytes | ->
  (see harness/C11/main.cpp for the observation format)
-/

def hexVal (c : Char) : Option Nat :=
  if '0' ≤ c ∧ c ≤ '9' then some (c.toNat - '0'.toNat)
  else if 'a' ≤ c ∧ c ≤ 'f' then some (c.toNat - 'a'.toNat + 10)
  else if 'A' ≤ c ∧ c ≤ 'F' then some (c.toNat - 'A'.toNat + 10)
  else none

def unhex (s : String) : Option (List UInt8) :=
  if s == "-" then some [] else
  let rec go : List Char → List UInt8 → Option (List UInt8)
    | [], acc => some acc.reverse
    | a :: b :: rest, acc =>
      match hexVal a, hexVal b with
      | some x, some y => go rest (UInt8.ofNat (x * 16 + y) :: acc)
      | _, _ => none
    | _, _ => none
  go s.toList []

def fnv (xs : List Nat) (fill : Nat) : UInt64 :=
  xs.foldl (fun h b => (h ^^^ (UInt64.ofNat (if b > 255 then fill else b))) * 1099511628211) 14695981039346656037

def hex64 (v : UInt64) : String :=
  let ds := (Nat.toDigits 16 v.toNat)
  String.ofList (List.replicate (16 - ds.length) '0' ++ ds)

structure Op where
  fmt : Fmt
  fmtName : String
  dev : Dev
  st : Settings
  bytes : List UInt8

def parseOp (line : String) : Option Op :=
  match words line with
  | [fmt, entry, dev, dst, x0, y0, dw, dh, vw, vh, hex] =>
    let f? : Option Fmt := match fmt with | "bmp" => some .bmp | "pnm" => some .pnm | "tga" => some .tga | _ => none
    let e? : Option Entry := match entry with
      | "info" => some .info | "image" => some .image | "view" => some .view | "conv" => some .conv | "scan" => some .scan | _ => none
    let d? : Option Dev := match dev with | "name" => some .file | "file" => some .file | "stream" => some .stream | "sstream" => some .sstream | _ => none
    let t? : Option Dst := match dst with
      | "rgb8" => some .rgb8 | "rgba8" => some .rgba8 | "gray8" => some .gray8 | "gray1" => some .gray1 | "-" => some .none | _ => none
    match f?, e?, d?, t?, ints [x0, y0, dw, dh, vw, vh], unhex hex with
    | some f, some e, some d, some t, some [x0, y0, dw, dh, vw, vh], some bytes =>
      some { fmt := f, fmtName := fmt, dev := d, bytes := bytes,
             st := { entry := e, dst := t, x0 := x0, y0 := y0, dw := dw, dh := dh, vw := vw, vh := vh } }
    | _, _, _, _, _, _ => none
  | _ => none

def infoFields (f : Fmt) (h : List Int) : String :=
  let g (k : Nat) : String := toString (h.getD k 0)
  match f with
  | .bmp => s!"{g 0} {g 1} bpp={g 2} comp={g 3} off={g 4} hdr={g 5} colors={g 6} topdown={g 7}"
  | .pnm => s!"{g 0} {g 1} type={g 2} max={g 3}"
  | .tga => s!"{g 0} {g 1} bpp={g 2} type={g 3} off={g 4} desc={g 5} cmt={g 6} cml={g 7}"

/-- observation of one read, without the extension suffix; mirrors what the harness prints -/
def observe1 (o : Op) (bytes : List UInt8) : String :=
  match runRaw o.fmt o.dev bytes o.st with
  | .ok (img, _) =>
    match o.st.entry with
    | .info => "ok " ++ infoFields o.fmt img.hdr
    | .scan => "ok " ++ showInts img.hdr ++ " " ++ hex64 (fnv img.pix 0)
    | _ =>
      let (fa, fb) := if o.st.dst == .gray1 then (0, 1) else (0xBE, 0x41)
      "ok " ++ showInts img.hdr ++ " " ++ hex64 (fnv img.pix fa) ++ " " ++ hex64 (fnv img.pix fb)
  | .error (.err k) => "err:" ++ k
  | .error (.ub site _) =>
    if site.startsWith "assert@" then site
    else if site.startsWith "uninit@" then "nondet:" ++ site
    else "ub:" ++ site
  | .error (.hang _) => "timeout"
  | .error (.fuel _) => "timeout"

def ext (b : UInt8) : List UInt8 := List.replicate 4096 b

def observe (o : Op) : String :=
  let r := observe1 o o.bytes
  if r.startsWith "ok " then
    let r0 := observe1 o (o.bytes ++ ext 0)
    let r1 := observe1 o (o.bytes ++ ext 255)
    r ++ (if r0 == r && r1 == r then " ext=same" else " ext=differs")
  else r

def model (line : String) : String :=
  match parseOp line with
  | some o => observe o
  | none => "bad-op"

/-- why the model thinks this input is unsafe (empty if it does not) -/
def diagnosis (o : Op) : String :=
  match decode o.fmt o.dev o.bytes o.st with
  | .ub site why => " [" ++ site ++ ": " ++ why ++ "]"
  | .hang why => " [hang: " ++ why ++ "]"
  | _ => ""

/-- the unwritten-pixels clause is not applied to BMP RLE files (delta / early end-of-bitmap escapes legitimately
    leave pixels untouched) nor to a caller's view larger than the region read (pixels outside it stay the caller's) -/
def unwrittenExempt (o : Op) : Bool :=
  match runRaw o.fmt o.dev o.bytes { o.st with entry := .info } with
  | .ok (img, _) =>
    let w := img.hdr.getD 0 0; let h := img.hdr.getD 1 0
    let dimx := if o.st.dw == 0 then w else o.st.dw
    let dimy := if o.st.dh == 0 then h else o.st.dh
    (o.fmt == .bmp && (img.hdr.getD 3 0 == 1 || img.hdr.getD 3 0 == 2)) ||
    (o.st.entry == .view && (o.st.vw ≠ dimx || o.st.vh ≠ dimy))
  | _ => true

/-- "a header that declares a palette ... inconsistent with the data is reported as an error": the file uses a palette index
    the header does not declare (a property of the input bytes, computed by the decoder model) -/
def paletteInconsistent (o : Op) : Bool :=
  o.fmt == .bmp &&
  match decode o.fmt o.dev o.bytes o.st with
  | .ub "inconsistent-data-accepted" why => why.startsWith "palette index beyond"
  | _ => false

/-- the Spec of C11 evaluated on the implementation's observation -/
def judge (op obs : String) : String :=
  match parseOp op with
  | none => "fail bad-op"
  | some o =>
    let ws := words obs
    match ws with
    | [] => "fail no-observation"
    | w0 :: rest =>
      if w0 == "timeout" then "fail terminates" ++ diagnosis o
      else if w0.startsWith "ub:" || w0.startsWith "assert@" || w0.startsWith "abort@" || w0.startsWith "crash:" then
        "fail no-undefined-behaviour" ++ diagnosis o
      else if w0.startsWith "err:" then "ok"
      else if w0 == "ok" then
        if rest.getLast? == some "ext=differs" then "fail short-read-used-as-data" ++ diagnosis o
        else
          match o.st.entry with
          | .info => "ok"
          | .scan => if paletteInconsistent o then "fail inconsistent-palette-accepted" ++ diagnosis o else "ok"
          | _ =>
            -- ok w h hashA hashB ext=..
            if rest.length ≥ 4 && rest.getD 2 "" ≠ rest.getD 3 "" && !unwrittenExempt o then "fail unwritten-pixels-returned" ++ diagnosis o
            else if paletteInconsistent o then "fail inconsistent-palette-accepted" ++ diagnosis o
            else "ok"
      else "fail unknown-observation"

def main (args : List String) : IO UInt32 := Driver.main' model judge args
