import Driver.Common
import GilVerif.Model.C03
open Driver GilVerif.Geom GilVerif.Model.C03 GilVerif.Gen.C03

/-- source view of a kind: (geometry, iterator kind, virtual?) -/
def srcView (k : String) (W H PAD OFF : Int) : Option (View × Kind × Bool) :=
  let bytes (p : Int) : Option (View × Kind × Bool) :=
    some ({ base := 0, xs := p, ys := W * p + PAD, w := W, h := H }, ⟨false, false, 0, false, false, 0⟩, false)
  let planar (c : Int) : Option (View × Kind × Bool) :=
    some ({ base := 0, xs := c, ys := W * c + PAD, w := W, h := H }, ⟨false, false, 0, false, true, c⟩, false)
  let bits (b : Int) : Option (View × Kind × Bool) :=
    some ({ base := OFF, xs := b, ys := W * b + PAD, w := W, h := H }, ⟨true, false, b, false, false, 0⟩, false)
  match k with
  | "g8" => bytes 1 | "rgb8" => bytes 3 | "rgba8" => bytes 4 | "rgb16" => bytes 6 | "rgb32f" => bytes 12 | "p565" => bytes 2
  | "pl8" => planar 1 | "pl16" => planar 2 | "pd2" => planar 1 | "pd5" => planar 1
  | "b1" => bits 1 | "b2" => bits 2 | "b3" => bits 3 | "b4" => bits 4 | "b6" => bits 6 | "b12" => bits 12
  | "v" => some ({ base := OFF * 4096 + PAD, xs := 1, ys := 4096, w := W, h := H }, ⟨false, false, 0, true, false, 0⟩, true)
  | _ => none

def parseXf (tok : String) : Option Xform :=
  let c := (tok.take 1).toString
  let args := ints (((tok.drop 1).toString.splitOn ",").filter (· ≠ ""))
  match c, args with
  | "U", some [] => some .flipUD | "L", some [] => some .flipLR | "T", some [] => some .transpose
  | "R", some [] => some .rot90cw | "C", some [] => some .rot90ccw | "I", some [] => some .rot180
  | "S", some [sx, sy] => some (.subsample sx sy)
  | "B", some [x0, y0, w, h] => some (.sub x0 y0 w h)
  | _, _ => none

def parseXfs (s : String) : Option (List Xform) :=
  if s = "-" then some [] else (s.splitOn "/").mapM parseXf

/-- does a transformation turn the x-iterator into a step iterator?  (flipUD and subimage keep the type) -/
def xfSteps : Xform → Bool
  | .flipUD => false | .sub _ _ _ _ => false | _ => true

/-- view + iterator kind described by the six view words of an op line -/
def parseView (ws : List String) : Option (View × Kind × Bool) :=
  match ws with
  | [k, W, H, PAD, OFF, xf] =>
    match ints [W, H, PAD, OFF], parseXfs xf with
    | some [W, H, PAD, OFF], some ts =>
      (srcView k W H PAD OFF).map fun (v, kd, virt) =>
        (applyAll ts v, { kd with xstep := ts.any xfSteps }, virt)
    | _, _ => none
  | _ => none

def range' (lo hi : Int) : List Int := (List.range (hi - lo + 1).toNat).map (fun i => lo + Int.ofNat i)

def pos3 (it : It) : List Int := [it.x, it.y, it.p.pos]

def parseMoves : List String → Option (List Move)
  | [] => some []
  | "p" :: a :: b :: rest => do let ms ← parseMoves rest; let a ← a.toInt?; let b ← b.toInt?; pure (.add a b :: ms)
  | "m" :: a :: b :: rest => do let ms ← parseMoves rest; let a ← a.toInt?; let b ← b.toInt?; pure (.subm a b :: ms)
  | "x" :: a :: rest => do let ms ← parseMoves rest; let a ← a.toInt?; pure (.xadd a :: ms)
  | "y" :: a :: rest => do let ms ← parseMoves rest; let a ← a.toInt?; pure (.yadd a :: ms)
  | "ix" :: rest => (parseMoves rest).map (.xinc :: ·)
  | "dx" :: rest => (parseMoves rest).map (.xdec :: ·)
  | "iy" :: rest => (parseMoves rest).map (.yinc :: ·)
  | "dy" :: rest => (parseMoves rest).map (.ydec :: ·)
  | _ => none

def join (groups : List (List Int)) : String := " | ".intercalate (groups.map showInts)

def modelNav (v : View) (k : Kind) (virt : Bool) (cx cy : Int) : String :=
  let pix := (range' 0 (v.h - 1)).flatMap fun y => (range' 0 (v.w - 1)).flatMap fun x =>
    [pathCall k v x y, pathRow k v x y, pathCol k v x y, pathBegin k v x y, pathAt k v x y, pathRbegin k v x y,
     pathCall k v x y, pathCached k v cx cy x y, pathCall k v x y, pathBegin k v x y]
  let rows := if v.w > 0 then (range' 0 (v.h - 2)).flatMap fun y =>
      [((View.loc v).move k v.w y).pos, ((View.loc v).move k 0 (y + 1)).pos] else []
  join [[v.w, v.h, if virt then 0 else View.is1d v], pix, rows]

def modelRa (v : View) (k : Kind) (i nlo nhi m : Int) : String :=
  let b := View.begin v
  let e := View.endIt k v
  let it0 := b.advance k i
  let head := [View.size v, It.sub e b, It.equal b e]
  let t1 := it0.inc k
  let t2 := it0.dec k
  let g0 := pos3 it0 ++ pos3 t1 ++ pos3 (t1.dec k) ++ pos3 t2 ++ pos3 (t2.inc k)
  let rows := (range' nlo nhi).map fun n =>
    let J := it0.advance k n
    pos3 J ++ [It.sub J it0, b2i (It.lt it0 J), b2i (It.lt J it0), It.equal it0 J]
      ++ pos3 (J.advance k m) ++ pos3 (it0.advance k (n + m))
  join (head :: g0 :: rows)

/-- x / y iterator laws: `step` is the iterator's memory-unit step; `raw` = the iterator is not a
    step iterator (pointer / planar / bit iterator: ++ and the comparisons are the base type's own) -/
def modelSt (k : Kind) (start step : Int) (isY : Bool) (i nlo nhi m : Int) : String :=
  let adv (p n : Int) : Int := if isY then yAdv k step p n else xAdv k step p n
  let inc (p : Int) : Int := if isY then yAdv k step p 1 else xInc k step p
  let dec (p : Int) : Int := if isY then yAdv k step p (-1) else xDec k step p
  let it0 := adv start i
  let rows := (range' nlo nhi).map fun n =>
    let J := adv it0 n
    [J, itSub k isY step J it0] ++ itCmp k isY step it0 J ++ [if isY then b2i (it0 == J) else itEq k it0 J, adv J m, adv it0 (n + m)]
  join ([it0, inc it0, dec (inc it0)] :: rows)

def modelMv (v : View) (k : Kind) (x0 y0 : Int) (ms : List Move) : String :=
  let l0 := (View.loc v).move k x0 y0
  let l := runMoves k l0 ms
  let s := sumMoves ms
  let X := x0 + s.1
  let Y := y0 + s.2
  let direct := ((View.loc v).move k X Y).pos
  showInts [l.pos, l.pos, direct, direct, X, Y]

/-- (number of planes, distance between the planes) of the planar source kinds -/
def planesOf (k : String) : Option (Nat × Int) :=
  match k with
  | "pl8" | "pl16" => some (3, 131072) | "pd2" => some (2, 65536) | "pd5" => some (5, 65536)
  | _ => none

def bitKind (b : Int) : Kind := ⟨true, false, b, false, false, 0⟩

/-- distance between the planes of the harness's planar sources -/
def PLANE : Int := 131072

def model (line : String) : String :=
  match words line with
  | "nav" :: rest =>
    match parseView (rest.take 6), ints (rest.drop 6) with
    | some (v, k, virt), some [cx, cy] => modelNav v k virt cx cy
    | _, _ => "bad-op"
  | "ra" :: rest =>
    match parseView (rest.take 6), ints (rest.drop 6) with
    | some (v, k, _), some [i, nlo, nhi, m] => modelRa v k i nlo nhi m
    | _, _ => "bad-op"
  | "st" :: rest =>
    match parseView (rest.take 6), ints (rest.drop 6) with
    | some (v, k, _), some [axis, c, i, nlo, nhi, m] =>
      if axis = 0 then modelSt k ((View.loc v).move k 0 c).pos v.xs false i nlo nhi m
      else modelSt k ((View.loc v).move k c 0).pos v.ys true i nlo nhi m
    | _, _ => "bad-op"
  | "mv" :: rest =>
    match parseView (rest.take 6), ints ((rest.drop 6).take 2), parseMoves (rest.drop 8) with
    | some (v, k, _), some [x0, y0], some ms => modelMv v k x0 y0 ms
    | _, _, _ => "bad-op"
  | ["bit", b, off, n] =>
    match ints [b, off, n] with
    | some [b, off, n] =>
      let k := bitKind b
      let p1 := memAdvance k off n
      showInts [p1, memDistance k off p1, memAdvance k p1 (-n)]
    | _ => "bad-op"
  | ["bitit", b, off, n] =>
    match ints [b, off, n] with
    | some [b, off, n] =>
      let k := bitKind b
      let J := xAdv k b off n                                                    -- it + n
      showInts [J, itSub k false b J off, (itCmp k false b off J)[0]!, (itCmp k false b J off)[0]!, xAdv k b J (-n)]
    | _ => "bad-op"
  | "pnav" :: rest =>     -- planar views with EVERY plane: view(x,y) = memunit_advanced_ref(x(), offset(x,y)) (Model.C03.planarRef, generated bindings)
    match parseView (rest.take 6), ints (rest.drop 6), planesOf (rest.headD "") with
    | some (v, _, _), some [_, _], some (n, sp) =>
      let ps0 := (List.range n).map fun (k : Nat) => v.base + (k : Int) * sp
      let pix := (range' 0 (v.h - 1)).flatMap fun y => (range' 0 (v.w - 1)).flatMap fun x => planarRef ps0 (loc_offset x y v.ys v.xs)
      join [[v.w, v.h, n], pix, []]
    | _, _, _ => "bad-op"
  | "pli" :: rest =>      -- raw planar x-iterator with all its planes: it = row_begin(y) + i;  it[d], it + d, (it+d) - it, comparisons
    match parseView (rest.take 6), ints (rest.drop 6) with
    | some (v, k, _), some [y, i, d] =>
      if !(k.planar && !k.xstep) then "bad-op" else
      let a := xAdv k v.xs ((View.loc v).move k 0 y).pos i
      let ps := [a, a + PLANE, a + 2 * PLANE]
      let J := xAdv k v.xs a d
      showInts (ps ++ planarIndex k.chan ps d ++ planarAdvance k.chan ps d ++ [itSub k false v.xs J a] ++ itCmp k false v.xs a J
                ++ [itEq k a J, 1 - itEq k a J])
    | _, _ => "bad-op"
  | _ => "bad-op"

/-! ### judge: the Spec on the implementation's observation -/

def splitGroups (ws : List String) : List (List String) :=
  let rec go (acc : List String) (rest : List String) : List (List String) :=
    match rest with
    | [] => [acc.reverse]
    | "|" :: r => acc.reverse :: go [] r
    | x :: r => go (x :: acc) r
  go [] ws

def chunks (n : Nat) : List Int → List (List Int)
  | [] => []
  | xs => if n = 0 then [] else
    let rec go (fuel : Nat) (xs : List Int) : List (List Int) :=
      match fuel with
      | 0 => []
      | fuel + 1 => if xs.isEmpty then [] else xs.take n :: go fuel (xs.drop n)
    go (xs.length + 1) xs

def fail (s : String) : String := "fail " ++ s

def firstSome {α} (xs : List α) (f : α → Option String) : Option String :=
  xs.foldl (fun acc x => match acc with | some e => some e | none => f x) none

def judgeNav (obs : String) : String :=
  match (splitGroups (words obs)).map ints with
  | [some [w, h, t1d], some pix, some rows] =>
    if w < 0 ∨ h < 0 then fail "shape" else
    if pix.length ≠ (10 * w * h).toNat then fail "shape: 10 paths per pixel" else
    match firstSome (chunks 10 pix) (fun c => if allEq c then none else some "paths-agree: all navigation paths reach the same pixel") with
    | some e => fail e
    | none =>
      if t1d = 1 ∧ (chunks 2 rows).any (fun c => !allEq c) then
        fail "is_1d_traversable true only when row_end(y) == row_begin(y+1)"
      else "ok"
  | _ => fail ("not-a-value:" ++ obs.take 40)

/-- laws are demanded for positions inside [begin, end] (everything else is outside the
    iterators' contract); `i` is the start index, `size` = w*h -/
def judgeRa (w : Int) (i m : Int) (nlo : Int) (obs : String) : String :=
  match (splitGroups (words obs)).map ints with
  | some [size, eb, beq] :: some g0 :: rows =>
    if eb ≠ size then fail "end()-begin() == w*h" else
    if (size = 0) ≠ (beq = 1) then fail "empty view: begin() == end() iff size() == 0" else
    let inC (j : Int) : Bool := 0 ≤ j ∧ j ≤ size ∧ (w > 0 ∨ j = 0)
    if !inC i then "ok" else
    match g0 with
    | [x0, y0, a0, _, _, _, xi, yi, ai, _, _, _, xd, yd, ad] =>
      if i < size ∧ [xi, yi, ai] ≠ [x0, y0, a0] then fail "--(++it) == it" else
      if i > 0 ∧ [xd, yd, ad] ≠ [x0, y0, a0] then fail "++(--it) == it" else
      let idx := (List.range rows.length).map (fun k => nlo + Int.ofNat k)
      match firstSome (idx.zip rows) (fun (n, r) =>
        match r with
        | some [_, _, _, dist, lt, gt, eq, x1, y1, a1, x2, y2, a2] =>
          if !inC (i + n) then none else
          if (eq = 1) ≠ (n = 0) then some "it == it+n iff n == 0" else
          raSpec n dist lt gt (if inC (i + n + m) then [x1, y1, a1] else []) (if inC (i + n + m) then [x2, y2, a2] else [])
        | _ => some "shape") with
      | some e => fail e
      | none => "ok"
    | _ => fail "shape"
  | _ => fail ("not-a-value:" ++ obs.take 40)

def judgeSt (len i m nlo : Int) (obs : String) : String :=
  match (splitGroups (words obs)).map ints with
  | some [a0, _, aid] :: rows =>
    let inC (j : Int) : Bool := 0 ≤ j ∧ j ≤ len
    if !inC i then "ok" else
    if i < len ∧ aid ≠ a0 then fail "--(++it) == it" else
    let idx := (List.range rows.length).map (fun k => nlo + Int.ofNat k)
    match firstSome (idx.zip rows) (fun (n, r) =>
      match r with
      | some [_, dist, lt, gt, le, ge, eq, a1, a2] =>
        if !inC (i + n) then none else
        if (eq = 1) ≠ (n = 0) then some "it == it+n iff n == 0" else
        if (le = 1) ≠ (n ≥ 0) ∨ (ge = 1) ≠ (n ≤ 0) then some "order: it<=jt iff jt-it>=0" else
        raSpec n dist lt gt (if inC (i + n + m) then [a1] else []) (if inC (i + n + m) then [a2] else [])
      | _ => some "shape") with
    | some e => fail e
    | none => "ok"
  | _ => fail ("not-a-value:" ++ obs.take 40)

def judge (op obs : String) : String :=
  match words op with
  | "nav" :: _ => judgeNav obs
  | "ra" :: rest =>
    match parseView (rest.take 6), ints (rest.drop 6) with
    | some (v, _, _), some [i, nlo, _, m] => judgeRa v.w i m nlo obs
    | _, _ => fail "bad-op"
  | "st" :: rest =>
    match parseView (rest.take 6), ints (rest.drop 6) with
    | some (v, _, _), some [axis, _, i, nlo, _, m] => judgeSt (if axis = 0 then v.w else v.h) i m nlo obs
    | _, _ => fail "bad-op"
  | "mv" :: _ =>
    match ints (words obs) with
    | some [lx, ly, d1, d2, _, _] =>
      if lx ≠ d1 ∨ ly ≠ d1 ∨ d2 ≠ d1 then fail "locator moved by a sequence of offsets == xy_at(sum of offsets)" else "ok"
    | _ => fail ("not-a-value:" ++ obs.take 40)
  | ["bit", _, off, n] =>
    match ints [off, n], ints (words obs) with
    | some [off, n], some [p1, d, p2] =>
      if d ≠ n then fail "bit iterator: distance(it, it advanced by n) == n"
      else if p1 ≠ off + n then fail "bit iterator: advance by n moves n bits"
      else if p2 ≠ off then fail "bit iterator: advance n then -n is the identity"
      else "ok"
    | _, _ => fail ("not-a-value:" ++ obs.take 40)
  | "pnav" :: rest =>
    match parseView (rest.take 6), planesOf (rest.headD ""), (splitGroups (words obs)).map ints with
    | some (v, _, _), some (n, sp), [some [w, h, np], some pix, some mm] =>
      if w ≠ v.w ∨ h ≠ v.h ∨ np ≠ n ∨ pix.length ≠ (w * h * n).toNat then fail "shape" else
      match mm with
      | [x, y, path, plane, got, want] =>
        fail s!"paths-agree: path {path} reaches address {got} in plane {plane} for pixel ({x},{y}), view(x,y)'s plane 0 implies {want}"
      | _ =>
        let coords := (range' 0 (h - 1)).flatMap fun y => (range' 0 (w - 1)).map fun x => (x, y)
        let bad := (coords.zip (chunks n pix)).find? fun ((x, y), c) =>
          c ≠ (List.range n).map (fun (k : Nat) => v.addr x y + (k : Int) * sp)
        match bad with
        | some ((x, y), _) => fail s!"planar address law: view({x},{y}) must address plane k at base + y*ys + x*xs + k*plane distance, in every plane"
        | none => "ok"
    | _, _, _ => fail ("not-a-value:" ++ obs.take 40)
  | "pli" :: rest =>
    match parseView (rest.take 6), ints (rest.drop 6), ints (words obs) with
    | some (_, k, _), some [_, _, d], some [p0, p1, p2, i0, i1, i2, a0, a1, a2, sub, lt, gt, le, ge, eq, ne] =>
      let c := k.chan
      if [i0, i1, i2] ≠ [p0 + d * c, p1 + d * c, p2 + d * c] then fail "planar iterator: it[d] addresses every plane d*sizeof(channel) bytes further"
      else if [a0, a1, a2] ≠ [i0, i1, i2] then fail "planar iterator: it[d] is *(it+d) in every plane"
      else if sub ≠ d then fail "planar iterator: (it+d)-it == d"
      else if (lt = 1) ≠ (d > 0) ∨ (gt = 1) ≠ (d < 0) ∨ (le = 1) ≠ (d ≥ 0) ∨ (ge = 1) ≠ (d ≤ 0) then fail "planar iterator: it<jt iff jt-it>0 (and > <= >=)"
      else if (eq = 1) ≠ (d = 0) ∨ (ne = 1) ≠ (d ≠ 0) then fail "planar iterator: it == it+d iff d == 0"
      else "ok"
    | _, _, _ => fail ("not-a-value:" ++ obs.take 40)
  | ["bitit", _, off, n] =>
    match ints [off, n], ints (words obs) with
    | some [off, n], some [_, d, lt, gt, back] =>
      if d ≠ n then fail "bit iterator: (it+n)-it == n"
      else if (lt = 1) ≠ (n > 0) ∨ (gt = 1) ≠ (n < 0) then fail "bit iterator: it<jt iff jt-it>0"
      else if back ≠ off then fail "bit iterator: (it+n)+(-n) == it"
      else "ok"
    | _, _ => fail ("not-a-value:" ++ obs.take 40)
  | _ => fail "bad-op"

def main (args : List String) : IO UInt32 := Driver.main' model judge args
