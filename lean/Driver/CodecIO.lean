/-
  helpers shared by the C12 / C13 drivers: hex strings <-> bytes, bytes <-> pixel rows
-/
import GilVerif.Model.Codec
namespace Driver.CodecIO
open GilVerif.Codec

def hexVal (c : Char) : Nat :=
  if c.isDigit then c.toNat - 48
  else if 'a' ≤ c ∧ c ≤ 'f' then c.toNat - 87
  else if 'A' ≤ c ∧ c ≤ 'F' then c.toNat - 55 else 0

def parseHexL : List Char → Bytes
  | a :: b :: r => UInt8.ofNat (hexVal a * 16 + hexVal b) :: parseHexL r
  | _ => []

/-- "-" is the empty byte string -/
def parseHex (s : String) : Bytes := if s = "-" then [] else parseHexL s.toList

def hexDigit (n : Nat) : Char := if n < 10 then Char.ofNat (48 + n) else Char.ofNat (87 + n)

def hexOf (bs : Bytes) : String :=
  if bs.isEmpty then "-" else String.ofList (bs.flatMap fun b => [hexDigit (b.toNat / 16), hexDigit (b.toNat % 16)])

def chunk {α} (n : Nat) : Nat → List α → List (List α)
  | 0, _ => []
  | k + 1, l => l.take n :: chunk n k (l.drop n)

/-- w×h image from the op line's channel bytes (row major, channels in semantic order) -/
def imgOfBytes {α} (f : PixFmt α) (w h : Nat) (bs : Bytes) : Img α :=
  { w := w, h := h, rows := chunk w h (decRow f (w * h) bs) }

def bytesOfImg {α} (f : PixFmt α) (img : Img α) : Bytes := img.rows.flatMap (encRow f)

def bit8 : PixFmt Bool := ⟨1, fun b => [if b then 1 else 0], fun bs => at0 bs 0 != 0⟩

def showImg {α} (f : PixFmt α) (img : Img α) : String :=
  toString img.w ++ " " ++ toString img.h ++ " " ++ hexOf (bytesOfImg f img)

def showRes {α} (f : PixFmt α) : Option (Img α) → String
  | none => "err:io"
  | some img => showImg f img

end Driver.CodecIO
