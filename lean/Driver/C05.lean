import Driver.Common
import GilVerif.Model.C05
open Driver GilVerif.Model.C05

/-! Model driver and Spec judge for C05.  Op vocabulary: see harness/C05/main.cpp.  Channel lists are in memory order. -/

def codes (s : String) : List Nat := s.toList.map Char.toNat

def commaInts (s : String) : Option (List Int) := if s = "-" then some [] else (s.splitOn ",").mapM String.toInt?
def showComma (xs : List Int) : String := if xs.isEmpty then "-" else ",".intercalate (xs.map toString)

def splitBar (ws : List String) : List String × List String :=
  let a := ws.takeWhile (· ≠ "|"); (a, (ws.dropWhile (· ≠ "|")).drop 1)

def fn (xs : List Int) : Nat → Int := fun k => xs.getD k 0
def toList (n : Nat) (p : Nat → Int) : List Int := (List.range n).map p
def b01 (b : Bool) : String := if b then "1" else "0"

/-- the layout (generated table) of a name -/
def layoutOf (name : String) : Option Layout := (lookup (codes name)).map (·.2)
/-- the layout the NAME demands (Spec) -/
def specOf (name : String) : Option Layout := (lookup (codes name)).map (fun e => specMapping (codes name) e.1)

def identity (n : Nat) : Layout := List.range n

/-- bits per colour of the packed size sets -/
def sizeSet (t : String) : Option (List Nat) :=
  match t with
  | "p565" => some [5, 6, 5] | "p332" => some [3, 3, 2] | "p4444" => some [4, 4, 4, 4] | "p5551" => some [5, 5, 5, 1]
  | "g4" => some [4] | "c4444" => some [4, 4, 4, 4] | _ => none

/-- packed pixels with spare bits: (bits per colour, bits of the carrier) -/
def spareSet (t : String) : Option (List Nat × Nat) :=
  match t with
  | "s432" => some ([4, 3, 2], 16) | "s565w" => some ([5, 6, 5], 32) | "s222" => some ([2, 2, 2], 8)
  | "s5551w" => some ([5, 5, 5, 1], 32) | "sg3" => some ([3], 8) | _ => none

def chanBytes (t : String) : Option Nat :=
  match t with | "u8" => some 1 | "u16" => some 2 | "f32" => some 4 | _ => none

/-- ChannelBitSizes in memory order: slot k holds the colour `type_to_index<mapping,k>` -/
def physSizes (m : Layout) (byColour : List Nat) : List Nat := (List.range m.length).map (fun k => byColour.getD (typeToIndex m k) 0)
def prefixSums (ws : List Nat) : List Nat := (List.range ws.length).map (fun k => (ws.take k).foldl (· + ·) 0)

/-- the mapping through which destination model `dm` of layout `dl` is written -/
def dstMapping (dm : String) (dl : Layout) : Layout :=
  if dm = "W" then (List.range dl.length).map (fun k => mappingTransform (identity dl.length) dl k)   -- planar reference bound to the pixel
  else dl

def modelPair (dm sm : String) (dl sl : Layout) (v w : List Int) : String :=
  let n := dl.length
  let md := dstMapping dm dl
  let src := fn v
  let c := if dm = "V" ∨ dm = "K" then showComma (toList n (construct dl sl src)) else "-"
  let a := staticCopy sl md src (fn w)
  let before := staticEqual md sl (fn w) src
  let after := staticEqual md sl a src
  let ne := !(staticEqual sl md src a)
  s!"C={c} A={showComma (toList n a)} E={b01 after} N={b01 before} S={showComma v} I={b01 ne}"

def modelAcc (t m : String) (l : Layout) (v : List Int) : String :=
  let n := l.length
  let p := fn v
  let bump : Int := if m = "I" then 1 else 0       -- model I reads semantic channels from the second pixel of the planes
  let sem := (List.range n).map (fun s => semanticAt l p s + bump)
  let col := (List.range n).map (fun s => getColor l p s)
  let idx := if m = "K" ∨ m = "B" then "-" else showComma v
  let off : List Int :=
    if m = "I" then (List.range n).map (fun (k : Nat) => Int.ofNat (2 * k + 1))
    else if m = "P" ∨ m = "Q" then (List.range n).map (fun (k : Nat) => Int.ofNat k)
    else match chanBytes t, sizeSet t with
      | some cb, _ => (List.range n).map (fun (k : Nat) => Int.ofNat (k * cb))
      | none, some sz => (prefixSums (physSizes l sz)).map (fun (x : Nat) => Int.ofNat x)
      | none, none => []
  let dyn := if m = "V" ∨ m = "R" ∨ m = "P" ∨ m = "Q" then showComma v else "-"
  let wr := if m = "V" ∨ m = "R" ∨ m = "P" then showComma (v.map (· + 1)) else "-"
  s!"at={showComma v} sem={showComma sem} col={showComma col} idx={idx} dyn={dyn} wr={wr} off={showComma off}"

/-- `k` copies of `x` joined by '/' (one result per overload / model combination of the harness) -/
def rep (k : Nat) (x : String) : String := "/".intercalate (List.replicate k x)

def modelAlg (l1 l2 : Layout) (v w : List Int) : String :=
  let n := l1.length
  let p1 := fn v; let p2 := fn w
  -- number of models per operand: value pixel, plus a planar reference when the layout is the identity and n >= 2;
  -- destinations: value, planar reference object, const planar reference object
  let m1 := if n ≥ 2 ∧ l1 = identity n then 2 else 1
  let m2 := if n ≥ 2 ∧ l2 = identity n then 2 else 1
  let dm := if n ≥ 2 ∧ l2 = identity n then 3 else 1
  let fill := toList n (staticFill l1 p1 7)
  let gen := toList n (staticGenerate l1 p1 (fun s => 100 + (s : Int)))
  let fe1 := (visitOrder l1).map p1
  let fe2 := (visitPairs l1 l2).map (fun (a, b) => p1 a * 1000 + p2 b)
  let fe3 := (visitPairs l1 l2).map (fun (a, b) => (p1 a * 1000 + p2 b) * 1000 + p1 a)
  let zero : Nat → Int := fun _ => 0
  let tr1 := toList n (staticTransform l1 l2 p1 zero (· + 1))
  let tr2 := toList n (staticTransform2 l1 l2 l2 p1 p2 zero (fun a b => a * 16 + b))
  let mn := staticMinIdx l1 p1; let mx := staticMaxIdx l1 p1
  let eq := staticEqual l1 l2 p1 p2
  let cp := toList n (staticCopy l1 l2 p1 p2)
  s!"fill={showComma fill} gen={showComma gen} fe1={rep (2 * m1) (showComma fe1)} fe2={rep (4 * m1 * m2) (showComma fe2)} fe3={rep (8 * m1 * m2) (showComma fe3)} tr1={rep (2 * m1 * dm) (showComma tr1)} tr2={rep (4 * m1 * m2 * dm) (showComma tr2)} min={p1 mn} max={p1 mx} minat={mn} maxat={mx} eq={rep (4 * m1 * m2) (b01 eq)} cp={rep (2 * m1 * m2) (showComma cp)}"

/-- three bars -/
def splitBar3 (ws : List String) : List String × List String × List String :=
  let (a, r) := splitBar ws; let (b, c) := splitBar r; (a, b, c)

/-- `alg3`: three layouts, equal types (= equal layout NAMES) for any subset, aliased arguments; counts = number of overload /
    model / aliasing combinations the harness runs (see harness alg3_h) -/
def alg3Counts (n : Nat) (id1 id2 id3 s12 s13 s23 : Bool) : Nat × Nat × Nat × Nat × Bool :=
  let m1 := if n ≥ 2 ∧ id1 then 2 else 1
  let m2 := if n ≥ 2 ∧ id2 then 2 else 1
  let m3 := if n ≥ 2 ∧ id3 then 2 else 1
  let kd := if n ≥ 2 ∧ id3 then 3 else 1
  let k1 := 2 * m1; let k2 := 2 * m2; let k3 := 2 * m3
  let tr2 := k1 * k2 * kd + (if s13 then k1 * k2 else 0) + (if s23 then k1 * k2 else 0)
  let trs := if s12 then 4 * m1 * kd + (if s13 then 4 * m1 else 0) else 0
  (tr2, trs, k1 * k2 * k3, m1, s12 && s13)

def orDash (k : Nat) (x : String) : String := if k = 0 then "-" else rep k x

/-- numbers of runs of the partially aliased fields f3a, f3b, f3c, trw -/
def alg3Counts2 (cs : String) (n : Nat) (id1 id2 id3 s12 s13 s23 : Bool) : Nat × Nat × Nat × Nat :=
  let m1 := if n ≥ 2 ∧ id1 then 2 else 1
  let m2 := if n ≥ 2 ∧ id2 then 2 else 1
  let m3 := if n ≥ 2 ∧ id3 then 2 else 1
  (if s13 then 4 * m1 * (2 * m2) else 0, if s23 then 4 * (2 * m1) * m2 else 0, if s12 then 4 * m1 * (2 * m3) else 0,
   if s13 ∧ n ≥ 2 ∧ !cs.startsWith "devicen" then 2 * (2 * m2) else 0)

def modelAlg3 (cs n1 n2 n3 : String) (l1 l2 l3 : Layout) (v w u : List Int) : String :=
  let n := l1.length
  let p1 := fn v; let p2 := fn w; let p3 := fn u
  let (ctr2, ctrs, cfe3, m1, self) := alg3Counts n (l1 == identity n) (l2 == identity n) (l3 == identity n) (n1 == n2) (n1 == n3) (n2 == n3)
  let f : Int → Int → Int := fun a b => a * 16 + b
  let zero : Nat → Int := fun _ => 0
  -- by C05_transform2_aliased_eq_fresh the aliased runs have the same colours; the model computes each variant with its own definition
  let tr2 := toList n (staticTransform2 l1 l2 l3 p1 p2 zero f)
  let okAlias1 := n1 != n3 || toList n (staticTransform2Acc1 l1 l2 p1 p2 f) == tr2
  let okAlias2 := n2 != n3 || toList n (staticTransform2Acc2 l1 l2 p1 p2 f) == tr2
  let trs := toList n (staticTransform2 l1 l1 l3 p1 p1 zero f)
  let okSelf := !self || toList n (staticTransform2Self l1 p1 f) == trs
  let fe3 := (visitTriples l1 l2 l3).map (fun (a, b, c) => (p1 a * 1000 + p2 b) * 1000 + p3 c)
  let fes2 := (visitPairs l1 l1).map (fun (a, b) => p1 a * 1000 + p1 b)
  let fes3 := (visitTriples l1 l1 l1).map (fun (a, b, c) => (p1 a * 1000 + p1 b) * 1000 + p1 c)
  let cps := toList n (staticCopy l1 l1 p1 p1)
  let fillp := toList n (staticFill l1 p1 7)
  let genp := toList n (staticGenerate l1 p1 (fun s => 100 + (s : Int)))
  let sk (k : Nat) := if self then k else 0
  let pk := if self ∧ m1 = 2 then 2 else 0
  let (ca, cb, cc, cw) := alg3Counts2 cs n (l1 == identity n) (l2 == identity n) (l3 == identity n) (n1 == n2) (n1 == n3) (n2 == n3)
  let f3a := (visitTriples l1 l2 l1).map (fun (a, b, c) => (p1 a * 1000 + p2 b) * 1000 + p1 c)
  let f3b := (visitTriples l1 l2 l2).map (fun (a, b, c) => (p1 a * 1000 + p2 b) * 1000 + p2 c)
  let f3c := (visitTriples l1 l1 l3).map (fun (a, b, c) => (p1 a * 1000 + p1 b) * 1000 + p3 c)
  let trw := toList n (staticTransform2Acc1 l1 l2 p1 p2 f)
  if !(okAlias1 && okAlias2 && okSelf) then "model-aliased-variants-differ" else
  s!"f3a={orDash ca (showComma f3a)} f3b={orDash cb (showComma f3b)} f3c={orDash cc (showComma f3c)} trw={orDash cw (showComma trw)} tr2={rep ctr2 (showComma tr2)} trs={orDash ctrs (showComma trs)} fe3={rep cfe3 (showComma fe3)} fes2={orDash (sk (4 * m1)) (showComma fes2)} fes3={orDash (sk (8 * m1)) (showComma fes3)} eqs={orDash (sk (4 * m1)) (b01 (staticEqual l1 l1 p1 p1))} cps={orDash (sk (2 * m1)) (showComma cps)} fillp={orDash pk (showComma fillp)} genp={orDash pk (showComma genp)}"

def modelSpare (t dlName sm slName : String) (dl sl : Layout) (raw : Nat) (v : List Int) : String :=
  match spareSet t with
  | none => "bad-op"
  | some (sz, W) =>
    let n := dl.length
    let wd := physSizes dl sz; let ws := physSizes sl sz
    let a : List Nat := (toList n (staticCopy sl dl (fn v) (fun _ => 0))).map Int.toNat
    let srcField := putFrom 0 0 ws (v.map Int.toNat)
    -- the same packed_pixel type on both sides: the compiler-generated copy takes the whole bit field
    let f := if sm = "K" ∧ dlName = slName then srcField else putFrom (raw % 2 ^ W) 0 wd a
    let same0 := putFrom 0 0 wd a
    let same1 := putFrom (2 ^ W - 1) 0 wd a
    let b := (List.range n).map (fun k => if k + 1 = n then Nat.xor (a.getD k 0) 1 else a.getD k 0)
    let other := putFrom same0 0 wd b
    let chans := channelsFrom f 0 wd
    let eqSrc := (List.range n).all (fun s => chans.getD (dl.phys s) 0 == (v.getD (sl.phys s) 0).toNat)
    s!"A={showComma (chans.map Int.ofNat)} F={f} E={b01 eqSrc} Es={b01 eqSrc} Q0={b01 (packedEqual wd f same0)} R0={b01 (packedEqual wd same0 f)} Q1={b01 (packedEqual wd f same1)} R1={b01 (packedEqual wd same1 f)} T={b01 (packedEqual wd same0 same1)} N0={b01 (!packedEqual wd f same0)} N1={b01 (!packedEqual wd f same1)} D={b01 (packedEqual wd f other)} DN={b01 (!packedEqual wd f other)}"

def model (line : String) : String :=
  match words line with
  | "pair" :: _ :: _ :: dm :: dl :: sm :: sl :: rest =>
    let (a, b) := splitBar rest
    match layoutOf dl, layoutOf sl, ints a, ints b with
    | some dl, some sl, some v, some w =>
      if v.length ≠ sl.length ∨ w.length ≠ dl.length ∨ dl.length ≠ sl.length then "bad-op" else modelPair dm sm dl sl v w
    | _, _, _, _ => "bad-op"
  | "acc" :: _ :: t :: m :: l :: rest =>
    match layoutOf l, ints rest with
    | some l, some v => if v.length ≠ l.length then "bad-op" else modelAcc t m l v
    | _, _ => "bad-op"
  | "alg" :: _ :: _ :: l1 :: l2 :: rest =>
    let (a, b) := splitBar rest
    match layoutOf l1, layoutOf l2, ints a, ints b with
    | some l1, some l2, some v, some w =>
      if v.length ≠ l1.length ∨ w.length ≠ l2.length ∨ l1.length ≠ l2.length then "bad-op" else modelAlg l1 l2 v w
    | _, _, _, _ => "bad-op"
  | "alg3" :: cs :: _ :: n1 :: n2 :: n3 :: rest =>
    let (a, b, c) := splitBar3 rest
    match layoutOf n1, layoutOf n2, layoutOf n3, ints a, ints b, ints c with
    | some l1, some l2, some l3, some v, some w, some u =>
      if v.length ≠ l1.length ∨ w.length ≠ l1.length ∨ u.length ≠ l1.length ∨ l2.length ≠ l1.length ∨ l3.length ≠ l1.length then "bad-op"
      else modelAlg3 cs n1 n2 n3 l1 l2 l3 v w u
    | _, _, _, _, _, _ => "bad-op"
  | "spare" :: _ :: t :: dl :: sm :: sl :: raw :: rest =>
    match layoutOf dl, layoutOf sl, raw.toNat?, ints rest with
    | some dlm, some slm, some raw, some v =>
      if v.length ≠ slm.length ∨ dlm.length ≠ slm.length then "bad-op" else modelSpare t dl sm sl dlm slm raw v
    | _, _, _, _ => "bad-op"
  | _ => "bad-op"

/-! ### judge: the Spec (layout NAME spells the memory order; channels are paired by colour) -/

def fail (s : String) : String := "fail " ++ s

/-- fields `key=value` of an observation -/
def field (ws : List String) (key : String) : Option String :=
  (ws.find? (fun w => w.startsWith (key ++ "="))).map (fun w => (w.drop (key.length + 1)).toString)

def listField (ws : List String) (key : String) : Option (List Int) := (field ws key).bind commaInts

def sameMultiset (a b : List Int) : Bool := a.length == b.length && a.all (fun x => a.count x == b.count x)

def firstFail (checks : List (Bool × String)) : String :=
  match checks.find? (fun c => !c.1) with
  | some c => fail c.2
  | none => "ok"

def judgePair (dm : String) (md ms : Layout) (v w : List Int) (ows : List String) : String :=
  let n := md.length
  let paired (d : List Int) : Bool := d.length == n && (List.range n).all (fun s => d.getD (md.phys s) 0 == v.getD (ms.phys s) 0)
  match listField ows "A", field ows "C", field ows "E", field ows "N", listField ows "S", field ows "I" with
  | some a, some c, some e, some nb, some s, some i =>
    let cOk := if dm = "V" ∨ dm = "K" then (match commaInts c with | some cl => paired cl | none => false) else c == "-"
    firstFail [(cOk, "construct-by-colour"), (paired a, "assign-by-colour"), (e == "1", "assign-then-equal"),
               (i == "0", "not-equal-consistent"), (nb == b01 (paired w), "equal-by-colour"), (s == v, "source-unchanged")]
  | _, _, _, _, _, _ => fail "shape"

def judgeAcc (t m : String) (l : Layout) (v : List Int) (ows : List String) : String :=
  let n := l.length
  let sem := (List.range n).map (fun s => v.getD (l.phys s) 0)
  let semObs := if m = "I" then sem.map (· + 1) else sem
  let offExp : List Int :=
    if m = "I" then (List.range n).map (fun (k : Nat) => Int.ofNat (2 * k + 1))
    else if m = "P" ∨ m = "Q" then (List.range n).map (fun (k : Nat) => Int.ofNat k)
    else match chanBytes t, sizeSet t with
      | some cb, _ => (List.range n).map (fun (k : Nat) => Int.ofNat (k * cb))
      | none, some sz => (prefixSums (physSizes l sz)).map (fun (x : Nat) => Int.ofNat x)
      | none, none => []
  let hasDyn := m = "V" ∨ m = "R" ∨ m = "P" ∨ m = "Q"
  let hasWr := m = "V" ∨ m = "R" ∨ m = "P"
  match listField ows "at", listField ows "sem", listField ows "col", field ows "idx", listField ows "off", field ows "dyn", field ows "wr" with
  | some atv, some sm, some cl, some ix, some off, some dy, some wr =>
    firstFail [(atv == v, "at_c-memory-order"), (sm == semObs, "semantic_at_c-mapping"), (cl == sem, "get_color-mapping"),
               (if m = "K" ∨ m = "B" then ix == "-" else commaInts ix == some v, "operator[]-memory-order"),
               (if hasDyn then commaInts dy == some v else dy == "-", "dynamic-index-read"),
               (if hasWr then commaInts wr == some (v.map (· + 1)) else wr == "-", "dynamic-index-write"),
               (off == offExp, "at_c-position")]
  | _, _, _, _, _, _, _ => fail "shape"

/-- a field holding several results joined by '/' -/
def multiField (ws : List String) (key : String) : Option (List String) := (field ws key).map (fun x => x.splitOn "/")
def multiList (ws : List String) (key : String) : Option (List (List Int)) := (multiField ws key).bind (fun xs => xs.mapM commaInts)

def judgeAlg (m1 m2 : Layout) (v w : List Int) (ows : List String) : String :=
  let n := m1.length
  let a (s : Nat) : Int := v.getD (m1.phys s) 0
  let b (s : Nat) : Int := w.getD (m2.phys s) 0
  let sems := List.range n
  let bySem (d : List Int) (m : Layout) (f : Nat → Int) : Bool := d.length == n && sems.all (fun s => d.getD (m.phys s) 0 == f s)
  -- how many overload / model combinations the harness must have run (Spec: every one of them pairs by colour)
  let k1 := if n ≥ 2 ∧ m1 = identity n then 2 else 1
  let k2 := if n ≥ 2 ∧ m2 = identity n then 2 else 1
  let kd := if n ≥ 2 ∧ m2 = identity n then 3 else 1
  let every (xs : List (List Int)) (k : Nat) (ok : List Int → Bool) : Bool := xs.length == k && xs.all ok
  match listField ows "fill", listField ows "gen", multiList ows "fe1", multiList ows "fe2", multiList ows "fe3",
        multiList ows "tr1", multiList ows "tr2" with
  | some fill, some gen, some fe1, some fe2, some fe3, some tr1, some tr2 =>
    match (field ows "min").bind String.toInt?, (field ows "max").bind String.toInt?, (field ows "minat").bind String.toNat?,
          (field ows "maxat").bind String.toNat?, multiField ows "eq", multiList ows "cp" with
    | some mn, some mx, some mnat, some mxat, some eq, some cp =>
      firstFail [
        (fill == List.replicate n 7, "fill"),
        (bySem gen m1 (fun s => 100 + (s : Int)), "generate-each-channel-once"),
        (every fe1 (2 * k1) (fun x => sameMultiset x v), "for_each-each-channel-once"),
        (every fe2 (4 * k1 * k2) (fun x => sameMultiset x (sems.map (fun s => a s * 1000 + b s))), "for_each-pairs-by-colour"),
        (every fe3 (8 * k1 * k2) (fun x => sameMultiset x (sems.map (fun s => (a s * 1000 + b s) * 1000 + a s))), "for_each-triples-by-colour"),
        (every tr1 (2 * k1 * kd) (fun x => bySem x m2 (fun s => a s + 1)), "transform-by-colour"),
        (every tr2 (4 * k1 * k2 * kd) (fun x => bySem x m2 (fun s => a s * 16 + b s)), "transform2-by-colour"),
        (v.all (fun x => mn ≤ x) && v.contains mn, "min"), (v.all (fun x => x ≤ mx) && v.contains mx, "max"),
        (v.getD mnat (mn - 1) == mn, "min-reference"), (v.getD mxat (mx + 1) == mx, "max-reference"),
        (eq.length == 4 * k1 * k2 && eq.all (· == b01 (sems.all (fun s => a s == b s))), "equal-by-colour"),
        (every cp (2 * k1 * k2) (fun x => bySem x m2 a), "copy-by-colour")]
    | _, _, _, _, _, _ => fail "shape"
  | _, _, _, _, _, _, _ => fail "shape"

/-- Spec for `alg3`: EVERY run (whatever the three layouts, constness, pixel models, aliasing) pairs by colour:
    transform result colour c = f(src1[c], src2[c]) in the destination's memory order; each for_each call gets one colour of all
    three bases and every colour occurs once; x == x; copying x to itself keeps it; fill / generate reach every channel -/
def judgeAlg3 (cs n1 n2 n3 : String) (m1 m2 m3 : Layout) (v w u : List Int) (ows : List String) : String :=
  let n := m1.length
  let a (s : Nat) : Int := v.getD (m1.phys s) 0
  let b (s : Nat) : Int := w.getD (m2.phys s) 0
  let c (s : Nat) : Int := u.getD (m3.phys s) 0
  let sems := List.range n
  let bySem (d : List Int) (m : Layout) (f : Nat → Int) : Bool := d.length == n && sems.all (fun s => d.getD (m.phys s) 0 == f s)
  let (ctr2, ctrs, cfe3, k1, self) := alg3Counts n (m1 == identity n) (m2 == identity n) (m3 == identity n) (n1 == n2) (n1 == n3) (n2 == n3)
  let sk (k : Nat) := if self then k else 0
  let pk := if self ∧ k1 = 2 then 2 else 0
  -- a field with k results, each satisfying ok; k = 0: the field must be "-"
  let every (key : String) (k : Nat) (ok : List Int → Bool) : Bool :=
    if k = 0 then field ows key == some "-" else
    match multiList ows key with | some xs => xs.length == k && xs.all ok | none => false
  let eqOk := if sk (4 * k1) = 0 then field ows "eqs" == some "-" else
    match multiField ows "eqs" with | some xs => xs.length == 4 * k1 && xs.all (· == "1") | none => false
  let (ca, cb, cc, cw) := alg3Counts2 cs n (m1 == identity n) (m2 == identity n) (m3 == identity n) (n1 == n2) (n1 == n3) (n2 == n3)
  firstFail [
    (every "f3a" ca (fun x => sameMultiset x (sems.map (fun s => (a s * 1000 + b s) * 1000 + a s))), "for_each-triples-by-colour"),
    (every "f3b" cb (fun x => sameMultiset x (sems.map (fun s => (a s * 1000 + b s) * 1000 + b s))), "for_each-triples-by-colour"),
    (every "f3c" cc (fun x => sameMultiset x (sems.map (fun s => (a s * 1000 + a s) * 1000 + c s))), "for_each-triples-by-colour"),
    (every "trw" cw (fun x => bySem x m1 (fun s => a s * 16 + b s)), "transform2-by-colour"),
    (every "tr2" ctr2 (fun x => bySem x m3 (fun s => a s * 16 + b s)), "transform2-by-colour"),
    (every "trs" ctrs (fun x => bySem x m3 (fun s => a s * 16 + a s)), "transform2-same-source-by-colour"),
    (every "fe3" cfe3 (fun x => sameMultiset x (sems.map (fun s => (a s * 1000 + b s) * 1000 + c s))), "for_each-triples-by-colour"),
    (every "fes2" (sk (4 * k1)) (fun x => sameMultiset x (sems.map (fun s => a s * 1000 + a s))), "for_each-pairs-by-colour"),
    (every "fes3" (sk (8 * k1)) (fun x => sameMultiset x (sems.map (fun s => (a s * 1000 + a s) * 1000 + a s))), "for_each-triples-by-colour"),
    (eqOk, "equal-by-colour"),
    (every "cps" (sk (2 * k1)) (fun x => x == v), "copy-by-colour"),
    (every "fillp" pk (fun x => x == List.replicate n 7), "fill"),
    (every "genp" pk (fun x => bySem x m1 (fun s => 100 + (s : Int))), "generate-each-channel-once")]

def judge (op obs : String) : String :=
  if obs.startsWith "ub:" ∨ obs.startsWith "assert:" ∨ obs.startsWith "crash" ∨ obs.startsWith "timeout" then
    fail ("memory-safety " ++ (obs.take 60).toString) else
  let ows := words obs
  match words op with
  | "pair" :: _ :: _ :: dm :: dl :: _ :: sl :: rest =>
    let (a, b) := splitBar rest
    match specOf dl, specOf sl, ints a, ints b with
    | some md, some ms, some v, some w => judgePair dm md ms v w ows
    | _, _, _, _ => fail "bad-op"
  | "acc" :: _ :: t :: m :: l :: rest =>
    match specOf l, ints rest with
    | some l, some v => judgeAcc t m l v ows
    | _, _ => fail "bad-op"
  | "spare" :: _ :: _ :: dl :: _ :: sl :: _ :: rest =>
    -- Spec: pixels are equal iff all named colours are equal, independent of unused bits of the bit field
    match specOf dl, specOf sl, ints rest with
    | some md, some ms, some v =>
      let n := md.length
      let flag (k : String) (want : String) : Bool × String := (field ows k == some want, "packed-equality-" ++ k)
      match listField ows "A" with
      | some a =>
        firstFail [(a.length == n && (List.range n).all (fun s => a.getD (md.phys s) 0 == v.getD (ms.phys s) 0), "assign-by-colour"),
                   flag "E" "1", flag "Es" "1", flag "Q0" "1", flag "R0" "1", flag "Q1" "1", flag "R1" "1", flag "T" "1",
                   flag "N0" "0", flag "N1" "0", flag "D" "0", flag "DN" "1"]
      | none => fail "shape"
    | _, _, _ => fail "bad-op"
  | "alg3" :: cs :: _ :: n1 :: n2 :: n3 :: rest =>
    let (a, b, c) := splitBar3 rest
    match specOf n1, specOf n2, specOf n3, ints a, ints b, ints c with
    | some m1, some m2, some m3, some v, some w, some u =>
      if v.length ≠ m1.length ∨ w.length ≠ m1.length ∨ u.length ≠ m1.length ∨ m2.length ≠ m1.length ∨ m3.length ≠ m1.length then fail "bad-op"
      else judgeAlg3 cs n1 n2 n3 m1 m2 m3 v w u ows
    | _, _, _, _, _, _ => fail "bad-op"
  | "alg" :: _ :: _ :: l1 :: l2 :: rest =>
    let (a, b) := splitBar rest
    match specOf l1, specOf l2, ints a, ints b with
    | some m1, some m2, some v, some w => judgeAlg m1 m2 v w ows
    | _, _, _, _ => fail "bad-op"
  | _ => fail "bad-op"

def main (args : List String) : IO UInt32 := Driver.main' model judge args
