import Driver.Common
import Driver.CodecIO
import GilVerif.Model.C12
open Driver Driver.CodecIO GilVerif.Codec GilVerif.Model.C12

/-
  op lines
    rt  <fmt> <pix> <org> <dev> <w> <h> <hex>      bmp | pnm | targa: observation  <file bytes hex> | <w> <h> <pixels hex>
    rtx <fmt> <pix> <org> <dev> <w> <h> <hex>      png | tiff…: observation  ext | <w> <h> <pixels hex>   (ExtCodec contract)
    jpg <pix> <org> <dev> <w> <h> <kind> <hex>     judged only (no model prediction of the pixels)
  <hex>: channel bytes, row major, semantic channel order (gray1: one byte 00/01 per pixel;
  16/32-bit channels: big endian bytes)
-/

def showOutcome {α} (f : PixFmt α) : Outcome α → String
  | .ub => "ub"
  | .done file back => hexOf file ++ " | " ++ showRes f back

def encodedOnly {α} : Outcome α → String
  | .ub => "ub"
  | .done file _ => hexOf file ++ " | fp same | ss same | of same"

/-- tail of a reuse op: (<w> <h> <hex>)* -/
def stepsOf : List String → List (Nat × Nat × String)
  | w :: h :: hex :: rest => (w.toNat?.getD 0, h.toNat?.getD 0, hex) :: stepsOf rest
  | _ => []

/-- k round trips through one destination object: `runSeq` of Model/C12.lean with the real `initImage` (a destination of
    pw x ph junk pixels, or default-constructed) -/
def reuseModel {α} (f : PixFmt α) (enc : Img α → Option Bytes) (dec : Bytes → Settings → Option (Img α))
    (pw ph : Nat) (steps : List (Nat × Nat × String)) : String :=
  let junk : Nat → Nat → Img α := fun w h => ⟨w, h, List.replicate h (List.replicate w (f.dec []))⟩
  let imgs := steps.map (fun (w, h, hex) => imgOfBytes f w h (parseHex hex))
  if imgs.any (fun i => (enc i).isNone) then "ub" else
  let res := runSeq (initImage junk) (fun i => (enc i).getD []) dec (if pw = 0 ∨ ph = 0 then emptyImg else junk pw ph) imgs
  " | ".intercalate (res.map (showRes f))

def splitBarsAux : List String → List String → List (List String)
  | [], cur => [cur.reverse]
  | x :: rest, cur => if x = "|" then cur.reverse :: splitBarsAux rest [] else splitBarsAux rest (x :: cur)

/-- the observation split at the `|` separators -/
def splitBars (ws : List String) : List (List String) := splitBarsAux ws []

def model (line : String) : String :=
  match words line with
  | "reuse" :: fmt :: pix :: _api :: _dev :: pw :: ph :: _k :: rest =>
    let wFixed := pix = "gray1-w" ∨ pix = "gray1-wr"
    let rFixed := pix = "gray1-r" ∨ pix = "gray1-wr"
    let pixn := if pix.startsWith "gray1" then "gray1" else pix
    let pw := pw.toNat?.getD 0; let ph := ph.toNat?.getD 0
    let steps := stepsOf rest
    match Fmt.parse fmt, Pix.parse pixn with
    | some .bmp, some .rgb8 => reuseModel rgb8 (fun i => some (encodeBmp bgr8 i)) (decodeBmp bgr8) pw ph steps
    | some .bmp, some .rgba8 => reuseModel rgba8 (fun i => some (encodeBmp bgra8 i)) (decodeBmp bgra8) pw ph steps
    | some .pnm, some .gray8 => reuseModel gray8 (fun i => some (encodePnm gray8 5 i)) (decodePnm gray8 5) pw ph steps
    | some .pnm, some .rgb8 => reuseModel rgb8 (fun i => some (encodePnm rgb8 6 i)) (decodePnm rgb8 6) pw ph steps
    | some .pnm, some .gray1 => reuseModel bit8 (fun i => if wFixed then some (encodePnmMonoFixedExec i) else encodePnmMono i)
                                  (if rFixed then decodePnmMonoFixed else decodePnmMono) pw ph steps
    | some .targa, some .rgb8 => reuseModel rgb8 (fun i => some (encodeTga bgr8 i)) (decodeTga bgr8) pw ph steps
    | some .targa, some .rgba8 => reuseModel rgba8 (fun i => some (encodeTga bgra8 i)) (decodeTga bgra8) pw ph steps
    | some _, _ => "unsupported"
    | none, _ =>
      -- png / tiff: ExtCodec contract (the codec returns the rows it was given), whatever the destination held before
      " | ".intercalate (steps.map (fun (w, h, hex) => toString w ++ " " ++ toString h ++ " " ++ hex))
  | ["dsts", fmt, pix, w, h, hex] =>
    -- every destination kind receives the same bytes: the model has one encoder
    let wFixed := pix = "gray1-w" ∨ pix = "gray1-wr"
    let pix := if pix.startsWith "gray1" then "gray1" else pix
    match Fmt.parse fmt, Pix.parse pix, w.toNat?, h.toNat? with
    | some fmt, some pix, some w, some h =>
      let bs := parseHex hex
      match fmt, pix with
      | .bmp, .rgb8 => encodedOnly (rtBmp3 (imgOfBytes rgb8 w h bs))
      | .bmp, .rgba8 => encodedOnly (rtBmp4 (imgOfBytes rgba8 w h bs))
      | .pnm, .gray8 => encodedOnly (rtPnm5 (imgOfBytes gray8 w h bs))
      | .pnm, .rgb8 => encodedOnly (rtPnm6 (imgOfBytes rgb8 w h bs))
      | .pnm, .gray1 => encodedOnly (rtPnm4Variant wFixed true (imgOfBytes bit8 w h bs))
      | .targa, .rgb8 => encodedOnly (rtTga3 (imgOfBytes rgb8 w h bs))
      | .targa, .rgba8 => encodedOnly (rtTga4 (imgOfBytes rgba8 w h bs))
      | _, _ => "unsupported"
    | _, _, _, _ => "bad-op"
  | ["rt", fmt, pix, _org, _dev, w, h, hex] =>
    -- gray1[-w][-r]: writer / reader of the tree under test carry the proposed pnm gray1 fix
    let wFixed := pix = "gray1-w" ∨ pix = "gray1-wr"
    let rFixed := pix = "gray1-r" ∨ pix = "gray1-wr"
    let pix := if pix.startsWith "gray1" then "gray1" else pix
    match Fmt.parse fmt, Pix.parse pix, w.toNat?, h.toNat? with
    | some fmt, some pix, some w, some h =>
      let bs := parseHex hex
      if !supported fmt pix then "unsupported" else
      match fmt, pix with
      | .bmp, .rgb8 => showOutcome rgb8 (rtBmp3 (imgOfBytes rgb8 w h bs))
      | .bmp, .rgba8 => showOutcome rgba8 (rtBmp4 (imgOfBytes rgba8 w h bs))
      | .pnm, .gray8 => showOutcome gray8 (rtPnm5 (imgOfBytes gray8 w h bs))
      | .pnm, .rgb8 => showOutcome rgb8 (rtPnm6 (imgOfBytes rgb8 w h bs))
      | .pnm, .gray1 => showOutcome bit8 (rtPnm4Variant wFixed rFixed (imgOfBytes bit8 w h bs))
      | .targa, .rgb8 => showOutcome rgb8 (rtTga3 (imgOfBytes rgb8 w h bs))
      | .targa, .rgba8 => showOutcome rgba8 (rtTga4 (imgOfBytes rgba8 w h bs))
      | _, _ => "unsupported"
    | _, _, _, _ => "bad-op"
  | ["rtx", fmt, pix, org, _dev, w, h, hex] =>
    -- ExtCodec contract: the codec returns the rows it was given; what GIL's tiff writer does to them before is modelled
    let tile : Option Nat := if (fmt.splitOn "-tile16").length > 1 then some 16 else if (fmt.splitOn "-tile32").length > 1 then some 32 else none
    let hex :=
      if fmt.startsWith "tiff" ∧ pix = "rgba8" then hexOf (tiffStoreRgba8 tile (w.toNat?.getD 1) (h.toNat?.getD 1) 0 (parseHex hex))
      else if fmt.startsWith "tiff" ∧ tile.isSome ∧ pix = "rgb8" ∧ (org = "alt" ∨ org.startsWith "alt-") ∧ (fmt.splitOn "-cs").length = 1 then hexOf (reverse3 (parseHex hex))
      else hex
    "ext | " ++ w ++ " " ++ h ++ " " ++ hex
  | _ => "bad-op"

def splitBar (ws : List String) : List String × List String :=
  let a := ws.takeWhile (· ≠ "|"); (a, (ws.dropWhile (· ≠ "|")).drop 1)

def absDiff (a b : UInt8) : Nat := if a ≤ b then b.toNat - a.toNat else a.toNat - b.toNat

def judge (op obs : String) : String :=
  let fail (s : String) := "fail " ++ s
  let o := words obs
  match words op with
  | "reuse" :: fmt :: _pix :: _api :: _dev :: _pw :: _ph :: _k :: rest =>
    -- Spec: after EVERY read the destination object has the dimensions and pixels of the view just written, whatever it
    -- held before (jpeg: the steps are constant images, within one level)
    if o = ["ub"] ∨ (o.head?.map (·.startsWith "ub:")) = some true ∨ (o.head?.map (·.startsWith "crash")) = some true
       ∨ (o.head?.map (·.startsWith "assert")) = some true then fail "write-or-read-undefined-behaviour" else
    let steps := stepsOf rest
    let segs := splitBars o
    if segs.length ≠ steps.length then fail ("shape:" ++ (obs.take 40).toString) else
    let bad := (steps.zip segs).zipIdx.filterMap (fun (((w, h, hex), seg), i) =>
      match seg with
      | [w', h', px] =>
        match w'.toNat?, h'.toNat? with
        | some w', some h' =>
          if fmt = "jpeg" then
            let src := parseHex hex; let back := parseHex px
            if w' ≠ w ∨ h' ≠ h ∨ src.length ≠ back.length then some ("reused-destination-step" ++ toString i ++ ":dimensions")
            else if (src.zip back).foldl (fun m (a, b) => max m (absDiff a b)) 0 > 1 then some ("reused-destination-step" ++ toString i ++ ":constant-image-within-one-level")
            else none
          else (specCheck w h (parseHex hex) w' h' (parseHex px)).map (fun c => "reused-destination-step" ++ toString i ++ ":" ++ c)
        | _, _ => some ("reused-destination-step" ++ toString i ++ ":not-an-image")
      | ["err:io"] => some ("reused-destination-step" ++ toString i ++ ":io-error-on-read")
      | _ => some ("reused-destination-step" ++ toString i ++ ":no-image"))
    match bad with
    | [] => "ok"
    | c :: _ => fail c
  | ["dsts", _fmt, _pix, _w, _h, _hex] =>
    -- Spec: the bytes written do not depend on the kind of destination
    if o = ["ub"] then fail "write-or-read-undefined-behaviour"
    else if o.any (fun t => t.startsWith "differs") then fail "destinations-agree-byte-for-byte"
    else if (o.filter (· = "same")).length = 3 then "ok" else fail ("shape:" ++ (obs.take 40).toString)
  | [kind, _fmt, _pix, _org, _dev, w, h, hex] =>
    if kind ≠ "rt" ∧ kind ≠ "rtx" then fail "bad-op" else
    match w.toNat?, h.toNat? with
    | some w, some h =>
      if o = ["ub"] ∨ (o.head?.map (·.startsWith "ub:")) = some true ∨ (o.head?.map (·.startsWith "crash")) = some true
         ∨ (o.head?.map (·.startsWith "assert")) = some true then fail "write-or-read-undefined-behaviour" else
      let (_, back) := splitBar o
      match back with
      | [w', h', px] =>
        match w'.toNat?, h'.toNat? with
        | some w', some h' =>
          match specCheck w h (parseHex hex) w' h' (parseHex px) with
          | none => "ok"
          | some c => fail c
        | _, _ => fail ("not-an-image:" ++ (obs.take 40).toString)
      | ["err:io"] => fail "io-error-on-read"
      | _ => fail ("no-image:" ++ (obs.take 40).toString)
    | _, _ => fail "bad-op"
  | ["jpg", _pix, _org, _dev, w, h, kind, hex, bound] =>
    match w.toNat?, h.toNat?, bound.toNat? with
    | some w, some h, some bound =>
      match o with
      | [w', h', px] =>
        if w'.toNat? ≠ some w ∨ h'.toNat? ≠ some h then fail "dimensions" else
        let src := parseHex hex; let back := parseHex px
        if src.length ≠ back.length then fail "dimensions" else
        let d := (src.zip back).foldl (fun m (a, b) => max m (absDiff a b)) 0
        if kind = "const" ∧ d > 1 then fail "constant-image-within-one-level"
        else if d > bound then fail "channel-error-bound"
        else "ok"
      | _ => fail ("no-image:" ++ (obs.take 40).toString)
    | _, _, _ => fail "bad-op"
  | _ => fail "bad-op"

def main (args : List String) : IO UInt32 := Driver.main' model judge args
