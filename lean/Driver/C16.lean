import Driver.Common
import GilVerif.Model.C16
open Driver GilVerif.Model.C16

def splitOn' (sep : String) (ws : List String) : List (List String) :=
  let rec go (ws : List String) (cur : List String) (acc : List (List String)) : List (List String) :=
    match ws with
    | [] => (cur.reverse :: acc).reverse
    | w :: rest => if w = sep then go rest [] (cur.reverse :: acc) else go rest (w :: cur) acc
  go ws [] []

def showPlanes (w h : Nat) (planes : List (List Int)) : String :=
  toString w ++ " " ++ toString h ++ " : " ++ " | ".intercalate (planes.map showInts)

/-- observation "w h : g0 | g1 ..." -> (w, h, groups of words) -/
def parseObs (obs : String) : Option (Nat × Nat × List (List String)) :=
  match splitOn' "|" (words obs) with
  | (w :: h :: ":" :: p0) :: rest =>
    match ints [w, h] with
    | some [w, h] => some (w.toNat, h.toNat, p0 :: rest)
    | _ => none
  | _ => none

def pairOf (p : String) : Option (Ch × Ch) :=
  match p with
  | "rgb8" => some (.u8, .u8) | "rgb8p" => some (.u8, .u8)
  | _ => match p.splitOn "_" with
    | [a, b] => match Ch.parse a, Ch.parse b with
      | some a, some b => some (a, b)
      | _, _ => none
    | _ => none

def kindOf (kind dir : String) : Option Kind :=
  match kind, dir with
  | "bin", "reg" => some .binReg | "bin", "inv" => some .binInv
  | "binmax", "reg" => some .binReg | "binmax", "inv" => some .binInv
  | "tt", "reg" => some .truncThrReg | "tt", "inv" => some .truncThrInv
  | "tz", "reg" => some .truncZeroReg | "tz", "inv" => some .truncZeroInv
  | _, _ => none

structure Th where
  s : Ch
  d : Ch
  k : Kind
  w : Nat
  h : Nat
  t : Int
  mx : Int
  planes : List (List Int)

def parseTh (line : String) : Option Th :=
  match splitOn' "|" (words line) with
  | ["th", kind, dir, pair, w, h, t, mx] :: planesW =>
    match pairOf pair, kindOf kind dir, ints [w, h, t, mx], planesW.mapM ints with
    | some (s, d), some k, some [w, h, t, mx], some planes =>
      some { s := s, d := d, k := k, w := w.toNat, h := h.toNat, t := d.wrap t, mx := if kind == "binmax" then d.hi else d.wrap mx, planes := planes }
    | _, _, _, _ => none
  | _ => none

def firstDiff (a b : List Int) : Option Nat :=
  let rec go (a b : List Int) (i : Nat) : Option Nat :=
    match a, b with
    | [], [] => none
    | x :: xs, y :: ys => if x = y then go xs ys (i + 1) else some i
    | _, _ => some i
  go a b 0

def judgePlanes (expect : List (List Int)) (got : List (List String)) (clause : String) : String :=
  match got.mapM ints with
  | none => "fail not-a-value"
  | some got =>
    if got.length ≠ expect.length then "fail shape" else
    let rec go (e g : List (List Int)) (ch : Nat) : String :=
      match e, g with
      | e0 :: es, g0 :: gs =>
        match firstDiff g0 e0 with
        | none => go es gs (ch + 1)
        | some i => "fail " ++ clause ++ "@ch" ++ toString ch ++ "," ++ toString i
      | _, _ => "ok"
    go expect got 0

/-! ### Otsu -/

structure Ot where
  c : Ch
  inv : Bool
  w : Nat
  h : Nat
  planes : List (List Int)

def chOfOt : String → Option Ch
  | "rgb8" => some .u8 | "rgb16" => some .u16 | s => Ch.parse s

def parseOt (line : String) : Option Ot :=
  match splitOn' "|" (words line) with
  | ["ot", c, dir, w, h] :: planesW =>
    match chOfOt c, ints [w, h], planesW.mapM ints with
    | some c, some [w, h], some planes => some { c := c, inv := dir == "inv", w := w.toNat, h := h.toNat, planes := planes }
    | _, _, _ => none
  | _ => none

def modelOt (o : Ot) : String :=
  -- (empty images: threshold_optimal returns before nth_channel_view since the fix bf7cc3d; destination untouched)
  if o.w == 0 ∨ o.h == 0 then showPlanes o.w o.h (o.planes.map fun _ => [])
  else
    match o.planes.mapM (fun p => otsuChannel o.c true o.inv p) with
    | .ok planes => showPlanes o.w o.h planes
    | .error .divZero => "ub:division-by-zero"
    | .error .histIndex => "ub:histogram-index-out-of-range"

/-- ∃ T: every destination value is `threshold_binary(src, T)`: regular: dst = hi ⇔ src > T -/
def otsuConsistent (c : Ch) (inv : Bool) (src dst : List Int) : Option String :=
  if src.length ≠ dst.length then some "shape" else
  if dst.any (fun v => v ≠ 0 ∧ v ≠ c.hi) then some "otsu-output-is-binary" else
  let pairs := src.zip dst
  let above := (pairs.filter (fun (_, d) => if inv then d = 0 else d = c.hi)).map (·.1)     -- must be > T
  let below := (pairs.filter (fun (_, d) => if inv then d = c.hi else d = 0)).map (·.1)     -- must be ≤ T
  match below.foldl (fun (m : Option Int) v => match m with | none => some v | some x => some (max x v)) none,
        above.foldl (fun (m : Option Int) v => match m with | none => some v | some x => some (min x v)) none with
  | some b, some a => if b < a then none else some "otsu-output-is-threshold-binary-for-some-T"
  | _, _ => none

def judgeOt (o : Ot) (obs : String) : String :=
  if obs.startsWith "ub:" || obs.startsWith "crash" || obs.startsWith "timeout" then "fail otsu-no-ub"
  else if obs.startsWith "assert:" then
    if o.w == 0 ∨ o.h == 0 then "fail returns-normally-on-empty-image" else "fail no-assertion-failure"
  else match parseObs obs with
  | none => "fail not-an-image:" ++ obs.take 40
  | some (w, h, groups) =>
    if w ≠ o.w ∨ h ≠ o.h then "fail shape" else
    match groups.mapM ints with
    | none => "fail not-a-value"
    | some dst =>
      if dst.length ≠ o.planes.length then "fail shape" else
      match (o.planes.zip dst).findSome? (fun (s, d) => otsuConsistent o.c o.inv s d) with
      | some e => "fail " ++ e
      | none => "ok"

/-! ### morphology -/

structure Mo where
  c : Ch
  w : Nat
  h : Nat
  ks : Nat
  cy : Nat
  cx : Nat
  iters : Nat
  ker : List Int
  planes : List (List Int)

def parseMo (line : String) : Option Mo :=
  match splitOn' "|" (words line) with
  | ["mo", c, w, h, ks, cy, cx, iters] :: kerW :: planesW =>
    match chOfOt c, ints [w, h, ks, cy, cx, iters], ints kerW, planesW.mapM ints with
    | some c, some [w, h, ks, cy, cx, iters], some ker, some planes =>
      if ker.length ≠ (ks * ks).toNat ∨ w < 1 ∨ h < 1 ∨ ks < 1 ∨ cy < 0 ∨ cx < 0 ∨ cy ≥ ks ∨ cx ≥ ks ∨ iters < 0 then none
      else some { c := c, w := w.toNat, h := h.toNat, ks := ks.toNat, cy := cy.toNat, cx := cx.toNat, iters := iters.toNat, ker := ker, planes := planes }
    | _, _, _, _ => none
  | _ => none

/-- complement within the channel type: (min + max) − v -/
def complPlane (c : Ch) (p : List Int) : List Int := p.map fun v => (c.lo + c.hi) - v

def moResults (o : Mo) (p : List Int) : List (List Int) :=
  let opn := opening o.w o.h o.ker o.ks o.cy o.cx p
  let cls := closing o.w o.h o.ker o.ks o.cy o.cx p
  [dilate o.w o.h o.ker o.ks o.cy o.cx o.iters p, erode o.w o.h o.ker o.ks o.cy o.cx o.iters p, opn, cls,
   opening o.w o.h o.ker o.ks o.cy o.cx opn, closing o.w o.h o.ker o.ks o.cy o.cx cls,
   dilate o.w o.h o.ker o.ks o.cy o.cx o.iters (complPlane o.c p), erode o.w o.h o.ker o.ks o.cy o.cx o.iters (complPlane o.c p)]

def modelMo (o : Mo) : String :=
  let perPlane := o.planes.map (moResults o)          -- plane -> 8 results
  let groups := (List.range 8).map fun (r : Nat) => " / ".intercalate (perPlane.map fun res => showInts (res.getD r []))
  toString o.w ++ " " ++ toString o.h ++ " : " ++ " | ".intercalate groups

def specMorph (o : Mo) (dilation : Bool) (p : List Int) : List Int := morphSpec o.w o.h o.ker o.ks o.cy o.cx dilation p

def symmetricSE (o : Mo) : Bool := pointSymmetric o.ker o.ks o.cy o.cx

def leAll (a b : List Int) : Bool := a.length == b.length && (a.zip b).all (fun (x, y) => x ≤ y)

def judgeMoPlane (o : Mo) (sym : Bool) (src : List Int) (r : List (List Int)) : Option String :=
  let dil := r.getD 0 []; let ero := r.getD 1 []; let opn := r.getD 2 []; let cls := r.getD 3 []
  let opn2 := r.getD 4 []; let cls2 := r.getD 5 []
  if !(leAll ero src && leAll src dil) then some "erode<=src<=dilate"
  -- duality under complement: a consequence of "max / min over the neighbourhood" for ANY structuring element (C16_morph_duality)
  else if r.getD 6 [] ≠ complPlane o.c ero ∨ r.getD 7 [] ≠ complPlane o.c dil then some "dilate-erode-dual-under-complement"
  else if !sym then none            -- the property speaks about symmetric structuring elements only
  else if dil ≠ iterate (specMorph o true) o.iters src then some "dilate-is-max-over-neighbourhood"
  else if ero ≠ iterate (specMorph o false) o.iters src then some "erode-is-min-over-neighbourhood"
  else if opn ≠ specMorph o true (specMorph o false src) then some "opening-is-dilate-of-erode"
  else if cls ≠ specMorph o false (specMorph o true src) then some "closing-is-erode-of-dilate"
  else if !(leAll opn src && leAll src cls) then some "opening<=src<=closing"
  else if opn2 ≠ opn ∨ cls2 ≠ cls then some "opening-closing-idempotent"
  else none

def judgeMo (o : Mo) (obs : String) : String :=
  match parseObs obs with
  | none => "fail not-an-image:" ++ obs.take 40
  | some (w, h, groups) =>
    if w ≠ o.w ∨ h ≠ o.h ∨ groups.length ≠ 8 then "fail shape" else
    -- groups: 8 results, each "plane / plane / ..."
    match groups.mapM (fun g => (splitOn' "/" g).mapM ints) with
    | none => "fail not-a-value"
    | some res =>     -- res[r][plane]
      let sym := symmetricSE o
      let n := o.planes.length
      if res.any (fun r => r.length ≠ n) then "fail shape" else
      match (List.range n).findSome? (fun (pl : Nat) => judgeMoPlane o sym (o.planes.getD pl []) (res.map fun r => r.getD pl [])) with
      | some e => "fail " ++ e
      | none => "ok"

/-! ### median -/

structure Me where
  w : Nat
  h : Nat
  k : Nat
  planes : List (List Int)

def parseMe (line : String) : Option Me :=
  match splitOn' "|" (words line) with
  | ["me", _c, w, h, k] :: planesW =>
    match ints [w, h, k], planesW.mapM ints with
    | some [w, h, k], some planes => if w < 1 ∨ h < 1 ∨ k < 1 then none else some { w := w.toNat, h := h.toNat, k := k.toNat, planes := planes }
    | _, _ => none
  | _ => none

def modelMe (o : Me) : String := showPlanes o.w o.h (o.planes.map (medianFilter o.w o.h o.k))

def judgeMe (o : Me) (obs : String) : String :=
  match parseObs obs with
  | none => "fail not-an-image:" ++ obs.take 40
  | some (w, h, groups) =>
    if w ≠ o.w ∨ h ≠ o.h then "fail shape" else
    match groups.mapM ints with
    | none => "fail not-a-value"
    | some dst =>
      if dst.length ≠ o.planes.length then "fail shape" else
      let bad := (o.planes.zip dst).findSome? fun (src, d) =>
        if d.length ≠ o.w * o.h then some "shape" else
        (List.range (o.w * o.h)).findSome? fun (i : Nat) =>
          if isMedian (medianWindowSpec (imgFn o.w src) o.w o.h o.k (i % o.w) (i / o.w)) (d.getD i 0) then none
          else some ("median-of-edge-replicated-neighbourhood@" ++ toString (i % o.w) ++ "," ++ toString (i / o.w))
      match bad with
      | some e => "fail " ++ e
      | none => "ok"

/-! ### threshold_adaptive -/

structure Ad where
  c : Ch
  gauss : Bool
  inv : Bool
  w : Nat
  h : Nat
  k : Nat
  cst : Int
  mx : Int
  src : List Int
  thr : List Int

/-- `ad <ch> <mean|gauss> <reg|inv> <w> <h> <k> <constant> <max> | src | claimed local-threshold surface` -/
def parseAd (line : String) : Option Ad :=
  match splitOn' "|" (words line) with
  | [["ad", c, meth, dir, w, h, k, cst, mx], srcW, thrW] =>
    match Ch.parse c, ints [w, h, k, cst, mx], ints srcW, ints thrW with
    | some c, some [w, h, k, cst, mx], some src, some thr =>
      if w < 1 ∨ h < 1 ∨ k < 1 ∨ src.length ≠ (w * h).toNat ∨ thr.length ≠ (w * h).toNat ∨ (c ≠ .u8 ∧ c ≠ .u16) then none
      else some { c := c, gauss := meth == "gauss", inv := dir == "inv", w := w.toNat, h := h.toNat, k := k.toNat,
                  cst := c.wrap cst, mx := (if mx < 0 then c.hi else c.wrap mx), src := src, thr := thr }
    | _, _, _, _ => none
  | _ => none

def modelAd (o : Ad) : String := showPlanes o.w o.h [adaptivePlane o.c o.inv o.mx o.cst o.src o.thr]

def judgeAd (o : Ad) (obs : String) : String :=
  if obs.startsWith "ub:" || obs.startsWith "crash" || obs.startsWith "timeout" || obs.startsWith "assert:" then "fail adaptive-no-ub"
  else
  -- (b) the claimed threshold surface is the local mean / a convex combination of the zero-padded window (exact integers)
  let badT := (List.range (o.w * o.h)).findSome? fun (i : Nat) =>
    let win := zwindow o.w o.h o.k o.src (i % o.w) (i / o.w)
    let t := o.thr.getD i 0
    if (if o.gauss then gaussSurfaceOk win t else meanSurfaceOk o.k win t) then none
    else some ("adaptive-threshold-surface-is-local-" ++ (if o.gauss then "gaussian-mean" else "mean") ++ "@" ++ toString (i % o.w) ++ "," ++ toString (i / o.w))
  match badT with
  | some e => "fail " ++ e
  | none =>
  match parseObs obs with
  | none => "fail not-an-image:" ++ obs.take 40
  | some (w, h, groups) =>
    if w ≠ o.w ∨ h ≠ o.h then "fail shape" else
    -- (a) every destination pixel is the documented comparison against (local threshold − constant)
    judgePlanes [(o.src.zip o.thr).map fun (px, t) => adaptiveSpec o.inv px t o.mx o.cst] groups "adaptive-per-pixel-comparison-with-local-threshold"

/-! ### thresholds -/

def modelTh (o : Th) : String :=
  showPlanes o.w o.h (o.planes.map (thresholdPlane o.s o.d o.k o.t o.mx))

def judgeTh (o : Th) (obs : String) : String :=
  match parseObs obs with
  | none => "fail not-an-image:" ++ obs.take 40
  | some (w, h, groups) =>
    if w ≠ o.w ∨ h ≠ o.h then "fail shape" else
    judgePlanes (o.planes.map fun p => p.map fun px => o.d.wrap (thresholdSpec o.k px o.t o.mx)) groups "threshold-per-channel-comparison"

/-- the op word `@<src><dst>` selects the MEMORY GEOMETRY of the two views in the harness (whole image, sub-view of a larger canvas,
    upside-down, mirrored …).  The model has no such notion: its functions take and return planes indexed by the views' logical
    coordinates only (C16_view_geometry_irrelevant), so the word is dropped before parsing. -/
def dropGeo (line : String) : String := " ".intercalate ((words line).filter fun w => !w.startsWith "@")

def model (line0 : String) : String :=
  let line := dropGeo line0
  match (words line).head? with
  | some "th" => match parseTh line with | some o => modelTh o | none => "bad-op"
  | some "ot" => match parseOt line with | some o => modelOt o | none => "bad-op"
  | some "mo" => match parseMo line with | some o => modelMo o | none => "bad-op"
  | some "me" => match parseMe line with | some o => modelMe o | none => "bad-op"
  | some "ad" => match parseAd line with | some o => modelAd o | none => "bad-op"
  | _ => "bad-op"

def judge (op0 obs : String) : String :=
  let op := dropGeo op0
  -- frame clause ("none of them … writes outside the destination"): the harness counts the canvas cells outside the destination view
  -- that no longer hold the guard value
  if obs.startsWith "frame-violated" then "fail writes-outside-the-destination-view" else
  match (words op).head? with
  | some "th" => match parseTh op with | some o => judgeTh o obs | none => "fail bad-op"
  | some "ot" => match parseOt op with | some o => judgeOt o obs | none => "fail bad-op"
  | some "mo" => match parseMo op with | some o => judgeMo o obs | none => "fail bad-op"
  | some "me" => match parseMe op with | some o => judgeMe o obs | none => "fail bad-op"
  | some "ad" => match parseAd op with | some o => judgeAd o obs | none => "fail bad-op"
  | _ => "fail bad-op"

def main (args : List String) : IO UInt32 := Driver.main' model judge args
