import Driver.Common
import GilVerif.Model.C02
open Driver GilVerif.Geom GilVerif.Model.C02 GilVerif.Gen.C02

/-- what the harness knows about a source kind -/
structure KInfo where
  unit : Int            -- bits per memory unit of the printed addresses (8: bytes, 1: bits)
  pix : Int             -- pixel size in memory units
  xs0 : Int             -- x step of the source view in memory units
  nch : Nat             -- channels
  cb : Nat              -- bits of each channel used for the identity tag
  chan : Int            -- channel size in memory units (byte kinds)
  planar : Bool
  chbits : List (Int × Int)   -- (bit offset inside the pixel, width) of each channel (interleaved / packed / bit-aligned)
  homog : Bool
  basic : Bool          -- view_is_basic: channel views re-point the iterator (else: dereference adaptor)
  virt : Bool := false
  deep : Bool := false  -- the harness continues the op list on colour-converted (dereference-adaptor) views of this kind
  deriving Inhabited

def PLANE : Int := 8192

def kinfo (k : String) : Option KInfo :=
  let inter (p c : Int) (n : Nat) : Option KInfo :=
    some { unit := 8, pix := p, xs0 := p, nch := n, cb := 8, chan := c, planar := false,
           chbits := (List.range n).map (fun (i : Nat) => (8 * c * (i : Int), 8 * c)), homog := true, basic := true }
  let bit (b : Int) (n : Nat) (cw : Int) : Option KInfo :=
    some { unit := 1, pix := b, xs0 := b, nch := n, cb := cw.toNat, chan := 0, planar := false,
           chbits := (List.range n).map (fun (i : Nat) => (cw * (i : Int), cw)), homog := false, basic := false }
  match k with
  | "g8" => inter 1 1 1 | "rgb8" => (inter 3 1 3).map (fun i => { i with deep := true }) | "rgba8" => inter 4 1 4 | "rgb16" => inter 6 2 3 | "rgb32f" => inter 12 4 3
  | "s8" => (inter 3 1 3).map (fun i => { i with xs0 := 6 })
  | "p565" => some { unit := 8, pix := 2, xs0 := 2, nch := 3, cb := 5, chan := 0, planar := false,
                      chbits := [(0, 5), (5, 6), (11, 5)], homog := false, basic := false }
  | "pl8" => some { unit := 8, pix := 1, xs0 := 1, nch := 3, cb := 8, chan := 1, planar := true, chbits := [(0, 8)], homog := true, basic := true }
  | "pl16" => some { unit := 8, pix := 2, xs0 := 2, nch := 3, cb := 8, chan := 2, planar := true, chbits := [(0, 16)], homog := true, basic := true }
  | "b1" => bit 1 1 1 | "b2" => bit 2 1 2 | "b4" => bit 4 1 4 | "b3" => bit 3 3 1 | "b6" => bit 6 3 2 | "b12" => bit 12 3 4
  | "v" => some { unit := 1, pix := 1, xs0 := 1, nch := 1, cb := 32, chan := 0, planar := false, chbits := [], homog := false, basic := false, virt := true }
  | _ => none

inductive Op where
  | geo (t : Xform)
  | nth (n : Int)
  | kth (k : Int)
  | conv
  | convOff (o : Int)   -- Z<off>: color_converted_view<bgr8> with the STATEFUL converter `off_cc(off)`
  | convSame      -- color_converted_view<value_type of the view>: returns the view itself
  deriving Inhabited

def parseOp (tok : String) : Option Op :=
  let c := (tok.take 1).toString
  let args := ints (((tok.drop 1).toString.splitOn ",").filter (· ≠ ""))
  match c, args with
  | "U", some [] => some (.geo .flipUD) | "L", some [] => some (.geo .flipLR) | "T", some [] => some (.geo .transpose)
  | "R", some [] => some (.geo .rot90cw) | "C", some [] => some (.geo .rot90ccw) | "I", some [] => some (.geo .rot180)
  | "S", some [sx, sy] => some (.geo (.subsample sx sy))
  | "B", some [x0, y0, w, h] => some (.geo (.sub x0 y0 w h))
  | "N", some [n] => some (.nth n) | "K", some [k] => some (.kth k) | "X", some [] => some .conv | "Z", some [o] => some (.convOff o) | "Y", some [] => some .convSame
  | _, _ => none

def parseOps (s : String) : Option (List Op) := if s = "-" then some [] else (s.splitOn "/").mapM parseOp

structure Req where
  ki : KInfo
  W : Int
  H : Int
  src : View
  vsrc : VView
  ops : List Op
  wx : Int
  wy : Int
  assign : Bool := false     -- `xa`: every view of the chain is ASSIGNED into an already constructed view

def parseReq (ws : List String) : Option Req :=
  match ws with
  | [xfa, k, W, H, PAD, OFF, ops, wx, wy] =>
    if xfa ≠ "xf" ∧ xfa ≠ "xa" then none else      -- xa: the same chain built by assignment (the views are the same)
    match kinfo k, ints [W, H, PAD, OFF, wx, wy], parseOps ops with
    | some ki, some [W, H, PAD, OFF, wx, wy], some ops =>
      let base := if ki.unit = 1 ∧ !ki.virt then OFF else 0
      some { ki := ki, W := W, H := H, ops := ops, wx := wx, wy := wy, assign := xfa = "xa",
             src := { base := base, xs := ki.xs0, ys := W * ki.pix * (ki.xs0 / ki.pix) + PAD, w := W, h := H },
             vsrc := { px := PAD, py := OFF, sx := 1, sy := 1, tr := false, w := W, h := H } }
    | _, _, _ => none
  | _ => none

/-- channel `k` of the source pixel with identity `id` -/
def chanVal (cb : Nat) (id : Int) (k : Nat) : Int := (id * (2 * k + 1) + k) % (2 ^ cb : Int)

/-- channel selection state of a derived view -/
structure Sel where
  chan : Option Nat := none     -- selected channel (none = whole pixel)
  off : Int := 0                -- memory units added to every address by re-pointed channel views
  adaptor : Bool := false       -- selected through a dereference adaptor (address = pixel address)
  conv : Option Int := none     -- colour-converting dereference adaptor: `some (-1)` = inv_cc (255 - v), `some off` (0..255) = off_cc(off)
  inner : Bool := false         -- the adaptor was added to a view whose x-iterator already was a step iterator: it sits INSIDE the step iterator
  cchan : Option Nat := none    -- physical channel of the converted bgr8 pixel selected by an nth / kth_channel dereference adaptor on top
  deriving Inhabited

def Sel.isConv (s : Sel) : Bool := s.conv.isSome

def tagOf (ki : KInfo) (s : Sel) (id : Int) : Int :=
  let cv (k : Nat) : Int :=      -- channel k (by colour) as the derived view shows it
    let v := chanVal ki.cb id k
    match s.conv with
    | none => v
    | some o => if o < 0 then 255 - v else (v + o) % 256
  match s.chan, s.cchan with
  | some k, _ => chanVal ki.cb id k
  | none, some n => cv (2 - n)       -- physical channel n of a bgr8 pixel is colour 2 - n
  | none, none => (List.range ki.nch).foldl (fun acc k => acc + cv k * (2 ^ (k * ki.cb) : Int)) 0

/-- bit intervals (start, length) of the arena occupied by the (selected channel of the) pixel at address `a` -/
def footprint (ki : KInfo) (s : Sel) (a : Int) : List (Int × Int) :=
  match s.chan with
  | some k =>
    if s.adaptor then (match ki.chbits[k]? with | some (o, w) => [(a * ki.unit + o, w)] | none => [])
    else [(a * 8, ki.chan * 8)]
  | none =>
    if ki.planar then (List.range ki.nch).map (fun (k : Nat) => ((a + PLANE * (k : Int)) * 8, ki.chan * 8))
    else [(a * ki.unit, ki.pix * ki.unit)]

/-- merge adjacent intervals of a sorted list -/
def mergeIv : List (Int × Int) → List (Int × Int)
  | (a, n) :: (b, m) :: rest => if a + n = b then mergeIv ((a, n + m) :: rest) else (a, n) :: mergeIv ((b, m) :: rest)
  | l => l
termination_by l => l.length

def range' (lo hi : Int) : List Int := (List.range (hi - lo + 1).toNat).map (fun i => lo + Int.ofNat i)
def join (groups : List (List Int)) : String := " | ".intercalate (groups.map showInts)

/-- identity of the source pixel stored at address `a` (memory content of the source buffer) -/
def idAt (r : Req) (a : Int) : Int :=
  let d := a - r.src.base
  if r.src.ys ≤ 0 ∨ r.src.xs ≤ 0 then -1 else
  let sy := d / r.src.ys
  let rem := d % r.src.ys
  let sx := rem / r.src.xs
  if rem % r.src.xs = 0 ∧ 0 ≤ sx ∧ sx < r.W ∧ 0 ≤ sy ∧ sy < r.H then sy * r.W + sx + 1 else -1

/-- does a transformation turn the x-iterator into a step iterator?  (Model.C02.Xform.stepsX) -/
def xfSteps (t : Xform) : Bool := t.stepsX

inductive Outcome where
  | view (v : View) (s : Sel)
  | vview (v : VView)
  | assert (fn : String)
  | bad

/-- run the op list on the model -/
def runOps (r : Req) : Outcome :=
  if r.ki.virt then
    let rec goV (ops : List Op) (v : VView) : Outcome :=
      match ops with
      | [] => .vview v
      | .geo t :: rest =>
        if xyAtAsserts (facArgs t v.w v.h) v.w v.h then .assert "xy_at" else
        let nv := applyVirt t v
        -- xa: assigned into the source view (same type) or into a default-constructed view of the result type (Model.C02.VView.assign)
        goV rest (if r.assign then VView.assign (if nv.tr = v.tr then v else ⟨0, 0, 0, 0, nv.tr, 0, 0⟩) nv else nv)
      | _ => .bad
    goV r.ops r.vsrc
  else
    let chanAddr : Int → Int := fun k => if r.ki.planar then PLANE * k else r.ki.chan * k
    let rec go (ops : List Op) (v : View) (s : Sel) (t : ChanSrc) : Outcome :=
      match ops with
      | [] => .view v s
      | .geo tr :: rest =>
        if xyAtAsserts (facArgs tr v.w v.h) v.w v.h then .assert "xy_at" else
        -- KNOWN FINDING C02-deref-adaptor-step-drops-functor: the stepping locator constructor re-creates the x-iterator with
        -- make_step_iterator, which (unless the tree has the fix: generated probe deref_step_keeps_functor) converts the stepped base back to the
        -- dereference adaptor with a DEFAULT-CONSTRUCTED function object: a stateful converter becomes off_cc(0), an nth_channel adaptor selects channel 0
        -- (an adaptor added to a view that already was a step view sits inside the memory_based_step_iterator, whose step is simply replaced: nothing is lost)
        let lose := s.isConv ∧ !s.inner ∧ xfSteps tr ∧ deref_step_keeps_functor = 0
        let s' := if lose then { s with conv := s.conv.map (fun o => if o < 0 then o else 0), cchan := s.cchan.map (fun _ => 0) } else s
        go rest (applyMem tr v) s' { t with isStep := t.isStep || xfSteps tr }
      | .nth n :: rest =>
        if s.isConv then      -- a non-basic (dereference-adaptor) view: nth_channel_deref_fn is added on top, the locator is unchanged
          if !r.ki.deep ∨ s.cchan.isSome ∨ n < 0 ∨ n > 2 then .bad else go rest v { s with cchan := some n.toNat } t
        else
        if !r.ki.homog then .bad else
        if nth_channel_through_view = 1 ∧ call_ok 0 0 v.w v.h = 0 then .assert "operator" else
        -- the view `make` builds (Model.C02.chanViewMem, from the generated bodies); on a view that already is a
        -- channel view (single interleaved channel) nth_channel_view(v, 0) re-points at the same channel
        let addr : Int → Int := if s.chan.isSome then (fun k => r.ki.chan * k) else chanAddr
        let s' := match s.chan with
          | some _ => s
          | none => { s with chan := some n.toNat, off := s.off + chanAddr n }
        go rest (chanViewMem false t addr n v) s' (chanViewSrc false t)
      | .kth k :: _ =>
        if s.isConv then (if s.cchan.isSome ∨ k < 0 ∨ k > 2 then .bad else .view v { s with cchan := some k.toNat }) else
        if r.ki.basic then
          if nth_channel_through_view = 1 ∧ call_ok 0 0 v.w v.h = 0 then .assert "operator" else
          .view (chanViewMem true t chanAddr k v) { s with chan := some k.toNat, off := s.off + chanAddr k }
        else .view v { s with chan := some k.toNat, adaptor := true }
      | .conv :: rest => if s.isConv ∨ s.chan.isSome then .bad else if r.ki.deep then go rest v { s with conv := some (-1), inner := t.isStep } t else .view v { s with conv := some (-1) }
      | .convOff o :: rest =>
        if s.isConv ∨ s.chan.isSome ∨ o < 0 ∨ o > 255 then .bad else if r.ki.deep then go rest v { s with conv := some o, inner := t.isStep } t else .view v { s with conv := some o }
      | .convSame :: _ => if s.isConv then .bad else .view v s
    go r.ops r.src {} { isStep := r.src.xs ≠ r.ki.pix, planar := r.ki.planar, nch := r.ki.nch, chanSize := r.ki.chan }

def model (line : String) : String :=
  match parseReq (words line) with
  | none => "bad-op"
  | some r =>
    match runOps r with
    | .bad => "bad-op"
    | .assert fn => "assert:" ++ fn
    | .vview v =>
      let pix := (range' 0 (v.h - 1)).flatMap fun y => (range' 0 (v.w - 1)).flatMap fun x =>
        let p := v.pt x y; [p.2 * 4096 + p.1, p.2 * 4096 + p.1]
      join [[v.w, v.h], pix, []]
    | .view v s =>
      let pix := (range' 0 (v.h - 1)).flatMap fun y => (range' 0 (v.w - 1)).flatMap fun x =>
        let a := v.addr x y
        [tagOf r.ki s (idAt r (a - s.off)), a]
      let wr := if v.w > 0 ∧ v.h > 0 ∧ !s.isConv then mergeIv (footprint r.ki s (v.addr r.wx r.wy)) else []
      join [[v.w, v.h], pix, wr.flatMap (fun (a, n) => [a, n])]

/-! ### judge: the documented behaviour (Spec) evaluated on the implementation's observation -/

def splitGroups (ws : List String) : List (List String) :=
  let rec go (acc : List String) (rest : List String) : List (List String) :=
    match rest with
    | [] => [acc.reverse]
    | "|" :: r => acc.reverse :: go [] r
    | x :: r => go (x :: acc) r
  go [] ws

def pairs : List Int → List (Int × Int)
  | a :: b :: rest => (a, b) :: pairs rest
  | _ => []

def fail (s : String) : String := "fail " ++ s

def geoOps (ops : List Op) : List Xform := ops.filterMap (fun o => match o with | .geo t => some t | _ => none)

/-- channel selection demanded by the op list (Spec level) -/
def selOf (ki : KInfo) (ops : List Op) : Sel :=
  ops.foldl (fun s o =>
    if s.isConv then      -- on a colour-converted (dereference-adaptor) view a channel view selects a channel of the CONVERTED pixel
      match o with
      | .nth n => { s with cchan := some n.toNat }
      | .kth k => { s with cchan := some k.toNat }
      | _ => s
    else
    match o, s.chan with
    | .nth n, none => { s with chan := some n.toNat, off := (if ki.planar then PLANE * n else ki.chan * n) }
    | .kth k, none => if ki.basic then { s with chan := some k.toNat, off := (if ki.planar then PLANE * k else ki.chan * k) }
                      else { s with chan := some k.toNat, adaptor := true }
    | .conv, _ => { s with conv := some (-1) }
    | .convOff o, _ => { s with conv := some o }
    | _, _ => s) {}

def judge (op obs : String) : String :=
  match parseReq (words op) with
  | none => fail "bad-op"
  | some r =>
    let ts := geoOps r.ops
    if !validDims ts (r.W, r.H) then "ok" else        -- outside the factories' preconditions: not judged
    if obs.startsWith "assert:" then fail "aborts (BOOST_ASSERT) on a valid, possibly empty view: " ++ obs else
    match (splitGroups (words obs)).map ints with
    | [some _, some _, some _, some [x, y, path, t0, tp]] =>
      fail s!"paths-agree: access path {path} reads {tp} at ({x},{y}) of the derived view where view(x,y) reads {t0}"
    | [some [w, h], some pix, some wr] =>
      let d := dimsAll ts (r.W, r.H)
      if (w, h) ≠ d then fail "dims: documented dimensions" else
      if pix.length ≠ (2 * w * h).toNat then fail "shape" else
      let s := selOf r.ki r.ops
      let coords := (range' 0 (h - 1)).flatMap fun y => (range' 0 (w - 1)).map fun x => (x, y)
      let srcOf (x y : Int) : Int × Int := phiDims ts (r.W, r.H) (x, y)
      let bad := (coords.zip (pairs pix)).find? fun ((x, y), (tag, addr)) =>
        let p := srcOf x y
        if r.ki.virt then
          let pt := r.vsrc.pt p.1 p.2
          !(tag == pt.2 * 4096 + pt.1 && addr == tag)
        else
          !(0 ≤ p.1 && p.1 < r.W && 0 ≤ p.2 && p.2 < r.H
            && tag == tagOf r.ki s (p.2 * r.W + p.1 + 1) && addr == r.src.addr p.1 p.2 + s.off)
      match bad with
      | some ((x, y), _) => fail s!"map: pixel ({x},{y}) of the derived view is not the documented source pixel"
      | none =>
        if r.ki.virt ∨ s.isConv ∨ w ≤ 0 ∨ h ≤ 0 then (if wr.isEmpty then "ok" else fail "shallow: unexpected write") else
        let p := srcOf r.wx r.wy
        let expect := mergeIv (footprint r.ki s (r.src.addr p.1 p.2 + s.off))
        if pairs wr ≠ expect then fail "shallow: a write through the derived view changes exactly the documented source pixel (channel)" else "ok"
    | _ => fail ("not-a-value:" ++ obs.take 40)

def main (args : List String) : IO UInt32 := Driver.main' model judge args
