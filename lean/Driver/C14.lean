import Driver.Common
import GilVerif.Model.C14
open Driver GilVerif.Model.C14

/-! model observations and Spec judge for the C14 op lines (formats: harness/C14/*.cpp) -/

def hexDigit (n : Nat) : Char := "0123456789abcdef".toList.getD n '0'
def hexN (digits v : Nat) : String :=
  String.ofList ((List.range digits).reverse.map (fun i => hexDigit ((v >>> (4 * i)) % 16)))

def hexPixels (bits : Nat) (px : List (List Nat)) : String :=
  let d := if bits ≤ 8 then 2 else 4
  if px.isEmpty then "-" else String.join (px.map (fun p => String.join (p.map (hexN d))))

def dumpHex {t : Tag} (v : View t) (bits : Nat) (m : Mem) : String := hexPixels bits (v.dump m)

def heap0 : Heap := ⟨⟨fun _ => 0⟩, 1000⟩

def listOf (name : String) : List Fmt := if name == "L6" then L6 else L7

def b01 (b : Bool) : String := if b then "1" else "0"

/-- toggle bit 0 of physical channel 0 of pixel (x,y), when inside the view -/
def toggleAt {t : Tag} (v : View t) (m : Mem) (x y : Int) : Mem :=
  if 0 ≤ x ∧ 0 ≤ y ∧ x < v.w ∧ y < v.h then
    let c := v.cell x.toNat y.toNat 0
    upd m c (m c ^^^ 1)
  else m

def dposXY (w : Nat) (dpos : Int) : Int × Int :=
  if w > 0 ∧ dpos ≥ 0 then (dpos % w, dpos / w) else (-1, -1)

/-! #### xf -/

def parseXf (seed : Nat) (ws : List String) : Option (String × Xf) :=
  match ws with
  | ["id"] => some ("id", .id) | ["flipud"] => some ("flipud", .flipUD) | ["fliplr"] => some ("fliplr", .flipLR)
  | ["transpose"] => some ("transpose", .transpose) | ["rot90cw"] => some ("rot90cw", .rot90cw)
  | ["rot90ccw"] => some ("rot90ccw", .rot90ccw) | ["rot180"] => some ("rot180", .rot180)
  | [o, a, b, c, d] =>
    if o == "sub" || o == "sub5" then
      match a.toNat?, b.toNat?, c.toNat?, d.toNat? with
      | some a, some b, some c, some d => some (o, .sub a b c d)
      | _, _, _, _ => none
    else none
  | [o, a, b] =>
    if o == "subs" || o == "subs2" then
      match a.toNat?, b.toNat? with
      | some a, some b => some (o, .subs a b)
      | _, _ => none
    else none
  | [o, a] =>
    if o == "nth" then a.toNat?.map (fun n => (o, .nth n))
    else if o == "cc" || o == "anycc" then (Fmt.parse a).map (fun f => (o, .cc f .default))
    else if o == "ccx" || o == "anyccx" then (Fmt.parse a).map (fun f => (o, .cc f (.sum (ccOffset seed))))
    else none
  | _ => none

/-- the type list an xf op runs on (the harness uses L6 where the operation on the concrete g1 object does not
    compile either / the library documents homogeneous pixels only) -/
def xfList (B : Bool) (x : Xf) : List Fmt :=
  if B then LB else
  match x with
  | .nth _ => L6
  | .cc d _ => if d.cs = .rgba then L6 else L7
  | _ => L7

def xfWritable : Xf → Bool | .cc _ _ => false | _ => true

def descr {t : Tag} (r : View t) (bits : Nat) (m : Mem) : String :=
  s!"w={r.w} h={r.h} nc={t.fmt.nc} sz={r.w * r.h} px={dumpHex r bits m}"

def modelXf (B : Bool) (ws : List String) : String :=
  match ws with
  | T :: w :: h :: s :: rest =>
    match Fmt.parse T, w.toNat?, h.toNat?, s.toNat?, parseXf (s.toNat?.getD 0) rest with
    | some f, some w, some h, some s, some (name, x) =>
      let L := xfList B x
      if !L.contains f then "bad-type" else
      let (img, hp) := heap0.make f w h s
      let v := img.view
      let r := x.apply v
      let t' := x.tag (Tag.ofFmt f)
      let idx := indexOf t' (L.map (fun g => x.tag (Tag.ofFmt g)))
      let d := descr r t'.fmt.bits hp.mem
      let m' := if xfWritable x then toggleAt r hp.mem 0 0 else hp.mem
      let src := dumpHex v f.bits m'
      let C := s!"C:ok {d} src={src}"
      if knownNoCompile.contains name then s!"A:err:no-compile | {C}"
      else s!"A:ok i={idx} ty=1 {d} src={src} | {C}"
    | _, _, _, _, _ => "bad-op"
  | _ => "bad-op"

/-- two lifted transformations in a row: `xf2 T w h s <op1> then <op2>` -/
def splitThen (ws : List String) : List String × List String :=
  (ws.takeWhile (· != "then"), (ws.dropWhile (· != "then")).drop 1)

def xf2List (B : Bool) (x2 : Xf) : List Fmt := if B then LB else match x2 with | .nth _ => L6 | _ => L7

def modelXf2 (B : Bool) (ws : List String) : String :=
  match ws with
  | T :: w :: h :: s :: rest =>
    let (r1, r2) := splitThen rest
    match Fmt.parse T, w.toNat?, h.toNat?, s.toNat?, parseXf (s.toNat?.getD 0) r1, parseXf (s.toNat?.getD 0) r2 with
    | some f, some w, some h, some s, some (n1, x1), some (n2, x2) =>
      let L := xf2List B x2
      if !L.contains f then "bad-type" else
      let (img, hp) := heap0.make f w h s
      let v := img.view
      let r := x2.apply (x1.apply v)
      let tg (g : Fmt) := x2.tag (x1.tag (Tag.ofFmt g))
      let idx := indexOf (tg f) (L.map tg)
      let d := descr r (tg f).fmt.bits hp.mem
      let m' := if xfWritable x1 && xfWritable x2 then toggleAt r hp.mem 0 0 else hp.mem
      let src := dumpHex v f.bits m'
      let C := s!"C:ok {d} src={src}"
      if knownNoCompile.contains n1 || knownNoCompile.contains n2 then s!"A:err:no-compile | {C}"
      else s!"A:ok i={idx} ty=1 {d} src={src} | {C}"
    | _, _, _, _, _, _ => "bad-op"
  | _ => "bad-op"

/-! #### binary algorithms -/

inductive BinAlg where | copy | equal | ccopy (c : Conv) | rs (mat : List Int) | rsz | xcopy | xequal

def parseBin (seed : Nat) (name : String) (extra : List String) : Option BinAlg :=
  match name, extra with
  | "copy", [] => some .copy | "equal", [] => some .equal
  | "ccopy", [] => some (.ccopy .default) | "ccopyx", [] => some (.ccopy (.sum (ccOffset seed)))
  | "rsz", [] => some .rsz
  | "xcopy", [] => some .xcopy | "xequal", [] => some .xequal
  | "rs", e => if e.length = 6 then (ints e).map .rs else none
  | _, _ => none

/-- the overload shape named by the op's mode word (`aa`/`ka`: any/any, `ac`: any/concrete, `ca`: concrete/any),
    as written in algorithm.hpp -/
def binMode {β : Type} (mode : String) (f : {t1 t2 : Tag} → View t1 → View t2 → Mem → β × Mem) {t1 t2 : Tag}
    (va : View t1) (vb : View t2) (m : Mem) : Except Err β × Mem :=
  if mode == "ac" then binAC f (wrap va) vb m
  else if mode == "ca" then binCA f va (wrap vb) m
  else binAA f (wrap va) (wrap vb) m

def ccMode (mode : String) (c : Conv) {t1 t2 : Tag} (va : View t1) (vb : View t2) (m : Mem) : Except Err Unit × Mem :=
  if mode == "ac" then ccAC c (wrap va) vb m
  else if mode == "ca" then ccCA c va (wrap vb) m
  else ccAA c (wrap va) (wrap vb) m

def modelBin (B : Bool) (name : String) (ws : List String) : String :=
  match ws with
  | mode :: T1 :: T2 :: w1 :: h1 :: w2 :: h2 :: s1 :: s2 :: dpos :: extra =>
    match Fmt.parse T1, Fmt.parse T2, [w1, h1, w2, h2, s1, s2].mapM String.toNat?, dpos.toInt?, parseBin (s1.toNat?.getD 0) name extra with
    | some f1, some f2, some [w1, h1, w2, h2, s1, s2], some dpos, some alg =>
      let L := if B then LB else match alg with | .ccopy _ => L6 | _ => L7
      if !(L.contains f1 && L.contains f2) then "bad-type" else
      let (ia, hp1) := heap0.make f1 w1 h1 s1
      let (ib, hp2) := hp1.make f2 w2 h2 s2
      let va := ia.view; let vb := ib.view
      let (tx, ty) := dposXY w2 dpos
      let m0 := toggleAt vb hp2.mem tx ty
      let d0 := dumpHex vb f2.bits m0
      let a : AnyView := wrap va; let b : AnyView := wrap vb
      let compat := compatible f1 f2
      let needsCompat := match alg with | .ccopy _ => false | _ => true
      let needsDims := match alg with | .copy | .equal | .ccopy _ | .xcopy | .xequal => true | _ => false
      -- the concrete algorithm asserts equal dimensions (reached only when the pair is one the call is defined for)
      if needsDims && (compat || !needsCompat) && !sameDims a b then s!"compat={b01 compat} A:assert | C:assert | D0={d0}" else
      let (st, r, m1) : String × String × Mem := match alg with
        | .copy => match binMode mode (fun s d m => ((), copyPixels s d m)) va vb m0 with | (.ok _, m) => ("ok", "", m) | (.error _, m) => ("err:bad_cast", "", m)
        | .equal => match binMode mode (fun s d m => (equalPixels s d m, m)) va vb m0 with | (.ok e, m) => ("ok", " r=" ++ b01 e, m) | (.error _, m) => ("err:bad_cast", "", m)
        | .ccopy c => match ccMode mode c va vb m0 with | (.ok _, m) => ("ok", "", m) | (.error _, m) => ("err:bad_cast", "", m)
        | .rs mat => match binMode mode (fun s d m => ((), resampleNN mat s d m)) va vb m0 with | (.ok _, m) => ("ok", "", m) | (.error _, m) => ("err:bad_cast", "", m)
        -- the algorithm on RESULTS of lifted transformations (harness/C14/xbin.cpp)
        | .xcopy => match binMode mode (fun s d m => ((), copyPixels s d m)) (Xf.flipLR.apply va) (Xf.rot180.apply vb) m0 with
          | (.ok _, m) => ("ok", "", m) | (.error _, m) => ("err:bad_cast", "", m)
        | .xequal => match binMode mode (fun s d m => (equalPixels s d m, m)) ((Xf.subs 2 1).apply va) ((Xf.subs 2 1).apply vb) m0 with
          | (.ok e, m) => ("ok", " r=" ++ b01 e, m) | (.error _, m) => ("err:bad_cast", "", m)
        | .rsz => match binMode mode (fun s d m => ((), resampleNNF (resizeMatrix s.w s.h d.w d.h) s d m)) va vb m0 with | (.ok _, m) => ("ok", "", m) | (.error _, m) => ("err:bad_cast", "", m)
      let dst := dumpHex vb f2.bits m1
      let src := dumpHex va f1.bits m1
      let C := if compat || !needsCompat then s!"C:ok{r} dst={dst}" else "C:n/a"
      s!"compat={b01 compat} A:{st}{r} dst={dst} src={src} | {C} | D0={d0}"
    | _, _, _, _, _ => "bad-op"
  | _ => "bad-op"

/-! #### unary algorithms -/

def modelFill (B : Bool) (ws : List String) : String :=
  match ws with
  | [T, P, w, h, s, c0, c1, c2, c3] =>
    match Fmt.parse T, Fmt.parse P, [w, h, s, c0, c1, c2, c3].mapM String.toNat? with
    | some f, some pf, some [w, h, s, c0, c1, c2, c3] =>
      if !(if B then LB else L7).contains f then "bad-type" else
      let (img, hp) := heap0.make f w h s
      let v := img.view
      let sem := ([c0, c1, c2, c3].take pf.nc).map (· % 2 ^ pf.bits)
      let p := fromSem pf sem
      let compat := compatible f pf
      let d0 := dumpHex v f.bits hp.mem
      match anyFillPixels (wrap v) pf p hp.mem with
      | (.ok _, m) => let d := dumpHex v f.bits m; s!"compat={b01 compat} A:ok dst={d} | C:ok dst={d} | D0={d0}"
      | (.error _, m) => s!"compat={b01 compat} A:err:bad_cast dst={dumpHex v f.bits m} | C:n/a | D0={d0}"
    | _, _, _ => "bad-op"
  | _ => "bad-op"

def modelForeach (B : Bool) (ws : List String) : String :=
  match ws with
  | [T, w, h, s] =>
    match Fmt.parse T, [w, h, s].mapM String.toNat? with
    | some f, some [w, h, s] =>
      if !(if B then LB else L7).contains f then "bad-type" else
      let (img, hp) := heap0.make f w h s
      let v := img.view
      let (n, m) := anyForEach (wrap v) hp.mem
      let d := dumpHex v f.bits m
      s!"A:ok n={n} dst={d} | C:ok n={n} dst={d}"
    | _, _ => "bad-op"
  | _ => "bad-op"

/-- the lifted transformation an `xfill` / `xforeach` op sends the view through before the algorithm -/
def parseKind (kind : String) (a b w h : Nat) : Option Xf :=
  if w < 1 || h < 1 then none
  else if kind == "fliplr" then some .flipLR
  else if kind == "subs" then (if a ≥ 1 ∧ b ≥ 1 then some (.subs a b) else none)
  else if kind == "sub" then (if a < w ∧ b < h then some (.sub a b (w - a) (h - b)) else none)
  else none

def modelXFill (B : Bool) (ws : List String) : String :=
  match ws with
  | [T, P, w, h, s, kind, ka, kb, c0, c1, c2, c3] =>
    match Fmt.parse T, Fmt.parse P, [w, h, s, ka, kb, c0, c1, c2, c3].mapM String.toNat? with
    | some f, some pf, some [w, h, s, ka, kb, c0, c1, c2, c3] =>
      if !(if B then LB else L7).contains f then "bad-type" else
      if !["g8", "bgr8", "rgb16", "argb8", "g16"].contains P then "bad-op" else
      match parseKind kind ka kb w h with
      | none => "bad-op"
      | some x =>
        let (img, hp) := heap0.make f w h s
        let v := img.view
        let av := x.lift (wrap v)                   -- the run-time typed result of the lifted transformation
        let sem := ([c0, c1, c2, c3].take pf.nc).map (· % 2 ^ pf.bits)
        let p := fromSem pf sem
        let compat := compatible f pf
        let d0 := dumpHex v f.bits hp.mem
        match anyFillPixels av pf p hp.mem with
        | (.ok _, m) => let d := dumpHex v f.bits m; s!"compat={b01 compat} A:ok dst={d} | C:ok dst={d} | D0={d0}"
        | (.error _, m) => s!"compat={b01 compat} A:err:bad_cast dst={dumpHex v f.bits m} | C:n/a | D0={d0}"
    | _, _, _ => "bad-op"
  | _ => "bad-op"

def modelXForeach (B : Bool) (ws : List String) : String :=
  match ws with
  | [T, w, h, s, kind, ka, kb] =>
    match Fmt.parse T, [w, h, s, ka, kb].mapM String.toNat? with
    | some f, some [w, h, s, ka, kb] =>
      if !(if B then LB else L7).contains f then "bad-type" else
      match parseKind kind ka kb w h with
      | none => "bad-op"
      | some x =>
        let (img, hp) := heap0.make f w h s
        let v := img.view
        let (n, m) := anyForEach (x.lift (wrap v)) hp.mem
        let d := dumpHex v f.bits m
        s!"A:ok n={n} dst={d} | C:ok n={n} dst={d}"
    | _, _ => "bad-op"
  | _ => "bad-op"

/-! #### any_image / any_image_view as values -/

def toggleImg (a : AnyImage) (m : Mem) (x y : Int) : Mem := toggleAt a.2.view m x y
def dumpImg (a : AnyImage) (m : Mem) : String := dumpHex a.2.view a.1.bits m

/-- steps of an `img realign` op: (how, w2, h2, a1)+ -/
def parseCalls : List String → Option (List (Nat × Nat × Nat))
  | [] => some []
  | how :: w :: h :: a :: rest =>
    if how == "xy" || how == "pt" then
      match w.toNat?, h.toNat?, a.toNat?, parseCalls rest with
      | some w, some h, some a, some cs => some ((w, h, a) :: cs)
      | _, _, _, _ => none
    else none
  | _ => none

def layoutStr (l : Lay) : String :=
  s!"w={l.w},h={l.h},vw={l.w},vh={l.h},rs={l.stride},al=" ++
    (if l.w = 0 || l.h = 0 then "-" else ".".intercalate (List.replicate l.h "0"))

/-- layouts after construction and after every call -/
def layoutTrace (x : AnyLay) : List (Nat × Nat × Nat) → List Lay
  | [] => [x.2]
  | c :: cs => x.2 :: layoutTrace (x.recreate c) cs

def modelRealign (L : List Fmt) (T w h a0 : String) (rest : List String) : String :=
  match Fmt.parse T, [w, h, a0].mapM String.toNat?, parseCalls rest with
  | some f, some [w, h, a0], some calls =>
    if calls.isEmpty then "bad-op" else
    if !L.contains f then "bad-type" else
    let x : AnyLay := ⟨f, Lay.make f w h a0⟩
    let tr := layoutTrace x calls
    let ls := " ".intercalate ((List.range tr.length).zip tr |>.map (fun (k, l) => s!"l{k}={layoutStr l}"))
    let i := indexOf (calls.foldl AnyLay.recreate x).1 L
    s!"A: i={indexOf f L} {ls} i1={i} | C: {ls}"
  | _, _, _ => "bad-op"

def modelImg (B : Bool) (ws : List String) : String :=
  let L7 := if B then LB else L7
  match ws with
  | "realign" :: T :: w :: h :: a0 :: rest => modelRealign L7 T w h a0 rest
  | ["dims", T, w, h, s] =>
    match Fmt.parse T, [w, h, s].mapM String.toNat? with
    | some f, some [w, h, s] =>
      let (img, _) := heap0.make f w h s
      let a : AnyImage := ⟨f, img⟩
      let i := a.index L7
      let v := a.view
      let vi := v.index (L7.map Tag.ofFmt)
      s!"A: i={i} w={a.width} h={a.height} dw={a.width} dh={a.height} nc={a.numChannels} | V: i={vi} w={v.width} h={v.height} nc={v.numChannels} sz={v.size} | K: i={vi} w={v.width} h={v.height} nc={v.numChannels} sz={v.size} | C: w={img.w} h={img.h} nc={f.nc} sz={img.w * img.h}"
    | _, _ => "bad-op"
  | ["copy", T, w, h, s] =>
    match Fmt.parse T, [w, h, s].mapM String.toNat? with
    | some f, some [w, h, s] =>
      let (img, hp) := heap0.make f w h s
      let a : AnyImage := ⟨f, img⟩
      let (b, hp2) := a.copy hp
      let eq0 := a.beq b hp2.mem
      let m := toggleImg b hp2.mem 0 0
      let eq1 := a.beq b m
      let r := s!"eq0={b01 eq0} eq1={b01 eq1} ne1={b01 (!eq1)} a={dumpImg a m} b={dumpImg b m}"
      s!"A: i={b.index L7} {r} | C: {r}"
    | _, _ => "bad-op"
  | ["assign", T1, T2, w1, h1, w2, h2, s1, s2, how] =>
    match Fmt.parse T1, Fmt.parse T2, [w1, h1, w2, h2, s1, s2].mapM String.toNat? with
    | some f1, some f2, some [w1, h1, w2, h2, s1, s2] =>
      if how == "subset" && !LS.contains f1 then "bad-op" else
      if !(how == "any" || how == "conc" || how == "subset") then "bad-op" else
      let (ia, hp1) := heap0.make f1 w1 h1 s1
      let (_, hp2) := hp1.make f2 w2 h2 s2           -- the old value of b
      let a : AnyImage := ⟨f1, ia⟩
      let (b, hp3) := a.copy hp2                      -- assignment = copy of the held image
      let eq0 := a.beq b hp3.mem
      let m := toggleImg b hp3.mem 0 0
      let eq1 := a.beq b m
      s!"A: i={b.index L7} eq0={b01 eq0} eq1={b01 eq1} w={b.width} h={b.height} a={dumpImg a m} b={dumpImg b m} | C: eq0={b01 eq0} eq1={b01 eq1} a={dumpImg a m} b={dumpImg b m}"
    | _, _, _ => "bad-op"
  | ["eq", T1, T2, w1, h1, w2, h2, s1, s2, dpos] =>
    match Fmt.parse T1, Fmt.parse T2, [w1, h1, w2, h2, s1, s2].mapM String.toNat?, dpos.toInt? with
    | some f1, some f2, some [w1, h1, w2, h2, s1, s2], some dpos =>
      let (ia, hp1) := heap0.make f1 w1 h1 s1
      let (ib, hp2) := hp1.make f2 w2 h2 s2
      let a : AnyImage := ⟨f1, ia⟩; let b : AnyImage := ⟨f2, ib⟩
      let (tx, ty) := dposXY w2 dpos
      let m := toggleImg b hp2.mem tx ty
      let e := a.beq b m
      let C := if f1 = f2 then s!"C: eq={b01 e} ne={b01 (!e)}" else "C: n/a"
      s!"A: eq={b01 e} ne={b01 (!e)} | {C}"
    | _, _, _, _ => "bad-op"
  | ["vcopy", T, T0, w, h, s] =>
    match Fmt.parse T, Fmt.parse T0, [w, h, s].mapM String.toNat? with
    | some f, some _f0, some [w, h, s] =>
      let (img, hp) := heap0.make f w h s
      let a : AnyImage := ⟨f, img⟩
      let v := a.view
      let vb := v            -- copy construction of an any_image_view
      let vc := v            -- assignment
      let i := v.index (L7.map Tag.ofFmt)
      let eq2 := v.beq vb; let eq3 := v.beq vc
      let m1 := toggleAt vb.2 hp.mem 0 0
      let m2 := toggleAt vc.2 m1 ((w : Int) - 1) ((h : Int) - 1)
      let (deep, hp2) := a.copy ⟨m2, hp.next⟩
      let eqd := a.view.beq deep.view
      let r := s!"eq2={b01 eq2} eq3={b01 eq3} eqd={b01 eqd} a={dumpImg a hp2.mem} rd={dumpHex v.2 f.bits hp2.mem}"
      s!"A: i2={i} i3={i} {r} | C: {r}"
    | _, _, _ => "bad-op"
  | ["default"] =>
    match L7 with
    | f :: _ =>
      let a := AnyImage.dflt f
      let v := a.view
      let c := s!"w={a.width} h={a.height} nc={a.numChannels} vw={v.width} vh={v.height} vnc={v.numChannels} vsz={v.size}"
      s!"A: i={a.index L7} w={a.width} h={a.height} nc={a.numChannels} vi={v.index (L7.map Tag.ofFmt)} vw={v.width} vh={v.height} vnc={v.numChannels} vsz={v.size} | C: {c}"
    | [] => "bad-op"
  | ["atc", T] =>
    match Fmt.parse T with
    | some f =>
      if !L7.contains f then "bad-type" else
      let (img, _) := heap0.make f 1 1 1
      let a : AnyImage := ⟨f, img⟩
      s!"A: n={atC (L7.map Fmt.nc) (a.index L7)} nc={a.numChannels} | C: n={f.nc} nc={f.nc}"
    | none => "bad-op"
  | ["vassign", T, T0, w, h, s, how] =>
    match Fmt.parse T, Fmt.parse T0, [w, h, s].mapM String.toNat? with
    | some f, some _f0, some [w, h, s] =>
      if how == "subset" && (B || !LS.contains f) then "bad-op" else
      if !(how == "conc" || how == "ctor" || how == "subset") then "bad-op" else
      let (img, hp) := heap0.make f w h s
      let a : AnyImage := ⟨f, img⟩
      let v := a.view
      let vc : AnyView := wrap a.2.view    -- assignment from the concrete view / a variant built from it: the held view, wrapped
      let i := vc.index (L7.map Tag.ofFmt)
      let eq := v.beq vc
      let m1 := toggleAt vc.2 hp.mem 0 0
      let r := s!"eq={b01 eq} w={vc.width} h={vc.height} nc={vc.numChannels} sz={vc.size} a={dumpImg a m1} rd={dumpHex vc.2 f.bits m1}"
      s!"A: i={i} {r} | C: {r}"
    | _, _, _ => "bad-op"
  | ["applyop", T, T0, w, h, s] =>
    match Fmt.parse T, Fmt.parse T0, [w, h, s].mapM String.toNat? with
    | some f, some f0, some [w, h, s] =>
      let (img, hp) := heap0.make f w h s
      let (img0, _) := hp.make f0 2 2 (s + 1)
      let a : AnyImage := ⟨f, img⟩; let b : AnyImage := ⟨f0, img0⟩
      let dw := applyOperation1 a.view (fun v => v.w)
      let dh := applyOperation1 a.view (fun v => v.h)
      let sz := applyOperation1 a.view (fun v => v.w * v.h)
      let n12 := applyOperation2 a.view b.view (fun {t1 t2} (_ : View t1) (_ : View t2) => 10 * t1.fmt.nc + t2.fmt.nc)
      let r := s!"w={dw} h={dh} sz={sz} n12={n12}"
      s!"A: {r} | C: {r}"
    | _, _, _ => "bad-op"
  | ["recreate", T, w, h, s, w2, h2, how] =>
    match Fmt.parse T, [w, h, s, w2, h2].mapM String.toNat? with
    | some f, some [w, h, s, w2, h2] =>
      if !(how == "xy" || how == "pt" || how == "al") then "bad-op" else
      let (img, hp) := heap0.make f w h s
      let a : AnyImage := ⟨f, img⟩
      let (b, _) := a.recreate w2 h2 hp
      let v := b.view
      s!"A: i={b.index L7} w={b.width} h={b.height} nc={b.numChannels} vw={v.width} vh={v.height} | C: w={w2} h={h2} nc={f.nc}"
    | _, _ => "bad-op"
  | _ => "bad-op"

/-- op words and the list selector: a leading `B` selects the second representative list -/
def opWords (line : String) : Bool × List String :=
  match words line with
  | "B" :: rest => (true, rest)
  | ws => (false, ws)

def model (line : String) : String :=
  let (B, ws) := opWords line
  match ws with
  | "xf" :: rest => modelXf B rest
  | "xf2" :: rest => modelXf2 B rest
  | "fill" :: rest => modelFill B rest
  | "foreach" :: rest => modelForeach B rest
  | "xfill" :: rest => modelXFill B rest
  | "xforeach" :: rest => modelXForeach B rest
  | "img" :: rest => modelImg B rest
  | name :: rest => if ["copy", "equal", "ccopy", "ccopyx", "rs", "rsz", "xcopy", "xequal"].contains name then modelBin B name rest else "bad-op"
  | _ => "bad-op"

/-! ### judge: the Spec of C14 evaluated on the IMPLEMENTATION's observation

  The Spec never looks at the model's pixel values: it compares what came out of the run-time typed interface
  (part `A`) with what the same call on the concrete object produced (part `C`), and checks the clauses that are
  about the wrapper itself (alternative kept, bad_cast exactly for incompatible pairs, destination untouched on
  bad_cast, deep / shallow copies). Only `compatible` (the relation on formats) comes from the model. -/

def splitBars (s : String) : List (List String) :=
  (s.splitOn " | ").map words

def field (key : String) (toks : List String) : Option String :=
  (toks.find? (fun t => t.startsWith (key ++ "="))).map (fun t => (t.drop (key.length + 1)).toString)

/-- tokens other than the listed keys -/
def without (keys : List String) (toks : List String) : List String :=
  toks.filter (fun t => !(keys.any (fun k => t.startsWith (k ++ "="))))

def fail (s : String) : String := "fail " ++ s

/-- `tg`: the mapped alternative of each alternative of the list `L` the op runs on -/
def judgeLifted (f : Fmt) (L : List Fmt) (tg : Fmt → Tag) (obs : String) : String :=
    match splitBars obs with
    | [A, C] =>
      match A, C with
      | st :: arest, "C:ok" :: crest =>
        if st != "A:ok" then fail ("lifted-transformation-unavailable:" ++ st)
        else if field "ty" arest != some "1" then fail "result-not-wrapped-in-corresponding-alternative"
        else if without ["i", "ty"] arest != crest then
          (if field "w" arest != field "w" crest || field "h" arest != field "h" crest then fail "dimensions-differ-from-concrete"
           else if field "nc" arest != field "nc" crest then fail "num_channels-differs-from-concrete"
           else if field "sz" arest != field "sz" crest then fail "size-differs-from-concrete"
           else if field "px" arest != field "px" crest then fail "pixels-differ-from-concrete"
           else fail "write-through-differs-from-concrete")
        else
          -- the alternative is the corresponding one: same position, unless the mapped list repeats the type
          -- (then a variant constructed from the result holds the first alternative of that type)
          let own := indexOf f L
          let expect := indexOf (tg f) (L.map tg)
          match (field "i" arest).bind String.toNat? with
          | some i => if i = own || i = expect then "ok" else fail "index-not-preserved"
          | none => fail "no-index"
      | _, _ => fail ("unexpected-observation:" ++ obs.take 60)
    | _ => fail ("unexpected-observation:" ++ obs.take 60)

def judgeXf (B : Bool) (ws : List String) (obs : String) : String :=
  match ws with
  | T :: _w :: _h :: _s :: rest =>
    match Fmt.parse T, parseXf 0 rest with
    | some f, some (_, x) => judgeLifted f (xfList B x) (fun g => x.tag (Tag.ofFmt g)) obs
    | _, _ => fail "bad-op"
  | _ => fail "bad-op"

def judgeXf2 (B : Bool) (ws : List String) (obs : String) : String :=
  match ws with
  | T :: _w :: _h :: _s :: rest =>
    let (r1, r2) := splitThen rest
    match Fmt.parse T, parseXf 0 r1, parseXf 0 r2 with
    | some f, some (_, x1), some (_, x2) => judgeLifted f (xf2List B x2) (fun g => x2.tag (x1.tag (Tag.ofFmt g))) obs
    | _, _, _ => fail "bad-op"
  | _ => fail "bad-op"

def judgeBin (name : String) (ws : List String) (obs : String) : String :=
  match ws with
  | _mode :: T1 :: T2 :: _ =>
    match Fmt.parse T1, Fmt.parse T2, splitBars obs with
    | some f1, some f2, [A0, C, D0] =>
      let compat := compatible f1 f2
      let converting := name == "ccopy" || name == "ccopyx"
      match A0 with
      | cflag :: st :: arest =>
        if cflag != s!"compat={b01 compat}" then fail "views_are_compatible-differs-from-spec-relation"
        else if compat || converting then
          match C with
          | ["C:assert"] =>
            -- out of contract for the concrete call (unequal dimensions): the run-time typed call must end the same way
            if st != "A:assert" then fail ("concrete-call-asserts-but-run-time-typed-call-does-not:" ++ st) else "ok"
          | "C:ok" :: crest =>
            if st != "A:ok" then fail ("defined-pair-does-not-succeed:" ++ st)
            else if field "r" arest != field "r" crest then fail "return-value-differs-from-concrete"
            else if field "dst" arest != field "dst" crest then fail "destination-differs-from-concrete"
            else if (name == "equal" || name == "xequal") && field "dst" arest != field "D0" D0 then fail "equal_pixels-modified-destination"
            else "ok"
          | _ => fail "concrete-call-missing"
        else
          if st != "A:err:bad_cast" then fail ("incompatible-pair-did-not-throw-bad_cast:" ++ st)
          else if field "dst" arest != field "D0" D0 then fail "destination-modified-on-bad_cast"
          else "ok"
      | _ => fail ("unexpected-observation:" ++ obs.take 60)
    | _, _, _ => fail ("unexpected-observation:" ++ obs.take 60)
  | _ => fail "bad-op"

def judgeFill (ws : List String) (obs : String) : String :=
  match ws with
  | T :: P :: _ =>
    match Fmt.parse T, Fmt.parse P, splitBars obs with
    | some f, some pf, [A0, C, D0] =>
      let compat := compatible f pf
      match A0 with
      | cflag :: st :: arest =>
        if cflag != s!"compat={b01 compat}" then fail "pixels_are_compatible-differs-from-spec-relation"
        else if compat then
          match C with
          | "C:ok" :: crest =>
            if st != "A:ok" then fail ("compatible-fill-does-not-succeed:" ++ st)
            else if field "dst" arest != field "dst" crest then fail "destination-differs-from-concrete"
            else "ok"
          | _ => fail "concrete-call-missing"
        else if st != "A:err:bad_cast" then fail ("incompatible-fill-did-not-throw-bad_cast:" ++ st)
        else if field "dst" arest != field "D0" D0 then fail "destination-modified-on-bad_cast"
        else "ok"
      | _ => fail ("unexpected-observation:" ++ obs.take 60)
    | _, _, _ => fail ("unexpected-observation:" ++ obs.take 60)
  | _ => fail "bad-op"

def judgeForeach (obs : String) : String :=
  match splitBars obs with
  | ["A:ok" :: arest, "C:ok" :: crest] =>
    if field "n" arest != field "n" crest then fail "functor-state-differs-from-concrete"
    else if arest != crest then fail "destination-differs-from-concrete"
    else "ok"
  | _ => fail ("unexpected-observation:" ++ obs.take 60)

def judgeImg (B : Bool) (ws : List String) (obs : String) : String :=
  let L7 := if B then LB else L7
  let parts := splitBars obs
  match ws with
  | "dims" :: T :: _ =>
    match Fmt.parse T, parts with
    | some f, ["A:" :: a, "V:" :: v, "K:" :: k, "C:" :: c] =>
      let own := toString (indexOf f L7)
      if field "i" a != some own || field "i" v != some own || field "i" k != some own then fail "alternative-not-kept"
      else if field "w" a != field "w" c || field "h" a != field "h" c || field "dw" a != field "w" c || field "dh" a != field "h" c then fail "image-dimensions-differ-from-concrete"
      else if field "nc" a != field "nc" c then fail "image-num_channels-differs-from-concrete"
      else if without ["i"] v != c then fail "view-dims-channels-size-differ-from-concrete"
      else if without ["i"] k != c then fail "const_view-dims-channels-size-differ-from-concrete"
      else "ok"
    | _, _ => fail ("unexpected-observation:" ++ obs.take 60)
  | ["copy", T, _, _, _] | ["assign", T, _, _, _, _, _, _, _, _] =>
    match Fmt.parse T, parts with
    | some f, ["A:" :: a, "C:" :: c] =>
      let empty := field "a" a == some "-"
      if field "i" a != some (toString (indexOf f L7)) then fail "copy-does-not-hold-the-source-alternative"
      else if field "eq0" a != some "1" then fail "copy-not-equal-to-source"
      else if !empty && field "eq1" a != some "0" then fail "equality-not-deep"
      else if !empty && field "a" a == field "b" a then fail "write-to-copy-not-visible-in-copy"
      else if without ["i", "w", "h"] a != c then fail "copy-differs-from-concrete-copy"
      else "ok"
    | _, _ => fail ("unexpected-observation:" ++ obs.take 60)
  | "eq" :: T1 :: T2 :: _ =>
    match Fmt.parse T1, Fmt.parse T2, parts with
    | some f1, some f2, ["A:" :: a, c] =>
      if field "eq" a == field "ne" a then fail "eq-and-ne-agree"
      else if f1 != f2 then (if field "eq" a != some "0" then fail "different-alternatives-compare-equal" else "ok")
      else if "C:" :: a != c then fail "equality-differs-from-concrete"
      else "ok"
    | _, _, _ => fail ("unexpected-observation:" ++ obs.take 60)
  | "vcopy" :: T :: _ =>
    match Fmt.parse T, parts with
    | some f, ["A:" :: a, "C:" :: c] =>
      let own := some (toString (indexOf f L7))
      if field "i2" a != own || field "i3" a != own then fail "view-copy-does-not-hold-the-source-alternative"
      else if field "eq2" a != some "1" || field "eq3" a != some "1" then fail "view-copy-not-equal-to-source"
      else if field "a" a != field "rd" a then fail "write-through-view-copy-not-visible-through-original"
      else if without ["i2", "i3"] a != c then fail "view-copy-differs-from-concrete"
      else "ok"
    | _, _ => fail ("unexpected-observation:" ++ obs.take 60)
  | "realign" :: T :: _ =>
    match Fmt.parse T, parts with
    | some f, ["A:" :: a, "C:" :: c] =>
      let own := some (toString (indexOf f L7))
      if field "i" a != own || field "i1" a != own then fail "recreate-changed-the-held-type"
      else if without ["i", "i1"] a != c then
        -- name the first step whose layout differs
        let bad := ((without ["i", "i1"] a).zip c).find? (fun (x, y) => x != y)
        fail ("row-layout-after-recreate-differs-from-concrete:" ++ (match bad with | some (x, y) => x ++ "/" ++ y | none => "length"))
      else "ok"
    | _, _ => fail ("unexpected-observation:" ++ obs.take 60)
  | "vassign" :: T :: _ =>
    match Fmt.parse T, parts with
    | some f, ["A:" :: a, "C:" :: c] =>
      if field "i" a != some (toString (indexOf f L7)) then fail "view-assigned-from-concrete-does-not-hold-its-alternative"
      else if field "eq" a != some "1" then fail "assigned-view-not-equal-to-source-view"
      else if field "a" a != field "rd" a then fail "write-through-assigned-view-not-visible-in-image"
      else if without ["i"] a != c then fail "assigned-view-differs-from-concrete"
      else "ok"
    | _, _ => fail ("unexpected-observation:" ++ obs.take 60)
  | ["default"] =>
    match parts with
    | ["A:" :: a, "C:" :: c] =>
      if field "i" a != some "0" || field "vi" a != some "0" then fail "default-constructed-does-not-hold-first-alternative"
      else if without ["i", "vi"] a != c then fail "default-constructed-differs-from-concrete"
      else "ok"
    | _ => fail ("unexpected-observation:" ++ obs.take 60)
  | ["atc", _] =>
    match parts with
    | ["A:" :: a, "C:" :: c] =>
      if field "nc" a != field "nc" c then fail "image-num_channels-differs-from-concrete"
      else if a != c then fail "at_c-table-lookup-differs-from-num_channels"
      else "ok"
    | _ => fail ("unexpected-observation:" ++ obs.take 60)
  | "applyop" :: _ =>
    match parts with
    | ["A:" :: a, "C:" :: c] => if a != c then fail "apply_operation-differs-from-concrete" else "ok"
    | _ => fail ("unexpected-observation:" ++ obs.take 60)
  | "recreate" :: T :: _ =>
    match Fmt.parse T, parts with
    | some f, ["A:" :: a, "C:" :: c] =>
      if field "i" a != some (toString (indexOf f L7)) then fail "recreate-changed-the-held-type"
      else if without ["i", "vw", "vh"] a != c then fail "recreate-dimensions-differ-from-concrete"
      else if field "vw" a != field "w" c || field "vh" a != field "h" c then fail "view-after-recreate-differs"
      else "ok"
    | _, _ => fail ("unexpected-observation:" ++ obs.take 60)
  | _ => fail "bad-op"

def judge (op obs : String) : String :=
  let (B, ws) := opWords op
  match ws with
  | "xf" :: rest => judgeXf B rest obs
  | "xf2" :: rest => judgeXf2 B rest obs
  | "fill" :: rest => judgeFill rest obs
  | "foreach" :: _ => judgeForeach obs
  | "xfill" :: rest => judgeFill rest obs
  | "xforeach" :: _ => judgeForeach obs
  | "img" :: rest => judgeImg B rest obs
  | name :: rest => if ["copy", "equal", "ccopy", "ccopyx", "rs", "rsz", "xcopy", "xequal"].contains name then judgeBin name rest obs else fail "bad-op"
  | _ => fail "bad-op"

def main (args : List String) : IO UInt32 := Driver.main' model judge args
