import Driver.Common
import GilVerif.Model.C01
import GilVerif.Model.C02
import GilVerif.Model.C03
open Driver GilVerif.Geom GilVerif.Model.C01 GilVerif.Gen.C01

/-- granule of the allocator address for a kind (alignment of the channel type) -/
def granOf (k : String) : Int :=
  match k with
  | "rgb16" | "p565" | "pl16c" => 2
  | "rgb32f" => 4
  | _ => 1

def orgOf (k : String) : Option Org :=
  let inter (p : Int) : Option Org := some ⟨1, p, false, 1, [], 0⟩
  let bit (b f : Int) (ch : List (Int × Int)) : Option Org := some ⟨8, b, false, ch.length, ch, f⟩
  match k with
  | "g8" => inter 1 | "rgb8" => inter 3 | "bgr8" => inter 3 | "rgba8" => inter 4 | "rgb16" => inter 6 | "dev5" => inter 5
  | "rgb32f" => inter 12 | "p565" => inter 2
  | "pl8" => some ⟨1, 1, true, 3, [], 0⟩ | "pl16c" => some ⟨1, 2, true, 4, [], 0⟩
  | "b1" => bit 1 1 [(0, 1)] | "b2" => bit 2 2 [(0, 2)] | "b4" => bit 4 2 [(0, 4)]
  | "b6" => bit 6 2 [(0, 2), (2, 2), (4, 2)] | "b12" => bit 12 4 [(0, 4), (4, 4), (8, 4)]
  | _ => none

def parseXf (tok : String) : Option Xform :=
  let c := (tok.take 1).toString
  let args := ints (((tok.drop 1).toString.splitOn ",").filter (· ≠ ""))
  match c, args with
  | "U", some [] => some .flipUD | "L", some [] => some .flipLR | "T", some [] => some .transpose
  | "R", some [] => some .rot90cw | "C", some [] => some .rot90ccw | "I", some [] => some .rot180
  | "S", some [sx, sy] => some (.subsample sx sy)
  | "B", some [x0, y0, w, h] => some (.sub x0 y0 w h)
  | _, _ => none
def parseXfs (s : String) : Option (List Xform) := if s = "-" then some [] else (s.splitOn "/").mapM parseXf

/-- an element of a derived-view op list: a coordinate transformation or a channel view -/
inductive DOp where
  | geo (t : Xform)
  | chan (kth : Bool) (n : Int)      -- N<n> = nth_channel_view(., n);  K<k> = kth_channel_view<k>

def parseDOp (tok : String) : Option DOp :=
  let c := (tok.take 1).toString
  match c, ints (((tok.drop 1).toString.splitOn ",").filter (· ≠ "")) with
  | "N", some [n] => some (.chan false n)
  | "K", some [n] => some (.chan true n)
  | _, _ => (parseXf tok).map .geo
def parseDOps (s : String) : Option (List DOp) := if s = "-" then some [] else (s.splitOn "/").mapM parseDOp

/-- (number of channels, sizeof(channel)) of the homogeneous byte-addressed kinds (the ones that have channel views) -/
def chanOf (k : String) : Option (Int × Int) :=
  match k with
  | "g8" => some (1, 1) | "rgb8" | "bgr8" => some (3, 1) | "rgba8" => some (4, 1) | "rgb16" => some (3, 2) | "dev5" => some (5, 1)
  | "rgb32f" => some (3, 4) | "pl8" => some (3, 1) | "pl16c" => some (4, 2) | "pl16" => some (3, 2)
  | _ => none

/-- does a transformation turn the x-iterator into a step iterator?  (flipped_up_down_view and subimage_view keep the type) -/
def xfSteps : Xform → Bool
  | .flipUD => false | .sub _ _ _ _ => false | _ => true

/-- what is known about a (derived) view while an op list is applied: geometry, pixel size, planarity with the offset of the last
    plane, and the type facts the channel-view factories look at -/
structure DV where
  v : View
  bit : Bool := false      -- bit-aligned pixels (addresses in bits)
  pix : Int
  planar : Bool
  plane : Int → Int
  nplanes : Int
  t : GilVerif.Model.C02.ChanSrc

/-- apply an op list: transformations through `Model.C02.applyMem`, channel views through `Model.C02.chanViewMem` (generated
    `make` bodies + `adjacent` predicate); channel n of a pixel is n channels further (interleaved) / in plane n (planar) -/
def applyDOps : List DOp → DV → Option DV
  | [], d => some d
  | .geo tr :: rest, d => applyDOps rest { d with v := GilVerif.Model.C02.applyMem tr d.v, t := { d.t with isStep := d.t.isStep || xfSteps tr } }
  | .chan kth n :: rest, d =>
    if n < 0 ∨ n ≥ d.t.nch then none else
    let addr : Int → Int := if d.planar then d.plane else fun k => k * d.t.chanSize
    applyDOps rest { v := GilVerif.Model.C02.chanViewMem kth d.t addr n d.v, pix := d.t.chanSize, planar := false, plane := fun _ => 0, nplanes := 1,
                     t := GilVerif.Model.C02.chanViewSrc kth d.t }


def K : Int := 1720320
/-- address the guard allocator returns for a request of `n` bytes (any number congruent to the real
    address modulo every alignment in use) -/
def allocAddr (mode R n gran : Int) : Int := if mode = 0 then R else K - (n + gran - 1) / gran * gran

def range' (lo hi : Int) : List Int := (List.range (hi - lo + 1).toNat).map (fun i => lo + Int.ofNat i)

/-- smallest pixel address / largest pixel end (memory units, all planes; `lastPlane` = offset of the last plane) over the pixels of `v` -/
def extent (o : Org) (lastPlane : Int) (v : View) : Int × Int :=
  let addrs := (range' 0 (v.h - 1)).flatMap fun y => (range' 0 (v.w - 1)).map fun x => v.addr x y
  match addrs with
  | [] => (0, 0)
  | a :: rest =>
    let lo := rest.foldl min a
    let hi := rest.foldl max a
    (lo, hi + o.mstep + (if o.planar then lastPlane else 0))

/-- positions the 1-D iterator reaches after the multi-row moves of the harness, for every pixel index i:
    `end() - (size - i)`, `(begin() + j) - (j - i)` with `j = min(size, i + w + 1)`, and `--(end() - (size - 1 - i))` (= `*(rbegin() + (size-1-i))`),
    through `Model.C03.It.advance` / `It.dec` (generated `iterator_from_2d::advance` / `decrement`) -/
def iterPositions (d : DV) : List Int :=
  let k : GilVerif.Model.C03.Kind := ⟨d.bit, d.t.isStep, d.pix, false, d.planar, d.pix⟩
  let v := d.v
  let size := v.w * v.h
  if v.w ≤ 0 ∨ v.h ≤ 0 then [] else
  let b := GilVerif.Model.C03.View.begin v
  let e := GilVerif.Model.C03.View.endIt k v
  (range' 0 (size - 1)).flatMap fun i =>
    let j := min size (i + v.w + 1)
    [(e.advance k (-(size - i))).p.pos, ((b.advance k j).advance k (-(j - i))).p.pos, ((e.advance k (-(size - 1 - i))).dec k).p.pos]

def extentD (d : DV) : Int × Int :=
  let e := extent ⟨1, d.pix, d.planar, d.nplanes, [], 0⟩ (d.plane (d.nplanes - 1)) d.v
  match iterPositions d with
  | [] => e
  | ps =>
    let tail := d.pix + (if d.planar then d.plane (d.nplanes - 1) else 0)
    (ps.foldl min e.1, ps.foldl (fun m p => max m (p + tail)) e.2)

/-- state after the constructor sequence: the image (Model.C01: `_memory`, `_allocated_bytes`, `_align_in_bytes`, `_view`, planes)
    and the number of allocations made -/
structure St where
  img : Img
  nalloc : Int

/-- a constructor: `allocate_` (Model.C01.allocate, built from the generated body); nothing is allocated for 0 bytes -/
def fresh (o : Org) (gran mode R w h a : Int) (prev : Int) : St :=
  let img := allocate o (fun n => allocAddr mode R n gran) w h a
  { img := img, nalloc := if img.allocated = 0 then prev else prev + 1 }

/-- `recreate` (Model.C01.recreate, branch from the generated body); branch 2 builds a new image -/
def recr (o : Org) (gran mode R : Int) (s : St) (c : Call) : St :=
  let br := (recreateK o c.ov s.img c.w c.h c.a c.allocEq).2
  let nw := fresh o gran mode R c.w c.h c.a s.nalloc
  { img := recreate o (fun _ => nw.img) s.img c, nalloc := if br = 2 then nw.nalloc else s.nalloc }

def overloadOf (i : Nat) : Overload :=
  match i % 4 with | 0 => .dims | 1 => .dimsFill | 2 => .dimsAlloc | _ => .dimsFillAlloc

def parseCalls (s : String) : Option (List (Int × Int × Int)) :=
  if s = "-" then some [] else
  (s.splitOn "/").mapM fun tok =>
    match ints (((tok.drop 1).toString.splitOn ",").filter (· ≠ "")) with
    | some [w, h, a] => some (w, h, a)
    | _ => none

def runCtor (o : Org) (gran mode R : Int) (ctor : String) (W H A W2 H2 A2 : Int) (more : List (Int × Int × Int)) : Option St :=
  match ctor with
  | "d" | "f" => some (fresh o gran mode R W H A 0)
  | "c" =>      -- copy constructor (Model.C01.copyConstruct): dimensions and alignment of the source *as it is* (0 x 0 if it has no storage)
    let s1 := fresh o gran mode R W H A 0
    let img := copyConstruct o (fun n => allocAddr mode R n gran) s1.img
    some { img := img, nalloc := if img.allocated = 0 then s1.nalloc else s1.nalloc + 1 }
  | "a" =>      -- copy assignment (Model.C01.assign): copy_pixels into the existing storage, or image tmp(img); swap(tmp)
    let s1 := fresh o gran mode R W H A 0
    let s2 := fresh o gran mode R W2 H2 A2 s1.nalloc
    let img := assign o (fun n => allocAddr mode R n gran) s2.img s1.img
    let kept := GilVerif.Gen.C01.assign_branch s2.img.view.w s2.img.view.h s1.img.view.w s1.img.view.h 0 = 0
    some { img := img, nalloc := if kept ∨ img.allocated = 0 then s2.nalloc else s2.nalloc + 1 }
  | "r" => some (recr o gran mode R (fresh o gran mode R W H A 0) ⟨.dims, W2, H2, A2, true⟩)
  | "q" =>
    let calls := (W2, H2, A2) :: more
    some (((List.range calls.length).zip calls).foldl (fun s (i, (w, h, a)) => recr o gran mode R s ⟨overloadOf i, w, h, a, true⟩)
      (fresh o gran mode R W H A 0))
  | _ => none

def srcOf (o : Org) (ch : Option (Int × Int)) : GilVerif.Model.C02.ChanSrc :=
  match ch with
  | some (n, c) => ⟨false, o.planar, n, c⟩
  | none => ⟨false, o.planar, 0, 0⟩

def showSt (o : Org) (ch : Option (Int × Int)) (s : St) (ds : List DOp) : String :=
  let v := s.img.view
  if s.img.allocated = 0 then
    match applyDOps ds { v := { base := 0, xs := o.mstep, ys := 0, w := v.w, h := v.h }, pix := o.mstep, planar := o.planar, plane := fun _ => 0,
                         nplanes := 1, t := srcOf o ch } with
    | none => "bad-op"
    | some d => showInts [0, s.nalloc, 0, 0, 0, v.w, v.h, 0, 0] ++ " | " ++ showInts [d.v.w, d.v.h, 0, 0] ++ " | ok"
  else
    let np := if o.planar then o.nch else 1
    let d0 : DV := { v := v, bit := o.b2m = 8, pix := o.mstep, planar := o.planar, plane := s.img.plane, nplanes := np, t := srcOf o ch }
    let e := extentD d0
    match applyDOps ds d0 with
    | none => "bad-op"
    | some d =>
      let de := extentD d
      let fmod := if s.img.a > 0 then (s.img.mem + v.base / o.b2m) % s.img.a else 0
      showInts [s.img.allocated, s.nalloc, v.base, fmod, v.ys, v.w, v.h, e.1, e.2] ++ " | " ++ showInts [d.v.w, d.v.h, de.1, de.2] ++ " | ok"

def model (line : String) : String :=
  match words line with
  | "img" :: k :: W :: H :: A :: mode :: R :: ctor :: W2 :: H2 :: A2 :: xf :: rest =>
    match orgOf k, ints [W, H, A, mode, R, W2, H2, A2], parseDOps xf, (match rest with | [] => some [] | [cs] => parseCalls cs | _ => none) with
    | some o, some [W, H, A, mode, R, W2, H2, A2], some ts, some more =>
      match runCtor o (granOf k) mode R ctor W H A W2 H2 A2 more with
      | some s => showSt o (chanOf k) s ts
      | none => "bad-op"
    | _, _, _, _ => "bad-op"
  | ["pbuf", k, W, H, PAD, _mode, xf] =>     -- planar_rgb_view over one caller buffer: planes H*row apart
    match chanOf k, ints [W, H, PAD], parseDOps xf with
    | some (_, c), some [W, H, PAD], some ds =>
      let row := W * c + PAD
      if row * H = 0 then showInts [row, 0, 0] ++ " | " ++ showInts [0, 0, 0, 0] ++ " | ok" else
      let d0 : DV := { v := { base := 0, xs := c, ys := row, w := W, h := H }, pix := c, planar := true, plane := fun k => k * (row * H), nplanes := 3,
                       t := ⟨false, true, 3, c⟩ }
      match applyDOps ds d0 with
      | none => "bad-op"
      | some d =>
        let e := extentD d0
        let de := extentD d
        showInts [row, e.1, e.2] ++ " | " ++ showInts [d.v.w, d.v.h, de.1, de.2] ++ " | ok"
    | _, _, _ => "bad-op"
  | ["buf", k, W, H, PAD, _mode] =>
    match orgOf k, ints [W, H, PAD] with
    | some o, some [W, H, PAD] =>
      let row := W * o.mstep + PAD
      let e := if row * H = 0 then (0, 0) else
        extentD { v := { base := 0, xs := o.mstep, ys := row, w := W, h := H }, pix := o.mstep, planar := false, plane := fun _ => 0, nplanes := 1, t := srcOf o none }
      showInts [row, e.1, e.2] ++ " | ok"
    | _, _ => "bad-op"
  | _ => "bad-op"

/-! ### judge: the property on the implementation's observation -/

def splitGroups (ws : List String) : List (List String) :=
  let rec go (acc : List String) (rest : List String) : List (List String) :=
    match rest with
    | [] => [acc.reverse]
    | "|" :: r => acc.reverse :: go [] r
    | x :: r => go (x :: acc) r
  go [] ws

def fail (s : String) : String := "fail " ++ s

/-- `[lo, hi)` in memory units lies inside `n` bytes -/
def inside (o : Org) (n lo hi : Int) : Bool := 0 ≤ lo && (hi + o.b2m - 1) / o.b2m ≤ n

def judge (op obs : String) : String :=
  let ws := words obs
  if ws.any (fun w => w.startsWith "segv:") then fail ("an access left the allocation (guard page hit): " ++ (ws.getLast?.getD "")) else
  match words op with
  | "img" :: k :: _ =>
    match orgOf k, (splitGroups ws) with
    | some o, [g1, g2, ["ok"]] =>
      match ints g1, ints g2 with
      | some [n, _, _, _, _, _, _, lo, hi], some [_, _, dlo, dhi] =>
        if !(inside o n lo hi) then fail "a pixel of the image lies outside the buffer obtained from the allocator"
        else if !(inside o n dlo dhi) then fail "a pixel of the derived view lies outside the buffer obtained from the allocator"
        else "ok"
      | _, _ => fail ("not-a-value:" ++ obs.take 40)
    | _, _ => fail ("not-a-value:" ++ obs.take 40)
  | ["pbuf", _, _, H, _, _, _] =>
    match H.toInt?, splitGroups ws with
    | some H, [g1, g2, ["ok"]] =>
      match ints g1, ints g2 with
      | some [row, lo, hi], some [_, _, dlo, dhi] =>
        if !(0 ≤ lo ∧ hi ≤ 3 * H * row) then fail "a pixel lies outside the caller's planar buffer of 3 x height x row-bytes"
        else if !(0 ≤ dlo ∧ dhi ≤ 3 * H * row) then fail "a pixel of the derived view lies outside the caller's planar buffer of 3 x height x row-bytes"
        else "ok"
      | _, _ => fail ("not-a-value:" ++ obs.take 40)
    | _, _ => fail ("not-a-value:" ++ obs.take 40)
  | ["buf", _, _, H, _, _] =>
    match H.toInt?, splitGroups ws with
    | some H, [g1, ["ok"]] =>
      match ints g1 with
      | some [row, lo, hi] => if 0 ≤ lo ∧ hi ≤ H * row then "ok" else fail "a pixel lies outside the caller's buffer of height x row-bytes"
      | _ => fail ("not-a-value:" ++ obs.take 40)
    | _, _ => fail ("not-a-value:" ++ obs.take 40)
  | _ => fail "bad-op"

def main (args : List String) : IO UInt32 := Driver.main' model judge args
