import Driver.Common
import GilVerif.Model.C01
import GilVerif.Model.C02
open Driver GilVerif.Geom GilVerif.Model.C01 GilVerif.Gen.C01

/-- granule of the allocator address for a kind (alignment of the channel type) -/
def granOf (k : String) : Int :=
  match k with
  | "rgb16" | "p565" | "pl16c" => 2
  | "rgb32f" => 4
  | _ => 1

def orgOf (k : String) : Option Org :=
  let inter (p : Int) : Option Org := some ⟨1, p, false, 1, [], 0⟩
  let bit (b f : Int) (ch : List (Int × Int)) : Option Org := some ⟨8, b, false, ch.length, ch, f⟩
  match k with
  | "g8" => inter 1 | "rgb8" => inter 3 | "bgr8" => inter 3 | "rgba8" => inter 4 | "rgb16" => inter 6 | "dev5" => inter 5
  | "rgb32f" => inter 12 | "p565" => inter 2
  | "pl8" => some ⟨1, 1, true, 3, [], 0⟩ | "pl16c" => some ⟨1, 2, true, 4, [], 0⟩
  | "b1" => bit 1 1 [(0, 1)] | "b2" => bit 2 2 [(0, 2)] | "b4" => bit 4 2 [(0, 4)]
  | "b6" => bit 6 2 [(0, 2), (2, 2), (4, 2)] | "b12" => bit 12 4 [(0, 4), (4, 4), (8, 4)]
  | _ => none

def parseXf (tok : String) : Option Xform :=
  let c := (tok.take 1).toString
  let args := ints (((tok.drop 1).toString.splitOn ",").filter (· ≠ ""))
  match c, args with
  | "U", some [] => some .flipUD | "L", some [] => some .flipLR | "T", some [] => some .transpose
  | "R", some [] => some .rot90cw | "C", some [] => some .rot90ccw | "I", some [] => some .rot180
  | "S", some [sx, sy] => some (.subsample sx sy)
  | "B", some [x0, y0, w, h] => some (.sub x0 y0 w h)
  | _, _ => none
def parseXfs (s : String) : Option (List Xform) := if s = "-" then some [] else (s.splitOn "/").mapM parseXf

def K : Int := 1720320
/-- address the guard allocator returns for a request of `n` bytes (any number congruent to the real
    address modulo every alignment in use) -/
def allocAddr (mode R n gran : Int) : Int := if mode = 0 then R else K - (n + gran - 1) / gran * gran

def range' (lo hi : Int) : List Int := (List.range (hi - lo + 1).toNat).map (fun i => lo + Int.ofNat i)

/-- smallest pixel address / largest pixel end (memory units, all planes) over the pixels of `v` -/
def extent (o : Org) (plane : Int) (v : View) : Int × Int :=
  let addrs := (range' 0 (v.h - 1)).flatMap fun y => (range' 0 (v.w - 1)).map fun x => v.addr x y
  match addrs with
  | [] => (0, 0)
  | a :: rest =>
    let lo := rest.foldl min a
    let hi := rest.foldl max a
    (lo, hi + o.mstep + (if o.planar then (o.nch - 1) * plane else 0))

/-- state after the constructor sequence: bytes of the storage in use, allocations made, allocator address, view geometry -/
structure St where
  n : Int
  nalloc : Int
  m : Int
  w : Int
  h : Int
  a : Int

/-- `allocate_`: nothing is allocated for 0 bytes, and then the view stays default-constructed (0 x 0) -/
def fresh (o : Org) (gran mode R w h a : Int) (prev : Int) : St :=
  let n := allocBytes o w h a
  if n = 0 then { n := 0, nalloc := prev, m := 0, w := 0, h := 0, a := a } else
  { n := n, nalloc := prev + 1, m := allocAddr mode R n gran, w := w, h := h, a := a }

def runCtor (o : Org) (gran mode R : Int) (ctor : String) (W H A W2 H2 A2 : Int) : Option St :=
  match ctor with
  | "d" | "f" => some (fresh o gran mode R W H A 0)
  | "c" =>      -- copy constructor: dimensions and alignment of the source *as it is* (0 x 0 if it has no storage)
    let s1 := fresh o gran mode R W H A 0; some (fresh o gran mode R s1.w s1.h s1.a s1.nalloc)
  | "a" =>
    let s1 := fresh o gran mode R W H A 0
    let s2 := fresh o gran mode R W2 H2 A2 s1.nalloc
    if s1.w = s2.w ∧ s1.h = s2.h then some s2                       -- copy_pixels into the existing storage
    else some (fresh o gran mode R s1.w s1.h s1.a s2.nalloc)         -- image tmp(img); swap(tmp)
  | "r" =>
    let s1 := fresh o gran mode R W H A 0
    if s1.w = W2 ∧ s1.h = H2 ∧ A = A2 then some s1
    else if s1.n ≥ allocBytes o W2 H2 A2 then some { s1 with w := W2, h := H2, a := A2 }   -- create_view over the old storage
    else some (fresh o gran mode R W2 H2 A2 s1.nalloc)
  | _ => none

def showSt (o : Org) (s : St) (ts : List Xform) : String :=
  if s.n = 0 then
    let dv := GilVerif.Model.C02.applyMemAll ts { base := 0, xs := o.mstep, ys := 0, w := s.w, h := s.h }
    showInts [0, s.nalloc, 0, 0, 0, s.w, s.h, 0, 0] ++ " | " ++ showInts [dv.w, dv.h, 0, 0] ++ " | ok"
  else
    let v := imageView o s.w s.h s.a s.m
    let plane := v.ys * s.h
    let e := extent o plane v
    let dv := GilVerif.Model.C02.applyMemAll ts v
    let de := extent o plane dv
    let fmod := if s.a > 0 then (s.m + originOff s.m s.a) % s.a else 0
    showInts [s.n, s.nalloc, v.base, fmod, v.ys, s.w, s.h, e.1, e.2] ++ " | " ++ showInts [dv.w, dv.h, de.1, de.2] ++ " | ok"

def model (line : String) : String :=
  match words line with
  | ["img", k, W, H, A, mode, R, ctor, W2, H2, A2, xf] =>
    match orgOf k, ints [W, H, A, mode, R, W2, H2, A2], parseXfs xf with
    | some o, some [W, H, A, mode, R, W2, H2, A2], some ts =>
      match runCtor o (granOf k) mode R ctor W H A W2 H2 A2 with
      | some s => showSt o s ts
      | none => "bad-op"
    | _, _, _ => "bad-op"
  | ["buf", k, W, H, PAD, _mode] =>
    match orgOf k, ints [W, H, PAD] with
    | some o, some [W, H, PAD] =>
      let row := W * o.mstep + PAD
      let e := if row * H = 0 then (0, 0) else extent o 0 { base := 0, xs := o.mstep, ys := row, w := W, h := H }
      showInts [row, e.1, e.2] ++ " | ok"
    | _, _ => "bad-op"
  | _ => "bad-op"

/-! ### judge: the property on the implementation's observation -/

def splitGroups (ws : List String) : List (List String) :=
  let rec go (acc : List String) (rest : List String) : List (List String) :=
    match rest with
    | [] => [acc.reverse]
    | "|" :: r => acc.reverse :: go [] r
    | x :: r => go (x :: acc) r
  go [] ws

def fail (s : String) : String := "fail " ++ s

/-- `[lo, hi)` in memory units lies inside `n` bytes -/
def inside (o : Org) (n lo hi : Int) : Bool := 0 ≤ lo && (hi + o.b2m - 1) / o.b2m ≤ n

def judge (op obs : String) : String :=
  let ws := words obs
  if ws.any (fun w => w.startsWith "segv:") then fail ("an access left the allocation (guard page hit): " ++ (ws.getLast?.getD "")) else
  match words op with
  | "img" :: k :: _ =>
    match orgOf k, (splitGroups ws) with
    | some o, [g1, g2, ["ok"]] =>
      match ints g1, ints g2 with
      | some [n, _, _, _, _, _, _, lo, hi], some [_, _, dlo, dhi] =>
        if !(inside o n lo hi) then fail "a pixel of the image lies outside the buffer obtained from the allocator"
        else if !(inside o n dlo dhi) then fail "a pixel of the derived view lies outside the buffer obtained from the allocator"
        else "ok"
      | _, _ => fail ("not-a-value:" ++ obs.take 40)
    | _, _ => fail ("not-a-value:" ++ obs.take 40)
  | ["buf", _, _, H, _, _] =>
    match H.toInt?, splitGroups ws with
    | some H, [g1, ["ok"]] =>
      match ints g1 with
      | some [row, lo, hi] => if 0 ≤ lo ∧ hi ≤ H * row then "ok" else fail "a pixel lies outside the caller's buffer of height x row-bytes"
      | _ => fail ("not-a-value:" ++ obs.take 40)
    | _, _ => fail ("not-a-value:" ++ obs.take 40)
  | _ => fail "bad-op"

def main (args : List String) : IO UInt32 := Driver.main' model judge args
