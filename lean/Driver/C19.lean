import Driver.Common
import GilVerif.Model.C19
open Driver GilVerif.Model.C19

def splitOn' (sep : String) (ws : List String) : List (List String) :=
  let rec go (ws : List String) (cur : List String) (acc : List (List String)) : List (List String) :=
    match ws with
    | [] => (cur.reverse :: acc).reverse
    | w :: rest => if w = sep then go rest [] (cur.reverse :: acc) else go rest (w :: cur) acc
  go ws [] []

def vtInfo : String → Option (Ch × Nat)
  | "g8" => some (.u8, 1) | "g8s" => some (.i8, 1) | "g16" => some (.u16, 1) | "g16s" => some (.i16, 1)
  | "d2_8" => some (.u8, 2) | "rgb8" => some (.u8, 3) | "rgb8s" => some (.i8, 3) | "rgb16" => some (.u16, 3)
  | "rgba8" => some (.u8, 4) | _ => none

def selOf (s : String) : List Nat := if s == "all" then [] else s.toList.map (fun ch => ch.toNat - '0'.toNat)

def pixelsOf (n : Nat) (planes : List (List Int)) : List (List Int) :=
  (List.range n).map fun (i : Nat) => planes.map fun p => p.getD i 0

def showKey (k : Key) : String := ",".intercalate (k.map toString)
def showHist (h : Hist) : String :=
  if h.isEmpty then "-" else " ".intercalate ((sortHist h).map fun kv => showKey kv.1 ++ ":" ++ toString kv.2)

def parseKey (s : String) : Option Key := (s.splitOn ",").mapM String.toInt?
def parseBins (ws : List String) : Option Hist :=
  if ws == ["-"] then some [] else
  ws.mapM fun w => match w.splitOn ":" with
    | [k, c] => match parseKey k, c.toNat? with
      | some k, some c => some (k, c)
      | _, _ => none
    | _ => none

structure Fh where
  a : FillArgs
  acc : Bool
  sparse : Bool
  n : Nat
  pixA : List (List Int)
  pixB : List (List Int)
  mask : List Bool

def parseFh (line : String) : Option Fh :=
  match splitOn' "|" (words line) with
  | [_op, vt, sel, bw, acc, sparse, am, sl, w, h] :: lower :: upper :: mask :: planesW =>
    match vtInfo vt, ints [bw, w, h], ints lower, ints upper, ints mask, planesW.mapM ints with
    | some (c, nc), some [bw, w, h], some lower, some upper, some mask, some planes =>
      let n := (w * h).toNat
      if planes.length ≠ 2 * nc ∨ bw < 1 then none else
      some { a := { c := c, bw := bw, sel := selOf sel, applymask := am == "1", setlimits := sl == "1", lower := lower, upper := upper },
             acc := acc == "1", sparse := sparse == "1", n := n,
             pixA := pixelsOf n (planes.take nc), pixB := pixelsOf n (planes.drop nc), mask := mask.map (· ≠ 0) }
    | _, _, _, _, _, _ => none
  | _ => none

def plainArgs (a : FillArgs) : FillArgs := { a with applymask := false, setlimits := false }

def modelFh (o : Fh) : String :=
  let h1 := fillHistogram (plainArgs o.a) false true [] (o.pixA.map fun p => (p, true))
  let h2 := fillHistogram o.a o.acc o.sparse h1 (o.pixB.zip (o.mask ++ List.replicate o.n true))
  showHist h2

/-- Spec key: channels divided by the bin width (C++ integer division truncates; `fl` = floor is no longer accepted by the judge) -/
def specKey (fl : Bool) (a : FillArgs) (px : List Int) : Key :=
  let scaled := px.map fun ch => if fl then ch / a.bw else Int.tdiv ch a.bw
  if a.sel.isEmpty then scaled else a.sel.map fun i => scaled.getD i 0

def specCounted (fl : Bool) (a : FillArgs) (m : Bool) (px : List Int) : Bool :=
  (!a.applymask || m) && (!a.setlimits || (tupleCompare a.lower (specKey fl a px) && tupleCompare (specKey fl a px) a.upper))

def specFill (fl : Bool) (a : FillArgs) (h : Hist) (pixels : List (List Int × Bool)) : Hist :=
  pixels.foldl (fun h pm => if specCounted fl a pm.2 pm.1 then h.add (specKey fl a pm.1) 1 else h) h

def dim (a : FillArgs) (px : List (List Int)) : Nat := if a.sel.isEmpty then (px.head?.map (·.length)).getD 1 else a.sel.length

/-- Spec of the two-step op: previous contents kept iff accumulate; dense fill makes every key of the range present -/
def specFh (fl : Bool) (o : Fh) : Hist :=
  let h1 := specFill fl (plainArgs o.a) [] (o.pixA.map fun p => (p, true))
  let h2 : Hist := if o.acc then h1 else []
  let lo := o.a.lower.headD 0; let hi := o.a.upper.headD 0
  let h3 : Hist := if !o.sparse && dim o.a o.pixB == 1 && lo ≤ hi then
      (List.range ((hi / o.a.bw - lo / o.a.bw).toNat + 1)).foldl (fun h (i : Nat) => h.add [lo / o.a.bw + (i : Int)] 0) h2
    else h2
  specFill fl o.a h3 (o.pixB.zip (o.mask ++ List.replicate o.n true))

/-- equal as maps from keys to counts (an absent bin is a bin of count 0: the property does not speak about which zero bins exist) -/
def sameHist (a b : Hist) : Bool := sortHist (a.filter (·.2 ≠ 0)) == sortHist (b.filter (·.2 ≠ 0))

def judgeFh (o : Fh) (obs : String) : String :=
  match parseBins (words obs) with
  | none => "fail not-a-histogram:" ++ obs.take 40
  | some impl =>
    let s1 := specFh false o          -- the key is the C++ (truncating) quotient ch / bin_width
    if sameHist impl s1 then "ok"
    else
      let negative := (o.pixA ++ o.pixB).any fun p => p.any (· < 0)
      if o.acc && !o.sparse && dim o.a o.pixB == 1 then "fail accumulate-adds-to-previous-contents"
      else if negative && o.a.bw > 1 then "fail bin-key-is-channel-divided-by-bin-width"
      else if impl.mass ≠ s1.mass then "fail mass-conservation"
      else "fail bin-exactness"

/-! cumulative / normalize / sub-histograms -/

structure Simple where
  op : String
  c : Ch
  nc : Nat
  sel : List Nat
  bw : Int
  n : Nat
  pix : List (List Int)
  lo : Int
  hi : Int

def parseSimple (line : String) : Option Simple :=
  match splitOn' "|" (words line) with
  | (op :: vt :: sel :: bw :: w :: h :: rest) :: planesW =>
    match vtInfo vt, ints [bw, w, h], ints rest, planesW.mapM ints with
    | some (c, nc), some [bw, w, h], some rest, some planes =>
      if planes.length ≠ nc ∨ bw < 1 then none else
      let n := (w * h).toNat
      some { op := op, c := c, nc := nc, sel := selOf sel, bw := bw, n := n, pix := pixelsOf n planes, lo := rest.getD 0 0, hi := rest.getD 1 0 }
    | _, _, _, _ => none
  | _ => none

def argsOf (o : Simple) (sel : List Nat) : FillArgs :=
  { c := o.c, bw := o.bw, sel := sel, applymask := false, setlimits := false, lower := [], upper := [] }

def filled (o : Simple) (sel : List Nat) : Hist := fill (argsOf o sel) [] (o.pix.map fun p => (p, true))
def specFilled (_fl : Bool) (o : Simple) (sel : List Nat) : Hist := specFill false (argsOf o sel) [] (o.pix.map fun p => (p, true))

def f64 (c tot : Nat) : Float := Float.ofNat c / Float.ofNat tot

def modelSimple (o : Simple) : String :=
  match o.op with
  | "cu" => let h := filled o o.sel; showHist (cumulative (if o.sel.isEmpty then o.nc else o.sel.length) h)
  | "sa" => showHist (subAxes o.sel (filled o []))
  | "sr" => showHist (subRange o.sel (List.replicate o.nc o.lo) (List.replicate o.nc o.hi) (filled o []))
  | "no" =>
    let h := filled o o.sel
    if h.isEmpty then "-" else
    " ".intercalate ((sortHist h).map fun kv => showKey kv.1 ++ ":" ++ toString kv.2 ++ ":" ++ toString (f64 kv.2 h.mass).toBits.toNat)
  | _ => "bad-op"

def judgeCu (o : Simple) (impl : Hist) : String :=
  let ok := fun (base : Hist) =>
    sortHist (impl.map (·.1) |>.map fun k => (k, 0)) == sortHist (base.map fun kv => (kv.1, 0))
  if !(ok (specFilled true o o.sel) || ok (specFilled false o o.sel)) then "fail cumulative-keeps-the-keys" else
  -- monotone along every axis: k1 ≤ k2 component-wise ⇒ c1 ≤ c2
  if impl.any (fun a => impl.any fun b => tupleCompare a.1 b.1 && decide (a.2 > b.2)) then "fail cumulative-monotone"
  else
    -- a bin whose key dominates every key holds the total
    match impl.find? (fun a => impl.all fun b => tupleCompare b.1 a.1) with
    | some top => if top.2 = o.n then "ok" else "fail cumulative-last-bin-is-total"
    | none => "ok"

def judgeSimple (o : Simple) (obs : String) : String :=
  match o.op with
  | "no" =>
    if obs == "-" then (if o.n = 0 then "ok" else "fail shape") else
    let parts := (words obs).map fun w => w.splitOn ":"
    let vals := parts.filterMap fun p => match p with
      | [_, c, b] => match c.toNat?, b.toNat? with
        | some c, some b => some (c, Float.ofBits b.toUInt64)
        | _, _ => none
      | _ => none
    if vals.length ≠ parts.length then "fail not-a-histogram" else
    let tot := (vals.map (·.1)).sum
    let s := vals.foldl (fun acc v => acc + v.2) 0.0
    if tot ≠ o.n then "fail mass-conservation"
    else if Float.abs (s - 1.0) > 1.0e-12 then "fail normalize-sums-to-one"
    else if vals.any (fun v => Float.abs (v.2 - f64 v.1 tot) > 1.0e-15) then "fail normalize-bin-is-count-over-total"
    else "ok"
  | _ =>
    match parseBins (words obs) with
    | none => "fail not-a-histogram:" ++ obs.take 40
    | some impl =>
      match o.op with
      | "cu" => judgeCu o impl
      | "sa" =>
        let spec := fun fl => subAxesSpec (specFilled fl o [])
        if impl.mass ≠ o.n then "fail marginal-preserves-mass"
        else if sameHist impl (spec true) || sameHist impl (spec false) then "ok" else "fail marginal-is-sum-over-dropped-axes"
      | "sr" =>
        let spec := fun fl => (specFilled fl o []).filter fun kv =>
          keyLe (project o.sel (List.replicate o.nc o.lo)) (project o.sel kv.1) && keyLe (project o.sel kv.1) (project o.sel (List.replicate o.nc o.hi))
        if sameHist impl (spec true) || sameHist impl (spec false) then "ok" else "fail range-keeps-exactly-the-bins-in-range"
      | _ => "fail bad-op"
where
  subAxesSpec (h : Hist) : Hist :=
    -- marginal: for every projected key the sum of the counts of all bins projecting onto it
    let keys := (h.map fun kv => project o.sel kv.1).eraseDups
    keys.map fun k => (k, ((h.filter fun kv => project o.sel kv.1 == k).map (·.2)).sum)

/-! std containers -/

def modelSt (vt : String) (n : Nat) (plane : List Int) : String :=
  let size := if vt == "g8" then 256 else 65536
  let v := vectorFill size [] plane
  let nz := fun (v : List Nat) => " ".intercalate (v.zipIdx.filterMap fun (ci : Nat × Nat) => if ci.1 ≠ 0 then some (toString ci.2 ++ ":" ++ toString ci.1) else none)
  let v2 := vectorFill size v plane
  let sp := fill { c := if vt == "g8" then .u8 else .u16, bw := 1, sel := [], applymask := false, setlimits := false, lower := [], upper := [] } [] (plane.map fun p => ([p], true))
  let _ := n
  toString size ++ " : " ++ nz v ++ " | " ++ nz v ++ " | " ++ (if vt == "g8" then nz v else "") ++ " | " ++ showHist sp ++ " | " ++ nz v2 ++ " | " ++ nz v2

def judgeSt (vt : String) (plane : List Int) (obs : String) : String :=
  match splitOn' "|" (words obs) with
  | [sz :: ":" :: vec, mp, arr, sparse, vec2, mp2] =>
    let counts : Hist := (plane.eraseDups).map fun v => ([v], (plane.filter (· == v)).length)
    let twice : Hist := counts.map fun kv => (kv.1, 2 * kv.2)
    match parseBins vec, parseBins mp, parseBins arr, parseBins sparse, parseBins vec2, parseBins mp2 with
    | some vec, some mp, some arr, some sparse, some vec2, some mp2 =>
      let fix := fun (h : Hist) => if h == [] then ([] : Hist) else h
      if sz ≠ (if vt == "g8" then "256" else "65536") then "fail vector-size"
      else if !sameHist (fix sparse) counts then "fail bin-exactness"
      else if !sameHist vec counts then "fail std-vector-agrees-with-sparse"
      else if !sameHist mp counts then "fail std-map-agrees-with-sparse"
      else if vt == "g8" && !sameHist arr counts then "fail std-array-agrees-with-sparse"
      else if !sameHist vec2 twice || !sameHist mp2 twice then "fail std-accumulate-adds"
      else "ok"
    | _, _, _, _, _, _ => "fail not-a-histogram"
  | _ => "fail shape"

def parseSt (line : String) : Option (String × Nat × List Int) :=
  match splitOn' "|" (words line) with
  | ["st", vt, w, h] :: [planeW] =>
    match ints [w, h], ints planeW with
    | some [w, h], some plane => some (vt, (w * h).toNat, plane)
    | _, _ => none
  | _ => none

/-! cumulative of fractional bins (cn) and std::vector two-step sequences (sv) -/

structure Cn where
  o : Simple
  quarter : Bool

def parseCn (line : String) : Option Cn :=
  match words line with
  | "cn" :: vt :: sel :: bw :: mode :: rest =>
    (parseSimple (" ".intercalate ("cu" :: vt :: sel :: bw :: rest))).map fun o => { o := o, quarter := mode == "q" }
  | _ => none

def cnDims (c : Cn) : Nat := if c.o.sel.isEmpty then c.o.nc else c.o.sel.length
def q20 (x : Float) : Int := (Float.floor (x * 1048576.0 + 0.5)).toInt64.toInt

def modelCn (c : Cn) : String :=
  let h := filled c.o c.o.sel
  if h.isEmpty then "-" else
  if c.quarter then
    -- weights count/4: the printed value*4 is the cumulative histogram of the counts (sums of quarters are exact in double)
    let r := cumulativeW (cnDims c) (h.map fun kv => (kv.1, (kv.2 : Int)))
    " ".intercalate ((sortW r).map fun kv => showKey kv.1 ++ ":" ++ toString kv.2)
  else
    let r := cumulativeW (cnDims c) ((sortHist h).map fun kv => (kv.1, f64 kv.2 h.mass))
    " ".intercalate ((sortW r).map fun kv => showKey kv.1 ++ ":" ++ toString (q20 kv.2))

def judgeCn (c : Cn) (obs : String) : String :=
  if obs == "-" then (if c.o.n = 0 then "ok" else "fail shape") else
  let parts := (words obs).map fun w => w.splitOn ":"
  let vals := parts.filterMap fun p => match p with
    | [k, v] => match parseKey k, v.toInt? with
      | some k, some v => some (k, v)
      | _, _ => none
    | _ => none
  if vals.length ≠ parts.length then "fail cumulative-bin-is-dominance-sum(not-a-number)" else
  let spec := specFilled false c.o c.o.sel
  let tot : Int := spec.mass
  let unit : Int := if c.quarter then tot else 1048576          -- printed value of the total
  let tol : Int := if c.quarter then 0 else 2
  let close := fun (a b : Int) => (a - b).natAbs ≤ tol.toNat
  let expected := fun (k : Key) =>
    let dom : Int := ((spec.filter fun kv => tupleCompare kv.1 k).map (·.2)).sum
    if c.quarter then dom else q20 (Float.ofInt dom / Float.ofInt tot)
  if sortHist (vals.map fun kv => (kv.1, 0)) ≠ sortHist (spec.map fun kv => (kv.1, 0)) then "fail cumulative-keeps-the-keys"
  else if vals.any (fun a => vals.any fun b => tupleCompare a.1 b.1 && decide (a.2 > b.2 + tol)) then "fail cumulative-monotone"
  else if (match vals.find? (fun a => vals.all fun b => tupleCompare b.1 a.1) with
           | some top => !(close top.2 unit) | none => false) then "fail cumulative-last-bin-is-total"
  else if vals.any (fun kv => !(close kv.2 (expected kv.1))) then "fail cumulative-bin-is-dominance-sum"
  else "ok"

/-! multi-step sequences on fractional bins (ns): sum(), normalize twice, normalize / accumulate / normalize, quarter weights -/

structure Ns where
  c : Ch
  nc : Nat
  sel : List Nat
  bw : Int
  mode : String
  n : Nat
  pixA : List (List Int)
  pixB : List (List Int)

def parseNs (line : String) : Option Ns :=
  match splitOn' "|" (words line) with
  | ["ns", vt, sel, bw, mode, w, h] :: planesW =>
    match vtInfo vt, ints [bw, w, h], planesW.mapM ints with
    | some (c, nc), some [bw, w, h], some planes =>
      if planes.length ≠ 2 * nc ∨ bw < 1 then none else
      let n := (w * h).toNat
      some { c := c, nc := nc, sel := selOf sel, bw := bw, mode := mode, n := n, pixA := pixelsOf n (planes.take nc), pixB := pixelsOf n (planes.drop nc) }
    | _, _, _ => none
  | _ => none

def nsArgs (o : Ns) : FillArgs := { c := o.c, bw := o.bw, sel := o.sel, applymask := false, setlimits := false, lower := [], upper := [] }

/-- the sequence in exact arithmetic, from a fill function (model: `fill`; Spec: `specFill` with the truncating quotient) -/
def nsRun (o : Ns) (fillA : Hist) (accB : HistQ → HistQ) : HistQ :=
  let h := ofCounts fillA
  match o.mode with
  | "s" => normalizeQ h
  | "nn" => normalizeQ (normalizeQ h)
  | "na" => normalizeQ (accB (normalizeQ h))
  | "qs" => scaleQ (1 / 4) h
  | _ => normalizeQ (scaleQ (1 / 4) h)       -- qn

def q20R (r : Rat) : Int := (r * 1048576 + (1 : Rat) / 2).floor
def nsUnit (o : Ns) (r : Rat) : Int := if o.mode == "qs" then (r * 4).floor else q20R r

def sortQ (h : HistQ) : HistQ := sortW h

def showNs (o : Ns) (h : HistQ) : String :=
  "S=" ++ toString (nsUnit o (sumQ h)) ++ " | " ++ " ".intercalate ((sortQ h).map fun kv => showKey kv.1 ++ ":" ++ toString (nsUnit o kv.2))

def modelNs (o : Ns) : String :=
  let a := nsArgs o
  showNs o (nsRun o (fill a [] (o.pixA.map fun p => (p, true))) (fun h => fillQ a h (o.pixB.map fun p => (p, true))))

def specFillQ (a : FillArgs) (h : HistQ) (pixels : List (List Int)) : HistQ :=
  pixels.foldl (fun h p => addQ h (specKey false a p) 1) h

def judgeNs (o : Ns) (obs : String) : String :=
  match splitOn' "|" (words obs) with
  | [[sTok], binsW] =>
    if !sTok.startsWith "S=" then "fail shape" else
    let parts := binsW.map fun w => w.splitOn ":"
    let nonfinite := (sTok :: binsW).any fun w => w.endsWith "inf" || w.endsWith "nan"
    if nonfinite then "fail normalize-sums-to-one(non-finite-bins)" else
    let vals := parts.filterMap fun p => match p with
      | [k, v] => match parseKey k, v.toInt? with | some k, some v => some (k, v) | _, _ => none
      | _ => none
    match (sTok.drop 2).toString.toInt? with
    | none => "fail not-a-number"
    | some S =>
      if vals.length ≠ parts.length then "fail not-a-number" else
      let a := nsArgs o
      let spec := nsRun o (specFill false a [] (o.pixA.map fun p => (p, true))) (fun h => specFillQ a h o.pixB)
      let exact := o.mode == "qs"
      let tol : Int := if exact then 0 else (vals.length : Int) + 2
      let total : Int := (vals.map (·.2)).foldl (· + ·) 0
      if (S - total).natAbs > tol.toNat then "fail sum()-equals-the-sum-of-the-bins"
      else if !exact && !vals.isEmpty && (total - 1048576).natAbs > tol.toNat then "fail normalize-sums-to-one"
      else if sortHist (vals.map fun kv => (kv.1, 0)) ≠ sortHist (spec.map fun kv => (kv.1, 0)) then "fail bin-exactness(keys)"
      else if vals.any (fun kv => (spec.filter (·.1 == kv.1)).any (fun s => decide ((nsUnit o s.2 - kv.2).natAbs > (if exact then 0 else 2)))) then
        (if o.mode == "nn" then "fail normalize-idempotent" else "fail normalize-bin-is-weight-over-total")
      else "ok"
  | _ => "fail shape"

structure Sv where
  size1 : Nat        -- 0: no first fill
  size2 : Nat
  init : List Nat
  p1 : List Int
  p2 : List Int

def vtSize : String → Nat
  | "g8" => 256 | "g16" => 65536 | _ => 0

def parseSv (line : String) : Option Sv :=
  match splitOn' "|" (words line) with
  | ["sv", vt1, vt2, _w, _h, _ps] :: init :: p1 :: [p2] =>
    match ints init, ints p1, ints p2 with
    | some init, some p1, some p2 =>
      if vtSize vt2 = 0 then none else some { size1 := vtSize vt1, size2 := vtSize vt2, init := init.map Int.toNat, p1 := p1, p2 := p2 }
    | _, _, _ => none
  | _ => none

def showVec (v : List Nat) : String :=
  toString v.length ++ " : " ++ " ".intercalate (v.zipIdx.filterMap fun (ci : Nat × Nat) => if ci.1 ≠ 0 then some (toString ci.2 ++ ":" ++ toString ci.1) else none)

def modelSv (o : Sv) : String :=
  let v1 := if o.size1 = 0 then o.init else vectorFill o.size1 [] o.p1     -- non-accumulate: clear, resize, count
  showVec (vectorFill o.size2 v1 o.p2)                                    -- accumulate: resize(max+1) keeps / truncates, count

/-- Spec: a non-accumulating fill replaces, an accumulating fill ADDS to what the vector held: every previous entry survives -/
def judgeSv (o : Sv) (obs : String) : String :=
  match splitOn' ":" (words (obs.replace ":" " : ")) with
  | [sz] :: _ =>
    let toks := (words obs).drop 2
    match toks.mapM (fun w => match w.splitOn ":" with
        | [i, c] => match i.toNat?, c.toNat? with | some i, some c => some (i, c) | _, _ => none
        | _ => none) with
    | none => "fail not-a-histogram"
    | some bins =>
      let prev : List (Nat × Nat) :=
        if o.size1 = 0 then (o.init.zipIdx.filterMap fun (ci : Nat × Nat) => if ci.1 ≠ 0 then some (ci.2, ci.1) else none)
        else (o.p1.eraseDups.map fun v => (v.toNat, (o.p1.filter (· == v)).length))
      let add : List (Nat × Nat) := o.p2.eraseDups.map fun v => (v.toNat, (o.p2.filter (· == v)).length)
      let keys := ((prev ++ add).map (·.1)).eraseDups
      let look := fun (l : List (Nat × Nat)) (k : Nat) => (((l.filter (·.1 == k)).map (·.2)).sum : Nat)
      let total := fun (l : List (Nat × Nat)) => ((l.map (·.2)).sum : Nat)
      if sz.toNat?.getD 0 < o.size2 then "fail vector-has-one-bin-per-channel-value"
      else if total bins ≠ total prev + total add then "fail accumulate-adds-to-previous-contents"
      else if keys.any (fun k => look bins k ≠ look prev k + look add k) then "fail bin-exactness"
      else "ok"
  | _ => "fail shape"

/-! query members of the histogram class (mk) and key construction with casts (kc) -/

structure Mk where
  c : Ch
  nc : Nat
  sel : List Nat
  bw : Int
  n : Nat
  probes : List Key
  pixA : List (List Int)
  pixB : List (List Int)

def chunks (n : Nat) : Nat → List Int → List Key
  | 0, _ => []
  | f + 1, l => if l.length < n || n == 0 then [] else l.take n :: chunks n f (l.drop n)

def parseMk (line : String) : Option Mk :=
  match splitOn' "|" (words line) with
  | ["mk", vt, sel, bw, w, h] :: probes :: planesW =>
    match vtInfo vt, ints [bw, w, h], ints probes, planesW.mapM ints with
    | some (c, nc), some [bw, w, h], some probes, some planes =>
      if planes.length ≠ 2 * nc ∨ bw < 1 then none else
      let n := (w * h).toNat
      let sel := selOf sel
      let dims := if sel.isEmpty then nc else sel.length
      some { c := c, nc := nc, sel := sel, bw := bw, n := n, probes := chunks dims probes.length probes,
             pixA := pixelsOf n (planes.take nc), pixB := pixelsOf n (planes.drop nc) }
    | _, _, _, _ => none
  | _ => none

def mkArgs (o : Mk) : FillArgs := { c := o.c, bw := o.bw, sel := o.sel, applymask := false, setlimits := false, lower := [], upper := [] }
def mkDims (o : Mk) : Nat := if o.sel.isEmpty then o.nc else o.sel.length
def joinKeys (ks : List Key) : String := if ks.isEmpty then "-" else ";".intercalate (ks.map showKey)
def bit (b : Bool) : String := if b then "1" else "0"

def modelMk (o : Mk) : String :=
  let a := mkArgs o
  let hA := fill a [] (o.pixA.map fun p => (p, true))
  let hB := fill a [] (o.pixB.map fun p => (p, true))
  let hAB := fill a hA (o.pixB.map fun p => (p, true))
  "min=" ++ (if hA.isEmpty then "-" else showKey (minKey hA)) ++ " max=" ++ (if hA.isEmpty then "-" else showKey (maxKey hA))
  ++ " sorted=" ++ joinKeys (sortedKeys hA) ++ " near=" ++ joinKeys (o.probes.map fun p => nearestKey hA p)
  ++ " eq=" ++ bit (equalsH true hA hA) ++ bit (equalsH true hA hB) ++ bit (equalsH true hB hA) ++ bit (equalsH true hA hAB) ++ bit (equalsH true hAB hA)
  ++ " kp=" ++ (match o.pixA.head? with
      | none => "-"
      | some px => showKey (keyFromPixel (List.replicate (mkDims o) .i32) o.sel px))

def field (obs name : String) : Option String :=
  (words obs).findSome? fun w => if w.startsWith (name ++ "=") then some (w.drop (name.length + 1)).toString else none

def parseKeys (s : String) : Option (List Key) := if s == "-" then some [] else (s.splitOn ";").mapM parseKey

def ascending : List Key → Bool
  | a :: b :: rest => keyLt a b && ascending (b :: rest)
  | _ => true

/-- Spec of the queries, evaluated on the Spec histogram (truncating quotient keys): min_key / max_key are keys with no key below /
    above (tuple order); sorted_keys is the ascending arrangement of the key set; nearest_key(k) is k when present, else the greatest
    key not above k (k when none); equals answers 1 on equal histograms and 0 when some bin of the argument is missing or different
    (nothing is demanded when the argument is a proper sub-histogram: the header's test is one-sided, see notes); key_from_pixel is
    the tuple of the selected channels -/
def judgeMk (o : Mk) (obs : String) : String :=
  let a := mkArgs o
  let sA := specFill false a [] (o.pixA.map fun p => (p, true))
  let sB := specFill false a [] (o.pixB.map fun p => (p, true))
  let sAB := specFill false a sA (o.pixB.map fun p => (p, true))
  let keys := sA.keys
  match field obs "min", field obs "max", field obs "sorted", field obs "near", field obs "eq", field obs "kp" with
  | some mn, some mx, some so, some ne, some eq, some kp =>
    match parseKeys mn, parseKeys mx, parseKeys so, parseKeys ne, parseKeys kp with
    | some mn, some mx, some so, some ne, some kp =>
      let least := fun (m : Key) => keys.contains m && keys.all fun k => !keyLt k m
      let greatest := fun (m : Key) => keys.contains m && keys.all fun k => !keyLt m k
      if keys.isEmpty && !(mn.isEmpty && mx.isEmpty && so.isEmpty) then "fail queries-of-an-empty-histogram" else
      if !keys.isEmpty && !(match mn with | [m] => least m | _ => false) then "fail min_key-is-the-least-key" else
      if !keys.isEmpty && !(match mx with | [m] => greatest m | _ => false) then "fail max_key-is-the-greatest-key" else
      if !(so.length == keys.length && keys.all (fun k => so.contains k) && ascending so) then "fail sorted_keys-is-the-ascending-key-set" else
      if ne.length ≠ o.probes.length then "fail nearest_key(shape)" else
      if (o.probes.zip ne).any (fun pr =>
          let p := pr.1; let r := pr.2
          if keys.contains p then r != p else
          let cands := keys.filter fun u => !keyLt p u
          if cands.isEmpty then r != p else !(cands.contains r && cands.all fun u => !keyLt r u)) then "fail nearest_key-is-the-greatest-key-not-above" else
      let sub := fun (h other : Hist) => other.all fun kv => h.findKey? kv.1 == some kv.2
      let okEq := fun (b : Char) (h other : Hist) =>
        if sameHist h other then b == '1' else if !(sub h other) then b == '0' else true
      (match eq.toList with
       | [e1, e2, e3, e4, e5] =>
         if !(okEq e1 sA sA && okEq e2 sA sB && okEq e3 sB sA && okEq e4 sA sAB && okEq e5 sAB sA) then "fail equals-is-reflexive-and-sound" else
         let want : List Key := match o.pixA.head? with
           | none => []
           | some px => [if o.sel.isEmpty then px else o.sel.map fun i => px.getD i 0]
         if kp != want then "fail key_from_pixel-selects-the-channels" else "ok"
       | _ => "fail shape")
    | _, _, _, _, _ => "fail not-a-key"
  | _, _, _, _, _, _ => "fail shape"

def kcTys : List KTy := [.u8, .i16, .i32]

def parseKc (line : String) : Option (List Int × List Int) :=
  match splitOn' "|" (words line) with
  | ["kc", c0, c1, c2] :: [t] =>
    match ints [c0, c1, c2], ints t with
    | some c, some t => if t.length = 3 then some (c, t) else none
    | _, _ => none
  | _ => none

def modelKc (c t : List Int) : String :=
  " | ".intercalate [showKey (keyFromPixel kcTys [] c), showKey (keyFromPixel kcTys [2, 0, 1] c), showKey (keyFromPixel kcTys [] t),
    showKey (keyFromPixel kcTys [1, 2, 0] t),
    bit (isTupleCompatible 3 [true, true, true]) ++ bit (isTupleCompatible 3 [true, true]) ++ bit (isTupleCompatible 3 [true, true, true])
      ++ bit (isTupleCompatible 3 [false, true, true]) ++ bit (isTupleCompatible 3 [true, true, true, true])]

/-- Spec: component j of the key lies in the range of the j-th key type and is congruent to the selected source component modulo
    2^bits (equal to it when it fits); is_tuple_compatible = same size and all components convertible -/
def judgeKc (c t : List Int) (obs : String) : String :=
  match (obs.splitOn "|").map (fun s => s.trimAscii.toString) with
  | [k1, k2, k3, k4, bits] =>
    let okKey := fun (ks : String) (src : List Int) =>
      match parseKey ks with
      | some k => k.length == 3 && ((kcTys.zip (k.zip src)).all fun x =>
          decide (x.1.lo ≤ x.2.1) && decide (x.2.1 ≤ x.1.hi) && (x.2.1 - x.2.2) % (2 ^ x.1.bits : Int) == 0)
      | none => false
    let pick := fun (l : List Int) (sel : List Nat) => sel.map fun i => l.getD i 0
    if !(okKey k1 c && okKey k2 (pick c [2, 0, 1])) then "fail key_from_pixel-casts-to-the-key-types"
    else if !(okKey k3 t && okKey k4 (pick t [1, 2, 0])) then "fail key_from_tuple-casts-to-the-key-types"
    else if bits != "10100" then "fail is_tuple_compatible"
    else "ok"
  | _ => "fail shape"

def model (line : String) : String :=
  match (words line).head? with
  | some "fh" | some "hk" => match parseFh line with | some o => modelFh o | none => "bad-op"
  | some "st" => match parseSt line with | some (vt, n, p) => modelSt vt n p | none => "bad-op"
  | some "cn" => match parseCn line with | some c => modelCn c | none => "bad-op"
  | some "ns" => match parseNs line with | some o => modelNs o | none => "bad-op"
  | some "sv" => match parseSv line with | some o => modelSv o | none => "bad-op"
  | some "mk" => match parseMk line with | some o => modelMk o | none => "bad-op"
  | some "kc" => match parseKc line with | some (c, t) => modelKc c t | none => "bad-op"
  | some _ => match parseSimple line with | some o => modelSimple o | none => "bad-op"
  | none => "bad-op"

def judge (op obs : String) : String :=
  if obs.startsWith "assert:" || obs.startsWith "ub:" || obs.startsWith "crash" || obs.startsWith "timeout" then "fail no-abort" else
  match (words op).head? with
  | some "fh" | some "hk" => match parseFh op with | some o => judgeFh o obs | none => "fail bad-op"
  | some "st" => match parseSt op with | some (vt, _, p) => judgeSt vt p obs | none => "fail bad-op"
  | some "cn" => match parseCn op with | some c => judgeCn c obs | none => "fail bad-op"
  | some "ns" => match parseNs op with | some o => judgeNs o obs | none => "fail bad-op"
  | some "sv" => match parseSv op with | some o => judgeSv o obs | none => "fail bad-op"
  | some "mk" => match parseMk op with | some o => judgeMk o obs | none => "fail bad-op"
  | some "kc" => match parseKc op with | some (c, t) => judgeKc c t obs | none => "fail bad-op"
  | some _ => match parseSimple op with | some o => judgeSimple o obs | none => "fail bad-op"
  | none => "fail bad-op"

def main (args : List String) : IO UInt32 := Driver.main' model judge args
