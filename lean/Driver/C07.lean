import Driver.Common
import GilVerif.Model.C07
open Driver GilVerif.Model.C07

/-- float32 helpers (bit patterns) -/
def f32 (bits : Int) : Float32 := Float32.ofBits bits.toNat.toUInt32
def bitsOf (x : Float32) : Int := Int.ofNat x.toBits.toNat

def splitBar (ws : List String) : List String × List String :=
  let a := ws.takeWhile (· ≠ "|"); (a, (ws.dropWhile (· ≠ "|")).drop 1)

def model (line : String) : String :=
  match words line with
  | ["mulrc", t, a, b0, n, step] =>
    match Ch.parse t, ints [a, b0, n, step] with
    | some c, some [a, b0, n, step] =>
      let bs := (List.range n.toNat).map (fun i => b0 + (Int.ofNat i) * step)
      showInts (bs.map (fun b => mul c a b)) ++ " | " ++ showInts (bs.map (fun b => mul c b a))
    | _, _ => "bad-op"
  | ["inv", t, x0, n, step] =>
    match Ch.parse t, ints [x0, n, step] with
    | some c, some [x0, n, step] =>
      let xs := (List.range n.toNat).map (fun i => x0 + (Int.ofNat i) * step)
      showInts (xs.map (fun x => invert c x)) ++ " | " ++ showInts (xs.map (fun x => invert c (invert c x)))
    | _, _ => "bad-op"
  | ["mulall", _] => "fails=0 first=none"   -- every pair satisfies the Spec (C07_mul16_* theorems)
  | ["mulf", a, b] =>
    match ints [a, b] with
    | some [a, b] => showInts [bitsOf (f32 a * f32 b), bitsOf (f32 b * f32 a)]
    | _ => "bad-op"
  | ["invf", x] =>
    match ints [x] with
    | some [x] => let v := (1 : Float32) - f32 x + 0; showInts [bitsOf v, bitsOf ((1 : Float32) - v + 0)]
    | _ => "bad-op"
  | _ => "bad-op"

def firstSome {α} (xs : List α) (f : α → Option String) : Option String :=
  xs.foldl (fun acc x => match acc with | some e => some e | none => f x) none

def judge (op obs : String) : String :=
  let fail (s : String) := "fail " ++ s
  match words op with
  | ["mulrc", t, a, b0, n, step] =>
    match Ch.parse t, ints [a, b0, n, step] with
    | some c, some [a, b0, n, step] =>
      let (r, cc) := splitBar (words obs)
      match ints r, ints cc with
      | some r, some cc =>
        if r.length ≠ n.toNat ∨ cc.length ≠ n.toNat then fail "shape" else
        let bs := (List.range n.toNat).map (fun i => b0 + (Int.ofNat i) * step)
        match firstSome (bs.zip r) (fun (b, v) => mulSpec c a b v) with
        | some e => fail e
        | none =>
          if r ≠ cc then fail "commutative"
          else if step > 0 ∧ ¬ monotone r then fail "monotone"
          else "ok"
      | _, _ => fail ("not-a-value:" ++ obs.take 40)
    | _, _ => fail "bad-op"
  | ["inv", t, x0, n, step] =>
    match Ch.parse t, ints [x0, n, step] with
    | some c, some [x0, n, step] =>
      let (v, w) := splitBar (words obs)
      match ints v, ints w with
      | some v, some w =>
        if v.length ≠ n.toNat ∨ w.length ≠ n.toNat then fail "shape" else
        let xs := (List.range n.toNat).map (fun i => x0 + (Int.ofNat i) * step)
        match firstSome (xs.zip (v.zip w)) (fun (x, v, w) => invSpec c x v w) with
        | some e => fail e
        | none => "ok"
      | _, _ => fail ("not-a-value:" ++ obs.take 40)
    | _, _ => fail "bad-op"
  | ["mulall", _] => if obs.startsWith "fails=0 " then "ok" else fail ("exhaustive-sweep " ++ obs)
  | ["mulf", a, b] =>
    match ints [a, b], ints (words obs) with
    | some [a, b], some [r, r2] =>
      -- the exact product of two binary32 values fits a binary64; Spec: correctly rounded a*b
      let exact : Float := (f32 a).toFloat * (f32 b).toFloat
      let x := f32 r
      if r ≠ r2 then fail "commutative"
      else if !(x.toFloat ≥ 0 && x.toFloat ≤ 1) then fail "range"
      else if (Float.abs (x.toFloat - exact) > 1.0e-7 * exact + 1.0e-45) then fail "within-float-rounding"
      else if (f32 b == 1 && r ≠ a) || (f32 a == 1 && r ≠ b) then fail "max-is-identity"
      else if ((f32 a == 0) || (f32 b == 0)) && !(x == 0) then fail "min-is-annihilator"
      else "ok"
    | _, _ => fail ("not-a-value:" ++ obs.take 40)
  | ["invf", x] =>
    match ints [x], ints (words obs) with
    | some [x], some [v, w] =>
      let xf := (f32 x).toFloat; let vf := (f32 v).toFloat; let wf := (f32 w).toFloat
      if Float.abs (vf - (1.0 - xf)) > 6.0e-8 then fail "invert-exact"
      else if Float.abs (wf - xf) > 1.2e-7 then fail "invert-involution"
      else if !(vf ≥ 0 && vf ≤ 1) then fail "range"
      else "ok"
    | _, _ => fail ("not-a-value:" ++ obs.take 40)
  | _ => fail "bad-op"

def main (args : List String) : IO UInt32 := Driver.main' model judge args
