/-
  C12 -- write_view followed by read_image, on the byte level, for the formats GIL encodes itself.

  The encoders / decoders are in Model/Codec.lean (shared with C13).  This file adds what the
  property quantifies over (which pixel type goes with which format: the `is_write_supported` /
  `is_read_supported` tables of bmp, pnm, targa) and the Spec that `judge` evaluates on the real
  code's output: the image read back has the source's dimensions and pixels.

  PNG / TIFF / JPEG payload coding is libpng / libtiff / libjpeg: no byte-level model (ExtCodec
  contract `dec (enc rows) = rows`, trusted base); for those formats the model's prediction of the
  read-back image IS the contract, and only the real round trip is checked.
-/
import GilVerif.Model.Codec

namespace GilVerif.Model.C12
open GilVerif.Codec

inductive Fmt where
  | bmp | pnm | targa
  deriving DecidableEq, Repr

inductive Pix where
  | rgb8 | rgba8 | gray8 | gray1
  deriving DecidableEq, Repr

def Fmt.parse : String → Option Fmt
  | "bmp" => some .bmp | "pnm" => some .pnm | "targa" => some .targa | _ => none
def Pix.parse : String → Option Pix
  | "rgb8" => some .rgb8 | "rgba8" => some .rgba8 | "gray8" => some .gray8 | "gray1" => some .gray1 | _ => none

/-- `is_write_supported<pixel, tag>` (and `is_read_supported` of the same pixel: read_image into the same type) -/
def supported : Fmt → Pix → Bool
  | .bmp, .rgb8 => true | .bmp, .rgba8 => true
  | .pnm, .gray1 => true | .pnm, .gray8 => true | .pnm, .rgb8 => true
  | .targa, .rgb8 => true | .targa, .rgba8 => true
  | _, _ => false

/-- outcome of `write_view` then `read_image` (full image) as the model predicts it -/
inductive Outcome (α : Type) where
  | ub                                             -- the writer runs into undefined behaviour
  | done (file : Bytes) (back : Option (Img α))    -- bytes written, image read back (`none` = io_error)
  deriving DecidableEq

def roundTrip {α} (enc : Img α → Bytes) (dec : Bytes → Settings → Option (Img α)) (img : Img α) : Outcome α :=
  let file := enc img
  .done file (dec file Settings.full)

def rtBmp3 := roundTrip (encodeBmp bgr8) (decodeBmp bgr8)
def rtBmp4 := roundTrip (encodeBmp bgra8) (decodeBmp bgra8)
def rtPnm5 := roundTrip (encodePnm gray8 5) (decodePnm gray8 5)
def rtPnm6 := roundTrip (encodePnm rgb8 6) (decodePnm rgb8 6)
def rtTga3 := roundTrip (encodeTga bgr8) (decodeTga bgr8)
def rtTga4 := roundTrip (encodeTga bgra8) (decodeTga bgra8)
def rtPnm4 (img : Img Bool) : Outcome Bool :=
  match encodePnmMono img with
  | none => .ub
  | some file => .done file (decodePnmMono file Settings.full)

/-- the same round trip for a tree in which the writer (`wFixed`) and / or the reader (`rFixed`) carry the proposed fix
    (proposed_fixes/C12-pnm-gray1.diff); checks/C12.py selects the variant from the source text of the tree under test -/
def rtPnm4Variant (wFixed rFixed : Bool) (img : Img Bool) : Outcome Bool :=
  let dec := if rFixed then decodePnmMonoFixed else decodePnmMono
  if wFixed then let file := encodePnmMonoFixedExec img; .done file (dec file Settings.full)
  else match encodePnmMono img with
    | none => .ub
    | some file => .done file (dec file Settings.full)

/-! ### GIL's marshalling around the external codecs that is not the identity

  tiff writer::write_data / write_tiled_data pass the view through `premultiply_view` when the colour space has an
  alpha channel (the file is tagged EXTRASAMPLE_ASSOCALPHA); the reader copies the stored samples unchanged. -/

/-- tiff writer, tiled: `if (j + tw < view.width() && i + th < view.height())` the tile goes through
    write_tiled_view_to_dev (premultiplied when the pixel has alpha), otherwise -- every tile that touches the right
    or bottom edge -- through a plain std::copy (NOT premultiplied).  Strips (`tile = none`): every row premultiplied. -/
def tiffPremultiplied (tile : Option Nat) (w h x y : Nat) : Bool :=
  match tile with
  | none => true
  | some t => decide (x / t * t + t < w) && decide (y / t * t + t < h)

/-- rgba8 pixels (channel bytes r g b a, row major, `i` = index of the first pixel) as stored by the tiff writer -/
def tiffStoreRgba8 (tile : Option Nat) (w h : Nat) : Nat → Bytes → Bytes
  | i, r :: g :: b :: a :: rest =>
    (if tiffPremultiplied tile w h (i % w) (i / w) then [mulU8 r a, mulU8 g a, mulU8 b a, a] else [r, g, b, a])
      ++ tiffStoreRgba8 tile w h (i + 1) rest
  | _, rest => rest

/-- tiled tiff writer on a view whose channels are not in colour-space order (bgr8): the tile buffer is addressed with an
    iterator of the *view's* pixel type, so the samples are stored in memory order; the strip writer uses a buffer in
    colour-space order.  Read back as rgb, every pixel comes out reversed. -/
def reverse3 : Bytes → Bytes
  | a :: b :: c :: rest => c :: b :: a :: reverse3 rest
  | rest => rest

/-! ### read_image into a destination image object that already holds something

  `read_image(file, img, tag)` = `reader.init_image(img, settings); reader.apply(view(img));` (io/read_image.hpp; the same two
  calls in read_and_convert_image.hpp).  `reader_base::init_image` = `img.recreate(dim.x, dim.y)`; `image::recreate` returns
  at once when the dimensions are the ones the image already has, and otherwise gives the image the new dimensions with
  unspecified pixel values (`junk`: reused or fresh memory, default-constructed pixels).  `apply` then assigns every pixel of
  the view. -/

/-- `image::recreate(w, h)`; `junk w h` = whatever the (re)allocated memory holds -/
def recreate {α} (junk : Nat → Nat → Img α) (d : Img α) (w h : Nat) : Img α :=
  if d.w = w ∧ d.h = h then d else junk w h

/-- `reader_base::init_image(img, settings)`: the destination gets the dimensions of the file, whatever it held before -/
def initImage {α} (junk : Nat → Nat → Img α) (d : Img α) (w h : Nat) : Img α := recreate junk d w h

/-- a defective init_image that skips `recreate` unless BOTH dimensions differ (kept as a witness of what the clause excludes) -/
def initImageBothDiffer {α} (junk : Nat → Nat → Img α) (d : Img α) (w h : Nat) : Img α :=
  if d.w ≠ w ∧ d.h ≠ h then recreate junk d w h else d

/-- element-wise assignment of `s` over `d` (positions `d` does not have are not written, positions `s` does not have keep `d`) -/
def overlay {β} : List β → List β → List β
  | _ :: ds, s :: ss => s :: overlay ds ss
  | ds, [] => ds
  | [], _ :: _ => []

def overlayRows {α} : List (List α) → List (List α) → List (List α)
  | d :: ds, s :: ss => overlay d s :: overlayRows ds ss
  | ds, [] => ds
  | [], _ :: _ => []

/-- `reader.apply(view(dest))`: the decoded rows assigned to the destination view (which keeps its own dimensions) -/
def overwrite {α} (d src : Img α) : Img α := ⟨d.w, d.h, overlayRows d.rows src.rows⟩

/-- read_image into the destination object `dest` (`none` = the reader throws) -/
def readInto {α} (init : Img α → Nat → Nat → Img α) (dec : Bytes → Settings → Option (Img α)) (file : Bytes) (dest : Img α) :
    Option (Img α) :=
  (dec file Settings.full).map (fun img => overwrite (init dest img.w img.h) img)

/-- a default-constructed image -/
def emptyImg {α} : Img α := ⟨0, 0, []⟩

/-- several write_view / read_image round trips through ONE destination object: what the destination holds after each
    (a read that throws leaves the object as it was) -/
def runSeq {α} (init : Img α → Nat → Nat → Img α) (enc : Img α → Bytes) (dec : Bytes → Settings → Option (Img α)) :
    Img α → List (Img α) → List (Option (Img α))
  | _, [] => []
  | dest, img :: rest =>
    match readInto init dec (enc img) dest with
    | none => none :: runSeq init enc dec dest rest
    | some d' => some d' :: runSeq init enc dec d' rest

/-! ### Spec: what the property demands of the real code's output -/

/-- the image read back equals the source: identical dimensions and identical pixels -/
def RoundTripSpec {α} (src : Img α) (back : Option (Img α)) : Prop := back = some src

/-- as evaluated by `judge` on the harness observation (dimensions + channel bytes) -/
def specCheck (w h : Nat) (src : Bytes) (w' h' : Nat) (back : Bytes) : Option String :=
  if w' ≠ w ∨ h' ≠ h then some "dimensions"
  else if back ≠ src then some "pixels"
  else none

end GilVerif.Model.C12
