/-
  C16 -- executable model of threshold_binary / threshold_truncate / threshold_optimal (Otsu)
  (image_processing/threshold.hpp), dilate / erode / opening / closing (morphology.hpp) and
  median_filter (filter.hpp).

  * The six per-channel threshold functors and the two integer expressions of `otsu_impl` (histogram
    index from the scanned min/max; final rescaling of the threshold for unsigned 16-bit sources) come
    from the GENERATED file Gen/C16.lean (re-translated from threshold.hpp on every run).
  * `otsuChannel` follows `otsu_impl`: min/max scan (only in the `sizeof > 1 || signed` branch), histogram,
    `sum_total`, the variance loop with its `continue` / `break` and integer class means, the final
    `threshold_binary`.  Undefined behaviour of the C++ (division by zero, histogram index outside
    [0,255]) is an explicit outcome (`Except`), so "no UB" is a theorem about the model.
    `trackMax := false` reproduces the pre-fix code (max never updated, no max == min guard).
  * `morphAt` follows `morph_impl` (self always included, flipped kernel indices, `kernel.at(flip_col, flip_row)`,
    bounds test); `erodeN/dilateN` are the abstract
    min/max over a neighbourhood relation used by the lattice theorems.
  * `medianAt` follows `median_filter`: `extend_boundary(…, extend_constant)` (the C15 model), the k×k
    window, `nth_element` modelled by its specification (element k²/2 of the sorted window).
-/
import GilVerif.Gen.C16
import GilVerif.Model.C15

namespace GilVerif.Model.C16
open GilVerif.Gen.C16

/-! ### channel types -/

inductive Ch where
  | u8 | i8 | u16 | i16
  deriving DecidableEq, Repr

def Ch.parse : String → Option Ch
  | "u8" => some .u8 | "i8" => some .i8 | "u16" => some .u16 | "i16" => some .i16 | _ => none

def Ch.lo : Ch → Int
  | .u8 => 0 | .i8 => -128 | .u16 => 0 | .i16 => -32768
def Ch.hi : Ch → Int
  | .u8 => 255 | .i8 => 127 | .u16 => 65535 | .i16 => 32767
def Ch.isSigned : Ch → Bool
  | .i8 | .i16 => true | _ => false
def Ch.size : Ch → Nat
  | .u8 | .i8 => 1 | _ => 2
/-- `sizeof(source_channel_t) > 1 || std::is_signed<source_channel_t>::value` -/
def Ch.scans : Ch → Bool
  | .u8 => false | _ => true
/-- conversion of an integer to the channel type (what `DC(t)` / narrowing does) -/
def Ch.wrap : Ch → Int → Int
  | .u8, x => x % 256
  | .i8, x => (x + 128) % 256 - 128
  | .u16, x => x % 65536
  | .i16, x => (x + 32768) % 65536 - 32768

/-! ### threshold functors: dispatch of the generated kernels on (source, result) channel types -/

inductive Kind where
  | binReg | binInv | truncThrReg | truncThrInv | truncZeroReg | truncZeroInv
  deriving DecidableEq, Repr

/-- the functor `threshold_binary` / `threshold_truncate` instantiate for source `s`, result `d` -/
def functor (s d : Ch) (k : Kind) (px t mx : Int) : Option Int :=
  match s, d with
  | .u8, .u8 => some (match k with
    | .binReg => bin_reg_u8_u8 px t mx | .binInv => bin_inv_u8_u8 px t mx
    | .truncThrReg => trunc_thr_reg_u8_u8 px t | .truncThrInv => trunc_thr_inv_u8_u8 px t
    | .truncZeroReg => trunc_zero_reg_u8_u8 px t | .truncZeroInv => trunc_zero_inv_u8_u8 px t)
  | .i8, .i8 => some (match k with
    | .binReg => bin_reg_i8_i8 px t mx | .binInv => bin_inv_i8_i8 px t mx
    | .truncThrReg => trunc_thr_reg_i8_i8 px t | .truncThrInv => trunc_thr_inv_i8_i8 px t
    | .truncZeroReg => trunc_zero_reg_i8_i8 px t | .truncZeroInv => trunc_zero_inv_i8_i8 px t)
  | .u16, .u16 => some (match k with
    | .binReg => bin_reg_u16_u16 px t mx | .binInv => bin_inv_u16_u16 px t mx
    | .truncThrReg => trunc_thr_reg_u16_u16 px t | .truncThrInv => trunc_thr_inv_u16_u16 px t
    | .truncZeroReg => trunc_zero_reg_u16_u16 px t | .truncZeroInv => trunc_zero_inv_u16_u16 px t)
  | .i16, .i16 => some (match k with
    | .binReg => bin_reg_i16_i16 px t mx | .binInv => bin_inv_i16_i16 px t mx
    | .truncThrReg => trunc_thr_reg_i16_i16 px t | .truncThrInv => trunc_thr_inv_i16_i16 px t
    | .truncZeroReg => trunc_zero_reg_i16_i16 px t | .truncZeroInv => trunc_zero_inv_i16_i16 px t)
  | .u16, .u8 => some (match k with
    | .binReg => bin_reg_u16_u8 px t mx | .binInv => bin_inv_u16_u8 px t mx
    | .truncThrReg => trunc_thr_reg_u16_u8 px t | .truncThrInv => trunc_thr_inv_u16_u8 px t
    | .truncZeroReg => trunc_zero_reg_u16_u8 px t | .truncZeroInv => trunc_zero_inv_u16_u8 px t)
  | .u8, .i16 => some (match k with
    | .binReg => bin_reg_u8_i16 px t mx | .binInv => bin_inv_u8_i16 px t mx
    | .truncThrReg => trunc_thr_reg_u8_i16 px t | .truncThrInv => trunc_thr_inv_u8_i16 px t
    | .truncZeroReg => trunc_zero_reg_u8_i16 px t | .truncZeroInv => trunc_zero_inv_u8_i16 px t)
  | _, _ => none

/-- `detail::threshold_impl`: the functor applied to every pixel (one channel) -/
def thresholdPlane (s d : Ch) (k : Kind) (t mx : Int) (plane : List Int) : List Int :=
  plane.map fun px => (functor s d k px t mx).getD 0

/-! ### Spec of the threshold functors (the documented comparison), evaluated by `judge` -/

/-- documented result, before conversion to the result channel type -/
def thresholdSpec (k : Kind) (px t mx : Int) : Int :=
  match k with
  | .binReg => if px > t then mx else 0
  | .binInv => if px > t then 0 else mx
  | .truncThrReg => if px > t then t else px
  | .truncThrInv => if px > t then px else t
  | .truncZeroReg => if px > t then px else 0
  | .truncZeroInv => if px > t then 0 else px

/-! ### views with an arbitrary memory geometry (per-pixel algorithms: `threshold_impl`, `adaptive_impl`) -/

/-- the pixels of a w×h view in the order the row loops visit them -/
def gridPts (w h : Nat) : List (Nat × Nat) :=
  (List.range h).flatMap fun (y : Nat) => (List.range w).map fun (x : Nat) => (x, y)

/-- `for y, for x: dst(x, y) = value(x, y)` on a memory `mem` (cell → channel value) for a destination view whose pixel (x, y)
    lives in cell `addr (x, y)`: whole image, sub-view of a larger image, padded rows, flipped, stepped … are all just different `addr` -/
def writeCells (addr : Nat × Nat → Nat) (vals : Nat × Nat → Int) (pts : List (Nat × Nat)) (mem : Nat → Int) : Nat → Int :=
  pts.foldl (fun m p => fun a => if a = addr p then vals p else m a) mem

/-! ### threshold_adaptive -/

/-- the comparison functor `threshold_adaptive` hands to `adaptive_impl` (generated), by source = result channel type -/
def adaptiveFunctor (c : Ch) (inverse : Bool) (px t mx cst : Int) : Option Int :=
  match c with
  | .u8 => some (if inverse then adapt_inv_u8_u8 px t mx cst else adapt_reg_u8_u8 px t mx cst)
  | .u16 => some (if inverse then adapt_inv_u16_u16 px t mx cst else adapt_reg_u16_u16 px t mx cst)
  | _ => none

/-- `adaptive_impl`: the functor applied to every (pixel, local threshold) pair -/
def adaptivePlane (c : Ch) (inverse : Bool) (mx cst : Int) (src thr : List Int) : List Int :=
  (src.zip thr).map fun (px, t) => (adaptiveFunctor c inverse px t mx cst).getD 0

/-- Spec: the documented comparison of a pixel against (local threshold − constant) -/
def adaptiveSpec (inverse : Bool) (px t mx cst : Int) : Int :=
  if px > t - cst then (if inverse then 0 else mx) else (if inverse then mx else 0)

/-- zero-padded sample -/
def zsample (w h : Nat) (plane : List Int) (x y : Int) : Int :=
  if 0 ≤ x ∧ x < (w : Int) ∧ 0 ≤ y ∧ y < (h : Int) then plane.getD (y.toNat * w + x.toNat) 0 else 0

/-- the k×k window around (x, y) with samples outside the image taken as zero (`boundary_option::extend_zero`,
    the default of `convolve_1d` / `convolve_2d`) -/
def zwindow (w h k : Nat) (plane : List Int) (x y : Nat) : List Int :=
  ((List.range k).map fun (j : Nat) => (List.range k).map fun (i : Nat) =>
    zsample w h plane ((x : Int) + (i : Int) - ((k / 2 : Nat) : Int)) ((y : Int) + (j : Int) - ((k / 2 : Nat) : Int))).flatten

/-- Spec of the local threshold surface, `mean` method: the zero-padded k×k box mean M = S/k², computed by the code as a
    row pass and a column pass with weights 1/k (float) whose results are each truncated to the channel type:
    M − 2 ≤ T ≤ M, i.e. S − 2k² ≤ k²·T ≤ S (exact integers) -/
def meanSurfaceOk (k : Nat) (window : List Int) (t : Int) : Bool :=
  let s := window.foldl (· + ·) 0
  let kk : Int := (k : Int) * (k : Int)
  decide (s - 2 * kk ≤ kk * t) && decide (kk * t ≤ s)

/-- Spec of the local threshold surface, `gaussian` method: a convex combination (non-negative weights normalised to 1) of the
    zero-padded window, truncated: min − 1 ≤ T ≤ max -/
def gaussSurfaceOk (window : List Int) (t : Int) : Bool :=
  match window with
  | [] => true
  | v :: vs => decide (vs.foldl min v - 1 ≤ t) && decide (t ≤ vs.foldl max v)

/-! ### Otsu -/

inductive UB where
  | divZero | histIndex
  deriving DecidableEq, Repr

/-- the min/max scan; `trackMax = false` is the pre-fix code: `if (px < min) min = px; if (px > min) min = px;`, max never assigned -/
def scanMinMax (trackMax : Bool) (init : Int × Int) (pixels : List Int) : Int × Int :=
  pixels.foldl (fun (mm : Int × Int) px =>
    let mn := if px < mm.1 then px else mm.1
    if trackMax then (mn, if px > mm.2 then px else mm.2)
    else (if px > mn then px else mn, mm.2)) init

/-- histogram index of one pixel in the `sizeof > 1 || signed` branch -/
def otsuIndex (c : Ch) (trackMax : Bool) (px mn mx : Int) : Except UB Int :=
  if trackMax then
    .ok (match c with
      | .i8 => otsu_index_i8 px mn mx | .u16 => otsu_index_u16 px mn mx | .i16 => otsu_index_i16 px mn mx
      | .u8 => px)
  else if mx - mn = 0 then .error .divZero
  else .ok (Int.tdiv ((px - mn) * 255) (mx - mn))

/-- `histogram[i]++` on a 256-entry table -/
def histInc (hist : List Nat) (i : Int) : Except UB (List Nat) :=
  if 0 ≤ i ∧ i < 256 then .ok (hist.set i.toNat (hist.getD i.toNat 0 + 1)) else .error .histIndex

def buildHist (c : Ch) (trackMax : Bool) (mn mx : Int) (pixels : List Int) : Except UB (List Nat) :=
  pixels.foldlM (fun hist px =>
    if c.scans then do
      let i ← otsuIndex c trackMax px mn mx
      histInc hist i
    else histInc hist px) (List.replicate 256 0)

structure OtsuState where
  weightBack : Int := 0
  sumBack : Int := 0
  varMax : Int := 0
  threshold : Int := 0
  stopped : Bool := false

/-- one iteration `t` of the variance loop (`continue` when weight_back = 0, `break` when weight_fore = 0) -/
def otsuStep (total sumTotal : Int) (st : OtsuState) (t : Nat) (ht : Nat) : OtsuState :=
  if st.stopped then st else
  let wb := st.weightBack + ht
  if wb = 0 then { st with weightBack := wb }
  else
    let wf := total - wb
    if wf = 0 then { st with weightBack := wb, stopped := true }
    else
      let sb := st.sumBack + (t : Int) * (ht : Int)
      let meanBack := sb / wb                  -- sum_back / weight_back (both ≥ 0; divisor ≠ 0 here)
      let meanFore := (sumTotal - sb) / wf     -- divisor ≠ 0 here
      let v := wb * wf * (meanBack - meanFore) * (meanBack - meanFore)
      if v > st.varMax then { weightBack := wb, sumBack := sb, varMax := v, threshold := t, stopped := false }
      else { st with weightBack := wb, sumBack := sb }

def sumTotal (hist : List Nat) : Int :=
  (List.range 256).foldl (fun acc (t : Nat) => acc + (t : Int) * ((hist.getD t 0 : Nat) : Int)) 0

def otsuThreshold (hist : List Nat) (total : Int) : Int :=
  let st := (List.range 256).foldl (fun st (t : Nat) => otsuStep total (sumTotal hist) st t (hist.getD t 0)) {}
  st.threshold

/-! #### Spec of Otsu's optimality: the between-class variance of a candidate bin, in closed form -/

/-- number of pixels in bins `< n` -/
def cumW (hist : List Nat) : Nat → Int
  | 0 => 0
  | n + 1 => cumW hist n + ((hist.getD n 0 : Nat) : Int)
/-- sum of bin indices over the pixels in bins `< n` -/
def cumS (hist : List Nat) : Nat → Int
  | 0 => 0
  | n + 1 => cumS hist n + (n : Int) * ((hist.getD n 0 : Nat) : Int)

/-- between-class variance of candidate `t` as `otsu_impl` defines it (integer class means: `sum_back / weight_back`
    is a `ptrdiff_t / size_t` division); 0 when one of the classes is empty (the `continue` / `break` cases) -/
def otsuVar (hist : List Nat) (total : Int) (t : Nat) : Int :=
  let wb := cumW hist (t + 1)
  let wf := total - wb
  if wb = 0 ∨ wf = 0 then 0
  else
    let mb := cumS hist (t + 1) / wb
    let mf := (cumS hist 256 - cumS hist (t + 1)) / wf
    wb * wf * (mb - mf) * (mb - mf)

/-- the variance loop after `n` iterations -/
def otsuRun (hist : List Nat) (total : Int) (n : Nat) : OtsuState :=
  (List.range n).foldl (fun st (t : Nat) => otsuStep total (sumTotal hist) st t (hist.getD t 0)) {}

/-- `otsu_impl` on one channel: the threshold value passed to `threshold_binary` (already converted to the
    result channel type, which is the source channel type here) -/
def otsuValue (c : Ch) (trackMax : Bool) (pixels : List Int) : Except UB Int := do
  let mm := if c.scans then scanMinMax trackMax (c.hi, c.lo) pixels else (c.hi, c.lo)
  let hist ← buildHist c trackMax mm.1 mm.2 pixels
  let t := otsuThreshold hist pixels.length
  -- `sizeof > 1 && is_unsigned`: rescale; otherwise the bin index itself is the threshold
  if c = .u16 then .ok (c.wrap (otsu_rescale_u16 t mm.1 mm.2)) else .ok (c.wrap t)

def otsuChannel (c : Ch) (trackMax : Bool) (inverse : Bool) (pixels : List Int) : Except UB (List Int) := do
  let t ← otsuValue c trackMax pixels
  .ok (thresholdPlane c c (if inverse then .binInv else .binReg) t c.hi pixels)

/-! ### morphology -/

/-- `morph_impl` at pixel (x, y); `ker` row-major ks×ks, `at(x,y) = ker[y*ks + x]`; dilation = `true` -/
def morphAt (src : Int → Int → Int) (w h : Nat) (ker : List Int) (ks cy cx : Nat) (dilation : Bool) (x y : Nat) : Int :=
  (List.range ks).foldl (fun acc (kernel_row : Nat) =>
    (List.range ks).foldl (fun acc (kernel_col : Nat) =>
      let flip_ker_row : Int := (ks : Int) - 1 - (kernel_row : Int)
      let flip_ker_col : Int := (ks : Int) - 1 - (kernel_col : Int)
      -- kernel.at(flip_ker_col, flip_ker_row): x = column, y = row  (argument order fixed by f4ff363)
      if ker.getD (flip_ker_row.toNat * ks + flip_ker_col.toNat) 0 = 0 then acc
      else
        let row_boundary : Int := (y : Int) + ((cy : Int) - flip_ker_row)
        let col_boundary : Int := (x : Int) + ((cx : Int) - flip_ker_col)
        if 0 ≤ row_boundary ∧ row_boundary < (h : Int) ∧ 0 ≤ col_boundary ∧ col_boundary < (w : Int) then
          if dilation then max (src col_boundary row_boundary) acc else min (src col_boundary row_boundary) acc
        else acc) acc) (src (x : Int) (y : Int))

/-- one erosion / dilation step of `morph_impl` as a function on pixel coordinates (for stating compositions) -/
def erodeFn (w h : Nat) (ker : List Int) (ks cy cx : Nat) (g : Int → Int → Int) : Int → Int → Int :=
  fun a b => morphAt g w h ker ks cy cx false a.toNat b.toNat
def dilateFn (w h : Nat) (ker : List Int) (ks cy cx : Nat) (g : Int → Int → Int) : Int → Int → Int :=
  fun a b => morphAt g w h ker ks cy cx true a.toNat b.toNat

def imgFn (w : Nat) (plane : List Int) : Int → Int → Int :=
  fun x y => if 0 ≤ x ∧ 0 ≤ y then plane.getD (y.toNat * w + x.toNat) 0 else 0

/-- `morph`: every pixel of a copy, then `copy_pixels` back -/
def morph (w h : Nat) (ker : List Int) (ks cy cx : Nat) (dilation : Bool) (plane : List Int) : List Int :=
  ((List.range h).map fun (y : Nat) => (List.range w).map fun (x : Nat) => morphAt (imgFn w plane) w h ker ks cy cx dilation x y).flatten

def iterate {α : Type} (f : α → α) : Nat → α → α
  | 0, a => a
  | n + 1, a => iterate f n (f a)

def dilate (w h : Nat) (ker : List Int) (ks cy cx iters : Nat) (plane : List Int) : List Int :=
  iterate (morph w h ker ks cy cx true) iters plane
def erode (w h : Nat) (ker : List Int) (ks cy cx iters : Nat) (plane : List Int) : List Int :=
  iterate (morph w h ker ks cy cx false) iters plane
def opening (w h : Nat) (ker : List Int) (ks cy cx : Nat) (plane : List Int) : List Int :=
  dilate w h ker ks cy cx 1 (erode w h ker ks cy cx 1 plane)
def closing (w h : Nat) (ker : List Int) (ks cy cx : Nat) (plane : List Int) : List Int :=
  erode w h ker ks cy cx 1 (dilate w h ker ks cy cx 1 plane)

/-- neighbourhood of a structuring element: the entry in row r, column c selects the neighbour at horizontal offset
    cx − c and vertical offset cy − r (rows are vertical, columns horizontal; the reflection is immaterial for a
    symmetric structuring element).  Since fix f4ff363 this is also what `morph_impl` reads. -/
def isNeighbour (ker : List Int) (ks cy cx : Nat) (px py qx qy : Int) : Bool :=
  (List.range ks).any fun (r : Nat) => (List.range ks).any fun (c : Nat) =>
    ker.getD (r * ks + c) 0 ≠ 0 && qx == px + ((cx : Int) - (c : Int)) && qy == py + ((cy : Int) - (r : Int))

/-- symmetric structuring element: B = −B about the centre (entry (r,c) ≠ 0 iff entry (2cy−r, 2cx−c) ≠ 0) -/
def pointSymmetric (ker : List Int) (ks cy cx : Nat) : Bool :=
  (List.range ks).all fun (r : Nat) => (List.range ks).all fun (c : Nat) =>
    ker.getD (r * ks + c) 0 == 0 ||
      (decide (r ≤ 2 * cy) && decide (c ≤ 2 * cx) && decide (2 * cy - r < ks) && decide (2 * cx - c < ks)
        && ker.getD ((2 * cy - r) * ks + (2 * cx - c)) 0 != 0)

/-- Spec of one dilation / erosion step on a plane: max / min over {self} ∪ in-image Spec neighbours -/
def morphSpec (w h : Nat) (ker : List Int) (ks cy cx : Nat) (dilation : Bool) (p : List Int) : List Int :=
  let pts := List.range (w * h)
  pts.map fun (i : Nat) =>
    let px : Int := (i % w : Nat); let py : Int := (i / w : Nat)
    pts.foldl (fun acc (j : Nat) =>
      let qx : Int := (j % w : Nat); let qy : Int := (j / w : Nat)
      if isNeighbour ker ks cy cx px py qx qy then
        (if dilation then max acc (p.getD j 0) else min acc (p.getD j 0)) else acc) (p.getD i 0)

/-! abstract erosion / dilation over a list of points and a neighbourhood relation -/

def minOver (init : Int) (l : List Int) : Int := l.foldl min init
def maxOver (init : Int) (l : List Int) : Int := l.foldl max init

/-- erosion / dilation of `f` over the points `pts` for a neighbourhood relation `nb` (the point itself is always included) -/
def erodeP {P : Type} (pts : List P) (nb : P → P → Bool) (f : P → Int) (p : P) : Int :=
  minOver (f p) ((pts.filter (nb p)).map f)
def dilateP {P : Type} (pts : List P) (nb : P → P → Bool) (f : P → Int) (p : P) : Int :=
  maxOver (f p) ((pts.filter (nb p)).map f)

/-- the pixels of a w×h image -/
def imagePts (w h : Nat) : List (Int × Int) :=
  (List.range h).flatMap fun (y : Nat) => (List.range w).map fun (x : Nat) => ((x : Int), (y : Int))

/-- in-image test of `morph_impl` -/
def inImg (w h : Nat) (qx qy : Int) : Prop := 0 ≤ qy ∧ qy < (h : Int) ∧ 0 ≤ qx ∧ qx < (w : Int)

/-- neighbourhood relation of a structuring element on pixel coordinates -/
def nbK (ker : List Int) (ks cy cx : Nat) (p q : Int × Int) : Bool := isNeighbour ker ks cy cx p.1 p.2 q.1 q.2

/-! ### median -/

/-- the k×k window of `median_filter` at (x, y): taken from the edge-extended copy (`extend_boundary`
    with `extend_constant`, the C15 model), top-left corner (x − k/2, y − k/2) in source coordinates -/
def medianWindow (src : Int → Int → Int) (w h k : Nat) (x y : Nat) : List Int :=
  let half := k / 2
  let ext := C15.imgFn (C15.extendBoundary .extendConstant half src w h)
  ((List.range k).map fun (j : Nat) => (List.range k).map fun (i : Nat) => ext ((x : Int) + (i : Int)) ((y : Int) + (j : Int))).flatten

/-- `nth_element` + `values[size/2]`: element `size/2` of the sorted window -/
def medianOf (vals : List Int) : Int := (vals.mergeSort (fun a b => decide (a ≤ b))).getD (vals.length / 2) 0

def medianAt (src : Int → Int → Int) (w h k : Nat) (x y : Nat) : Int := medianOf (medianWindow src w h k x y)

def medianFilter (w h k : Nat) (plane : List Int) : List Int :=
  ((List.range h).map fun (y : Nat) => (List.range w).map fun (x : Nat) => medianAt (imgFn w plane) w h k x y).flatten

/-- Spec window: the k×k neighbourhood under edge replication -/
def medianWindowSpec (src : Int → Int → Int) (w h k : Nat) (x y : Nat) : List Int :=
  let half := k / 2
  ((List.range k).map fun (j : Nat) => (List.range k).map fun (i : Nat) =>
    src (C15.clampI 0 ((w : Int) - 1) ((x : Int) + (i : Int) - (half : Int)))
        (C15.clampI 0 ((h : Int) - 1) ((y : Int) + (j : Int) - (half : Int)))).flatten

/-- Spec of a median: `v` occurs at position `n/2` of the sorted values -/
def isMedian (vals : List Int) (v : Int) : Bool :=
  decide ((vals.filter (· < v)).length ≤ vals.length / 2) && decide (vals.length / 2 < (vals.filter (· ≤ v)).length)

end GilVerif.Model.C16
