/-
  C14 -- run-time typed images (`any_image`, `any_image_view`) behave like the concrete image they hold.

  Executable model (core Lean only; linked into the native driver `drv_C14`).

  * `Fmt`  : pixel format of an alternative (colour space, channel order, channel depth, organisation);
    `Tag`  : a view alternative = format + the dynamic-step / dereference-adaptor flags that the lifted
             transformations change in the C++ type list;
  * `View t` : an affine cell map `cell x y k = org0 + x*xs + y*ys + k*ks` over a cell memory `Mem`
             (one cell = one channel slot), plus the chain of colour-converting dereference adaptors;
  * `AnyView = Σ t, View t`, `AnyImage = Σ f, Image f`  (the run-time typed wrappers);
  * `compatible` (= `views_are_compatible`: same colour space, same channel value type; layout order and
    planar/interleaved organisation may differ), `binaryOp` (= `binary_operation_obj`: compatible ->
    `apply_compatible`, otherwise `std::bad_cast` and nothing is touched), the lifted transformations
    `Xf.lift` and algorithms (`anyCopyPixels`, `anyCopyAndConvert`, `anyEqualPixels`, `anyFillPixels`,
    `anyForEach`, `anyResample`), and `any_image` as a deep value over a `Heap`.

  The model is deliberately THIN: what the C++ really does here is type-level dispatch (which overload /
  which alternative a `variant2::visit` selects), which Lean does not see. The concrete view / algorithm
  semantics below are the documented ones (DESIGN.md C02/C04, kept minimal and local to this file); the tie
  to the real headers is the differential correspondence run (harness/C14).

  Defects of the tree under test that the model would have to reproduce (model = code, Spec = property) are
  listed in `knownNoCompile` (empty at present: the three non-compiling overloads found by this check are fixed).
-/
namespace GilVerif.Model.C14

/-! ### formats and tags -/

inductive CS where | gray | rgb | rgba | cmyk
  deriving DecidableEq, Repr
/-- channel order of the layout: colour-space order, reversed (bgr / abgr), or alpha first (argb) -/
inductive Order where | fwd | rev | argb
  deriving DecidableEq, Repr
inductive Depth where | b1 | b8 | b16
  deriving DecidableEq, Repr
inductive Org where | interleaved | planar | bitAligned
  deriving DecidableEq, Repr

/-- pixel format of one alternative of a type list -/
structure Fmt where
  cs : CS
  order : Order
  depth : Depth
  org : Org
  deriving DecidableEq, Repr

def CS.n : CS → Nat | .gray => 1 | .rgb => 3 | .rgba => 4 | .cmyk => 4
def Depth.bits : Depth → Nat | .b1 => 1 | .b8 => 8 | .b16 => 16
def Fmt.nc (f : Fmt) : Nat := f.cs.n
def Fmt.bits (f : Fmt) : Nat := f.depth.bits
def Fmt.maxV (f : Fmt) : Nat := 2 ^ f.bits - 1
/-- physical position of semantic channel `c` -/
def Fmt.phys (f : Fmt) (c : Nat) : Nat :=
  match f.order with
  | .fwd => c
  | .rev => f.nc - 1 - c
  | .argb => (c + 1) % f.nc
/-- semantic index of physical channel `k` (inverse of `phys` on `[0, nc)`) -/
def Fmt.sem (f : Fmt) (k : Nat) : Nat :=
  match f.order with
  | .fwd => k
  | .rev => f.nc - 1 - k
  | .argb => (k + (f.nc - 1)) % f.nc

def g8 : Fmt := ⟨.gray, .fwd, .b8, .interleaved⟩
def rgb8 : Fmt := ⟨.rgb, .fwd, .b8, .interleaved⟩
def bgr8 : Fmt := ⟨.rgb, .rev, .b8, .interleaved⟩
def rgb8p : Fmt := ⟨.rgb, .fwd, .b8, .planar⟩
def rgba8 : Fmt := ⟨.rgba, .fwd, .b8, .interleaved⟩
def rgb16 : Fmt := ⟨.rgb, .fwd, .b16, .interleaved⟩
def g1 : Fmt := ⟨.gray, .fwd, .b1, .bitAligned⟩
def g16 : Fmt := ⟨.gray, .fwd, .b16, .interleaved⟩
def argb8 : Fmt := ⟨.rgba, .argb, .b8, .interleaved⟩
def cmyk8 : Fmt := ⟨.cmyk, .fwd, .b8, .interleaved⟩
def rgb16p : Fmt := ⟨.rgb, .fwd, .b16, .planar⟩

/-- the representative type lists of the harness -/
def L7 : List Fmt := [g8, rgb8, bgr8, rgb8p, rgba8, rgb16, g1]
def L6 : List Fmt := [g8, rgb8, bgr8, rgb8p, rgba8, rgb16]
def LS : List Fmt := [g8, rgb8]
/-- the second representative list (ops prefixed with `B`) -/
def LB : List Fmt := [g16, argb8, rgba8, cmyk8, rgb16, rgb16p]

def Fmt.parse : String → Option Fmt
  | "g8" => some g8 | "rgb8" => some rgb8 | "bgr8" => some bgr8 | "rgb8p" => some rgb8p
  | "rgba8" => some rgba8 | "rgb16" => some rgb16 | "g1" => some g1
  | "g16" => some g16 | "argb8" => some argb8 | "cmyk8" => some cmyk8 | "rgb16p" => some rgb16p | _ => none

/-- `views_are_compatible` / `pixels_are_compatible`: same colour space and pairwise compatible channels
    (within the depths modelled here the channel value type is determined by the depth). Channel order and
    planar / interleaved / bit-aligned organisation do not matter. -/
def compatible (a b : Fmt) : Bool := decide (a.cs = b.cs) && decide (a.depth = b.depth)

/-- a view alternative: format + what the C++ type additionally records -/
structure Tag where
  fmt : Fmt
  xstep : Bool        -- x iterator is a memory_based_step_iterator (dynamic_x_step_type); the y step of a
                      -- memory-based locator is always a run-time value, so it is not part of the type
  adaptedFrom : List Fmt   -- colour-converting dereference adaptors applied (source format of each, innermost
                           -- first): the C++ view type records the source locator; non-empty = read-only
  deriving DecidableEq, Repr

def Tag.ofFmt (f : Fmt) : Tag := ⟨f, false, []⟩

/-- colour converter: the library's default one, or the harness' STATEFUL user converter `sum_cc(off)` (`off` is
    run-time state of the converter object; a default-constructed one has `off = 0`) -/
inductive Conv where | default | sum (off : Nat)
  deriving DecidableEq, Repr

/-- the state the harness gives its converter for content seed `s` (never 0) -/
def ccOffset (s : Nat) : Nat := s % 251 + 1

/-- one colour-converting dereference adaptor -/
structure Adapt where
  src : Fmt
  dst : Fmt
  conv : Conv
  deriving DecidableEq, Repr

/-! ### cell memory and views -/

/-- cell memory. A structure (not a bare function type) so that compiled code evaluates stored values when they
    are written, not every time they are read. -/
structure Mem where
  get : Int → Nat

instance : CoeFun Mem (fun _ => Int → Nat) := ⟨Mem.get⟩

def upd (m : Mem) (c : Int) (v : Nat) : Mem := ⟨fun c' => if c' = c then v else m.get c'⟩

/-- a view: affine map from (x, y, physical channel) to memory cells, plus dereference adaptors -/
structure View (t : Tag) where
  w : Nat
  h : Nat
  org0 : Int
  xs : Int
  ys : Int
  ks : Int
  ns : Nat             -- channels read from memory per pixel
  adapt : List Adapt
  deriving DecidableEq, Repr

def View.cell {t} (v : View t) (x y k : Nat) : Int := v.org0 + x * v.xs + y * v.ys + k * v.ks

/-- change the (phantom) tag -/
def View.retag {t} (v : View t) (t' : Tag) : View t' := ⟨v.w, v.h, v.org0, v.xs, v.ys, v.ks, v.ns, v.adapt⟩

/-! ### pixel functions (lists of channel values in PHYSICAL order) -/

def toSem (f : Fmt) (p : List Nat) : List Nat := (List.range f.nc).map (fun c => p.getD (f.phys c) 0)
def fromSem (f : Fmt) (q : List Nat) : List Nat := (List.range f.nc).map (fun k => q.getD (f.sem k) 0)
/-- assignment between compatible pixels pairs channels by colour -/
def pairPx (sf df : Fmt) (p : List Nat) : List Nat := fromSem df (toSem sf p)

/-- `channel_convert` between unsigned integral channels of 1 / 8 / 16 bits (always the "divisible" branches) -/
def chanConv (sb db x : Nat) : Nat :=
  let sm := 2 ^ sb - 1; let dm := 2 ^ db - 1
  if sb = db then x
  else if sm < dm then x * (dm / sm)
  else let d := sm / dm; (x + d / 2) / d

/-- `channel_multiply` (8 bit: the div255 trick; otherwise a*b/max) -/
def chanMul (bits a b : Nat) : Nat :=
  if bits = 8 then let t := a * b + 128; (t + (t >>> 8)) >>> 8 else a * b / (2 ^ bits - 1)

/-- integer luminance of `rgb_to_luminance_fn<uint8_t,uint8_t,uint8_t,_>` -/
def lum8 (r g b : Nat) : Nat := (4915 * r + 9667 * g + 1802 * b + 8192) >>> 14

/-- generic luminance through float32 (IEEE operation sequence of the code, Lean `Float32`) -/
def lumFloat (sb db r g b : Nat) : Nat :=
  let mx : Float32 := Float32.ofNat (2 ^ sb - 1)
  let cf (x : Nat) : Float32 := Float32.ofNat x / mx
  let sum : Float32 := cf r * Float32.ofBits 0x3e99999a + cf g * Float32.ofBits 0x3f170a3d + cf b * Float32.ofBits 0x3de147ae
  (sum * Float32.ofNat (2 ^ db - 1) + Float32.ofBits 0x3f000000).toUInt32.toNat

def rgbToGray (sb db r g b : Nat) : Nat :=
  if sb = 8 then chanConv 8 db (lum8 r g b) else lumFloat sb db r g b

/-- rgb (semantic, source depth `sb`) to the semantic channels of `df` -/
def rgbTo (sb : Nat) (df : Fmt) (r g b : Nat) : List Nat :=
  let cc := chanConv sb df.bits
  match df.cs with
  | .gray => [rgbToGray sb df.bits r g b]
  | .rgb => [cc r, cc g, cc b]
  | .rgba => [cc r, cc g, cc b, cc (2 ^ sb - 1)]
  | .cmyk => []        -- rgb -> cmyk is a binary64 path of the library (C09); not modelled, never generated

def grayTo (sb : Nat) (df : Fmt) (g : Nat) : List Nat :=
  let cc := chanConv sb df.bits
  match df.cs with
  | .gray => [cc g]
  | .rgb => [cc g, cc g, cc g]
  | .rgba => [cc g, cc g, cc g, cc (2 ^ sb - 1)]
  | .cmyk => []

/-- `default_color_converter` (gray / rgb / rgba sources and destinations; cmyk only to cmyk) -/
def convDefault (sf df : Fmt) (p : List Nat) : List Nat :=
  let s := toSem sf p
  let sb := sf.bits
  let ch (i : Nat) := s.getD i 0
  fromSem df (match sf.cs with
    | .gray => grayTo sb df (ch 0)
    | .rgb => rgbTo sb df (ch 0) (ch 1) (ch 2)
    | .rgba => match df.cs with
      | .rgba => s.map (chanConv sb df.bits)
      | _ => rgbTo sb df (chanMul sb (ch 0) (ch 3)) (chanMul sb (ch 1) (ch 3)) (chanMul sb (ch 2) (ch 3))
    | .cmyk => match df.cs with
      | .cmyk => s.map (chanConv sb df.bits)
      | _ => [])

/-- the harness' user-defined converter `sum_cc(off)` -/
def convSum (off : Nat) (df : Fmt) (p : List Nat) : List Nat :=
  let sum := p.foldl (· + ·) 0
  (List.range df.nc).map (fun j => (sum + 7 * j + 3 + off) % 2 ^ df.bits)

def Adapt.apply (a : Adapt) (p : List Nat) : List Nat :=
  match a.conv with
  | .default => convDefault a.src a.dst p
  | .sum off => convSum off a.dst p

/-! ### reading and writing through views -/

def View.raw {t} (v : View t) (m : Mem) (x y : Nat) : List Nat := (List.range v.ns).map (fun k => m (v.cell x y k))
/-- the pixel at (x,y): memory channels, then the dereference adaptors -/
def View.px {t} (v : View t) (m : Mem) (x y : Nat) : List Nat := v.adapt.foldl (fun p a => a.apply p) (v.raw m x y)

def View.write {t} (v : View t) (m : Mem) (x y : Nat) (p : List Nat) : Mem :=
  (List.range v.ns).foldl (fun m k => upd m (v.cell x y k) (p.getD k 0)) m

/-- row-major coordinates -/
def coords (w h : Nat) : List (Nat × Nat) := (List.range h).flatMap (fun y => (List.range w).map (fun x => (x, y)))

def View.dump {t} (v : View t) (m : Mem) : List (List Nat) := (coords v.w v.h).map (fun xy => v.px m xy.1 xy.2)

/-! ### view transformations (image_view_factory.hpp), as the factories build them -/

inductive Xf where
  | id | flipUD | flipLR | transpose | rot90cw | rot90ccw | rot180
  | sub (x0 y0 w h : Nat)
  | subs (sx sy : Nat)
  | nth (n : Nat)
  | cc (dst : Fmt) (conv : Conv)
  deriving DecidableEq, Repr

/-- same pixel value type (colour space, channel order, channel depth; the organisation does not matter:
    the value_type of a planar rgb8 view is rgb8_pixel_t) -/
def sameValueType (a b : Fmt) : Bool := decide (a.cs = b.cs) && decide (a.order = b.order) && decide (a.depth = b.depth)

/-- result alternative (the mapped type list of the lifted factory) -/
def Xf.tag : Xf → Tag → Tag
  | .id, t => t
  | .flipUD, t => t                                   -- dynamic_y_step_type of a memory-based view is the view type itself
  | .flipLR, t | .transpose, t | .rot90cw, t | .rot90ccw, t | .rot180, t | .subs _ _, t => { t with xstep := true }
  | .sub _ _ _ _, t => t
  | .nth _, t =>
    -- __nth_channel_view: channels adjacent in memory (no x step, planar or single channel) -> plain gray view,
    -- otherwise a gray view with an x step
    let adjacent := !t.xstep && (t.fmt.org == .planar || t.fmt.nc == 1)
    { t with fmt := ⟨.gray, .fwd, t.fmt.depth, .interleaved⟩, xstep := !adjacent }
  | .cc d _, t =>
    -- color_converted_view_type: when the source's value_type already is DstP the result IS the source view
    if sameValueType t.fmt d then t else { t with fmt := { d with org := .interleaved }, adaptedFrom := t.adaptedFrom ++ [t.fmt] }

def ceilDiv (a b : Nat) : Nat := (a + (b - 1)) / b

def Xf.apply {t : Tag} (f : Xf) (v : View t) : View (f.tag t) :=
  match f with
  | .id => ⟨v.w, v.h, v.org0, v.xs, v.ys, v.ks, v.ns, v.adapt⟩
  | .flipUD => ⟨v.w, v.h, v.org0 + ((v.h : Int) - 1) * v.ys, v.xs, -v.ys, v.ks, v.ns, v.adapt⟩
  | .flipLR => ⟨v.w, v.h, v.org0 + ((v.w : Int) - 1) * v.xs, -v.xs, v.ys, v.ks, v.ns, v.adapt⟩
  | .transpose => ⟨v.h, v.w, v.org0, v.ys, v.xs, v.ks, v.ns, v.adapt⟩
  | .rot90cw => ⟨v.h, v.w, v.org0 + ((v.h : Int) - 1) * v.ys, -v.ys, v.xs, v.ks, v.ns, v.adapt⟩
  | .rot90ccw => ⟨v.h, v.w, v.org0 + ((v.w : Int) - 1) * v.xs, v.ys, -v.xs, v.ks, v.ns, v.adapt⟩
  | .rot180 => ⟨v.w, v.h, v.org0 + ((v.w : Int) - 1) * v.xs + ((v.h : Int) - 1) * v.ys, -v.xs, -v.ys, v.ks, v.ns, v.adapt⟩
  | .sub x0 y0 w h => ⟨w, h, v.org0 + x0 * v.xs + y0 * v.ys, v.xs, v.ys, v.ks, v.ns, v.adapt⟩
  | .subs sx sy => ⟨ceilDiv v.w sx, ceilDiv v.h sy, v.org0, v.xs * sx, v.ys * sy, v.ks, v.ns, v.adapt⟩
  | .nth n => ⟨v.w, v.h, v.org0 + n * v.ks, v.xs, v.ys, v.ks, 1, v.adapt⟩
  | .cc d c =>
    if sameValueType t.fmt d then v.retag _
    else ⟨v.w, v.h, v.org0, v.xs, v.ys, v.ks, v.ns, v.adapt ++ [⟨t.fmt, { d with org := .interleaved }, c⟩]⟩

/-- the documented coordinate map of each geometric transformation: result (x,y) shows source `phi (x,y)` -/
def Xf.phi (f : Xf) (w h : Nat) (x y : Nat) : Nat × Nat :=
  match f with
  | .flipUD => (x, h - 1 - y)
  | .flipLR => (w - 1 - x, y)
  | .transpose => (y, x)
  | .rot90cw => (y, h - 1 - x)
  | .rot90ccw => (w - 1 - y, x)
  | .rot180 => (w - 1 - x, h - 1 - y)
  | .sub x0 y0 _ _ => (x0 + x, y0 + y)
  | .subs sx sy => (x * sx, y * sy)
  | _ => (x, y)

/-- documented result dimensions -/
def Xf.dims (f : Xf) (w h : Nat) : Nat × Nat :=
  match f with
  | .transpose | .rot90cw | .rot90ccw => (h, w)
  | .sub _ _ w' h' => (w', h')
  | .subs sx sy => (ceilDiv w sx, ceilDiv h sy)
  | _ => (w, h)

/-! ### algorithms on concrete views (algorithm.hpp, per-pixel loops) -/

def copyPixels {t1 t2} (src : View t1) (dst : View t2) (m : Mem) : Mem :=
  (coords dst.w dst.h).foldl (fun m xy => dst.write m xy.1 xy.2 (pairPx t1.fmt t2.fmt (src.px m xy.1 xy.2))) m

def equalPixels {t1 t2} (src : View t1) (dst : View t2) (m : Mem) : Bool :=
  (coords src.w src.h).all (fun xy => pairPx t1.fmt t2.fmt (src.px m xy.1 xy.2) == dst.px m xy.1 xy.2)

/-- `fill_pixels(view, value)`; `p` in the physical order of the value's own format `pf` -/
def fillPixels {t} (v : View t) (pf : Fmt) (p : List Nat) (m : Mem) : Mem :=
  (coords v.w v.h).foldl (fun m xy => v.write m xy.1 xy.2 (pairPx pf t.fmt p)) m

/-- `for_each_pixel(view, F)` with the harness' counting functor: adds the call counter to physical channel 0 -/
def forEachCount {t} (v : View t) (m : Mem) : Nat × Mem :=
  (coords v.w v.h).foldl (fun (st : Nat × Mem) xy =>
      let c := v.cell xy.1 xy.2 0
      (st.1 + 1, upd st.2 c ((st.2 c + st.1) % 2 ^ t.fmt.bits))) (0, m)

/-- color_converted_view<DstP>(src, cc) -/
def ccView {t} (c : Conv) (d : Fmt) (v : View t) : View ((Xf.cc d c).tag t) := (Xf.cc d c).apply v

/-- `iround` of a coordinate given in quarter units -/
def iroundQ (q : Int) : Int := if q < 0 then Int.tdiv (q - 2) 4 else Int.tdiv (q + 2) 4

/-- `resample_pixels(src, dst, matrix3x2(a/4 .. f/4), nearest_neighbor_sampler)` -/
def resampleNN {t1 t2} (mat : List Int) (src : View t1) (dst : View t2) (m : Mem) : Mem :=
  let g (i : Nat) := mat.getD i 0
  (coords dst.w dst.h).foldl (fun m xy =>
      let x : Int := xy.1; let y : Int := xy.2
      let cx := iroundQ (x * g 0 + y * g 2 + g 4)
      let cy := iroundQ (x * g 1 + y * g 3 + g 5)
      if 0 ≤ cx ∧ 0 ≤ cy ∧ cx < src.w ∧ cy < src.h then
        dst.write m xy.1 xy.2 (pairPx t1.fmt t2.fmt (src.px m cx.toNat cy.toNat))
      else m) m

/-- the matrix `resize_view` / `resample_subimage` builds (binary64, same operation order as affine.hpp):
    translate(-dw/2,-dh/2) * scale(sw/dw, sh/dh) * rotate(-0.0) * translate(sw/2, sh/2) -/
def matMul (m n : Float × Float × Float × Float × Float × Float) : Float × Float × Float × Float × Float × Float :=
  let (a1, b1, c1, d1, e1, f1) := m; let (a2, b2, c2, d2, e2, f2) := n
  (a1 * a2 + b1 * c2, a1 * b2 + b1 * d2, c1 * a2 + d1 * c2, c1 * b2 + d1 * d2, e1 * a2 + f1 * c2 + e2, e1 * b2 + f1 * d2 + f2)

def fmax (a b : Float) : Float := if a < b then b else a      -- std::max<double>

def resizeMatrix (sw sh dw dh : Nat) : Float × Float × Float × Float × Float × Float :=
  let srcW := fmax (Float.ofNat sw - 0.0 - 1.0) 1.0
  let srcH := fmax (Float.ofNat sh - 0.0 - 1.0) 1.0
  let dstW := fmax (Float.ofInt ((dw : Int) - 1)) 1.0
  let dstH := fmax (Float.ofInt ((dh : Int) - 1)) 1.0
  let negZero : Float := -0.0
  matMul (matMul (matMul (1.0, 0.0, 0.0, 1.0, -dstW / 2.0, -dstH / 2.0) (srcW / dstW, 0.0, 0.0, srcH / dstH, 0.0, 0.0))
                 (1.0, negZero, -negZero, 1.0, 0.0, 0.0))
         (1.0, 0.0, 0.0, 1.0, 0.0 + srcW / 2.0, 0.0 + srcH / 2.0)

def iroundF (v : Float) : Int := (v + (if v < 0.0 then -0.5 else 0.5)).toInt64.toInt

/-- `resample_pixels(src, dst, mat, nearest_neighbor_sampler)` with a binary64 matrix -/
def resampleNNF {t1 t2} (mat : Float × Float × Float × Float × Float × Float) (src : View t1) (dst : View t2) (m : Mem) : Mem :=
  let (a, b, c, d, e, f) := mat
  (coords dst.w dst.h).foldl (fun m xy =>
      let x := Float.ofNat xy.1; let y := Float.ofNat xy.2
      let cx := iroundF (a * x + c * y + e)
      let cy := iroundF (b * x + d * y + f)
      if 0 ≤ cx ∧ 0 ≤ cy ∧ cx < src.w ∧ cy < src.h then
        dst.write m xy.1 xy.2 (pairPx t1.fmt t2.fmt (src.px m cx.toNat cy.toNat))
      else m) m

/-! ### run-time typed views -/

abbrev AnyView := Σ t : Tag, View t

def wrap {t : Tag} (v : View t) : AnyView := ⟨t, v⟩

def AnyView.width (a : AnyView) : Nat := a.2.w
def AnyView.height (a : AnyView) : Nat := a.2.h
def AnyView.numChannels (a : AnyView) : Nat := a.1.fmt.nc
def AnyView.size (a : AnyView) : Nat := a.2.w * a.2.h

/-- position of an alternative in a type list: a variant constructed from a value of type `t` holds the FIRST
    alternative of that type -/
def indexOf {α} [DecidableEq α] (t : α) : List α → Nat
  | [] => 0
  | x :: xs => if x = t then 0 else indexOf t xs + 1

def AnyView.index (L : List Tag) (a : AnyView) : Nat := indexOf a.1 L

/-- a transformation lifted to `any_image_view` (extension/dynamic_image/image_view_factory.hpp):
    visit, apply the concrete factory, wrap the result in the mapped type list -/
def Xf.lift (f : Xf) (a : AnyView) : AnyView := ⟨f.tag a.1, f.apply a.2⟩

inductive Err where | badCast
  deriving DecidableEq, Repr

/-- precondition that `copy_pixels` / `equal_pixels` (hence `copy_and_convert_pixels`) assert on the concrete views:
    equal dimensions. It is checked AFTER the dispatch: incompatible alternatives give bad_cast whatever the sizes. -/
def sameDims (a b : AnyView) : Bool := decide (a.2.w = b.2.w) && decide (a.2.h = b.2.h)

/-- `binary_operation_obj`: compatible -> apply_compatible; incompatible -> throw std::bad_cast -/
def binaryOp {β : Type} (f : {t1 t2 : Tag} → View t1 → View t2 → Mem → β × Mem) (a b : AnyView) (m : Mem) : Except Err β × Mem :=
  if compatible a.1.fmt b.1.fmt then
    let r := f a.2 b.2 m
    (.ok r.1, r.2)
  else (.error .badCast, m)

def anyCopyPixels : AnyView → AnyView → Mem → Except Err Unit × Mem :=
  binaryOp (fun s d m => ((), copyPixels s d m))

def anyEqualPixels : AnyView → AnyView → Mem → Except Err Bool × Mem :=
  binaryOp (fun s d m => (equalPixels s d m, m))

def anyResample (mat : List Int) : AnyView → AnyView → Mem → Except Err Unit × Mem :=
  binaryOp (fun s d m => ((), resampleNN mat s d m))

/-- `resize_view(src, dst, nearest_neighbor_sampler)` on variants -/
def anyResize : AnyView → AnyView → Mem → Except Err Unit × Mem :=
  binaryOp (fun s d m => ((), resampleNNF (resizeMatrix s.w s.h d.w d.h) s d m))

/-- `copy_and_convert_pixels_fn`: overrides apply_incompatible with a colour-converting copy -/
def anyCopyAndConvert (c : Conv) (a b : AnyView) (m : Mem) : Except Err Unit × Mem :=
  if compatible a.1.fmt b.1.fmt then (.ok (), copyPixels a.2 b.2 m)
  else (.ok (), copyPixels (ccView c b.1.fmt a.2) b.2 m)

/-- `fill_pixels(any_image_view, value)`: compatible value type, else std::bad_cast -/
def anyFillPixels (a : AnyView) (pf : Fmt) (p : List Nat) (m : Mem) : Except Err Unit × Mem :=
  if compatible a.1.fmt pf then (.ok (), fillPixels a.2 pf p m) else (.error .badCast, m)

def anyForEach (a : AnyView) (m : Mem) : Nat × Mem := forEachCount a.2 m

/-- `any_image_view::operator==` (variant equality): same alternative and equal concrete views (shallow:
    same cells, same dimensions; pixels are not compared) -/
def AnyView.beq (a b : AnyView) : Bool :=
  decide (a.1 = b.1) && decide (a.2.retag (Tag.ofFmt g8) = b.2.retag (Tag.ofFmt g8))

/-! ### images over a heap; run-time typed images -/

structure Image (f : Fmt) where
  w : Nat
  h : Nat
  base : Nat
  deriving DecidableEq, Repr

structure Heap where
  mem : Mem
  next : Nat

def Image.size {f} (i : Image f) : Nat := i.w * i.h * f.nc

def Image.view {f} (i : Image f) : View (Tag.ofFmt f) :=
  match f.org with
  | .planar => ⟨i.w, i.h, i.base, 1, i.w, i.w * i.h, f.nc, []⟩
  | _ => ⟨i.w, i.h, i.base, f.nc, i.w * f.nc, 1, f.nc, []⟩

/-- (x, y, k) of the `idx`-th cell of an image -/
def decodeCell (f : Fmt) (w h idx : Nat) : Nat × Nat × Nat :=
  match f.org with
  | .planar => let r := idx % (w * h); (r % w, r / w, idx / (w * h))
  | _ => let p := idx / f.nc; (p % w, p / w, idx % f.nc)

/-- allocate a fresh image whose channel (x,y,k) holds `init x y k` -/
def Heap.newImage (hp : Heap) (f : Fmt) (w h : Nat) (init : Nat → Nat → Nat → Nat) : Image f × Heap :=
  let img : Image f := ⟨w, h, hp.next⟩
  let old := hp.mem
  let base : Int := hp.next
  let size := w * h * f.nc
  (img, ⟨⟨fun c => if base ≤ c ∧ c < base + size then
                     let d := decodeCell f w h (c - base).toNat; init d.1 d.2.1 d.2.2
                   else old.get c⟩, hp.next + size⟩)

/-- deterministic content of the harness: SEMANTIC channel c of pixel (x,y) for seed s -/
def val (s x y c bits : Nat) : Nat :=
  let a := (s * 7919 + x * 104729 + y * 1299709 + c * 15485863 + 12345) % 4294967296
  let b := (a * 2654435761) % 4294967296
  let d := ((b ^^^ (b >>> 15)) * 2246822519) % 4294967296
  (d >>> 13) % 2 ^ bits

def content (f : Fmt) (s : Nat) (x y k : Nat) : Nat := val s x y (f.sem k) f.bits

/-- `image(w, h)` filled with the content of seed `s`. (Until /repo commit 42a1d3b a constructor call with w = 0 or
    h = 0 reported 0 x 0; the model followed that then, and follows the fixed behaviour now: the requested
    dimensions are kept.) -/
def Heap.make (hp : Heap) (f : Fmt) (w h s : Nat) : Image f × Heap := hp.newImage f w h (content f s)

abbrev AnyImage := Σ f : Fmt, Image f

def AnyImage.index (L : List Fmt) (a : AnyImage) : Nat := indexOf a.1 L
def AnyImage.width (a : AnyImage) : Nat := a.2.w
def AnyImage.height (a : AnyImage) : Nat := a.2.h
def AnyImage.numChannels (a : AnyImage) : Nat := a.1.nc
/-- `view(any_image)` -/
def AnyImage.view (a : AnyImage) : AnyView := ⟨Tag.ofFmt a.1, a.2.view⟩

/-- copy construction / assignment of any_image: the held image is copied (new storage, same type) -/
def AnyImage.copy (a : AnyImage) (hp : Heap) : AnyImage × Heap :=
  let v := a.2.view
  let old := hp.mem
  let r := hp.newImage a.1 a.2.w a.2.h (fun x y k => old (v.cell x y k))
  (⟨a.1, r.1⟩, r.2)

/-- `any_image::recreate(w, h)`: the held image is recreated; the alternative does not change.
    (Pixel contents after recreate are unspecified; the model gives fresh zero cells.) -/
def AnyImage.recreate (a : AnyImage) (w h : Nat) (hp : Heap) : AnyImage × Heap :=
  let r := hp.newImage a.1 w h (fun _ _ _ => 0)
  (⟨a.1, r.1⟩, r.2)

/-- `any_image::operator==`: same alternative, equal dimensions, equal pixels (deep) -/
def AnyImage.beq (a b : AnyImage) (m : Mem) : Bool :=
  decide (a.1 = b.1) && decide (a.2.w = b.2.w) && decide (a.2.h = b.2.h) && equalPixels a.2.view b.2.view m

/-! ### the overload shapes of extension/dynamic_image/algorithm.hpp, as they are written there

  `op(any, any)`      = `variant2::visit(op_fn, src, dst)`
  `op(any, View dst)` = `variant2::visit(std::bind(op_fn, _1, dst), src)`
  `op(View src, any)` = `variant2::visit(std::bind(op_fn, src, _1), dst)`
  where `op_fn` derives from `binary_operation_obj` (its `operator()` on two CONCRETE views is `binObj`). -/

/-- `variant2::visit(k, a)` / `variant2::visit(k, a, b)` -/
def visit1 {γ : Type} (k : {t : Tag} → View t → γ) (a : AnyView) : γ := k a.2
def visit2 {γ : Type} (k : {t1 t2 : Tag} → View t1 → View t2 → γ) (a b : AnyView) : γ := k a.2 b.2

/-- `binary_operation_obj::operator()(v1, v2)` on two concrete views: the compatibility tag selects
    `apply_compatible` or `apply_incompatible` (throws std::bad_cast before anything is touched) -/
def binObj {β : Type} (f : {t1 t2 : Tag} → View t1 → View t2 → Mem → β × Mem) {t1 t2 : Tag} (s : View t1) (d : View t2)
    (m : Mem) : Except Err β × Mem :=
  if compatible t1.fmt t2.fmt then
    let r := f s d m
    (.ok r.1, r.2)
  else (.error .badCast, m)

def binAA {β : Type} (f : {t1 t2 : Tag} → View t1 → View t2 → Mem → β × Mem) (a b : AnyView) (m : Mem) : Except Err β × Mem :=
  visit2 (fun s d => binObj f s d m) a b
def binAC {β : Type} (f : {t1 t2 : Tag} → View t1 → View t2 → Mem → β × Mem) (a : AnyView) {t2 : Tag} (d : View t2) (m : Mem) :
    Except Err β × Mem :=
  visit1 (fun s => binObj f s d m) a
def binCA {β : Type} (f : {t1 t2 : Tag} → View t1 → View t2 → Mem → β × Mem) {t1 : Tag} (s : View t1) (b : AnyView) (m : Mem) :
    Except Err β × Mem :=
  visit1 (fun d => binObj f s d m) b

/-- `copy_and_convert_pixels_fn<CC>::operator()` on two concrete views: `apply_incompatible` is overridden by the
    colour-converting copy (the converter OBJECT is a member of the function object) -/
def ccObj (c : Conv) {t1 t2 : Tag} (s : View t1) (d : View t2) (m : Mem) : Except Err Unit × Mem :=
  if compatible t1.fmt t2.fmt then (.ok (), copyPixels s d m)
  else (.ok (), copyPixels (ccView c t2.fmt s) d m)

def ccAA (c : Conv) (a b : AnyView) (m : Mem) : Except Err Unit × Mem := visit2 (fun s d => ccObj c s d m) a b
def ccAC (c : Conv) (a : AnyView) {t2 : Tag} (d : View t2) (m : Mem) : Except Err Unit × Mem := visit1 (fun s => ccObj c s d m) a
def ccCA (c : Conv) {t1 : Tag} (s : View t1) (b : AnyView) (m : Mem) : Except Err Unit × Mem := visit1 (fun d => ccObj c s d m) b

/-- `fill_pixels_fn<Value>::operator()(view)`: `fill_pixels_fn1<pixels_are_compatible<V::value_type, Value>>::apply` -/
def fillObj (pf : Fmt) (p : List Nat) {t : Tag} (v : View t) (m : Mem) : Except Err Unit × Mem :=
  if compatible t.fmt pf then (.ok (), fillPixels v pf p m) else (.error .badCast, m)

/-- the deprecated `apply_operation(variant, visitor)` / `apply_operation(v1, v2, visitor)` (apply_operation.hpp):
    `variant2::visit` with the arguments in the other order -/
def applyOperation1 {γ : Type} (a : AnyView) (k : {t : Tag} → View t → γ) : γ := visit1 k a
def applyOperation2 {γ : Type} (a b : AnyView) (k : {t1 t2 : Tag} → View t1 → View t2 → γ) : γ := visit2 k a b

/-- a default-constructed `any_image` (variant2 default construction): the FIRST alternative of the list,
    default-constructed, i.e. an empty image; likewise `any_image_view` -/
def AnyImage.dflt (f : Fmt) : AnyImage := ⟨f, ⟨0, 0, 0⟩⟩

/-- `at_c<IntTypes, ValueType>(index)` of dynamic_at_c.hpp: run-time lookup in the table built from a compile-time list
    of integral constants (lists shorter than the 226-entry block limit: one table, `table[index]`) -/
def atC (table : List Nat) (index : Nat) : Nat := table.getD index 0

/-- `at_c` as dynamic_at_c.hpp builds it for a list of `size` entries (`size / 226 ≤ 3`): lists shorter than the block
    limit 226 use ONE table; longer lists are cut into blocks selected by `index / 226`, every full block being
    `at_c_fn<226*blk, 225>` — a table of 225 entries — and the last one `at_c_fn<226*q, size % 226>`.
    Result: the list position whose value is returned, or `none` when `table[..]` is indexed outside the table
    (or no `case` matches). -/
def atCBlock (size index : Nat) : Option Nat :=
  let q := size / 226
  if q = 0 then (if index < size then some index else none)
  else
    let blk := index / 226
    if blk < q then (if index - blk * 226 < 225 then some index else none)
    else if blk = q then (if index - blk * 226 < size % 226 then some index else none)
    else none

/-! ### row layout of an image: alignment and row stride (image.hpp: `_align_in_bytes`, `get_row_size_in_memunits`)

  The cell memory above abstracts from bytes (one cell = one channel slot), so the byte layout is modelled separately:
  `Lay` = (dimensions, row alignment the image was last built with, row stride in memory units). -/

/-- `align(val, alignment)` of utilities.hpp -/
def alignUp (v a : Nat) : Nat := v + (a - v % a) % a

/-- `image::get_row_size_in_memunits(width)` with `_align_in_bytes = a`: memory units are bytes (one plane's row for
    planar images), bits for bit-aligned images; alignment 0 = rows packed -/
def rowUnits (f : Fmt) (w a : Nat) : Nat :=
  match f.org with
  | .interleaved => let sz := w * (f.nc * (f.bits / 8)); if a > 0 then alignUp sz a else sz
  | .planar => let sz := w * (f.bits / 8); if a > 0 then alignUp sz a else sz
  | .bitAligned => let sz := w * (f.nc * f.bits); if a > 0 then alignUp sz (a * 8) else sz

structure Lay where
  w : Nat
  h : Nat
  align : Nat
  stride : Nat
  deriving DecidableEq, Repr

/-- `image(w, h, alignment)` -/
def Lay.make (f : Fmt) (w h a : Nat) : Lay := ⟨w, h, a, rowUnits f w a⟩

/-- `image::recreate(dims, alignment)`: nothing happens only when dimensions AND alignment are unchanged; otherwise the
    alignment is stored and the view is rebuilt (in the old buffer or a new one) with the row size of the new alignment.
    A call is (width, height, alignment). -/
def Lay.recreate (f : Fmt) (l : Lay) (c : Nat × Nat × Nat) : Lay :=
  if l.w = c.1 ∧ l.h = c.2.1 ∧ l.align = c.2.2 then l else Lay.make f c.1 c.2.1 c.2.2

/-- layout state of a run-time typed image -/
abbrev AnyLay := Σ _f : Fmt, Lay

/-- `any_image::recreate(dims, alignment)` = `visit(recreate_image_fnobj(dims, alignment))`: the held image's
    `recreate(dims, alignment)` — BOTH arguments are forwarded, unconditionally -/
def AnyLay.recreate (x : AnyLay) (c : Nat × Nat × Nat) : AnyLay := ⟨x.1, x.2.recreate x.1 c⟩

/-! ### defects of the tree under test that the model reproduces (see known_findings.json) -/

/-- lifted operations whose `any_image_view` overload does not compile on the tree under test and for which the
    model therefore predicts `err:no-compile`. Empty since the fix commits 877d988 (transposed_view), 420f6c6
    (nth_channel_view) and 7d83af7 (any_color_converted_view) of /repo; on the pristine tree d9e3ab8 the names
    were "transpose", "nth", "anycc", "anyccx". -/
def knownNoCompile : List String := []

end GilVerif.Model.C14
