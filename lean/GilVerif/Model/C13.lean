/-
  C13 -- all ways of reading one file agree (partial, converting, scanline, any device).

  Extends the shared codec model (Model/Codec.lean: true-colour BMP, binary PNM, raw / RLE TARGA with
  `Settings {top_left, dim}`) with the remaining file variants the GIL readers accept
      BMP   palette images (1 / 4 / 8 bit, Windows and OS/2 headers), RLE4 / RLE8, 15 / 16 bit with bit fields
      PNM   ascii P1 / P2 / P3
  with the scanline readers (scanline_read.hpp of each format), the conversion policy
  (io/conversion_policies.hpp: read_and_no_convert = copy, read_and_convert = color_convert per pixel), the
  view size check (check_image_size) and read_image_info.

  As in Codec.lean these are CLEAN decoders: faithful on valid files; what the C++ does on truncated or
  malformed input is C11's subject.  One exception is kept: where a *valid* file makes the current code read
  outside a buffer (RLE BMP with top_left.x > 0) the model says `ub`.
-/
import GilVerif.Model.Codec

namespace GilVerif.Model.C13
open GilVerif.Codec

/-- outcome of a read -/
inductive Res (α : Type) where
  | ok (img : Img α)
  | err                -- io_error (std::ios_base::failure)
  | ub                 -- the current code reads outside a buffer on this (valid) input
  deriving DecidableEq, Repr

def Res.ofOption {α} : Option (Img α) → Res α
  | some i => .ok i
  | none => .err

def Res.map {α β} (f : Img α → Img β) : Res α → Res β
  | .ok i => .ok (f i)
  | .err => .err
  | .ub => .ub

def mapImg {α β} (f : α → β) (i : Img α) : Img β := { w := i.w, h := i.h, rows := i.rows.map (List.map f) }

/-! ## pixel copies the readers perform

  `*dst = palette[c]` and `std::copy(rgba8 buffer, rgb8 row)` are pixel assignments between an rgba8 and the
  destination pixel: channels are paired by name, the destination's channels are the ones copied. -/

def dropAlpha (p : Rgba8) : Rgb8 := ⟨p.r, p.g, p.b⟩

/-! ## BMP: palette, 15/16 bit, RLE -/

/-- reader_backend<bmp>::read_palette, from the current stream position: `num_colors` entries (or `1 << bpp`),
    each blue, green, red (+ one unused byte for the 40-byte header only).  Alpha stays 0 (`rgba8_pixel_t(0,0,0,0)`). -/
def bmpReadPaletteAux (four : Bool) : Nat → Bytes → Option (List Rgba8 × Bytes)
  | 0, c => some ([], c)
  | n + 1, c =>
    match c with
    | b :: g :: r :: c' =>
      (if four then (match c' with | _ :: c'' => some c'' | [] => none) else some c').bind fun c'' =>
        (bmpReadPaletteAux four n c'').map fun (ps, rest) => (⟨r, g, b, 0⟩ :: ps, rest)
    | _ => none

def bmpReadPalette (info : BmpInfo) (cur : Bytes) : Option (List Rgba8 × Bytes) :=
  let entries := if info.numColors = 0 then 2 ^ info.bpp else info.numColors
  bmpReadPaletteAux (info.headerSize = 40) entries cur

def palAt (pal : List Rgba8) (c : Nat) : Rgba8 := pal.getD c ⟨0, 0, 0, 0⟩

/-- indices of one palette row after the reader's byte manipulation:
    1 bit: mirror_bits, then gray1 pixels LSB first (= MSB first in the file);
    4 bit: swap_half_bytes, then gray4 pixels low nibble first (= high nibble first in the file); 8 bit: the bytes -/
def bmpIndexRow (bpp : Nat) (row : Bytes) : List Nat :=
  match bpp with
  | 1 => row.flatMap fun b => (bitsLsb (mirrorByte b)).map fun x => if x then 1 else 0
  | 4 => row.flatMap fun b => let s := swapHalfByte b; [s.toNat % 16, s.toNat / 16]
  | _ => row.map UInt8.toNat

/-- reader::read_palette_image: row buffer of `_pitch` bytes seen as a gray1/4/8 view, `*dst = palette[index]` -/
def bmpPaletteRowDec (bpp : Nat) (pal : List Rgba8) (row : Bytes) : List Rgba8 :=
  (bmpIndexRow bpp row).map (palAt pal)

structure Mask where
  mask : Nat
  width : Nat
  shift : Nat
  deriving DecidableEq, Repr

/-- detail::count_ones / trailing_zeros on a 32-bit mask -/
def countOnes : Nat → Nat → Nat
  | 0, _ => 0
  | f + 1, x => if x = 0 then 0 else x % 2 + countOnes f (x / 2)
def trailingZeros : Nat → Nat → Nat
  | 0, _ => 0
  | f + 1, x => if x = 0 then 32 else if x % 2 = 1 then 0 else 1 + trailingZeros f (x / 2)

def mkMask (m : Nat) : Mask := ⟨m, countOnes 32 m, trailingZeros 32 m⟩

/-- reader::read_data_15 mask set-up: bit fields are read from the current stream position -/
def bmpMasks (info : BmpInfo) (cur : Bytes) : Option (Mask × Mask × Mask) :=
  if info.compression = 3 then
    match rdU32 cur with
    | none => none
    | some (r, c) =>
    match rdU32 c with
    | none => none
    | some (g, c) =>
    match rdU32 c with
    | none => none
    | some (b, _) => some (mkMask r, mkMask g, mkMask b)
  else if info.compression = 0 then some (⟨0x7C00, 5, 10⟩, ⟨0x3E0, 5, 5⟩, ⟨0x1F, 5, 0⟩)
  else none

/-- `((p & mask) >> shift) << (8 - width)` narrowed to a byte (valid masks: width ≤ 8) -/
def maskChan (m : Mask) (p : Nat) : UInt8 := UInt8.ofNat (((Nat.land p m.mask) / 2 ^ m.shift) * 2 ^ (8 - m.width))

def bmp16RowDec (ms : Mask × Mask × Mask) : Nat → Bytes → List Rgb8
  | 0, _ => []
  | n + 1, bs =>
    let p := (at0 bs 0).toNat + 256 * (at0 bs 1).toNat
    ⟨maskChan ms.1 p, maskChan ms.2.1 p, maskChan ms.2.2 p⟩ :: bmp16RowDec ms n (bs.drop 2)

/-! ### RLE4 / RLE8 (reader::read_palette_image_rle), as written: the row buffer has `dim.x` pixels, rows
    `dim.y-1 … 0` (bottom-up) are produced, `copy_row_if_needed` copies `[top_left.x, top_left.x + dim.x)` of the
    buffer to view row `y` when `top_left.y ≤ y < dim.y`. -/

structure RleSt where
  cur : Bytes                 -- stream
  pos : Nat                   -- stream_pos - offset (for the word padding of absolute runs)
  buf : List Rgba8            -- row buffer
  x : Nat                     -- dst_it - buf.begin()
  y : Int
  calls : List (Int × List Rgba8)   -- the calls of copy_row_if_needed(buf, view, y), most recent first: (y, buffer content)
  over : Bool                 -- a pixel was stored past the end of the row buffer

def setRun (buf : List Rgba8) (x : Nat) (px : List Rgba8) : List Rgba8 :=
  buf.take x ++ px ++ buf.drop (x + px.length)

/-- a call of copy_row_if_needed is recorded; what it copies is decided in `bmpReadRle` -/
def rleCall (st : RleSt) : RleSt := { st with calls := (st.y, st.buf) :: st.calls }

/-- the packet loop of read_palette_image_rle over a row buffer of `bw` pixels -/
def rleLoop (bw : Nat) (rle4 : Bool) (pal : List Rgba8) (width : Nat) (yinc yend : Int) : Nat → RleSt → Option RleSt
  | 0, _ => none
  | fuel + 1, st =>
    match st.cur with
    | count :: second :: cur =>
      let st := { st with cur := cur, pos := st.pos + 2 }
      if count ≠ 0 then
        -- encoded mode, clamped to the end of the row buffer
        let n := min count.toNat (bw - st.x)
        let px := (List.range n).map fun i =>
          if rle4 then palAt pal (if i % 2 = 0 then second.toNat / 16 else second.toNat % 16) else palAt pal second.toNat
        rleLoop bw rle4 pal width yinc yend fuel { st with buf := setRun st.buf st.x px, x := st.x + n }
      else if second = 0 then
        let st := rleCall st
        let y := st.y + yinc
        if y = yend then some { st with y := y } else rleLoop bw rle4 pal width yinc yend fuel { st with y := y, x := 0 }
      else if second = 1 then some (rleCall st)
      else if second = 2 then
        match st.cur with
        | ddx :: ddy :: cur =>
          let dyv : Int := (ddy.toNat : Int) * yinc
          let st := { st with cur := cur, pos := st.pos + 2 }
          let st := if dyv ≠ 0 then rleCall st else st
          let x := st.x + ddx.toNat
          if x > width then none else
          let y := st.y + dyv
          if (if yinc > 0 then y > yend else y < yend) then none else
          rleLoop bw rle4 pal width yinc yend fuel { st with x := x, y := y }
        | _ => none
      else
        -- absolute mode: `count = second` clamped; only the clamped number of indices is consumed
        let n := min second.toNat (bw - st.x)
        let nbytes := if rle4 then (n + 1) / 2 else n
        if st.cur.length < nbytes then none else
        let raw := st.cur.take nbytes
        let idx : List Nat := if rle4 then (raw.flatMap fun b => [b.toNat / 16, b.toNat % 16]).take n else raw.map UInt8.toNat
        let pos := st.pos + nbytes
        let cur := st.cur.drop nbytes
        -- pad to word boundary
        let (cur, pos) := if pos % 2 = 1 then (cur.drop 1, pos + 1) else (cur, pos)
        -- rle4: a clamped odd count still stores the low nibble's pixel, one past the end of the buffer
        let over := rle4 && decide (n < second.toNat) && decide (n % 2 = 1)
        rleLoop bw rle4 pal width yinc yend fuel
          { st with cur := cur, pos := pos, buf := setRun st.buf st.x (idx.map (palAt pal)), x := st.x + n, over := st.over || over }
    | _ => none

/-- copy_row_if_needed(buf, view, y): which region row a call with this `y` writes (`none`: the call copies nothing).
    As written (`fixed = false`): `top_left.y ≤ y < dim.y`, destination row `y`.
    With proposed_fixes/C13-bmp-rle-subrectangle.diff (`fixed = true`): `y` is an image row, region row `y - top_left.y`. -/
def rleRegionRow (fixed : Bool) (tly dy : Nat) (y : Int) : Option Int :=
  if fixed then (if 0 ≤ y - tly ∧ y - tly < dy then some (y - tly) else none)
  else (if y ≥ tly ∧ y < dy then some y else none)

/-- read_palette_image_rle: the rows of the destination view; rows no call writes keep what the destination held before (`init`).
    `fixed = false` (the code as written): the row buffer has `dim.x` pixels and `dim.y` rows are decoded;
    `fixed = true`: whole image rows, every row.  Copying `[top_left.x, top_left.x + dim.x)` out of a shorter buffer is an overrun. -/
def bmpReadRle (fixed : Bool) (init : Rgba8) (file : Bytes) (info : BmpInfo) (pal : List Rgba8) (s : Settings) : Res Rgba8 :=
  let w := info.width.toNat
  let h := info.height.toNat
  let dx := s.dimX w
  let dy := s.dimY h
  let bw := if fixed then w else dx          -- pixels in the row buffer
  let nrows := if fixed then h else dy       -- rows that are decoded
  let bottomUp := info.height > 0
  let st0 : RleSt := { cur := file.drop info.offset, pos := 0, buf := List.replicate bw ⟨0, 0, 0, 0⟩, x := 0,
                       y := if bottomUp then (nrows : Int) - 1 else 0, calls := [], over := false }
  match rleLoop bw (info.compression = 2) pal w (if bottomUp then -1 else 1) (if bottomUp then -1 else nrows) (file.length + h + 2) st0 with
  | none => .err
  | some st =>
    let copying := st.calls.filter fun e => (rleRegionRow fixed s.tly dy e.1).isSome
    if st.over || (!copying.isEmpty && decide (s.tlx + dx > bw)) then .ub else
    .ok { w := dx, h := dy,
          rows := (List.range dy).map fun (r : Nat) =>
            match st.calls.find? (fun e => rleRegionRow fixed s.tly dy e.1 = some (r : Int)) with
            | some e => sliceRow s.tlx dx e.2
            | none => List.replicate dx init }

/-- which destination pixel type read_image accepts for a BMP file (is_allowed, read_and_no_convert):
    32 = rgba8, 24 = rgb8 -/
def bmpNativeBits (info : BmpInfo) : Option Nat :=
  if info.bpp = 1 ∨ info.bpp = 4 ∨ info.bpp = 8 then
    some (if info.headerSize = 40 ∧ info.compression ≠ 1 ∧ info.compression ≠ 2 then 32 else 24)
  else if info.bpp = 15 ∨ info.bpp = 16 then some 24
  else if info.bpp = 24 ∨ info.bpp = 32 then some info.bpp
  else none

/-- the switch of reader::apply on bits per pixel and compression -/
inductive BmpPath where
  | palette        -- read_palette_image (1 bit; 4 / 8 bit uncompressed)
  | rle            -- read_palette_image_rle (4 bit + RLE4, 8 bit + RLE8)
  | hi16           -- read_data_15
  | rgb24          -- read_data<bgr8_view_t>
  | rgba32         -- read_data<bgra8_view_t>
  | unsupported    -- io_error("Unsupported compression mode in BMP file.")
  deriving DecidableEq, Repr

def bmpPath (info : BmpInfo) : BmpPath :=
  if info.bpp = 1 then .palette
  else if info.bpp = 4 then (if info.compression = 2 then .rle else if info.compression = 0 then .palette else .unsupported)
  else if info.bpp = 8 then (if info.compression = 1 then .rle else if info.compression = 0 then .palette else .unsupported)
  else if info.bpp = 15 ∨ info.bpp = 16 then .hi16
  else if info.bpp = 24 then .rgb24
  else .rgba32

/-- every BMP variant, decoded to rgba8 pixels (alpha: the file's for 32 bit, 0 for palette entries, 255 otherwise).
    `wantBits` = bits per pixel of the destination type (24 rgb8 / 32 rgba8); `none` = converting read (is_allowed = true) -/
def bmpRead (init : Rgba8) (file : Bytes) (s : Settings) (wantBits : Option Nat) (rleFixed : Bool := false) : Res Rgba8 :=
  match bmpReadHeader file with
  | none => .err
  | some (info, cur) =>
    match bmpNativeBits info with
    | none => .err
    | some nb =>
      if wantBits.isSome ∧ wantBits ≠ some nb then .err else
      let w := info.width.toNat
      let h := info.height.toNat
      let pitch := bmpPitch info
      match bmpPath info with
      | .palette =>
        (match bmpReadPalette info cur with
         | none => .err
         | some (pal, _) => .ok (readRows file (bmpGetOffset info pitch) pitch (bmpPaletteRowDec info.bpp pal) s w h))
      | .rle =>
        (match bmpReadPalette info cur with
         | none => .err
         | some (pal, _) => bmpReadRle rleFixed init file info pal s)
      | .hi16 =>
        (match bmpMasks info cur with
         | none => .err
         | some ms => .ok (mapImg (fun p => ⟨p.r, p.g, p.b, 255⟩) (readRows file (bmpGetOffset info pitch) pitch (bmp16RowDec ms w) s w h)))
      | .rgb24 => .ok (mapImg (fun p => ⟨p.r, p.g, p.b, 255⟩) (bmpReadData bgr8 file info s))
      | .rgba32 => .ok (bmpReadData bgra8 file info s)
      | .unsupported => .err

/-- the file is run-length encoded (the one BMP variant that is not read row by row) -/
def bmpIsRle (file : Bytes) : Bool :=
  match bmpReadHeader file with
  | some (info, _) => decide (bmpPath info = .rle)
  | none => false

/-! ## PNM ascii (P1 / P2 / P3) -/

/-- the numbers of reader::read_text_row's token loop, as far as they can be read: digits are collected, any other
    character ends a number, white space before a number is skipped, anything else (or EOF) stops the row -/
def foldDigitsN (ds : Bytes) : Nat := ds.foldl (fun a d => a * 10 + (d.toNat - 48)) 0

def pnmTokens : Nat → Bytes → List Nat
  | 0, _ => []
  | fuel + 1, bs =>
    match bs.dropWhile isWs with
    | [] => []
    | c :: r =>
      if isDigit c then
        let ds := (c :: r).takeWhile isDigit
        let rest := ((c :: r).dropWhile isDigit).drop 1     -- the terminating character is consumed
        foldDigitsN ds :: pnmTokens fuel rest
      else []

/-- one ascii sample as stored in the row buffer: `max_value == 1`: 0 ↦ 255 (white), non-zero ↦ 0; otherwise the byte -/
def pnmTextSample (maxv : Nat) (v : Nat) : UInt8 :=
  if maxv = 1 then (if v ≠ 0 then 0 else 255) else UInt8.ofNat v

/-- reader::read_text_data: rows are consumed token by token; `top_left.y` rows are skipped first -/
def pnmReadText {α} (f : PixFmt α) (data : Bytes) (info : PnmInfo) (s : Settings) : Img α :=
  let sl := pnmScanline info.type info.width
  let samples : Bytes := (pnmTokens (data.length + 1) data).map (pnmTextSample info.maxValue)
  readRows samples (fun j => j * sl) sl (decRow f info.width) s info.width info.height

/-- every PNM variant for byte destinations: gray8 ← P1 (ascii mono is read as gray8), P2, P5; rgb8 ← P3, P6 -/
def pnmRead {α} (f : PixFmt α) (isRgb : Bool) (convert : Bool) (file : Bytes) (s : Settings) : Res α :=
  match pnmReadHeader file with
  | none => .err
  | some (info, data) =>
    let t := info.type
    let allowed : Bool := convert || (if isRgb then decide (t = 3 ∨ t = 6) else decide (t = 1 ∨ t = 2 ∨ t = 5))
    if allowed = true then
      (if t = 1 ∨ t = 2 ∨ t = 3 then .ok (pnmReadText f data info s)
       else if t = 5 ∨ t = 6 then .ok (pnmReadBin f data info s)
       else .err)
    else .err

/-! ## scanline readers: `read(buffer, pos)` -/

/-- bmp scanline_reader::read for 24 / 32 bit files: seek to row `pos`, read `_pitch` raw bytes (file pixel order) -/
def bmpScanRow (file : Bytes) (info : BmpInfo) (pos : Nat) : Bytes :=
  let pitch := bmpPitch info
  readAt file (bmpGetOffset info pitch pos) pitch

/-- targa scanline_reader::read (raw, bottom-up files only): row `pos` from the top -/
def tgaScanRow (file : Bytes) (info : TgaInfo) (pos : Nat) : Bytes :=
  let sl := info.width * (info.bpp / 8)
  readAt file (info.offset + (info.height - 1 - pos) * sl) sl

/-- pnm scanline_reader (binary byte rows): sequential -/
def pnmScanRow (data : Bytes) (info : PnmInfo) (pos : Nat) : Bytes :=
  let sl := pnmScanline info.type info.width
  readAt data (pos * sl) sl

/-! ## scanline_read_iterator driven by a skip / dereference pattern (io/scanline_read_iterator.hpp)

  `increment`: `if (skip_scanline_) reader_.skip(buffer, pos_); ++pos_; skip_scanline_ = read_scanline_ = true`
  `dereference`: `if (read_scanline_) reader_.read(buffer, pos_); skip_scanline_ = read_scanline_ = false; return buffer` -/

inductive ItOp where
  | deref | incr
  deriving DecidableEq, Repr

/-- a scanline reader over a stream state `σ` producing rows `ρ`: `read(buffer, pos)` and `skip(buffer, pos)` -/
structure ScanReader (σ ρ : Type) where
  read : Nat → σ → ρ × σ
  skip : Nat → σ → σ

structure ItState (σ ρ : Type) where
  pos : Nat
  readF : Bool      -- read_scanline_
  skipF : Bool      -- skip_scanline_
  buf : ρ
  st : σ

def ItState.init {σ ρ} (b0 : ρ) (s0 : σ) : ItState σ ρ := ⟨0, true, true, b0, s0⟩

/-- one iterator operation; a dereference reports (position, row buffer) -/
def ItState.step {σ ρ} (r : ScanReader σ ρ) (s : ItState σ ρ) : ItOp → ItState σ ρ × Option (Nat × ρ)
  | .incr => (⟨s.pos + 1, true, true, s.buf, if s.skipF then r.skip s.pos s.st else s.st⟩, none)
  | .deref =>
    let bs := if s.readF then r.read s.pos s.st else (s.buf, s.st)
    (⟨s.pos, false, false, bs.1, bs.2⟩, some (s.pos, bs.1))

/-- every (position, row) the iterator hands out while the operations are performed -/
def itRun {σ ρ} (r : ScanReader σ ρ) : ItState σ ρ → List ItOp → List (Nat × ρ)
  | _, [] => []
  | s, o :: os =>
    match (s.step r o).2 with
    | some x => x :: itRun r (s.step r o).1 os
    | none => itRun r (s.step r o).1 os

/-- final position (compared with `end()`, whose position is the height) -/
def itPos {σ ρ} (r : ScanReader σ ρ) : ItState σ ρ → List ItOp → Nat
  | s, [] => s.pos
  | s, o :: os => itPos r (s.step r o).1 os

/-- the positions at which a sequence of operations dereferences -/
def derefPositions : Nat → List ItOp → List Nat
  | _, [] => []
  | p, .incr :: os => derefPositions (p + 1) os
  | p, .deref :: os => p :: derefPositions p os

/-- the harness's pattern letters: d = `*it; ++it`, D = `*it; *it; ++it`, p = `*it++` (iterator_facade's postfix proxy of an input
    iterator dereferences, then increments), s = `++it` -/
def patternOps : List Char → List ItOp
  | [] => []
  | 'd' :: r => .deref :: .incr :: patternOps r
  | 'D' :: r => .deref :: .deref :: .incr :: patternOps r
  | 'p' :: r => .deref :: .incr :: patternOps r
  | _ :: r => .incr :: patternOps r

/-- pnm scanline_reader, binary rows: `read` takes `_scanline_length` bytes at the stream position, `skip_binary_row` seeks forward by it -/
def pnmBinScanReader (sl : Nat) : ScanReader Bytes Bytes :=
  { read := fun _ s => (s.take sl, s.drop sl), skip := fun _ s => s.drop sl }

/-- one number of read_text_row / skip_text_row's inner loop: white space is passed over, digits are collected, the terminating
    character is consumed; `none`: end of data or another character (read_text_row: io_error, skip_text_row: return) -/
def pnmNextTok (bs : Bytes) : Option (Nat × Bytes) :=
  match bs.dropWhile isWs with
  | [] => none
  | c :: r =>
    if isDigit c then some (foldDigitsN ((c :: r).takeWhile isDigit), ((c :: r).dropWhile isDigit).drop 1)
    else none

/-- scanline_reader<pnm>::read_text_row: `n = _scanline_length` numbers from the stream position -/
def pnmTextRow : Nat → Bytes → List Nat × Bytes
  | 0, bs => ([], bs)
  | n + 1, bs =>
    match pnmNextTok bs with
    | none => ([], [])
    | some (v, rest) => (v :: (pnmTextRow n rest).1, (pnmTextRow n rest).2)

/-- scanline_reader<pnm>::skip_text_row: `n` numbers are passed over (`n = _scanline_length` in the code) -/
def pnmSkipTextRow : Nat → Bytes → Bytes
  | 0, bs => bs
  | n + 1, bs =>
    match pnmNextTok bs with
    | none => []
    | some (_, rest) => pnmSkipTextRow n rest

/-- the stream after `k` ascii rows of `sl` samples have been read -/
def pnmTextAfter (sl : Nat) : Nat → Bytes → Bytes
  | 0, bs => bs
  | k + 1, bs => pnmTextAfter sl k (pnmTextRow sl bs).2

/-- pnm scanline_reader, ascii rows (P1 / P2 / P3): the row buffer holds `pnmTextSample` of every number -/
def pnmTextScanReader (maxv sl : Nat) : ScanReader Bytes Bytes :=
  { read := fun _ s => (((pnmTextRow sl s).1).map (pnmTextSample maxv), (pnmTextRow sl s).2)
    skip := fun _ s => pnmSkipTextRow sl s }

/-- bmp scanline_reader (24 / 32 bit): `read` seeks to the row's offset (the stream position is irrelevant), `skip` does nothing -/
def bmpScanReader (file : Bytes) (info : BmpInfo) : ScanReader Nat Bytes :=
  { read := fun pos _ => (bmpScanRow file info pos, bmpGetOffset info (bmpPitch info) pos + bmpPitch info), skip := fun _ p => p }

/-- targa scanline_reader (raw, bottom-up): `read` seeks to the row's offset, `skip` seeks forward by one scanline -/
def tgaScanReader (file : Bytes) (info : TgaInfo) : ScanReader Nat Bytes :=
  let sl := info.width * (info.bpp / 8)
  { read := fun pos _ => (tgaScanRow file info pos, info.offset + (info.height - 1 - pos) * sl + sl), skip := fun _ p => p + sl }

/-! ## conversion policy: read_and_convert applies color_convert per pixel (default_color_converter, 8-bit channels)

  pixels as channel bytes in colour-space order: gray [v], rgb [r,g,b], rgba [r,g,b,a] -/

inductive Kind where
  | gray8 | rgb8 | rgba8
  deriving DecidableEq, Repr

def Kind.size : Kind → Nat
  | .gray8 => 1 | .rgb8 => 3 | .rgba8 => 4

/-- rgb_to_luminance_fn<uint8_t,…>: (4915 r + 9667 g + 1802 b + 8192) >> 14 -/
def luminance8 (r g b : UInt8) : UInt8 := UInt8.ofNat ((4915 * r.toNat + 9667 * g.toNat + 1802 * b.toNat + 8192) / 16384)

/-- default_color_converter between gray8 / rgb8 / rgba8 pixels -/
def colorConvert (src dst : Kind) (p : Bytes) : Bytes :=
  if src = dst then p.take src.size else
  -- to rgb: gray replicates, rgba premultiplies by alpha
  let a := at0 p 3
  let (r, g, b) := match src with
    | .gray8 => (at0 p 0, at0 p 0, at0 p 0)
    | .rgb8 => (at0 p 0, at0 p 1, at0 p 2)
    | .rgba8 => (mulU8 (at0 p 0) a, mulU8 (at0 p 1) a, mulU8 (at0 p 2) a)
  match dst with
  | .gray8 => [luminance8 r g b]
  | .rgb8 => [r, g, b]
  | .rgba8 => [r, g, b, 255]      -- alpha_or_max(src): src is gray or rgb here

/-- `*dst = palette[c]` / `std::copy(rgba8 buffer, dst row)`: a pixel assignment, channels paired by position in the
    colour space (no colour conversion): gray ← red, rgb ← red green blue, rgba ← all four -/
def directAssign (dst : Kind) (p : Bytes) : Bytes := p.take dst.size

/-- which conversion a converting BMP read applies to the decoded rgba pixels [r,g,b,a]:
    palette and RLE images bypass the conversion policy (`directAssign`), 32-bit rows are converted from rgba8,
    24- and 15/16-bit rows from rgb8 -/
def bmpConvPixel (bpp : Nat) (dst : Kind) (p : Bytes) : Bytes :=
  if bpp = 1 ∨ bpp = 4 ∨ bpp = 8 then directAssign dst p
  else if bpp = 32 then colorConvert .rgba8 dst p
  else colorConvert .rgb8 dst (p.take 3)

/-! ## read_view: check_image_size -/

/-- `read_view(dev, view, settings)`: the view must be at least as large as the region -/
def viewAccepted (vw vh dx dy : Nat) : Bool := decide (dx ≤ vw) && decide (dy ≤ vh)

/-! ## Spec predicates evaluated by `judge` on the implementation's observations -/

/-- sub-rectangle read = crop of the full read -/
def CropSpec {α} (s : Settings) (full sub : Img α) : Prop := sub = crop s full

end GilVerif.Model.C13
