/-
  C17 -- executable model of the samplers (extension/numeric/sampler.hpp), resample_pixels / resample_subimage /
  resize_view (resample.hpp), matrix3x2 (affine.hpp) and iround / ifloor (utilities.hpp), and the Spec predicates
  evaluated by `judge`.

  * `bilinearTaps` is the nine-way case analysis of `sample(bilinear_sampler, …)` with exactly the locator offsets
    the code dereferences (`*loc`, `loc.x()[1]`, after `++loc.y()`), generic in the weight type `K`.
    It is instantiated with `Rat` (exact arithmetic: the theorems, and the correspondence on the n/D grid where the
    floating point code is exact), and with `Float` / `Float32` (the code's own IEEE operation sequence, used for
    sample points produced by affine maps).
  * `M32 K` is `matrix3x2<K>`: product, point transform, inverse, generators, the matrix built by resample_subimage.
  Core Lean only (linked into the native driver); theorems are in Props/C17.lean.
-/
namespace GilVerif.Model.C17

/-! ## rounding helpers, on the rational n/D (D > 0) -/

/-- `ifloor(n/D)` -/
def ifloorQ (n D : Int) : Int := n / D

/-- `iround(n/D) = static_cast<ptrdiff_t>(x + (x < 0 ? -0.5 : 0.5))` (truncation towards zero) -/
def iroundQ (n D : Int) : Int := Int.tdiv (2 * n + (if n < 0 then -D else D)) (2 * D)

/-! ## samplers -/

structure Tap (K : Type) where
  x : Int
  y : Int
  w : K

/-- the test `p0.x < -1 || p0.y < -1 || p0.x >= src.width() || p0.y >= src.height()` -/
def bilinearOutside (w h p0x p0y : Int) : Bool :=
  decide (p0x < -1) || decide (p0y < -1) || decide (p0x ≥ w) || decide (p0y ≥ h)

/-- The pixels `sample(bilinear_sampler, …)` dereferences, in order, with their weights.
    `loc = src.xy_at(p0.x, p0.y)`; `*loc` is (p0x, ·), `loc.x()[1]` is (p0x+1, ·); `++loc.y()` moves to p0y+1. -/
def bilinearTaps {K : Type} [OfNat K 1] [Sub K] [Mul K] (w h p0x p0y : Int) (fx fy : K) : List (Tap K) :=
  if p0x = -1 then
    if p0y = -1 then [⟨p0x + 1, p0y + 1, 1⟩]                                   -- top-left corner
    else if p0y + 1 < h then [⟨p0x + 1, p0y, 1 - fy⟩, ⟨p0x + 1, p0y + 1, fy⟩]   -- first column
    else [⟨p0x + 1, p0y, 1⟩]                                                    -- bottom-left corner
  else if p0x + 1 < w then
    if p0y = -1 then [⟨p0x, p0y + 1, 1 - fx⟩, ⟨p0x + 1, p0y + 1, fx⟩]           -- first row
    else if p0y + 1 < h then                                                    -- inside
      [⟨p0x, p0y, (1 - fx) * (1 - fy)⟩, ⟨p0x + 1, p0y, fx * (1 - fy)⟩,
       ⟨p0x, p0y + 1, (1 - fx) * fy⟩, ⟨p0x + 1, p0y + 1, fx * fy⟩]
    else [⟨p0x, p0y, 1 - fx⟩, ⟨p0x + 1, p0y, fx⟩]                               -- last row
  else
    if p0y = -1 then [⟨p0x, p0y + 1, 1⟩]                                        -- top-right corner
    else if p0y + 1 < h then [⟨p0x, p0y, 1 - fy⟩, ⟨p0x, p0y + 1, fy⟩]           -- last column
    else [⟨p0x, p0y, 1⟩]                                                        -- bottom-right corner

/-- truncation of a rational towards zero (`dst_value_t(src)` for an integral destination) -/
def truncQ (q : Rat) : Int := Int.tdiv q.num q.den

/-- `cast_channel_fn` for an integral destination since fix 056e54b:
    `DstValue(src < 0 ? src - 0.5 : src + 0.5)` -- round to nearest, halves away from zero (exact arithmetic) -/
def roundQ (q : Rat) : Int := truncQ (if q < 0 then q - 1 / 2 else q + 1 / 2)

/-- exact weighted sum  Σ w·src(x,y)  (the accumulator `mp`) -/
def accQ (src : Int → Int → Int) (taps : List (Tap Rat)) : Rat :=
  taps.foldl (fun acc t => acc + (src t.x t.y : Rat) * t.w) 0

/-- bilinear sampler in exact arithmetic at the point (nx/D, ny/D): `none` = reported outside;
    `some (taps, mp)` = the dereferenced pixels with weights, and the accumulated value before the cast -/
def bilinearQ (w h : Int) (src : Int → Int → Int) (nx ny D : Int) : Option (List (Tap Rat) × Rat) :=
  let p0x := ifloorQ nx D; let p0y := ifloorQ ny D
  if bilinearOutside w h p0x p0y then none else
  let fx : Rat := ((nx - p0x * D : Int) : Rat) / (D : Rat)
  let fy : Rat := ((ny - p0y * D : Int) : Rat) / (D : Rat)
  let taps := bilinearTaps w h p0x p0y fx fy
  some (taps, accQ src taps)

/-- nearest neighbour sampler at (nx/D, ny/D): the pixel coordinates it reads, or `none` (outside) -/
def nearestQ (w h : Int) (nx ny D : Int) : Option (Int × Int) :=
  let cx := iroundQ nx D; let cy := iroundQ ny D
  if cx ≥ 0 ∧ cy ≥ 0 ∧ cx < w ∧ cy < h then some (cx, cy) else none

/-! ### the same samplers with the code's floating point operation sequence (point<double>) -/

def f2i (x : Float) : Int := x.toInt64.toInt

/-- the rounding cast in binary64 / binary32 (the addition of 0.5 is itself a floating point operation) -/
def castRoundF (a : Float) : Int := f2i (if a < 0.0 then a - 0.5 else a + 0.5)

def iroundF (x : Float) : Int := f2i (x + (if x < 0.0 then -0.5 else 0.5))
def ifloorF (x : Float) : Int := f2i (Float.floor x)

/-- `mp` for one channel: `dst += F(src * w)` from 0, in order -/
def accF (src : Int → Int → Int) (taps : List (Tap Float)) : Float :=
  taps.foldl (fun acc t => acc + Float.ofInt (src t.x t.y) * t.w) 0

def bilinearF (w h : Int) (src : Int → Int → Int) (px py : Float) : Option Float :=
  let p0x := ifloorF px; let p0y := ifloorF py
  if bilinearOutside w h p0x p0y then none else
  let fx := px - Float.ofInt p0x
  let fy := py - Float.ofInt p0y
  some (accF src (bilinearTaps w h p0x p0y fx fy))

def nearestF (w h : Int) (px py : Float) : Option (Int × Int) :=
  let cx := iroundF px; let cy := iroundF py
  if cx ≥ 0 ∧ cy ≥ 0 ∧ cx < w ∧ cy < h then some (cx, cy) else none

/-! ### … and for point<float> (binary32 throughout: frac, weights, products, accumulator) -/

def f2i32 (x : Float32) : Int := x.toInt64.toInt

def castRoundF32 (a : Float32) : Int := f2i32 (if a < 0.0 then a - 0.5 else a + 0.5)

def accF32 (src : Int → Int → Int) (taps : List (Tap Float32)) : Float32 :=
  taps.foldl (fun acc t => acc + Float32.ofInt (src t.x t.y) * t.w) 0

def bilinearF32 (w h : Int) (src : Int → Int → Int) (px py : Float32) : Option Float32 :=
  let p0x := f2i32 (Float32.floor px); let p0y := f2i32 (Float32.floor py)
  if bilinearOutside w h p0x p0y then none else
  let fx := px - Float32.ofInt p0x
  let fy := py - Float32.ofInt p0y
  some (accF32 src (bilinearTaps w h p0x p0y fx fy))

def iroundF32 (x : Float32) : Int := f2i32 (x + (if x < 0.0 then -0.5 else 0.5))

def nearestF32 (w h : Int) (px py : Float32) : Option (Int × Int) :=
  let cx := iroundF32 px; let cy := iroundF32 py
  if cx ≥ 0 ∧ cy ≥ 0 ∧ cx < w ∧ cy < h then some (cx, cy) else none

/-! ## matrix3x2 -/

structure M32 (K : Type) where
  a : K
  b : K
  c : K
  d : K
  e : K
  f : K

namespace M32
variable {K : Type}

/-- `operator*(matrix3x2, matrix3x2)` -/
def mul [Add K] [Mul K] (m1 m2 : M32 K) : M32 K :=
  ⟨m1.a * m2.a + m1.b * m2.c, m1.a * m2.b + m1.b * m2.d,
   m1.c * m2.a + m1.d * m2.c, m1.c * m2.b + m1.d * m2.d,
   m1.e * m2.a + m1.f * m2.c + m2.e, m1.e * m2.b + m1.f * m2.d + m2.f⟩

/-- `operator*(point, matrix3x2)` = `transform(mat, p)` -/
def apply [Add K] [Mul K] (m : M32 K) (p : K × K) : K × K :=
  (m.a * p.1 + m.c * p.2 + m.e, m.b * p.1 + m.d * p.2 + m.f)

/-- `inverse(m)` -/
def inverse [Add K] [Mul K] [Sub K] [Neg K] [Div K] (m : M32 K) : M32 K :=
  let det := m.a * m.d - m.b * m.c
  ⟨m.d / det, -m.b / det, -m.c / det, m.a / det, (m.c * m.f - m.d * m.e) / det, (m.b * m.e - m.a * m.f) / det⟩

/-- `matrix3x2::operator*=`: `(*this) = (*this) * m` -- the product is built as a temporary from the OLD members and then
    assigned member by member (also when `m` aliases `*this`) -/
def mulAssign [Add K] [Mul K] (self m : M32 K) : M32 K :=
  let t := mul self m
  ⟨t.a, t.b, t.c, t.d, t.e, t.f⟩

/-- `m = matrix3x2(); m *= M1; …; m *= Mn` -/
def chain [Add K] [Mul K] (start : M32 K) (ms : List (M32 K)) : M32 K := ms.foldl mulAssign start

def one [OfNat K 0] [OfNat K 1] : M32 K := ⟨1, 0, 0, 1, 0, 0⟩
def translate [OfNat K 0] [OfNat K 1] (x y : K) : M32 K := ⟨1, 0, 0, 1, x, y⟩
def scale [OfNat K 0] (x y : K) : M32 K := ⟨x, 0, 0, y, 0, 0⟩
/-- `get_rotate(rads)` with `c = cos rads`, `s = sin rads` -/
def rotate [OfNat K 0] [Neg K] (c s : K) : M32 K := ⟨c, s, -s, c, 0, 0⟩

/-- the matrix of `resample_subimage(src, dst, minx, miny, maxx, maxy, angle)`; `c s` = cos / sin of `-angle` -/
def subimage [OfNat K 0] [OfNat K 1] [OfNat K 2] [Add K] [Mul K] [Sub K] [Neg K] [Div K] [Max K]
    (minx miny maxx maxy dstW dstH c s : K) : M32 K :=
  let sw := max (maxx - minx - 1) 1
  let sh := max (maxy - miny - 1) 1
  let dw := max (dstW - 1) 1
  let dh := max (dstH - 1) 1
  mul (mul (mul (translate (-dw / 2) (-dh / 2)) (scale (sw / dw) (sh / dh))) (rotate c s))
      (translate (minx + sw / 2) (miny + sh / 2))

/-- `resize_view(src w×h, dst dw×dh)`: cos(-0.0) = 1, sin(-0.0) = -0.0 -/
def resize [OfNat K 0] [OfNat K 1] [OfNat K 2] [Add K] [Mul K] [Sub K] [Neg K] [Div K] [Max K]
    (w h dw dh : K) (sinNegZero : K) : M32 K := subimage 0 0 w h dw dh 1 sinNegZero

/-- `center_rotate(point<T> dims, F rads)` with F = double (the two `while` loops with fuel; `dims` converted to double
    where the code's usual arithmetic conversions do) -/
def centerRotate (w h : Float) (rads0 : Float) : M32 Float :=
  let PI : Float := 3.141592653589793238
  let cT := Float.abs (Float.cos rads0)
  let sT := Float.abs (Float.sin rads0)
  let rec up (fuel : Nat) (r : Float) : Float :=
    match fuel with
    | 0 => r
    | n + 1 => if r + PI < 0 then up n (r + PI) else r
  let rec down (fuel : Nat) (r : Float) : Float :=
    match fuel with
    | 0 => r
    | n + 1 => if r > PI then down n (r - PI) else r
  let rads := down 100000 (up 100000 rads0)
  let rot : M32 Float := rotate (Float.cos rads) (Float.sin rads)
  let t0 : M32 Float := ⟨0, 0, 0, 0, 0, 0⟩
  let t1 : M32 Float := if rads > 0 then { t0 with b := sT } else { t0 with c := sT }
  let t2 : M32 Float := if Float.abs rads > PI / 2 then { t1 with a := cT, d := cT } else t1
  let p := apply t2 (-w, -h)
  let tr : M32 Float := translate p.1 p.2
  let sc : M32 Float := scale (sT * h / w + cT) (sT * w / h + cT)
  mul (mul sc tr) rot

end M32

/-! ## resample_pixels -/

/-- the double loop of `resample_pixels`: `dst(x,y)` becomes the sample at `transform(m,(x,y))`, or keeps its old value
    when the sampler reports "outside"; rows of the destination, top to bottom -/
def resample {P K : Type} (sample : K × K → Option P) (tr : Int × Int → K × K) (old : Int → Int → P) (dw dh : Nat) :
    List (List P) :=
  (List.range dh).map (fun (y : Nat) => (List.range dw).map (fun (x : Nat) =>
    match sample (tr ((x : Int), (y : Int))) with
    | some v => v
    | none => old (x : Int) (y : Int)))

/-! ## Spec predicates (judge) -/

/-- surrounding source pixels of the real point (nx/D, ny/D): floor and ceiling neighbours, clamped to the view -/
def clampI (lo hi v : Int) : Int := if v < lo then lo else if v > hi then hi else v

def surrounding (w h nx ny D : Int) : List (Int × Int) :=
  let x0 := clampI 0 (w - 1) (nx / D); let x1 := clampI 0 (w - 1) (-((-nx) / D))
  let y0 := clampI 0 (h - 1) (ny / D); let y1 := clampI 0 (h - 1) (-((-ny) / D))
  [(x0, y0), (x1, y0), (x0, y1), (x1, y1)]

/-- the point lies in the view's own domain [0,w-1]×[0,h-1] (there a sampler must not say "outside") -/
def inDomain (w h nx ny D : Int) : Bool :=
  decide (0 ≤ nx) && decide (nx ≤ (w - 1) * D) && decide (0 ≤ ny) && decide (ny ≤ (h - 1) * D)

/-- the point is farther than one pixel from the view (there a sampler must say "outside") -/
def farOutside (w h nx ny D : Int) : Bool :=
  decide (nx < -D) || decide (nx > w * D) || decide (ny < -D) || decide (ny > h * D)

end GilVerif.Model.C17
