/-
  C20 -- executable model of the rasterizers (extension/rasterization/{line,circle,ellipse,apply_rasterizer}.hpp)
  and the Spec predicates that `judge` evaluates on the implementation's observations.

  The model follows the code:
  * bresenham_line_rasterizer: the `start == end` shortcut, the transposition (`needs_flip`), the
    for loop with its error term and the `y != end.y` guard (fix 51ba32c), the final `*d_first++ = end`.
    The error term is a parameter (`Err σ`: add the slope / compare with 0.5 / subtract one), so that the
    structure theorems hold for EVERY decision stream; the executable model instantiates it with Lean `Float`
    (IEEE double: the same operations as the C++), and `exactErr` is the same recurrence in exact
    arithmetic (scaled by 2·width), used for the kernel-checked witnesses.
  * midpoint_circle_rasterizer: the integer loop with `n = point_count()/8` as a parameter
    (it comes from `round(r·cos(π/4))`, floating point), the 8-fold mirroring lambda.
  * trigonometric_circle_rasterizer: same mirroring, first-octant points from libm (`Float.cos/sin/atan2`
    are the same libm functions the C++ calls; no theorem depends on them).
  * midpoint_ellipse_rasterizer: obtain_trajectory's two integer loops (with the unsigned 32-bit
    products of the semi-axes as coded) and draw_curve's clipping.
  The integer kernels (point_count, the body of the midpoint loop, the initial values and the two loop
  bodies of obtain_trajectory) are the GENERATED definitions of Gen/C20.lean, re-translated from the
  headers on every run; this file adds the loops around them.
  Core Lean only (linked into the native driver).
-/
import GilVerif.Gen.C20

namespace GilVerif.Model.C20
open GilVerif.Gen.C20

abbrev Pt := Int × Int

def iabs (x : Int) : Int := (Int.natAbs x : Int)

/-! ## bresenham_line_rasterizer -/

/-- `point_count()` -/
def pointCount (s e : Pt) : Int := line_point_count s.1 s.2 e.1 e.2

/-- `needs_flip ? point_t{y, x} : point_t{x, y}` -/
def emit (flip : Bool) (x y : Int) : Pt := if flip then (y, x) else (x, y)

/-- The error term of the loop, abstractly: `adv` = `error_term += slope`, `dec` = `error_term >= 0.5`,
    `sub` = `--error_term`.  The structure theorems hold for every such triple. -/
structure Err (σ : Type) where
  adv : σ → σ
  dec : σ → Bool
  sub : σ → σ

/-- the for loop: `n` iterations from `(x, y)`; `ey` is `end.y` (after the transposition):
    `error_term += slope; if (error_term >= 0.5 && y != end.y) { --error_term; y += y_increment; }` -/
def lineLoop {σ : Type} (E : Err σ) (flip : Bool) (xi yi ey : Int) : Nat → σ → Int → Int → List Pt
  | 0, _, _, _ => []
  | n + 1, s, x, y =>
    emit flip x y ::
      (if E.dec (E.adv s) && decide (y ≠ ey)
       then lineLoop E flip xi yi ey n (E.sub (E.adv s)) (x + xi) (y + yi)
       else lineLoop E flip xi yi ey n (E.adv s) (x + xi) y)

/-- `needs_flip = width < height` -/
def needsFlip (s e : Pt) : Bool := decide (iabs (e.1 - s.1) + 1 < iabs (e.2 - s.2) + 1)

/-- major / minor coordinate of a point (x / y unless the line is steep) -/
def maj (flip : Bool) (p : Pt) : Int := if flip then p.2 else p.1
def mnr (flip : Bool) (p : Pt) : Int := if flip then p.1 else p.2

/-- `operator()(d_first)`: `mk height width` builds the error-term step for the slope height/width -/
def lineWith {σ : Type} (mk : Int → Int → Err σ) (init : σ) (s e : Pt) : List Pt :=
  if s = e then [s] else
  let flip := needsFlip s e
  let sx := maj flip s; let sy := mnr flip s          -- after the swaps
  let ex := maj flip e; let ey := mnr flip e
  let width := iabs (ex - sx) + 1
  let height := iabs (ey - sy) + 1
  let xi : Int := if ex ≥ sx then 1 else -1
  let yi : Int := if ey ≥ sy then 1 else -1
  lineLoop (mk height width) flip xi yi ey (iabs (ex - sx)).toNat init sx sy ++ [e]

/-- the C++ error term: `double`, `error_term += slope; if (error_term >= 0.5 …) { --error_term; … }` -/
def floatErr (height width : Int) : Err Float :=
  let slope : Float := if height = 1 then 0 else Float.ofInt height / Float.ofInt width
  { adv := fun e => e + slope, dec := fun e => e ≥ 0.5, sub := fun e => e - 1 }

/-- the same recurrence in exact arithmetic, error term scaled by `2·width` -/
def exactErr (height width : Int) : Err Int :=
  { adv := fun E => E + (if height = 1 then 0 else 2 * height), dec := fun E => decide (E ≥ width), sub := fun E => E - 2 * width }

def line (s e : Pt) : List Pt := lineWith floatErr (0 : Float) s e
def lineExact (s e : Pt) : List Pt := lineWith exactErr (0 : Int) s e

/-! ## circles -/

/-- the `translate_mirror_points` lambda -/
def mirror8 (c p : Pt) : List Pt :=
  [(c.1 + p.1, c.2 + p.2), (c.1 + p.1, c.2 - p.2), (c.1 - p.1, c.2 + p.2), (c.1 - p.1, c.2 - p.2),
   (c.1 + p.2, c.2 + p.1), (c.1 + p.2, c.2 - p.1), (c.1 - p.2, c.2 + p.1), (c.1 - p.2, c.2 - p.1)]

/-- all output of a circle rasterizer: the octant points, each mirrored -/
def circleFrom (c : Pt) (oct : List Pt) : List Pt := oct.flatMap (mirror8 c)

/-- midpoint loop body, `k` iterations from `x` with current `y` -/
def midLoop (r2 : Int) : Nat → Int → Int → List Pt
  | 0, _, _ => []
  | k + 1, x, y => (x, mid_body x y r2) :: midLoop r2 k (x + 1) (mid_body x y r2)

/-- first-octant points for `iteration_distance = n` -/
def midOctant (r : Int) (n : Nat) : List Pt := (0, r) :: midLoop (r * r) (n - 1) 1 r

def midCircleWith (c : Pt) (r : Int) (n : Nat) : List Pt := circleFrom c (midOctant r n)

def piF : Float := Float.ofBits 0x400921FB54442D18      -- 3.14159265358979323846 as a double

def f2i (x : Float) : Int := x.toInt64.toInt             -- static_cast<std::ptrdiff_t>(double)

/-- `midpoint_circle_rasterizer::point_count() / 8` -/
def midN (r : Int) : Int := f2i (Float.round (Float.ofInt r * Float.cos (piF / 4)) + 1)

def midCircle (c : Pt) (r : Int) : List Pt := midCircleWith c r (midN r).toNat

/-- `trigonometric_circle_rasterizer::point_count() / 8` -/
def trigN (r : Int) : Int :=
  let step := Float.atan2 1.0 (Float.ofInt (r * 2 - 1))
  f2i (Float.round (piF / 4 / step) + 1)

def trigLoop (r : Int) (step : Float) : Nat → Float → List Pt
  | 0, _ => []
  | k + 1, angle =>
    (f2i (Float.round (Float.ofInt r * Float.cos angle)), f2i (Float.round (Float.ofInt r * Float.sin angle)))
      :: trigLoop r step k (angle + step)

def trigCircle (c : Pt) (r : Int) : List Pt :=
  circleFrom c (trigLoop r (Float.atan2 1.0 (Float.ofInt r)) (trigN r).toNat 0)

/-! ## midpoint_ellipse_rasterizer -/

structure ES where
  x : Int
  y : Int
  t8 : Int
  t9 : Int
  d1 : Int
  d2 : Int
  deriving Repr

/-- the loop-invariant temporaries t2 t3 t5 t6 -/
structure EC where
  t2 : Int
  t3 : Int
  t5 : Int
  t6 : Int

def ES.ofTuple (t : Int × Int × Int × Int × Int × Int) : ES := ⟨t.1, t.2.1, t.2.2.1, t.2.2.2.1, t.2.2.2.2.1, t.2.2.2.2.2⟩
def step1 (c : EC) (s : ES) : ES := ES.ofTuple (ell_body1 s.x s.y s.t8 s.t9 s.d1 s.d2 c.t2 c.t3 c.t5 c.t6)
def step2 (c : EC) (s : ES) : ES := ES.ofTuple (ell_body2 s.x s.y s.t8 s.t9 s.d1 s.d2 c.t2 c.t3 c.t5 c.t6)

/-- first `while (d2 < 0)` loop, at most `fuel` iterations: emitted points and final state -/
def ellLoop1 (c : EC) : Nat → ES → List Pt × ES
  | 0, s => ([], s)
  | f + 1, s =>
    if s.d2 < 0 then ((s.x, s.y) :: (ellLoop1 c f (step1 c s)).1, (ellLoop1 c f (step1 c s)).2)
    else ([], s)

/-- second `while (x >= 0)` loop, at most `fuel` iterations -/
def ellLoop2 (c : EC) : Nat → ES → List Pt × ES
  | 0, s => ([], s)
  | f + 1, s =>
    if s.x ≥ 0 then ((s.x, s.y) :: (ellLoop2 c f (step2 c s)).1, (ellLoop2 c f (step2 c s)).2)
    else ([], s)

/-- the temporaries and the state before the first loop; `a b` are the `unsigned int` semi-axes -/
def ellConsts (a b : Int) : EC :=
  let t2 := 2 * ell_t1 a; let t5 := 2 * ell_t4 b
  { t2 := t2, t3 := 2 * t2, t5 := t5, t6 := 2 * t5 }

def ellInit (a b : Int) : ES :=
  let t1 := ell_t1 a
  let t4 := ell_t4 b
  let t2 := 2 * t1
  let t5 := 2 * t4
  let t7 := ell_t7 a t5
  let t8 := 2 * t7
  { x := a, y := 0, t8 := t8, t9 := 0, d1 := ell_d1 t2 t7 t4, d2 := ell_d2 t1 t8 t5 }

/-- `obtain_trajectory()`; the flag says that one of the loops did not finish within its fuel -/
def ellTrajectoryFuel (a b : Int) (f1 f2 : Nat) : List Pt × Bool :=
  let r1 := ellLoop1 (ellConsts a b) f1 (ellInit a b)
  let r2 := ellLoop2 (ellConsts a b) f2 r1.2
  (r1.1 ++ r2.1, decide (r1.2.d2 < 0) || decide (r2.2.x ≥ 0))

def ellTrajectory (a b : Int) : List Pt × Bool := ellTrajectoryFuel a b (b.toNat + 1) (a.toNat + 2)

/-- one iteration of draw_curve's loop: the (x, y) it writes, in order -/
def drawPoint (c2x c2y W H : Int) (p : Pt) : List Pt :=
  let co0 := c2x + p.1; let co1 := c2x - p.1; let co2 := c2y + p.2; let co3 := c2y - p.2
  let v0 := decide (co0 < W)
  let v1 := decide (co1 ≥ 0) && decide (co1 < W)
  let v2 := decide (co2 < H)
  let v3 := decide (co3 ≥ 0) && decide (co3 < H)
  (if v0 && v2 then [(co0, co2)] else []) ++ (if v1 && v2 then [(co1, co2)] else []) ++
  (if v1 && v3 then [(co1, co3)] else []) ++ (if v0 && v3 then [(co0, co3)] else [])

/-- draw_curve on a `W × H` view: `--center2[k]` is unsigned 32-bit -/
def drawCurve (cx cy W H : Int) (traj : List Pt) : List Pt :=
  traj.flatMap (drawPoint ((cx - 1) % 4294967296) ((cy - 1) % 4294967296) W H)

/-! ## Spec: what the property demands, as decidable predicates on an emitted point list -/

def allPairs (P : Pt → Pt → Bool) : List Pt → Bool
  | a :: b :: rest => P a b && allPairs P (b :: rest)
  | _ => true

/-- consecutive points are 8-connected -/
def conn8 (p q : Pt) : Bool := decide (iabs (q.1 - p.1) ≤ 1) && decide (iabs (q.2 - p.2) ≤ 1)
def specConn (pts : List Pt) : Bool := allPairs conn8 pts

def specCount (s e : Pt) (pts : List Pt) : Bool := decide ((pts.length : Int) = pointCount s e)
def specEnds (s e : Pt) (pts : List Pt) : Bool := pts.head? == some s && pts.getLast? == some e

/-- direction of travel along the major axis -/
def majDir (s e : Pt) : Int := if maj (needsFlip s e) e ≥ maj (needsFlip s e) s then 1 else -1
def mnrDir (s e : Pt) : Int := if mnr (needsFlip s e) e ≥ mnr (needsFlip s e) s then 1 else -1

/-- the k-th point's major coordinate is start + k·direction (monotone advance, one step per point) -/
def specMajor (s e : Pt) (pts : List Pt) : Bool :=
  pts.map (maj (needsFlip s e)) == (List.range pts.length).map (fun (k : Nat) => maj (needsFlip s e) s + (k : Int) * majDir s e)

def inBox (lo hi : Pt) (p : Pt) : Bool :=
  decide (lo.1 ≤ p.1) && decide (p.1 ≤ hi.1) && decide (lo.2 ≤ p.2) && decide (p.2 ≤ hi.2)

def bboxLo (s e : Pt) : Pt := (min s.1 e.1, min s.2 e.2)
def bboxHi (s e : Pt) : Pt := (max s.1 e.1, max s.2 e.2)

/-- every point within the end points' bounding box -/
def specBBox (s e : Pt) (pts : List Pt) : Bool := pts.all (inBox (bboxLo s e) (bboxHi s e))

/-- within one pixel, measured along the minor axis, of the ideal segment:
    |(minor − minor₀)·Δmajor − (major − major₀)·Δminor| ≤ |Δmajor| -/
def nearSegment (s e : Pt) (p : Pt) : Bool :=
  let f := needsFlip s e
  let dM := maj f e - maj f s; let dm := mnr f e - mnr f s
  decide (iabs ((mnr f p - mnr f s) * dM - (maj f p - maj f s) * dm) ≤ iabs dM)
def specNear (s e : Pt) (pts : List Pt) : Bool := pts.all (nearSegment s e)

/-- closed under the 8 reflections of the square about the centre -/
def reflections (c p : Pt) : List Pt := mirror8 c (p.1 - c.1, p.2 - c.2)
def specSym8 (c : Pt) (pts : List Pt) : Bool := pts.all (fun p => (reflections c p).all (fun q => pts.contains q))

/-- within one pixel of the circle of radius r: (r−1)² ≤ |p−c|² ≤ (r+1)² -/
def nearCircle (c : Pt) (r : Int) (p : Pt) : Bool :=
  let d2 := (p.1 - c.1) * (p.1 - c.1) + (p.2 - c.2) * (p.2 - c.2)
  decide (d2 ≤ (r + 1) * (r + 1)) && (decide (r ≤ 0) || decide ((r - 1) * (r - 1) ≤ d2))
def specCircleNear (c : Pt) (r : Int) (pts : List Pt) : Bool := pts.all (nearCircle c r)
def specCircleBBox (c : Pt) (r : Int) (pts : List Pt) : Bool := pts.all (inBox (c.1 - r, c.2 - r) (c.1 + r, c.2 + r))

/-- ellipse equation, scaled: b²x² + a²y² − a²b² -/
def ellF (a b x y : Int) : Int := b * b * x * x + a * a * y * y - a * a * b * b

/-- the ideal ellipse crosses the horizontal or the vertical unit segment through the point
    (so the point is within one pixel of the curve); first-quadrant points -/
def nearEllipse (a b : Int) (p : Pt) : Bool :=
  let x := iabs p.1; let y := iabs p.2
  let xm := if x ≥ 1 then x - 1 else 0
  let ym := if y ≥ 1 then y - 1 else 0
  (decide (ellF a b xm y ≤ 0) && decide (0 ≤ ellF a b (x + 1) y)) ||
  (decide (ellF a b x ym ≤ 0) && decide (0 ≤ ellF a b x (y + 1)))
def specEllNear (a b : Int) (pts : List Pt) : Bool := pts.all (nearEllipse a b)
def specEllBBox (a b : Int) (pts : List Pt) : Bool := pts.all (inBox (0, 0) (a, b))

/-- the quadrant arc closes up with its mirror images: 8-connected, starting on the x axis, ending on the y axis -/
def specEllClosed (pts : List Pt) : Bool :=
  specConn pts && (pts.head?.map (·.2) == some 0) && (pts.getLast?.map (·.1) == some 0)

/-- written pixels are closed under the two axis reflections about the centre -/
def specSym4 (c : Pt) (pts : List Pt) : Bool :=
  pts.all (fun p => pts.contains (2 * c.1 - p.1, p.2) && pts.contains (p.1, 2 * c.2 - p.2))

def inView (W H : Int) (p : Pt) : Bool := decide (0 ≤ p.1) && decide (p.1 < W) && decide (0 ≤ p.2) && decide (p.2 < H)

/-! ## predicates used in theorem statements (Props/C20.lean) -/

/-- the midpoint invariant: y is the best integer ordinate for abscissa x -/
def OnCurve (r : Int) (p : Pt) : Prop :=
  0 ≤ p.1 ∧ 0 ≤ p.2 ∧ p.2 ≤ r ∧ p.1 ≤ r ∧
  p.1 * p.1 + p.2 * p.2 - p.2 - r * r ≤ 0 ∧ 0 ≤ p.1 * p.1 + p.2 * p.2 + p.2 - r * r

/-- Closed forms of the incrementally updated temporaries and decision variables of obtain_trajectory
    (A2 = a², B2 = b²):  t9 = 4a²y, t8 = 4b²x,
    d1 = 2·F(x−½, y+1) and d2 = 2·F(x−1, y+½) for F(x,y) = b²x² + a²y² − a²b², up to the truncated halves -/
def EllInv2 (a b : Int) (s : ES) : Prop :=
  s.t9 = 4 * (a * a) * s.y ∧ s.t8 = 4 * (b * b) * s.x ∧
  s.d2 = 2 * (b * b) * ((s.x - 1) * (s.x - 1)) + 2 * (a * a) * (s.y * s.y) + 2 * (a * a) * s.y
         + Int.tdiv (a * a) 2 - 2 * (a * a) * (b * b)

def EllInv (a b : Int) (s : ES) : Prop :=
  EllInv2 a b s ∧
  s.d1 = 2 * (b * b) * (s.x * s.x) - 2 * (b * b) * s.x + Int.tdiv (b * b) 2
         + 2 * (a * a) * ((s.y + 1) * (s.y + 1)) - 2 * (a * a) * (b * b)

/-- hypotheses on the semi-axes: documented positive, products fit `unsigned int` -/
structure Axes (a b : Int) : Prop where
  ha : 1 ≤ a
  hb : 1 ≤ b
  haw : a * a < 4294967296
  hbw : b * b < 4294967296


end GilVerif.Model.C20
