/-
  Shared byte-level codec model for C12 / C13 (core Lean only, executable).

  ENCODERS written from the GIL writers
      extension/io/bmp/detail/write.hpp    (14+40 byte header, bottom-up rows padded to 4, BGR[A])
      extension/io/pnm/detail/write.hpp    ("P<t> <w> <h> [255 ]", rows top-down, P4 packed bits)
      extension/io/targa/detail/write.hpp  (18 byte header, bottom-up rows, BGR[A])
  and CLEAN DECODERS written from the readers (reader_backend.hpp + read.hpp of each format) with
  `Settings {top_left, dim}`.  "Clean" = total functions that are faithful on *valid* files; what the
  C++ does on truncated / malformed input (stale row buffers, out-of-range indices, UB) is the
  subject of C11 and is NOT tracked here: a short read yields a short row whose missing bytes read as
  0, a rectangle outside the image yields short rows.

  Conventions
    * a pixel row is a `List α`; `PixFmt α` says how one pixel is laid out in a file row
      (`bgr8` = the `bgr8_view_t` over the row buffer, copied channel-by-name into an rgb8 image);
    * file offsets, widths, heights are `Nat`; the C++ narrowing casts that the writers perform
      (`(uint32_t) siz`, `static_cast<uint16_t>(view.width())`) are the `UInt8.ofNat` wraps in
      `le16 / le32`; the header-range hypotheses of the theorems say when they are lossless.
-/
namespace GilVerif.Codec

abbrev Bytes := List UInt8

/-! ## pixels and row layouts -/

structure Rgb8 where
  r : UInt8
  g : UInt8
  b : UInt8
  deriving DecidableEq, Repr, Inhabited

structure Rgba8 where
  r : UInt8
  g : UInt8
  b : UInt8
  a : UInt8
  deriving DecidableEq, Repr, Inhabited

/-- layout of one pixel inside a file row: `size` bytes, `enc` writes them, `dec` reads the first
    `size` bytes of its argument (absent bytes read as 0) -/
structure PixFmt (α : Type) where
  size : Nat
  enc : α → Bytes
  dec : Bytes → α

def at0 (bs : Bytes) (i : Nat) : UInt8 := bs.getD i 0

def rgb8 : PixFmt Rgb8 := ⟨3, fun p => [p.r, p.g, p.b], fun bs => ⟨at0 bs 0, at0 bs 1, at0 bs 2⟩⟩
def bgr8 : PixFmt Rgb8 := ⟨3, fun p => [p.b, p.g, p.r], fun bs => ⟨at0 bs 2, at0 bs 1, at0 bs 0⟩⟩
def rgba8 : PixFmt Rgba8 :=
  ⟨4, fun p => [p.r, p.g, p.b, p.a], fun bs => ⟨at0 bs 0, at0 bs 1, at0 bs 2, at0 bs 3⟩⟩
def bgra8 : PixFmt Rgba8 :=
  ⟨4, fun p => [p.b, p.g, p.r, p.a], fun bs => ⟨at0 bs 2, at0 bs 1, at0 bs 0, at0 bs 3⟩⟩
def gray8 : PixFmt UInt8 := ⟨1, fun p => [p], fun bs => at0 bs 0⟩

/-- channel_multiply for uint8_t channels (C07: `div255 (a*b)`, round to nearest) -/
def mulU8 (a b : UInt8) : UInt8 :=
  let t := a.toNat * b.toNat + 128
  UInt8.ofNat ((t + t / 256) / 256)

/-- copy_pixels / std::copy of a pixel row into the (interleaved) row buffer -/
def encRow {α} (f : PixFmt α) (r : List α) : Bytes := r.flatMap f.enc

/-- the first `n` pixels of a row buffer seen through an interleaved view of layout `f` -/
def decRow {α} (f : PixFmt α) : Nat → Bytes → List α
  | 0, _ => []
  | n + 1, bs => f.dec bs :: decRow f n (bs.drop f.size)

structure Img (α : Type) where
  w : Nat
  h : Nat
  rows : List (List α)
  deriving DecidableEq, Repr

/-- `h` rows of `w` pixels -/
def Img.WF {α} (i : Img α) : Prop := i.rows.length = i.h ∧ ∀ r ∈ i.rows, r.length = i.w

/-- image_read_settings: top_left and dim; dim 0 = "to be taken from the file" (reader_backend ctor) -/
structure Settings where
  tlx : Nat := 0
  tly : Nat := 0
  dx : Nat := 0
  dy : Nat := 0
  deriving DecidableEq, Repr

def Settings.full : Settings := {}

/-- reader_backend constructor: `if (_settings._dim.x == 0) _settings._dim.x = _info._width` (same for y) -/
def Settings.dimX (s : Settings) (w : Nat) : Nat := if s.dx = 0 then w else s.dx
def Settings.dimY (s : Settings) (h : Nat) : Nat := if s.dy = 0 then h else s.dy

/-- `beg = row_begin + top_left.x; end = beg + dim.x; cc_policy.read(beg, end, dst_row)` -/
def sliceRow {α} (tlx dx : Nat) (row : List α) : List α := (row.drop tlx).take dx

/-- what the property calls "that crop of the full read_image result" -/
def crop {α} (s : Settings) (img : Img α) : Img α :=
  let dx := s.dimX img.w
  let dy := s.dimY img.h
  { w := dx, h := dy, rows := ((img.rows.drop s.tly).take dy).map (sliceRow s.tlx dx) }

/-- the rectangle lies inside a `w × h` image -/
def Settings.Inside (s : Settings) (w h : Nat) : Prop :=
  s.tlx + s.dimX w ≤ w ∧ s.tly + s.dimY h ≤ h

/-- the shape shared by the row-wise readers: for every destination row `y` seek to `off (y + top_left.y)`, read `len`
    bytes, decode the row, copy pixels [top_left.x, top_left.x + dim.x) -/
def readRows {α} (file : Bytes) (off : Nat → Nat) (len : Nat) (rowDec : Bytes → List α) (s : Settings) (w h : Nat) : Img α :=
  let dx := s.dimX w
  let dy := s.dimY h
  { w := dx, h := dy,
    rows := (List.range dy).map fun y => sliceRow s.tlx dx (rowDec (((file.drop (off (y + s.tly))).take len))) }

/-! ## devices: little endian integers (io/device.hpp) -/

/-- write_uint16: `m[0] = byte_t(x >> 0); m[1] = byte_t(x >> 8)` (the caller's cast to uint16_t wraps) -/
def le16 (x : Nat) : Bytes := [UInt8.ofNat x, UInt8.ofNat (x / 256)]
/-- write_uint32 -/
def le32 (x : Nat) : Bytes :=
  [UInt8.ofNat x, UInt8.ofNat (x / 256), UInt8.ofNat (x / 65536), UInt8.ofNat (x / 16777216)]

/-- read_uint8 / 16 / 32 of the file device: a short read is an io_error (`none`).
    `(m[1] << 8) | m[0]` has disjoint bit ranges, so `|` is `+`. -/
def rdU8 : Bytes → Option (Nat × Bytes)
  | a :: r => some (a.toNat, r)
  | _ => none
def rdU16 : Bytes → Option (Nat × Bytes)
  | a :: b :: r => some (a.toNat + 256 * b.toNat, r)
  | _ => none
def rdU32 : Bytes → Option (Nat × Bytes)
  | a :: b :: c :: d :: r => some (a.toNat + 256 * b.toNat + 65536 * c.toNat + 16777216 * d.toNat, r)
  | _ => none

/-- seek(off) followed by read(buf, n): the bytes obtained (fewer at end of file) -/
def readAt (file : Bytes) (off n : Nat) : Bytes := (file.drop off).take n

/-- conversion of a 32-bit unsigned value to `int32_t` -/
def toI32 (x : Nat) : Int := if x < 2147483648 then (x : Int) else (x : Int) - 4294967296

/-! ## BMP -/

/-- `( view.width() * num_channels + 3 ) & ~3` -/
def bmpSpn (w nch : Nat) : Nat := (w * nch + 3) / 4 * 4

/-- row buffer of `n` zero bytes with the row copied to its front -/
def padTo (n : Nat) (bs : Bytes) : Bytes := bs ++ List.replicate (n - bs.length) 0

/-- bmp writer::write: file header + Windows info header (no palette: entries = 0) -/
def bmpHeader (w h nch : Nat) : Bytes :=
  let spn := bmpSpn w nch
  let ofs := 14 + 40 + 0 * 4
  let siz := ofs + spn * h
  le16 0x4D42 ++ (le32 siz ++ (le16 0 ++ (le16 0 ++ (le32 ofs ++
  (le32 40 ++ (le32 w ++ (le32 h ++ (le16 1 ++ (le16 (nch * 8) ++ (le32 0 ++
  (le32 0 ++ (le32 0 ++ (le32 0 ++ (le32 0 ++ le32 0))))))))))))))

/-- bmp writer::write_image: `for (y = height-1; y > -1; --y) { copy row y into the zeroed buffer; write spn bytes }` -/
def bmpBody {α} (f : PixFmt α) (w : Nat) (rows : List (List α)) : Bytes :=
  (rows.reverse.map (fun r => padTo (bmpSpn w f.size) (encRow f r))).flatten

/-- `write_view(dev, view, bmp_tag())` for rgb8 (`f = bgr8`) and rgba8 (`f = bgra8`) views -/
def encodeBmp {α} (f : PixFmt α) (img : Img α) : Bytes :=
  bmpHeader img.w img.h f.size ++ bmpBody f img.w img.rows

structure BmpInfo where
  offset : Nat
  headerSize : Nat
  width : Int          -- int32_t
  height : Int         -- int32_t (after the sign has been moved to `topDown`)
  topDown : Bool
  bpp : Nat
  compression : Nat
  numColors : Nat
  deriving DecidableEq, Repr

/-- reader_backend<bmp>::read_header.  Returns the info and the stream position after the header. -/
def bmpReadHeader (file : Bytes) : Option (BmpInfo × Bytes) :=
  match rdU16 file with
  | none => none
  | some (magic, c) =>
  -- `if (_io_dev.read_uint16() == 0x424D) io_error(...)`: only the byte-swapped signature is rejected
  if magic = 0x424D then none else
  match rdU32 c with
  | none => none
  | some (_, c) =>
  match rdU16 c with
  | none => none
  | some (_, c) =>
  match rdU16 c with
  | none => none
  | some (_, c) =>
  match rdU32 c with
  | none => none
  | some (offset, c) =>
  match rdU32 c with
  | none => none
  | some (hs, c) =>
  if hs = 12 then
    -- OS/2 header: 16-bit width/height
    match rdU16 c with
    | none => none
    | some (w, c) =>
    match rdU16 c with
    | none => none
    | some (h, c) =>
    match rdU16 c with
    | none => none
    | some (_, c) =>
    match rdU16 c with
    | none => none
    | some (bpp, c) =>
      some ({ offset := offset, headerSize := hs, width := w, height := h, topDown := false,
              bpp := bpp, compression := 0, numColors := 0 }, c)
  else if hs ≥ 40 then
    -- Windows header (40) and V4/V5 headers (> 40) read the same leading fields
    match rdU32 c with
    | none => none
    | some (w, c) =>
    match rdU32 c with
    | none => none
    | some (h, c) =>
    match rdU16 c with
    | none => none
    | some (_, c) =>
    match rdU16 c with
    | none => none
    | some (bpp, c) =>
    match rdU32 c with
    | none => none
    | some (compression, c) =>
    match rdU32 c with
    | none => none
    | some (_, c) =>
    match rdU32 c with
    | none => none
    | some (_, c) =>
    match rdU32 c with
    | none => none
    | some (_, c) =>
    match rdU32 c with
    | none => none
    | some (numColors, c) =>
    match rdU32 c with
    | none => none
    | some (_, c) =>
      let hi := toI32 h
      -- only the 40-byte header negates a negative height (top-down file)
      let (hi, td) := if hs = 40 ∧ hi < 0 then (-hi, true) else (hi, false)
      some ({ offset := offset, headerSize := hs, width := toI32 w, height := hi, topDown := td,
              bpp := bpp, compression := compression, numColors := numColors }, c)
  else none

/-- reader::apply: `_pitch` (row size in the file, multiple of 4 bytes) -/
def bmpPitch (info : BmpInfo) : Nat :=
  let w := info.width.toNat
  let p := if info.bpp < 8 then (w * info.bpp + 7) / 8 else w * ((info.bpp + 7) / 8)
  (p + 3) / 4 * 4

/-- reader::get_offset.  NB the test is on `_info._height`, which read_header has already made
    positive for top-down files, so the first branch is the one taken for every valid file. -/
def bmpGetOffset (info : BmpInfo) (pitch pos : Nat) : Nat :=
  if info.height > 0 then info.offset + (info.height.toNat - 1 - pos) * pitch
  else info.offset + pos * pitch

/-- reader::read_data<bgr8_view_t / bgra8_view_t>: per destination row seek, read `_pitch` bytes,
    copy pixels [top_left.x, top_left.x + dim.x) -/
def bmpReadData {α} (f : PixFmt α) (file : Bytes) (info : BmpInfo) (s : Settings) : Img α :=
  let pitch := bmpPitch info
  readRows file (bmpGetOffset info pitch) pitch (decRow f info.width.toNat) s info.width.toNat info.height.toNat

/-- `read_image(dev, img, settings, bmp_tag())` into rgb8 (`f = bgr8`) / rgba8 (`f = bgra8`) for the
    true-colour depths; `none` = io_error.  (Palette, RLE and bit-field files: Model/C13.) -/
def decodeBmp {α} (f : PixFmt α) (file : Bytes) (s : Settings) : Option (Img α) :=
  match bmpReadHeader file with
  | none => none
  | some (info, _) =>
    if info.bpp = 24 ∨ info.bpp = 32 then
      -- is_allowed<View>(info, read_and_no_convert): destination bits per pixel == file's
      if f.size * 8 = info.bpp then some (bmpReadData f file info s) else none
    else none

/-! ## PNM -/

/-- std::to_string of an unsigned value, as bytes (`fuel` > number of digits; structural so that the kernel can evaluate it) -/
def decDigitsAux : Nat → Nat → Bytes
  | 0, _ => []
  | fuel + 1, n => if n < 10 then [UInt8.ofNat (48 + n)] else decDigitsAux fuel (n / 10) ++ [UInt8.ofNat (48 + n % 10)]

def decDigits (n : Nat) : Bytes := decDigitsAux (n + 1) n

/-- pnm writer::apply header: "P<t> " "<w> " "<h> " and "255 " unless mono -/
def pnmHeader (t w h : Nat) : Bytes :=
  [80, UInt8.ofNat (48 + t), 32] ++ (decDigits w ++ (32 :: (decDigits h ++ (32 :: (if t = 4 then [] else [50, 53, 53, 32])))))

/-- `write_view(dev, view, pnm_tag())` for gray8 (`t = 5`, `f = gray8`) and rgb8 (`t = 6`, `f = rgb8`) -/
def encodePnm {α} (f : PixFmt α) (t : Nat) (img : Img α) : Bytes :=
  pnmHeader t img.w img.h ++ (img.rows.map (encRow f)).flatten

def isDigit (c : UInt8) : Bool := 48 ≤ c && c ≤ 57
def isWs (c : UInt8) : Bool := c = 32 || c = 9 || c = 10 || c = 13

/-- reader_backend<pnm>::read_char: getc (EOF = io_error); a '#' skips to and returns the end-of-line character.
    `inComment` folds the inner loop into one structural recursion. -/
def pnmReadChar (inComment : Bool) : Bytes → Option (UInt8 × Bytes)
  | [] => none
  | c :: r =>
    if inComment then (if c = 10 ∨ c = 13 then some (c, r) else pnmReadChar true r)
    else if c = 35 then pnmReadChar true r else some (c, r)

/-- the leading `do ch = read_char(); while (ch is white space)` of read_int: first non-blank char -/
def pnmSkipWs (inComment : Bool) : Bytes → Option (UInt8 × Bytes)
  | [] => none
  | c :: r =>
    if inComment then (if c = 10 ∨ c = 13 then pnmSkipWs false r else pnmSkipWs true r)
    else if c = 35 then pnmSkipWs true r
    else if isWs c then pnmSkipWs false r else some (c, r)

/-- the digit loop of read_int, entered with the first digit already in `c`:
    `do { dig = ch-'0'; if (val > INT_MAX/10 - dig) io_error; val = val*10+dig; ch = read_char(); } while (digit)`.
    Returns the value and the stream after the first non-digit character (which is consumed). -/
def pnmDigits (val : Nat) (c : UInt8) : Bytes → Option (Nat × Bytes)
  | [] => none          -- read_char at EOF: io_error
  | n :: r =>
    let dig := c.toNat - 48
    if val + dig > 214748364 then none else
    let val := val * 10 + dig
    if n = 35 then (match pnmReadChar true r with | none => none | some (_, r') => some (val, r'))
    else if isDigit n then pnmDigits val n r else some (val, r)

def pnmReadInt (bs : Bytes) : Option (Nat × Bytes) :=
  match pnmSkipWs false bs with
  | none => none
  | some (c, r) => if isDigit c then pnmDigits 0 c r else none

structure PnmInfo where
  type : Nat
  width : Nat
  height : Nat
  maxValue : Nat
  deriving DecidableEq, Repr

/-- reader_backend<pnm>::read_header; returns the info and the data that follows the header -/
def pnmReadHeader (file : Bytes) : Option (PnmInfo × Bytes) :=
  match pnmReadChar false file with
  | none => none
  | some (p, c) =>
  if p ≠ 80 then none else
  match pnmReadChar false c with
  | none => none
  | some (tc, c) =>
  -- `_info._type = read_char() - '0'` (uint32_t), must be within P1..P6
  if tc < 49 ∨ tc > 54 then none else
  let t := tc.toNat - 48
  match pnmReadInt c with
  | none => none
  | some (w, c) =>
  match pnmReadInt c with
  | none => none
  | some (h, c) =>
  if t = 1 ∨ t = 4 then some ({ type := t, width := w, height := h, maxValue := 1 }, c)
  else
    match pnmReadInt c with
    | none => none
    | some (m, c) => if m > 255 then none else some ({ type := t, width := w, height := h, maxValue := m }, c)

/-- `_scanline_length` per type (reader::apply) -/
def pnmScanline (t w : Nat) : Nat :=
  match t with
  | 4 => (w + 7) / 8
  | 3 => w * 3
  | 6 => w * 3
  | _ => w

/-- reader::read_bin_data for byte pixels: skip `top_left.y` scanlines, then for every destination row
    read one scanline and copy pixels [top_left.x, top_left.x + dim.x) -/
def pnmReadBin {α} (f : PixFmt α) (data : Bytes) (info : PnmInfo) (s : Settings) : Img α :=
  let sl := pnmScanline info.type info.width
  readRows data (fun j => j * sl) sl (decRow f info.width) s info.width info.height

/-- `read_image(dev, img, settings, pnm_tag())` of a *binary* file of type `t` into the matching image type
    (gray8 ← P5, rgb8 ← P6); is_allowed rejects every other binary type.  (ASCII files: Model/C13.) -/
def decodePnm {α} (f : PixFmt α) (t : Nat) (file : Bytes) (s : Settings) : Option (Img α) :=
  match pnmReadHeader file with
  | none => none
  | some (info, data) => if info.type = t then some (pnmReadBin f data info s) else none

/-! ### PNM mono (P4, gray1_image_t): bit rows.  GIL's bit-aligned pixels are LSB-first inside a byte. -/

def bitOf (b : UInt8) (i : Nat) : Bool := (b.toNat / 2 ^ i) % 2 = 1

/-- the 8 pixels a byte holds, in pixel order (bit 0 first) -/
def bitsLsb (b : UInt8) : List Bool := (List.range 8).map (bitOf b)

/-- a byte from (up to 8) pixels, bit 0 first -/
def byteLsb : List Bool → UInt8
  | [] => 0
  | b :: r => (if b then 1 else 0) + 2 * byteLsb r

/-- detail::mirror_bits<…, true_type>::mirror, the 8 iterations of its loop unrolled -/
def mirrorByte (c : UInt8) : UInt8 :=
  let step (s : UInt8 × UInt8) : UInt8 × UInt8 := (((s.1 <<< 1) ||| (s.2 &&& 1)), s.2 >>> 1)
  (step (step (step (step (step (step (step (step (0, c))))))))).1

/-- detail::negate_bits: `b = ~b` -/
def negateByte (c : UInt8) : UInt8 := ~~~c

/-- detail::swap_half_bytes: `c = ((c << 4) & 0xF0) | ((c >> 4) & 0x0F)` -/
def swapHalfByte (c : UInt8) : UInt8 := ((c <<< 4) &&& (0xF0 : UInt8)) ||| ((c >>> 4) &&& (0x0F : UInt8))

/-- groups of 8 -/
def chunks8 {α} : Nat → List α → List (List α)
  | 0, _ => []
  | n + 1, l => l.take 8 :: chunks8 n (l.drop 8)

/-- pnm writer::write_data (bit_aligned): `byte_vector_t row(pitch / 8)` with `pitch = width`; the pixels are
    copied in, every byte is mirrored then negated, and `pitch / 8` bytes are written.
    Defined here for `w % 8 = 0` (otherwise the copy overruns the row buffer, see `encodePnmMono`). -/
def pnmMonoRowEnc (w : Nat) (r : List Bool) : Bytes :=
  (chunks8 (w / 8) r).map fun c => negateByte (mirrorByte (byteLsb c))

/-- `write_view(dev, gray1_view, pnm_tag())`.  `none` = undefined behaviour: for `w % 8 ≠ 0` the row buffer has
    `w / 8` bytes but `w` one-bit pixels are copied into it (heap overflow; null dereference for `w < 8`). -/
def encodePnmMono (img : Img Bool) : Option Bytes :=
  if img.w % 8 ≠ 0 then none
  else some (pnmHeader 4 img.w img.h ++ (img.rows.map (pnmMonoRowEnc img.w)).flatten)

/-- reader::read_bin_data<gray1 view>: every byte of the scanline is negated and then passed through
    **swap_half_bytes** (not mirror_bits); pixels are then taken LSB-first -/
def pnmMonoRowDec (bs : Bytes) : List Bool :=
  bs.flatMap fun b => bitsLsb (swapHalfByte (negateByte b))

def decodePnmMonoWith (rowDec : Bytes → List Bool) (file : Bytes) (s : Settings) : Option (Img Bool) :=
  match pnmReadHeader file with
  | none => none
  | some (info, data) =>
    if info.type = 4 then
      let sl := pnmScanline 4 info.width
      some (readRows data (fun j => j * sl) sl (fun bs => rowDec (padTo sl bs)) s info.width info.height)
    else none

/-- `read_image(dev, gray1_image, settings, pnm_tag())` -/
def decodePnmMono (file : Bytes) (s : Settings) : Option (Img Bool) := decodePnmMonoWith pnmMonoRowDec file s

/-- what the current writer/reader pair does to every group of 8 pixels: each half is reversed -/
def monoScramble : List Bool → List Bool
  | [a, b, c, d, e, f, g, h] => [d, c, b, a, h, g, f, e]
  | l => l

/-! proposed fix (proposed_fixes/C12-pnm-gray1.diff): the writer's row buffer has `(w+7)/8` bytes and that many
    are written; the reader mirrors instead of swapping half bytes.  `pad` = whatever the unused bits hold. -/
def pnmMonoRowEncFixed (w : Nat) (pad : List Bool) (r : List Bool) : Bytes :=
  (chunks8 ((w + 7) / 8) (r ++ pad)).map fun c => negateByte (mirrorByte (byteLsb c))

def pnmMonoRowDecFixed (bs : Bytes) : List Bool :=
  bs.flatMap fun b => bitsLsb (mirrorByte (negateByte b))

/-- writer / reader with the proposed fix; `pad r` = the (arbitrary) content of the unused bits of the last byte of row `r` -/
def encodePnmMonoFixed (pad : List Bool → List Bool) (img : Img Bool) : Bytes :=
  pnmHeader 4 img.w img.h ++ (img.rows.map (fun r => pnmMonoRowEncFixed img.w (pad r) r)).flatten

def decodePnmMonoFixed (file : Bytes) (s : Settings) : Option (Img Bool) := decodePnmMonoWith pnmMonoRowDecFixed file s

/-- the fixed writer as it executes: ONE row buffer of (w+7)/8 bytes (zero initialised) is reused for every row; std::copy
    overwrites bits 0..w-1, the unused bits keep what mirror+negate of the previous row left there -/
def pnmMonoWriteFixed (w : Nat) : Bytes → List (List Bool) → Bytes
  | _, [] => []
  | buf, r :: rs =>
    let out := pnmMonoRowEncFixed w ((buf.flatMap bitsLsb).drop w) r
    out ++ pnmMonoWriteFixed w out rs

def encodePnmMonoFixedExec (img : Img Bool) : Bytes :=
  pnmHeader 4 img.w img.h ++ pnmMonoWriteFixed img.w (List.replicate ((img.w + 7) / 8) 0) img.rows

/-! ## TARGA -/

/-- targa writer::write header (18 bytes): no id, no colour map, type 2 (rgb), origin 0,0, descriptor 8 for 32 bit -/
def tgaHeader (w h nch : Nat) : Bytes :=
  [0, 0, 2] ++ (le16 0 ++ (le16 0 ++ (0 :: (le16 0 ++ (le16 0 ++ (le16 w ++ (le16 h ++
  [UInt8.ofNat (nch * 8), if nch * 8 = 32 then 8 else 0])))))))

/-- `write_view(dev, view, targa_tag())` for rgb8 (`f = bgr8`) and rgba8 (`f = bgra8`): rows bottom-up, unpadded -/
def encodeTga {α} (f : PixFmt α) (img : Img α) : Bytes :=
  tgaHeader img.w img.h f.size ++ (img.rows.reverse.map (encRow f)).flatten

structure TgaInfo where
  offset : Nat
  colorMapType : Nat
  imageType : Nat
  colorMapLength : Nat
  width : Nat
  height : Nat
  bpp : Nat
  descriptor : Nat
  originBit : Bool
  deriving DecidableEq, Repr

/-- reader_backend<targa>::read_header with its checks -/
def tgaReadHeader (file : Bytes) : Option TgaInfo :=
  match rdU8 file with
  | none => none
  | some (idlen, c) =>
  match rdU8 c with
  | none => none
  | some (cmt, c) =>
  match rdU8 c with
  | none => none
  | some (it, c) =>
  match rdU16 c with
  | none => none
  | some (_, c) =>
  match rdU16 c with
  | none => none
  | some (cml, c) =>
  match rdU8 c with
  | none => none
  | some (_, c) =>
  match rdU16 c with
  | none => none
  | some (_, c) =>
  match rdU16 c with
  | none => none
  | some (_, c) =>
  match rdU16 c with
  | none => none
  | some (w, c) =>
  match rdU16 c with
  | none => none
  | some (h, c) =>
  if w < 1 ∨ h < 1 then none else
  match rdU8 c with
  | none => none
  | some (bpp, c) =>
  if bpp ≠ 24 ∧ bpp ≠ 32 then none else
  match rdU8 c with
  | none => none
  | some (desc, _) =>
  if it = 1 ∧ desc ≠ 0 then none
  else if bpp = 24 ∧ desc % 16 ≠ 0 then none
  else if bpp = 32 ∧ desc ≠ 8 ∧ desc ≠ 40 then none
  else
    -- `_offset` is a uint8_t: id length + 18 wraps at 256
    some { offset := (idlen + 18) % 256, colorMapType := cmt, imageType := it, colorMapLength := cml,
           width := w, height := h, bpp := bpp, descriptor := desc, originBit := (desc / 32) % 2 = 1 }

/-- reader::read_data (raw): seek to the first stored scanline of the region, then read `dim.y` scanlines, the
    k-th one going to row `dim.y-1-k` of `view` (`view` = the destination, flipped when the origin bit is set).
    Returned in destination order. -/
def tgaReadRaw {α} (f : PixFmt α) (file : Bytes) (info : TgaInfo) (s : Settings) : Img α :=
  let rs := info.width * (info.bpp / 8)
  let dx := s.dimX info.width
  let dy := s.dimY info.height
  let skipped := if info.originBit then s.tly else info.height - s.tly - dy
  let start := info.offset + skipped * rs
  -- row k (k-th scanline read) of the region
  let stored := (List.range dy).map fun k => sliceRow s.tlx dx (decRow f info.width (readAt file (start + k * rs) rs))
  -- bottom-up file: k-th scanline → view row dy-1-k; with the origin bit the view itself is flipped
  { w := dx, h := dy, rows := if info.originBit then stored else stored.reverse }

/-- the packet loop of reader::read_rle_data: fills `image_data` (`size` bytes); `none` = io_error
    (packet overruns the image, or the file ends inside a packet header / run pixel) -/
def tgaRlePackets (bpp : Nat) : Nat → Bytes → Nat → Option Bytes
  | 0, _, _ => none
  | fuel + 1, cur, remaining =>
    if remaining = 0 then some [] else
    match cur with
    | [] => none
    | b :: cur =>
      if b.toNat ≥ 128 then
        let n := b.toNat - 127
        if n * bpp > remaining then none else
        if cur.length < bpp then none else
        let px := cur.take bpp
        match tgaRlePackets bpp fuel (cur.drop bpp) (remaining - n * bpp) with
        | none => none
        | some rest => some ((List.replicate n px).flatten ++ rest)
      else
        let n := b.toNat + 1
        if n * bpp > remaining then none else
        let raw := padTo (n * bpp) (cur.take (n * bpp))
        match tgaRlePackets bpp fuel (cur.drop (n * bpp)) (remaining - n * bpp) with
        | none => none
        | some rest => some (raw ++ rest)

/-- reader::read_rle_data: decode everything, view it bottom-up, copy the region's rows -/
def tgaReadRle {α} (f : PixFmt α) (file : Bytes) (info : TgaInfo) (s : Settings) : Option (Img α) :=
  let bypp := info.bpp / 8
  let size := info.width * info.height * bypp
  match tgaRlePackets bypp (size + 1) (file.drop info.offset) size with
  | none => none
  | some data =>
    let rs := info.width * bypp
    let dx := s.dimX info.width
    let dy := s.dimY info.height
    -- v = flipped_up_down_view(image_data): v row j = stored row height-1-j
    let first := if info.originBit then info.height - s.tly - dy else s.tly
    let vrows := (List.range dy).map fun y =>
      sliceRow s.tlx dx (decRow f info.width (readAt data ((info.height - 1 - (first + y)) * rs) rs))
    -- copied to `view.row_begin(y)`, view = flipped destination when the origin bit is set
    some { w := dx, h := dy, rows := if info.originBit then vrows.reverse else vrows }

/-- `read_image(dev, img, settings, targa_tag())` into rgb8 (`f = bgr8`) / rgba8 (`f = bgra8`) -/
def decodeTga {α} (f : PixFmt α) (file : Bytes) (s : Settings) : Option (Img α) :=
  match tgaReadHeader file with
  | none => none
  | some info =>
    -- is_allowed: destination bits == file bits
    if f.size * 8 ≠ info.bpp then none
    else if info.imageType = 2 ∨ info.imageType = 10 then
      if info.colorMapType ≠ 0 then none
      else if info.colorMapLength ≠ 0 then none
      else if info.imageType = 2 then some (tgaReadRaw f file info s) else tgaReadRle f file info s
    else none

end GilVerif.Codec
