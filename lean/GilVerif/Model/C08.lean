/-
  C08 -- executable model of packed / bit-aligned channel access (channel.hpp, packed_pixel.hpp,
  bit_aligned_pixel_reference.hpp, bit_aligned_pixel_iterator.hpp) and the Spec predicates that
  `judge` evaluates on the implementation's observations.

  Memory is ONE natural number: the buffer's bytes assembled little-endian, so bit `8*j + b` of the
  number is bit `b` of byte `j` (this is how a little-endian machine lays a `BitField` out when
  `get_data`/`set_data` copy it byte by byte).  No bound on the buffer length.

  The model follows the code: the same read-modify-write (`(field & ~mask) | (value << first)`), the
  same conversions to the `BitField` type (`% 2^W`) and to `integer_t`, the same number of bytes
  copied (`sizeof(BitField)` for the compile-time first-bit reference, `data_size()` for the
  run-time first-bit reference), the same bit cursor arithmetic (generated: Gen/C08.lean).
  Core Lean only.
-/
import GilVerif.Gen.C08

namespace GilVerif.Model.C08
open GilVerif.Gen.C08

/-! ### integer types involved -/

/-- bits of `min_fast_uint<num>` = `integer_t` of a `num`-bit packed channel -/
def carrierBits (num : Nat) : Nat := if num ≤ 8 then 8 else if num ≤ 16 then 16 else if num ≤ 32 then 32 else 64

/-- bits of the type an `integer_t` operand is promoted to in an arithmetic expression -/
def promotedBits (num : Nat) : Nat := if num ≤ 32 then 32 else 64

/-- `~m` in a `W`-bit unsigned type (for `m < 2^W`) -/
def notW (W m : Nat) : Nat := 2 ^ W - (m + 1)

/-! ### one bit field (`W = 8 * sizeof(BitField)` bits) -/

/-- `channel_mask` of `packed_channel_reference<BitField,first,num,_>`:
    `static_cast<BitField>(max_val) << FirstBit` stored in a `BitField` -/
def chanMask (W first num : Nat) : Nat := ((2 ^ num - 1) <<< first) % 2 ^ W

/-- `channel_mask` of `packed_dynamic_channel_reference`: `static_cast<BitField>(max_val) << _first_bit`
    (since fix 69c04b8 shifted in `BitField`, like the compile-time reference) -/
def dynMask (W first num : Nat) : Nat := ((2 ^ num - 1) <<< first) % 2 ^ W

/-- the mask as it was computed before fix 69c04b8: `static_cast<integer_t>(max_val) << _first_bit`, i.e. in the
    promoted `integer_t` (32 bits for channels up to 32 bits).  Kept only to document the fixed finding. -/
def dynMaskPrefix (W first num : Nat) : Nat := (((2 ^ num - 1) <<< first) % 2 ^ promotedBits num) % 2 ^ W

/-- `get()`: `integer_t((field & channel_mask) >> first)` -/
def getWith (mask f first num : Nat) : Nat := ((f &&& mask) >>> first) % 2 ^ carrierBits num

/-- `(field & ~channel_mask) | shifted`, stored in a `BitField` -/
def setWith (W mask f shifted : Nat) : Nat := ((f &&& notW W mask) ||| shifted) % 2 ^ W

/-- compile-time first bit: `get` -/
def getF (W f first num : Nat) : Nat := getWith (chanMask W first num) f first num
/-- compile-time first bit: `set_unsafe(value)`; `static_cast<BitField>(value) << FirstBit` -/
def setF (W f first num v : Nat) : Nat := setWith W (chanMask W first num) f (v <<< first)
/-- compile-time first bit: `set_from_reference(other_bits)` (assignment from a reference of the same type) -/
def setFromRefF (W f first num other : Nat) : Nat :=
  setWith W (chanMask W first num) f (other &&& chanMask W first num)

/-- run-time first bit: `get` on the bytes read -/
def getD (W f first num : Nat) : Nat := getWith (dynMask W first num) f first num
/-- run-time first bit: `set_unsafe(value)`; `static_cast<BitField>(value) << _first_bit` -/
def setD (W f first num v : Nat) : Nat := setWith W (dynMask W first num) f (v <<< first)

/-- `get` / `set_unsafe` of the run-time first-bit reference before fix 69c04b8 (documentation of the fixed finding) -/
def getDPrefix (W f first num : Nat) : Nat := getWith (dynMaskPrefix W first num) f first num
def setDPrefix (W f first num v : Nat) : Nat :=
  setWith W (dynMaskPrefix W first num) f ((v <<< first) % 2 ^ promotedBits num)

/-- `packed_channel_value<num>(v)`: `v & sig_bits_fast` after conversion to `integer_t` -/
def valueMask (num : Nat) (v : Int) : Nat := ((v % 2 ^ carrierBits num).toNat) &&& (2 ^ num - 1)

/-- `packed_channel_reference_base::set(integer_t value)`: `((value % num_values) + num_values) % num_values`,
    the argument first converted to `integer_t` -/
def setArg (num : Nat) (value : Int) : Nat :=
  let vi := (value % 2 ^ carrierBits num).toNat
  ((vi % 2 ^ num) + 2 ^ num) % 2 ^ num

/-- proxy arithmetic: the value handed to `set` by `++ -- += -= *= /=` (computed in the promoted type;
    signed overflow in `int` is out of the model: operands are small) -/
inductive Arith where | inc | dec | add | sub | mul | div
  deriving Repr, DecidableEq

def arithResult (num : Nat) (op : Arith) (old : Nat) (v : Int) : Int :=
  let o : Int := old
  -- channels wider than 16 bits compute in unsigned 32/64-bit arithmetic: the int operand is converted
  let wrap (x : Int) : Int := if num ≤ 16 then x else x % 2 ^ promotedBits num
  match op with
  | .inc => wrap (o + 1)
  | .dec => wrap (o - 1)
  | .add => wrap (o + v)
  | .sub => wrap (o - v)
  | .mul => wrap (o * v)
  | .div => if num ≤ 16 then Int.tdiv o v else o / wrap v

/-! ### memory: the buffer as one little-endian number -/

/-- the `n` bytes at byte address `ptr`, little-endian (`get_data` copying `n` bytes into a zeroed field) -/
def readBytes (M ptr n : Nat) : Nat := (M >>> (8 * ptr)) % 2 ^ (8 * n)

/-- replace the `n` bytes at byte address `ptr` by the low `n` bytes of `val` (`set_data`) -/
def writeBytes (M ptr n val : Nat) : Nat :=
  (M % 2 ^ (8 * ptr)) ||| ((val % 2 ^ (8 * n)) <<< (8 * ptr)) ||| ((M >>> (8 * (ptr + n))) <<< (8 * (ptr + n)))

/-- `data_size()` of the run-time first-bit reference (generated kernel), as a natural number -/
def dataSize (first num fb : Nat) : Nat := (data_size first num fb).toNat

/-- `packed_channel_reference<BitField,first,num,true>` at byte `ptr` (`fb = sizeof(BitField)`) -/
def sGet (fb M ptr first num : Nat) : Nat := getF (8 * fb) (readBytes M ptr fb) first num
def sSet (fb M ptr first num v : Nat) : Nat :=
  writeBytes M ptr fb (setF (8 * fb) (readBytes M ptr fb) first num v)
def sSetFromRef (fb M ptr first num other : Nat) : Nat :=
  writeBytes M ptr fb (setFromRefF (8 * fb) (readBytes M ptr fb) first num other)

/-- `packed_dynamic_channel_reference<BitField,num,true>(ptr, first)`: only `data_size()` bytes are copied -/
def dGet (fb M ptr first num : Nat) : Nat :=
  getD (8 * fb) (readBytes M ptr (dataSize first num fb)) first num
def dSet (fb M ptr first num v : Nat) : Nat :=
  let n := dataSize first num fb
  writeBytes M ptr n (setD (8 * fb) (readBytes M ptr n) first num v)

/-! ### pixels -/

/-- `detail::sum_k<ChannelBitSizes,K>`: first bit of channel `K` inside the pixel -/
def sumK (widths : List Nat) (k : Nat) : Nat := (widths.take k).foldr (· + ·) 0

def bitSize (widths : List Nat) : Nat := widths.foldr (· + ·) 0

def width (widths : List Nat) (k : Nat) : Nat := widths.getD k 0

/-- `packed_pixel`: channel `k` is `packed_channel_reference<BitField, sum_k, width k>` on `_bitfield` -/
def ppGet (W f : Nat) (widths : List Nat) (k : Nat) : Nat := getF W f (sumK widths k) (width widths k)
def ppSet (W f : Nat) (widths : List Nat) (k v : Nat) : Nat := setF W f (sumK widths k) (width widths k) v

/-- whole-pixel assignment (`static_copy`): channel `k` receives `vals k`, channels visited in `order` -/
def ppAssign (W f : Nat) (widths : List Nat) (vals : Nat → Nat) (order : List Nat) : Nat :=
  order.foldl (fun f k => ppSet W f widths k (vals k)) f

/-- position of a bit cursor `(byte, offset)` -/
structure Cur where
  byte : Int
  off : Int
  deriving Repr, DecidableEq

def Cur.adv (c : Cur) (bits : Int) : Cur := let r := bit_advance c.byte c.off bits; ⟨r.1, r.2⟩
def Cur.inc (c : Cur) (rangeSize : Int) : Cur := let r := bit_inc c.byte c.off rangeSize; ⟨r.1, r.2⟩
def Cur.dist (a b : Cur) : Int := bit_distance_to a.byte a.off b.byte b.off
def Cur.pos (c : Cur) : Int := 8 * c.byte + c.off

/-- `bit_aligned_pixel_iterator`: `advance(d)`, `distance_to(it)`, `++`, `--` -/
def itAdvance (bs : Nat) (c : Cur) (d : Int) : Cur := c.adv (d * bs)
def itDistance (bs : Nat) (a b : Cur) : Int := Int.tdiv (a.dist b) bs
def itInc (bs : Nat) (c : Cur) : Cur := c.inc bs
def itDec (bs : Nat) (c : Cur) : Cur := c.adv (-(bs : Int))

/-- `at_c<K>(bit_aligned_pixel_reference)`: the cursor advanced by `sum_k`, then a run-time first-bit
    channel reference at `(current_byte, bit_offset)` -/
def baChan (c : Cur) (widths : List Nat) (k : Nat) : Cur := c.adv (sumK widths k)

def baGet (fb M : Nat) (c : Cur) (widths : List Nat) (k : Nat) : Nat :=
  let ch := baChan c widths k
  dGet fb M ch.byte.toNat ch.off.toNat (width widths k)
def baSet (fb M : Nat) (c : Cur) (widths : List Nat) (k v : Nat) : Nat :=
  let ch := baChan c widths k
  dSet fb M ch.byte.toNat ch.off.toNat (width widths k) v

def baAssign (fb M : Nat) (c : Cur) (widths : List Nat) (vals : Nat → Nat) (order : List Nat) : Nat :=
  order.foldl (fun M k => baSet fb M c widths k (vals k)) M

/-- `swap_proxy` of two bit-aligned references: `tmp = left` (a packed_pixel value), `left = right`
    (channel by channel, reading `right` from memory as it is at that moment), `right = tmp` -/
def baSwap (fb M : Nat) (a b : Cur) (widths : List Nat) (order : List Nat) : Nat :=
  let tmp := fun k => baGet fb M a widths k
  let M1 := order.foldl (fun M k => baSet fb M a widths k (baGet fb M b widths k)) M   -- = baCopy
  baAssign fb M1 b widths tmp order

/-- fill / copy through bit-aligned iterators: consecutive pixels starting at `c` receive `vals i k` -/
def baWriteRun (fb M : Nat) (c : Cur) (widths : List Nat) (order : List Nat) : List (Nat → Nat) → Nat
  | [] => M
  | p :: ps => baWriteRun fb (baAssign fb M c widths p order) (itInc (bitSize widths) c) widths order ps

/-! ### composed operations (as the harness performs them through the public API) -/

/-- the value a proxy arithmetic operator stores (given the value read) -/
def arithStore (num : Nat) (op : Arith) (old : Nat) (v : Int) : Nat := setArg num (arithResult num op old v)

/-- `ref = other_ref` for two run-time first-bit references: `set_unsafe(ref.get())` -/
def dCopy (fb M ptr first ptr2 first2 num : Nat) : Nat := dSet fb M ptr first num (dGet fb M ptr2 first2 num)

/-- `swap_proxy` of two run-time first-bit channel references -/
def dSwap (fb M ptr first ptr2 first2 num : Nat) : Nat :=
  let tmp := valueMask num (dGet fb M ptr first num)
  let M1 := dCopy fb M ptr first ptr2 first2 num
  dSet fb M1 ptr2 first2 num tmp

/-- `dst = src` between two compatible packed pixels (`static_copy`, semantic channel `s` = physical
    `mapD[s]` of dst and `mapS[s]` of src).  Same first bit and width: `set_from_reference` (bits taken from
    the source field); otherwise `set_unsafe(src.get())` -/
def ppAssignFrom (W f : Nat) (widthsD mapD : List Nat) (Ws src : Nat) (widthsS mapS : List Nat) : Nat :=
  (mapD.zip mapS).foldl (fun f (kd, ks) =>
    let fd := sumK widthsD kd; let fs := sumK widthsS ks; let n := width widthsD kd
    if fd = fs ∧ W = Ws then setFromRefF W f fd n src
    else setF W f fd n (getF Ws src fs (width widthsS ks))) f

/-- `refA = refB` for two bit-aligned references of one type (channels read from memory as it is) -/
def baCopy (fb M : Nat) (a b : Cur) (widths : List Nat) (order : List Nat) : Nat :=
  order.foldl (fun M k => baSet fb M a widths k (baGet fb M b widths k)) M

/-- `std::copy(s, s + count, d)` through bit-aligned iterators -/
def baCopyRun (fb M : Nat) (s d : Cur) (widths : List Nat) (order : List Nat) : Nat → Nat
  | 0 => M
  | n + 1 => baCopyRun fb (baCopy fb M d s widths order) (itInc (bitSize widths) s) (itInc (bitSize widths) d) widths order n

/-! ### Spec: what the property demands, in terms of bits of the buffer -/

/-- the value stored in bits `[lo, lo+num)` of `M` -/
def bitsAt (M lo num : Nat) : Nat := (M >>> lo) % 2 ^ num

/-- Spec of a channel write, as a proposition: `M'` holds `v` in the window `[lo, lo+num)` and is
    bit-for-bit `M` everywhere else (every other channel, every neighbouring pixel, every padding bit,
    every other byte of a buffer of any length) -/
def WroteExactly (M M' lo num v : Nat) : Prop :=
  ∀ i, M'.testBit i = if lo ≤ i ∧ i < lo + num then v.testBit (i - lo) else M.testBit i

/-- preconditions of the statements about a bit-aligned pixel reference at cursor `c`: a valid cursor, a bit
    field wide enough for the pixel at any bit offset (what `bit_aligned_image_type` chooses:
    `bit_size + 7` bits), channel widths of at most 64 bits -/
structure RefOK (fb : Nat) (c : Cur) (widths : List Nat) : Prop where
  byte : 0 ≤ c.byte
  off0 : 0 ≤ c.off
  off7 : c.off < 8
  field : bitSize widths + 7 ≤ 8 * fb
  w64 : ∀ k, width widths k ≤ 64

/-- Spec of proxy arithmetic: the mathematical result, to be taken modulo `2^num` -/
def arithSpec (op : Arith) (old : Nat) (v : Int) : Int :=
  match op with
  | .inc => old + 1
  | .dec => old - 1
  | .add => old + v
  | .sub => old - v
  | .mul => old * v
  | .div => Int.tdiv old v

/-- `M'` differs from `M` at most in bits `[lo, lo+num)` -/
def frameOK (M M' lo num : Nat) : Bool :=
  let x := M ^^^ M'
  (x % 2 ^ lo == 0) && (x >>> (lo + num) == 0)

/-- Spec of one channel write: read-back gives the value, only the channel's own bits changed -/
def writeSpec (M M' lo num v : Nat) : Option String :=
  if bitsAt M' lo num ≠ v then some "read-back"
  else if ¬ frameOK M M' lo num then some "frame-bits"
  else none

end GilVerif.Model.C08
