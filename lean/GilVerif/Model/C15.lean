/-
  C15 -- executable model of 1-D correlation / convolution (image_processing/convolve.hpp,
  algorithm.hpp: correlate_pixels_n/k, inner_product_k, view_multiplies_scalar), kernel reversal
  (kernel.hpp: reverse_kernel), detail::convolve_2d, extend_row / extend_col / extend_boundary.

  The functions follow the C++ structure: the size-1 shortcut, the `width == 0` return, the
  output_ignore / output_zero branch (narrower-than-kernel sub-branch, buffer copy, zero fill of
  left_size, width+1-ksize sliding inner products, zero fill of right_size), the three extend_*
  buffer assemblies, the inner product accumulated left to right (`init = init + a*b`), the column
  variants as row variants on the transposed views, convolve_2d's flipped kernel indices and bounds
  test, extend_col through rotated90cw views.

  The 1-D part is generic in the accumulator type `α` (instantiated with `Int` in the theorems
  -- exact integer accumulators -- and with `Float32` by the driver for float32 pixels, where it
  reproduces the IEEE operation order).  A source row is a memory function `mem : Int → α` relative
  to `row_begin` (negative indices / indices ≥ width are the caller's padding) plus its width.

  Spec (what the property demands) is at the end: the textbook sums, never mentioning buffers.
-/
namespace GilVerif.Model.C15

/-- `boundary_option`, in the order of the enum (algorithm.hpp) -/
inductive Opt where
  | outputIgnore | outputZero | extendPadded | extendZero | extendConstant
  deriving DecidableEq, Repr

def Opt.ofInt : Int → Option Opt
  | 0 => some .outputIgnore | 1 => some .outputZero | 2 => some .extendPadded
  | 3 => some .extendZero | 4 => some .extendConstant | _ => none

/-- destination write: `vals` stored at positions `pos, pos+1, …` (std::fill_n / correlator output) -/
def writeAt {α : Type} (dst : List α) (pos : Nat) (vals : List α) : List α :=
  dst.take pos ++ vals ++ dst.drop (pos + vals.length)

section generic
variable {α : Type} [Add α] [Mul α] [OfNat α 0]

/-- `std::inner_product(first1, first1 + |taps|, taps, init, +, *)`: `init = init + a*b`, left to right -/
def innerProduct : List α → List α → α → α
  | x :: xs, t :: ts, acc => innerProduct xs ts (acc + x * t)
  | _, _, acc => acc

/-- `detail::inner_product_k_t<Size>::apply`: recursion on the static size -/
def innerProductK : Nat → List α → List α → α → α
  | 0, _, _, acc => acc
  | n + 1, xs, ts, acc => innerProductK n xs.tail ts.tail (acc + xs.headD 0 * ts.headD 0)

/-- `correlate_pixels_n(buf, buf + n, taps, |taps|, dst)`: `n` sliding inner products -/
def correlatePixelsN (buf : List α) (n : Nat) (taps : List α) : List α :=
  match n with
  | 0 => []
  | n + 1 => innerProduct buf taps 0 :: correlatePixelsN buf.tail n taps

/-- `correlate_pixels_k<Size>(buf, buf + n, taps, dst)` with `Size = |taps|` -/
def correlatePixelsK (buf : List α) (n : Nat) (taps : List α) : List α :=
  match n with
  | 0 => []
  | n + 1 => innerProductK taps.length buf taps 0 :: correlatePixelsK buf.tail n taps

/-- `assign_pixels(row_begin, row_end, buffer)` -/
def rowBuf (mem : Int → α) (w : Nat) : List α := (List.range w).map (fun (j : Nat) => mem ((j : Int)))

/-- one row of `detail::correlate_rows_impl` (the part inside `for y`), `fixed` selects `correlator_k` -/
def correlateRowImpl (fixed : Bool) (opt : Opt) (taps : List α) (c : Nat) (mem : Int → α) (w : Nat)
    (dst : List α) : List α :=
  let ks := taps.length
  let left := c                 -- kernel.left_size()
  let right := ks - c - 1       -- kernel.right_size()
  let correlator := fun (buf : List α) (n : Nat) =>
    if fixed then correlatePixelsK buf n taps else correlatePixelsN buf n taps
  match opt with
  | .outputIgnore =>
    if w < ks then dst
    else writeAt dst left (correlator (rowBuf mem w) (w + 1 - ks))
  | .outputZero =>
    if w < ks then List.replicate dst.length 0          -- fill_pixels(dst_view, dst_zero)
    else
      let d1 := writeAt dst 0 (List.replicate left 0)
      let d2 := writeAt d1 left (correlator (rowBuf mem w) (w + 1 - ks))
      writeAt d2 (left + (w + 1 - ks)) (List.replicate right 0)
  | .extendPadded =>
    let buffer := (List.range (left + w + right)).map (fun (t : Nat) => mem ((t : Int) - (left : Int)))
    writeAt dst 0 (correlator buffer w)
  | .extendZero =>
    let buffer := List.replicate left 0 ++ rowBuf mem w ++ List.replicate right 0
    writeAt dst 0 (correlator buffer w)
  | .extendConstant =>
    let buffer := List.replicate left (mem 0) ++ rowBuf mem w ++ List.replicate right (mem ((w : Int) - 1))
    writeAt dst 0 (correlator buffer w)

/-- `detail::correlate_rows_impl` on a `w × h` source `src x y` (memory function, padding outside),
    destination rows `dst` (h rows of w) -/
def correlateRows (fixed : Bool) (opt : Opt) (taps : List α) (c : Nat) (src : Int → Int → α) (w h : Nat)
    (dst : List (List α)) : List (List α) :=
  if taps.length = 1 then
    -- view_multiplies_scalar(src_view, *kernel.begin(), dst_view)
    (List.range h).map fun (y : Nat) =>
      writeAt (dst.getD y []) 0 ((List.range w).map fun (x : Nat) => src ((x : Int)) ((y : Int)) * taps.headD 0)
  else if w = 0 then dst
  else
    (List.range h).map fun (y : Nat) =>
      correlateRowImpl fixed opt taps c (fun j => src j ((y : Int))) w (dst.getD y [])

/-- `w × h` image (h rows) seen through `transposed_view`: `w` rows of `h` -/
def transposeL (w h : Nat) (img : List (List α)) : List (List α) :=
  (List.range w).map fun (x : Nat) => (List.range h).map fun (y : Nat) => (img.getD y []).getD x 0

/-- `correlate_cols`: `correlate_rows(transposed_view(src), kernel, transposed_view(dst))` -/
def correlateCols (fixed : Bool) (opt : Opt) (taps : List α) (c : Nat) (src : Int → Int → α) (w h : Nat)
    (dst : List (List α)) : List (List α) :=
  transposeL h w (correlateRows fixed opt taps c (fun x y => src y x) h w (transposeL w h dst))

/-- `reverse_kernel`: centre becomes `right_size()`, taps reversed; then correlate -/
def convolveRows (fixed : Bool) (opt : Opt) (taps : List α) (c : Nat) (src : Int → Int → α) (w h : Nat)
    (dst : List (List α)) : List (List α) :=
  correlateRows fixed opt taps.reverse (taps.length - c - 1) src w h dst

def convolveCols (fixed : Bool) (opt : Opt) (taps : List α) (c : Nat) (src : Int → Int → α) (w h : Nat)
    (dst : List (List α)) : List (List α) :=
  transposeL h w (convolveRows fixed opt taps c (fun x y => src y x) h w (transposeL w h dst))

end generic

/-! ### integer-only parts -/

/-- `Σ_{k<n} f k`, accumulated from k = 0 upwards -/
def sumRange : Nat → (Nat → Int) → Int
  | 0, _ => 0
  | n + 1, f => sumRange n f + f n

/-- `detail::convolve_2d_impl` at destination pixel (x, y): loops over kernel_row / kernel_col,
    flipped indices, the bounds test; `ker` is the row-major `ks × ks` table (`at(x,y) = ker[y*ks+x]`).
    The C++ accumulates in `float`; this model is exact (`Int`), which agrees while every partial sum
    is an integer below 2^24 (assumption of the correspondence run). -/
def convolve2dAt (src : Int → Int → Int) (w h : Nat) (ker : List Int) (ks cy cx : Nat) (x y : Nat) : Int :=
  sumRange ks fun kernel_row =>
    sumRange ks fun kernel_col =>
      let flip_ker_row : Int := (ks : Int) - 1 - (kernel_row : Int)
      let flip_ker_col : Int := (ks : Int) - 1 - (kernel_col : Int)
      let row_boundary : Int := (y : Int) + ((cy : Int) - flip_ker_row)
      let col_boundary : Int := (x : Int) + ((cx : Int) - flip_ker_col)
      if 0 ≤ row_boundary ∧ row_boundary < (h : Int) ∧ 0 ≤ col_boundary ∧ col_boundary < (w : Int) then
        src col_boundary row_boundary * ker.getD (flip_ker_row.toNat * ks + flip_ker_col.toNat) 0
      else 0

def convolve2d (src : Int → Int → Int) (w h : Nat) (ker : List Int) (ks cy cx : Nat) : List (List Int) :=
  (List.range h).map fun (y : Nat) => (List.range w).map fun (x : Nat) => convolve2dAt src w h ker ks cy cx x y

/-- `detail::extend_row_impl`: result is `w × (h + 2n)`; `src x y` is a memory function -/
def extendRows (opt : Opt) (n : Nat) (src : Int → Int → Int) (w h : Nat) : List (List Int) :=
  let row := fun (yy : Int) => (List.range w).map fun (x : Nat) => src ((x : Int)) yy
  (List.range (h + 2 * n)).map fun (i : Nat) =>
    match opt with
    | .extendConstant =>
      if n ≤ i ∧ i < n + h then row ((i : Int) - (n : Int))
      else if i < n then row 0
      else row ((h : Int) - 1)
    | .extendZero =>
      if n ≤ i ∧ i < n + h then row ((i : Int) - (n : Int))
      else List.replicate w 0
    | .extendPadded => row ((i : Int) - (n : Int))      -- subimage_view(src, 0, -n, w, h+2n)
    | _ => []                                                -- BOOST_ASSERT_MSG(false, …)

/-- `extend_col`: `extend_row_impl(rotated90cw_view(src), rotated90cw_view(view(result)), n, option)`;
    rotated90cw_view(v)(x', y') = v(y', H-1-x') for a view of height H -/
def extendCols (opt : Opt) (n : Nat) (src : Int → Int → Int) (w h : Nat) : List (List Int) :=
  let srcRot := fun (x' y' : Int) => src y' ((h : Int) - 1 - x')
  let r := extendRows opt n srcRot h w            -- (w + 2n) rows of h
  (List.range h).map fun (y : Nat) => (List.range (w + 2 * n)).map fun (x : Nat) => (r.getD x []).getD (h - 1 - y) 0

/-- image (list of rows) as a memory function; reads outside give 0 (never happens for the options
    that `extend_boundary` routes through `extend_col` + `extend_row`) -/
def imgFn (img : List (List Int)) : Int → Int → Int :=
  fun x y => if 0 ≤ x ∧ 0 ≤ y then (img.getD y.toNat []).getD x.toNat 0 else 0

/-- `extend_boundary` -/
def extendBoundary (opt : Opt) (n : Nat) (src : Int → Int → Int) (w h : Nat) : List (List Int) :=
  match opt with
  | .extendPadded =>
    (List.range (h + 2 * n)).map fun (i : Nat) => (List.range (w + 2 * n)).map fun (j : Nat) =>
      src ((j : Int) - (n : Int)) ((i : Int) - (n : Int))
  | _ => extendRows opt n (imgFn (extendCols opt n src w h)) (w + 2 * n) h

/-! ### Spec -/

/-- the sample the boundary policy assigns to index `j` of a row of width `w` -/
def extSample (opt : Opt) (mem : Int → Int) (w : Nat) (j : Int) : Int :=
  match opt with
  | .extendPadded => mem j
  | .extendConstant => if j < 0 then mem 0 else if (w : Int) ≤ j then mem ((w : Int) - 1) else mem j
  | _ => if 0 ≤ j ∧ j < (w : Int) then mem j else 0

/-- textbook correlation: `Σ_k ext(i + k − centre) · taps k` -/
def corrAt (opt : Opt) (taps : List Int) (c : Nat) (mem : Int → Int) (w : Nat) (i : Nat) : Int :=
  sumRange taps.length fun k => extSample opt mem w ((i : Int) + (k : Int) - (c : Int)) * taps.getD k 0

/-- textbook convolution: `Σ_k ext(i − (k − centre)) · taps k` -/
def convAt (opt : Opt) (taps : List Int) (c : Nat) (mem : Int → Int) (w : Nat) (i : Nat) : Int :=
  sumRange taps.length fun k => extSample opt mem w ((i : Int) + (c : Int) - (k : Int)) * taps.getD k 0

/-- the window of output `i` (`[i − centre, i + ks − 1 − centre]`) lies inside `[0, w)` -/
def windowInside (ks c w i : Nat) : Bool := c ≤ i && i + (ks - 1 - c) < w

/-- Spec of one output row for a per-index sum `f` (corrAt or convAt) -/
def specRowWith (f : Nat → Int) (opt : Opt) (ks c w : Nat) (dst : List Int) : List Int :=
  (List.range w).map fun (i : Nat) =>
    match opt with
    | .outputIgnore => if windowInside ks c w i then f i else dst.getD i 0
    | .outputZero => if windowInside ks c w i then f i else 0
    | _ => f i

def specRow (opt : Opt) (taps : List Int) (c : Nat) (mem : Int → Int) (w : Nat) (dst : List Int) : List Int :=
  specRowWith (corrAt opt taps c mem w) opt taps.length c w dst

def specRowConv (opt : Opt) (taps : List Int) (c : Nat) (mem : Int → Int) (w : Nat) (dst : List Int) : List Int :=
  specRowWith (convAt opt taps c mem w) opt taps.length (taps.length - c - 1) w dst

/-- zero-extended 2-D source -/
def zext2 (src : Int → Int → Int) (w h : Nat) (x y : Int) : Int :=
  if 0 ≤ x ∧ x < (w : Int) ∧ 0 ≤ y ∧ y < (h : Int) then src x y else 0

/-- textbook 2-D convolution: `Σ_i Σ_j K(j,i) · src0(x + cx − j, y + cy − i)` -/
def conv2dSpecAt (src : Int → Int → Int) (w h : Nat) (ker : List Int) (ks cy cx : Nat) (x y : Nat) : Int :=
  sumRange ks fun i => sumRange ks fun j =>
    zext2 src w h ((x : Int) + (cx : Int) - (j : Int)) ((y : Int) + (cy : Int) - (i : Int))
      * ker.getD (i * ks + j) 0

def clampI (lo hi v : Int) : Int := if v < lo then lo else if hi < v then hi else v

/-- the padded image a policy describes: value at (x, y) relative to the source origin -/
def ext2 (opt : Opt) (src : Int → Int → Int) (w h : Nat) (x y : Int) : Int :=
  match opt with
  | .extendPadded => src x y
  | .extendConstant => src (clampI 0 ((w : Int) - 1) x) (clampI 0 ((h : Int) - 1) y)
  | _ => zext2 src w h x y

def extendBoundarySpec (opt : Opt) (n : Nat) (src : Int → Int → Int) (w h : Nat) : List (List Int) :=
  (List.range (h + 2 * n)).map fun (i : Nat) => (List.range (w + 2 * n)).map fun (j : Nat) =>
    ext2 opt src w h ((j : Int) - (n : Int)) ((i : Int) - (n : Int))

def extendRowsSpec (opt : Opt) (n : Nat) (src : Int → Int → Int) (w h : Nat) : List (List Int) :=
  (List.range (h + 2 * n)).map fun (i : Nat) => (List.range w).map fun (j : Nat) =>
    ext2 opt src w h ((j : Int)) ((i : Int) - (n : Int))

def extendColsSpec (opt : Opt) (n : Nat) (src : Int → Int → Int) (w h : Nat) : List (List Int) :=
  (List.range h).map fun (i : Nat) => (List.range (w + 2 * n)).map fun (j : Nat) =>
    ext2 opt src w h ((j : Int) - (n : Int)) ((i : Int))

end GilVerif.Model.C15
