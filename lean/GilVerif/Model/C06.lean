/-
  C06 -- executable model of channel_convert for every ordered pair of channel models.

  The integral converter bodies come from the *generated* file Gen/C06.lean (translated from
  channel_algorithm.hpp on every run, once per class pair, parametric in the two maxima); this file adds
    * the case split the C++ templates perform (identity / src<dst / divisible / fits-in-integer),
    * the `double` path of the non-divisible down-conversion and the float32 paths, reproduced with
      Lean's hardware `Float` / `Float32` (same IEEE operations in the same order),
    * the signed <-> unsigned wrappers and the masking constructor of packed_channel_value,
  and the Spec predicates that `judge` evaluates on the implementation's observations.
-/
import GilVerif.Gen.C06

namespace GilVerif.Model.C06
open GilVerif.Gen.C06

/-- how an unsigned integral channel model appears inside the converter bodies (see checks/C06_syms.py) -/
inductive Cls where
  | B8 | B16 | B32 | P8 | P16
  deriving Repr, DecidableEq

/-- channel models of the library (packed references convert through their value type) -/
inductive Ch where
  | u8 | u16 | u32 | i8 | i16 | i32 | f32
  | packed (n : Nat)            -- packed_channel_value<n>, 1 ≤ n ≤ 16
  deriving Repr, DecidableEq

def Ch.parse (s : String) : Option Ch :=
  match s with
  | "u8" => some .u8 | "u16" => some .u16 | "u32" => some .u32
  | "i8" => some .i8 | "i16" => some .i16 | "i32" => some .i32 | "f32" => some .f32
  -- packed channel references: channel_traits<Ref>::value_type is the packed value of the same width
  | "r565r" => some (.packed 5) | "r565g" => some (.packed 6) | "r565b" => some (.packed 5)
  | "rd3" => some (.packed 3) | "rd7" => some (.packed 7)
  | _ => if s.startsWith "p" then (s.drop 1).toString.toNat?.bind (fun n => if 1 ≤ n ∧ n ≤ 16 then some (.packed n) else none) else none

def Ch.isFloat : Ch → Bool | .f32 => true | _ => false
def Ch.is32 : Ch → Bool | .u32 => true | .i32 => true | _ => false

/-- channel_traits::min_value / max_value (integral models) -/
def Ch.minV : Ch → Int
  | .i8 => -128 | .i16 => -32768 | .i32 => -2147483648 | _ => 0
def Ch.maxV : Ch → Int
  | .u8 => 255 | .u16 => 65535 | .u32 => 4294967295
  | .i8 => 127 | .i16 => 32767 | .i32 => 2147483647
  | .packed n => 2 ^ n - 1
  | .f32 => 1

/-- channel_convert_to_unsigned<C>::type -/
def Ch.unsignedOf : Ch → Ch
  | .i8 => .u8 | .i16 => .u16 | .i32 => .u32 | c => c

def Ch.cls : Ch → Cls
  | .u8 => .B8 | .i8 => .B8 | .u16 => .B16 | .i16 => .B16 | .u32 => .B32 | .i32 => .B32
  | .packed n => if n ≤ 8 then .P8 else .P16
  | .f32 => .B32

/-- unsigned_integral_max_value<C>::value of an unsigned integral model -/
def Ch.umax : Ch → Int
  | .u8 => 255 | .u16 => 65535 | .u32 => 4294967295
  | .packed n => 2 ^ n - 1
  | _ => 0

/-- the unsigned integral models inside the claim: uint8_t, uint16_t, uint32_t, packed values of 1..16 bits -/
def Ch.inScopeU : Ch → Bool
  | .u8 => true | .u16 => true | .u32 => true
  | .packed n => decide (1 ≤ n ∧ n ≤ 16)
  | _ => false

/-! ### selection of the generated kernel by class pair (none: no in-scope pair of models selects it) -/

def upDiv : Cls → Cls → Int → Int → Int → Option Int
  | .B16, .B32, s, a, b => some (up_div_B16_B32 s a b)
  | .B8, .B16, s, a, b => some (up_div_B8_B16 s a b)
  | .B8, .B32, s, a, b => some (up_div_B8_B32 s a b)
  | .B8, .P16, s, a, b => some (up_div_B8_P16 s a b)
  | .P16, .B32, s, a, b => some (up_div_P16_B32 s a b)
  | .P8, .B16, s, a, b => some (up_div_P8_B16 s a b)
  | .P8, .B32, s, a, b => some (up_div_P8_B32 s a b)
  | .P8, .B8, s, a, b => some (up_div_P8_B8 s a b)
  | .P8, .P16, s, a, b => some (up_div_P8_P16 s a b)
  | .P8, .P8, s, a, b => some (up_div_P8_P8 s a b)
  | _, _, _, _, _ => none

def downDiv : Cls → Cls → Int → Int → Int → Option Int
  | .B16, .B8, s, a, b => some (down_div_B16_B8 s a b)
  | .B16, .P16, s, a, b => some (down_div_B16_P16 s a b)
  | .B16, .P8, s, a, b => some (down_div_B16_P8 s a b)
  | .B32, .B16, s, a, b => some (down_div_B32_B16 s a b)
  | .B32, .B8, s, a, b => some (down_div_B32_B8 s a b)
  | .B32, .P16, s, a, b => some (down_div_B32_P16 s a b)
  | .B32, .P8, s, a, b => some (down_div_B32_P8 s a b)
  | .B8, .P8, s, a, b => some (down_div_B8_P8 s a b)
  | .P16, .B16, s, a, b => some (down_div_P16_B16 s a b)
  | .P16, .B8, s, a, b => some (down_div_P16_B8 s a b)
  | .P16, .P8, s, a, b => some (down_div_P16_P8 s a b)
  | .P8, .B8, s, a, b => some (down_div_P8_B8 s a b)
  | .P8, .P8, s, a, b => some (down_div_P8_P8 s a b)
  | _, _, _, _, _ => none

def upNondiv : Cls → Cls → Int → Int → Int → Option Int
  | .B8, .P16, s, a, b => some (up_nondiv_B8_P16 s a b)
  | .P16, .B16, s, a, b => some (up_nondiv_P16_B16 s a b)
  | .P16, .B32, s, a, b => some (up_nondiv_P16_B32 s a b)
  | .P16, .P16, s, a, b => some (up_nondiv_P16_P16 s a b)
  | .P8, .B16, s, a, b => some (up_nondiv_P8_B16 s a b)
  | .P8, .B32, s, a, b => some (up_nondiv_P8_B32 s a b)
  | .P8, .B8, s, a, b => some (up_nondiv_P8_B8 s a b)
  | .P8, .P16, s, a, b => some (up_nondiv_P8_P16 s a b)
  | .P8, .P8, s, a, b => some (up_nondiv_P8_P8 s a b)
  | _, _, _, _, _ => none

/-- width of the type unsigned_integral_max_value<C>::value_type, and of the base type -/
def Cls.maxBits : Cls → Nat | .B8 => 32 | .B16 => 32 | .B32 => 64 | .P8 => 8 | .P16 => 16
def Cls.baseBits : Cls → Nat | .B8 => 8 | .B16 => 16 | .B32 => 32 | .P8 => 8 | .P16 => 16

/-- `src + div2` as C computes it: unsigned wrap in the common type for built-in sources, `int` for packed -/
def addCarrier (sc : Cls) (x : Int) : Int :=
  match sc with
  | .B8 => x % 4294967296 | .B16 => x % 4294967296 | .B32 => x % 18446744073709551616
  | .P8 => x | .P16 => x

/-- channel_converter_unsigned_integral_nondivisible<S,D,false,*>: the `double` path, IEEE operations as coded:
    div = srcMax / double(dstMax); div2 = src_integer_t(div / 2.0); dst_integer_t(double(src + div2) / div) -/
def downNondiv (sc dc : Cls) (s sm dm : Int) : Int :=
  let div : Float := Float.ofInt sm / Float.ofInt dm
  let div2 : Int := Int.ofNat ((div / 2.0).toUInt64.toNat % 2 ^ sc.maxBits)
  let sum : Int := addCarrier sc (s + div2)
  let q : Float := Float.ofInt sum / div
  let r : Int := Int.ofNat (q.toUInt64.toNat % 2 ^ dc.maxBits)
  r % 2 ^ dc.baseBits

/-- the exact-arithmetic reading of the same path: ⌊(s + ⌊sm/(2 dm)⌋) * dm / sm⌋ (used by the partial theorems) -/
def downNondivExact (s sm dm : Int) : Int := (s + sm / (2 * dm)) * dm / sm

/-- the packed_channel_value constructor masks; built-in types were already narrowed by the kernel -/
def maskTo (d : Ch) (r : Int) : Int :=
  match d with
  | .packed n => r % 2 ^ n
  | _ => r

/-- which body the templates select for unsigned integral S ≠ D -/
inductive Path where | identity | upDiv | upNondiv | downDiv | downNondiv
  deriving Repr, DecidableEq

def path (S D : Ch) : Path :=
  if S = D then .identity
  else if S.umax < D.umax then (if D.umax % S.umax = 0 then .upDiv else .upNondiv)
  else (if S.umax % D.umax = 0 then .downDiv else .downNondiv)

/-- channel_converter_unsigned<S,D> for unsigned integral models S, D -/
def convU (S D : Ch) (s : Int) : Int :=
  let sm := S.umax; let dm := D.umax
  match path S D with
  | .identity => s
  | .upDiv => maskTo D ((upDiv S.cls D.cls s sm dm).getD (-1))
  | .upNondiv => maskTo D ((upNondiv S.cls D.cls s sm dm).getD (-1))
  | .downDiv => maskTo D ((downDiv S.cls D.cls s sm dm).getD (-1))
  | .downNondiv => maskTo D (downNondiv S.cls D.cls s sm dm)

def toUnsigned : Ch → Int → Int
  | .i8, v => to_unsigned_i8 v | .i16, v => to_unsigned_i16 v | .i32, v => to_unsigned_i32 v | _, v => v
def fromUnsigned : Ch → Int → Int
  | .i8, v => from_unsigned_i8 v | .i16, v => from_unsigned_i16 v | .i32, v => from_unsigned_i32 v | _, v => v

/-! ### float32 paths (values are IEEE-754 binary32 bit patterns) -/

def f32 (bits : Int) : Float32 := Float32.ofBits bits.toNat.toUInt32
def bitsOf (x : Float32) : Int := Int.ofNat x.toBits.toNat
def f32OfInt (v : Int) : Float32 := v.toNat.toUInt32.toFloat32      -- (float)x of an unsigned 32-bit value

/-- channel_converter_unsigned<float32_t, D>, D unsigned integral -/
def fromFloat (D : Ch) (x : Float32) : Int :=
  match D with
  | .u32 =>
    if x ≥ 1 then 4294967295
    else Int.ofNat (x * f32OfInt 4294967295 + 0.5).toUInt32.toNat
  | _ =>
    -- DstChannelV(dst_integer_t(x * max + 0.5f))
    let t : Int := Int.ofNat ((x * f32OfInt D.umax + 0.5).toUInt64.toNat % 2 ^ D.cls.maxBits)
    maskTo D (t % 2 ^ D.cls.baseBits)

/-- channel_converter_unsigned<S, float32_t>, S unsigned integral -/
def toFloat (S : Ch) (s : Int) : Float32 :=
  match S with
  | .u32 => if s ≥ 4294967295 then 1 else f32OfInt s / f32OfInt 4294967295
  | _ => f32OfInt s / f32OfInt S.umax

/-- channel_convert<D>(S value); integral values as integers, float32 values as bit patterns -/
def conv (S D : Ch) (s : Int) : Int :=
  match S.isFloat, D.isFloat with
  | true, true => s
  | true, false => fromUnsigned D (fromFloat D.unsignedOf (f32 s))
  | false, true => bitsOf (toFloat S.unsignedOf (toUnsigned S s))
  | false, false => fromUnsigned D (convU S.unsignedOf D.unsignedOf (toUnsigned S s))

/-! ### Spec (what the property demands), evaluated by `judge` on implementation output -/

/-- position of a channel value inside its range as a `Float` in [0,1] (float32 values are exact in binary64) -/
def unitPos (c : Ch) (v : Int) : Float :=
  if c.isFloat then (f32 v).toFloat else Float.ofInt (v - c.minV) / Float.ofInt (c.maxV - c.minV)

/-- Spec clauses for one conversion `r = channel_convert<D>(s)`; `none` = satisfied -/
def convSpec (S D : Ch) (s r : Int) : Option String :=
  let inRange : Bool :=
    if D.isFloat then ((f32 r).toFloat ≥ 0 && (f32 r).toFloat ≤ 1) else decide (D.minV ≤ r ∧ r ≤ D.maxV)
  let isMin (c : Ch) (v : Int) : Bool := if c.isFloat then (f32 v).toFloat == 0 else v == c.minV
  let isMax (c : Ch) (v : Int) : Bool := if c.isFloat then (f32 v).toFloat == 1 else v == c.maxV
  if !inRange then some "range"
  else if isMin S s && !isMin D r then some "min-to-min"
  else if isMax S s && !isMax D r then some "max-to-max"
  else if S = D ∧ r ≠ s then some "identity"
  else
    let within : Bool :=
      if !S.isFloat && !D.isFloat then
        -- |(r-dmin)*srange - (s-smin)*drange| < srange  (+ float32 precision when a 32-bit channel is involved)
        let sr := S.maxV - S.minV; let dr := D.maxV - D.minV
        let e := ((r - D.minV) * sr - (s - S.minV) * dr).natAbs
        let slack : Nat := if S.is32 || D.is32 then (sr * dr / 8388608).toNat else 0
        decide (e < sr.toNat + slack)
      else if D.isFloat then
        Float.abs ((f32 r).toFloat - unitPos S s) ≤ 2.384185791015625e-7      -- 2^-22
      else
        let dr := Float.ofInt (D.maxV - D.minV)
        Float.abs (Float.ofInt (r - D.minV) - unitPos S s * dr) < 1.0 + dr * 2.384185791015625e-7
    if !within then some "within-one-unit" else none

def levels (c : Ch) : Int := c.maxV - c.minV + 1

/-- round trip clause: integral S, D with at least as many destination levels -/
def roundTripApplies (S D : Ch) : Bool := !S.isFloat && !D.isFloat && decide (levels S ≤ levels D)

def monotone : List Int → Bool
  | a :: b :: rest => a ≤ b && monotone (b :: rest)
  | _ => true

end GilVerif.Model.C06
