/-
  C01 -- model of where an image's pixels live relative to the buffer it obtained from its
  allocator, and which bytes an access to a pixel touches.

  The size arithmetic (`align`, `get_row_size_in_memunits`, `total_allocated_size_in_bytes` for the
  interleaved and the planar case) and the number of bytes a bit-aligned channel access copies
  (`packed_dynamic_channel_reference::data_size`) are the *generated* definitions of Gen/C01.lean.
  This file adds how `allocate_` / `create_view` place the first pixel (aligned up from the
  allocator's address `m`), the plane offsets of planar images, and the byte footprint of a pixel
  access for each pixel organisation.
-/
import GilVerif.Basic.Geom
import GilVerif.Gen.C01
import GilVerif.Model.C02

namespace GilVerif.Model.C01
open GilVerif.Geom GilVerif.Gen.C01

/-- pixel organisation of an `image<Pixel, IsPlanar>` -/
structure Org where
  b2m : Int                  -- byte_to_memunit<x_iterator>: 1 (byte addressed) or 8 (bit-aligned)
  mstep : Int                -- memunit_step(x_iterator()): pixel size in memory units (planar: channel size)
  planar : Bool
  nch : Int                  -- channels (= planes when planar)
  chans : List (Int × Int)   -- bit-aligned: (bit offset inside the pixel, width) of each channel
  fieldBytes : Int           -- bit-aligned: sizeof(BitField)
  deriving Repr, DecidableEq, Inhabited

/-- row size in memory units -/
def rowUnits (o : Org) (w a : Int) : Int := row_size_in_memunits w o.mstep o.b2m a

/-- bytes requested from the allocator -/
def allocBytes (o : Org) (w h a : Int) : Int :=
  if o.planar then total_bytes_planar w h o.mstep o.b2m a o.nch else total_bytes_interleaved w h o.mstep o.b2m a o.nch

/-- `allocate_` / `create_view`: the first pixel is at `align(_memory, a)` when `a > 0`, at `_memory`
    otherwise; offset of the first pixel from the allocator's address `m`, in bytes -/
def originOff (m a : Int) : Int := if a > 0 then align m a - m else 0

/-- the image's view in memory units relative to the allocation start (planar: plane 0) -/
def imageView (o : Org) (w h a m : Int) : View :=
  { base := originOff m a * o.b2m, xs := o.mstep, ys := rowUnits o w a, w := w, h := h }

/-- byte intervals `(start, length)` relative to the allocation start touched by reading or writing
    the pixel whose memory-unit address (relative to the allocation start; planar: in plane 0) is `p`:
    interleaved / packed: the pixel's bytes; planar: the channel's bytes in every plane (plane k
    starts `planeOff k` units after plane 0); bit-aligned: for every channel the bytes its
    `packed_dynamic_channel_reference` copies, starting at the byte of the pixel's first bit -/
def footprintF (o : Org) (planeOff : Int → Int) (p : Int) : List (Int × Int) :=
  if o.b2m = 8 then
    o.chans.map fun (co, cw) => (p / 8, chan_data_size (p % 8 + co) cw o.fieldBytes)
  else if o.planar then
    (List.range o.nch.toNat).map fun (k : Nat) => (p + planeOff (k : Int), o.mstep)
  else [(p, o.mstep)]

/-- the same with equidistant planes (plane k starts `k * planeUnits` units after plane 0) -/
def footprint (o : Org) (planeUnits : Int) (p : Int) : List (Int × Int) := footprintF o (fun k => k * planeUnits) p

/-- all intervals lie inside `[0, n)` -/
def within (n : Int) (iv : List (Int × Int)) : Prop := ∀ q ∈ iv, 0 ≤ q.1 ∧ q.1 + q.2 ≤ n

instance (n : Int) (iv : List (Int × Int)) : Decidable (within n iv) := by unfold within; exact inferInstance

/-- what bit-aligned channel access copied before c04bc05: always `sizeof(BitField)` bytes -/
def footprintOld (o : Org) (p : Int) : List (Int × Int) := o.chans.map fun _ => (p / 8, o.fieldBytes)

/-! ### placement by `allocate_` / `create_view`, and `recreate`

The bodies of `allocate_` and `create_view` (both `IsPlanar` variants) and of the four `recreate`
overloads are *generated* (Gen/C01.lean): where the first pixel goes (`tmp`), the row size handed to
the locator, the offset of plane `i`, the dimensions of `_view`, the bytes requested, and which
branch `recreate` takes.  Here they are composed into an image state. -/

/-- 2^63: `std::ptrdiff_t` holds values below this -/
def PZ : Int := 9223372036854775808

/-- the organisations the library provides: byte-addressed (interleaved / packed / planar) or
    bit-aligned with channels inside the pixel -/
def Org.WF (o : Org) : Prop :=
  0 < o.mstep ∧ 0 ≤ o.nch ∧
  (o.b2m = 1 ∨ (o.b2m = 8 ∧ o.planar = false ∧ (∀ c ∈ o.chans, 0 ≤ c.1 ∧ 0 < c.2 ∧ c.1 + c.2 ≤ o.mstep) ∧ o.mstep < 4294967000))

/-- no `std::size_t` / `std::ptrdiff_t` overflow in the size arithmetic for a `w x h` image with
    alignment `a` whose storage is at address `m` -/
def NoOvf (o : Org) (w h a m : Int) : Prop :=
  0 ≤ w ∧ 0 ≤ h ∧ 0 ≤ a ∧ 0 ≤ m ∧ w * o.mstep + a * o.b2m + m < PZ
  ∧ rowUnits o w a * h + h + o.b2m + a < PZ
  ∧ (o.planar = true → rowUnits o w a * h * o.nch + rowUnits o w a * h + h + 1 + a < PZ)

instance (o : Org) : Decidable o.WF := by unfold Org.WF; exact inferInstance
instance (o : Org) (w h a m : Int) : Decidable (NoOvf o w h a m) := by unfold NoOvf; exact inferInstance

/-- what `allocate_` / `create_view` leave behind -/
structure Placed where
  allocated : Int     -- _allocated_bytes
  mem : Int           -- _memory
  tmp : Int           -- address of the first pixel (plane 0)
  row : Int           -- row size handed to the locator
  vw : Int            -- _view.width()
  vh : Int            -- _view.height()
  deriving Repr, DecidableEq, Inhabited

/-- state of an `image`: `_memory` (address; 0 = nullptr), `_allocated_bytes`, `_align_in_bytes`,
    `_view` (memory units relative to `_memory`) and, for planar images, the offset of plane k from plane 0 -/
structure Img where
  mem : Int
  allocated : Int
  a : Int
  view : View
  plane : Int → Int

/-- an image before `allocate_`: no storage, default-constructed view -/
def Img.empty (o : Org) (a : Int) : Img := { mem := 0, allocated := 0, a := a, view := ⟨0, o.mstep, 0, 0, 0⟩, plane := fun _ => 0 }

/-- the generated `create_view` body evaluated on the storage at `mem` (plane index `i`) -/
def createViewK (o : Org) (mem w h a i : Int) : Placed × Int :=
  if o.planar then
    let r := create_view_planar w h o.mstep o.b2m a o.nch mem i 0 0 0 0 0
    (⟨0, mem, r.1, r.2.2.1, r.2.2.2.1, r.2.2.2.2⟩, r.2.1)
  else
    let r := create_view_interleaved w h o.mstep o.b2m a o.nch mem 0 0 0 0
    (⟨0, mem, r.1, r.2.1, r.2.2.1, r.2.2.2⟩, 0)

/-- the generated `allocate_` body; `addr n` is what the allocator returns for a request of `n` bytes -/
def allocateK (o : Org) (addr : Int → Int) (w h a i : Int) : Placed × Int :=
  if o.planar then
    let n := (allocate_planar w h o.mstep o.b2m a o.nch 0 0 0 i 0 0 0 0 0).1
    let r := allocate_planar w h o.mstep o.b2m a o.nch 0 (addr n) 0 i 0 0 0 0 0
    (⟨r.1, r.2.1, r.2.2.1, r.2.2.2.2.1, r.2.2.2.2.2.1, r.2.2.2.2.2.2⟩, r.2.2.2.1)
  else
    let n := (allocate_interleaved w h o.mstep o.b2m a o.nch 0 0 0 0 0 0 0).1
    let r := allocate_interleaved w h o.mstep o.b2m a o.nch 0 (addr n) 0 0 0 0 0
    (⟨r.1, r.2.1, r.2.2.1, r.2.2.2.1, r.2.2.2.2.1, r.2.2.2.2.2⟩, 0)

/-- `_view = view_t(dims, locator(x_iterator(tmp), row))`, relative to `_memory` -/
def Placed.view (o : Org) (p : Placed) : View :=
  { base := (p.tmp - p.mem) * o.b2m, xs := o.mstep, ys := p.row, w := p.vw, h := p.vh }

/-- `image(w, h, alignment)`: `allocate_` on an empty image (since 42a1d3b a request of 0 bytes still builds the view, with the
    requested dimensions, over the null `_memory`) -/
def allocate (o : Org) (addr : Int → Int) (w h a : Int) : Img :=
  let p := (allocateK o addr w h a 0).1
  { mem := p.mem, allocated := p.allocated, a := a, view := p.view o, plane := fun k => (allocateK o addr w h a k).2 }

inductive Overload where
  | dims | dimsFill | dimsAlloc | dimsFillAlloc
  deriving Repr, DecidableEq, Inhabited

/-- the generated body of the chosen `recreate` overload: (new `_align_in_bytes`, branch) -/
def recreateK (o : Org) (ov : Overload) (s : Img) (w h a : Int) (allocEq : Bool) : Int × Int :=
  let e : Int := if allocEq then 1 else 0
  match o.planar, ov with
  | false, .dims => recreate_dims_interleaved w h a s.view.w s.view.h o.mstep o.b2m s.a o.nch s.allocated e 0
  | false, .dimsFill => recreate_dims_fill_interleaved w h a s.view.w s.view.h o.mstep o.b2m s.a o.nch s.allocated e 0
  | false, .dimsAlloc => recreate_dims_alloc_interleaved w h a s.view.w s.view.h o.mstep o.b2m s.a o.nch s.allocated e 0
  | false, .dimsFillAlloc => recreate_dims_fill_alloc_interleaved w h a s.view.w s.view.h o.mstep o.b2m s.a o.nch s.allocated e 0
  | true, .dims => recreate_dims_planar w h a s.view.w s.view.h o.mstep o.b2m s.a o.nch s.allocated e 0
  | true, .dimsFill => recreate_dims_fill_planar w h a s.view.w s.view.h o.mstep o.b2m s.a o.nch s.allocated e 0
  | true, .dimsAlloc => recreate_dims_alloc_planar w h a s.view.w s.view.h o.mstep o.b2m s.a o.nch s.allocated e 0
  | true, .dimsFillAlloc => recreate_dims_fill_alloc_planar w h a s.view.w s.view.h o.mstep o.b2m s.a o.nch s.allocated e 0

structure Call where
  ov : Overload
  w : Int
  h : Int
  a : Int
  allocEq : Bool := true     -- `alloc_in == _alloc` (overloads taking an allocator)
  deriving Repr, DecidableEq, Inhabited

/-- `img.recreate(w, h, a)`: branch 0 leaves the image alone, branch 1 lays a new view over the old
    storage (`create_view`), branch 2 replaces the image by a new one (`fresh`, the old storage is released) -/
def recreate (o : Org) (fresh : Call → Img) (s : Img) (c : Call) : Img :=
  let r := recreateK o c.ov s c.w c.h c.a c.allocEq
  if r.2 = 0 then s
  else if r.2 = 1 then
    { s with a := r.1, view := (createViewK o s.mem c.w c.h r.1 0).1.view o, plane := fun k => (createViewK o s.mem c.w c.h r.1 k).2 }
  else fresh c

/-- `image(const image& img)`: `allocate_and_copy(img.dimensions(), …)` with `img`'s alignment (generated initialiser and body;
    `allocate_and_copy` = `allocate_` + `uninitialized_copy_pixels`) -/
def copyConstruct (o : Org) (addr : Int → Int) (src : Img) : Img :=
  let d := copy_ctor_dims src.view.w src.view.h 0 0
  allocate o addr d.1 d.2 (copy_ctor_align src.a)

/-- `dst = src` (copy assignment): equal dimensions -> `copy_pixels` into `dst`'s storage (state unchanged);
    otherwise `image tmp(src); swap(tmp)` -- `dst` becomes the fresh copy (with `src`'s alignment) -/
def assign (o : Org) (addr : Int → Int) (dst src : Img) : Img :=
  if assign_branch dst.view.w dst.view.h src.view.w src.view.h 0 = 0 then dst else copyConstruct o addr src

def recreateAll (o : Org) (fresh : Call → Img) (s : Img) (cs : List Call) : Img := cs.foldl (recreate o fresh) s

/-- every call of the list keeps the storage (branch 0 or 1) and its size arithmetic does not overflow -/
def ReuseOK (o : Org) (fresh : Call → Img) : Img → List Call → Prop
  | _, [] => True
  | s, c :: cs => NoOvf o c.w c.h c.a s.mem ∧ (recreateK o c.ov s c.w c.h c.a c.allocEq).2 ≠ 2 ∧ ReuseOK o fresh (recreate o fresh s c) cs

def decReuseOK (o : Org) (fresh : Call → Img) : (s : Img) → (cs : List Call) → Decidable (ReuseOK o fresh s cs)
  | _, [] => isTrue trivial
  | s, c :: cs =>
    match (inferInstance : Decidable (NoOvf o c.w c.h c.a s.mem)),
          (inferInstance : Decidable ((recreateK o c.ov s c.w c.h c.a c.allocEq).2 ≠ 2)), decReuseOK o fresh (recreate o fresh s c) cs with
    | isTrue h1, isTrue h2, isTrue h3 => isTrue ⟨h1, h2, h3⟩
    | isFalse h1, _, _ => isFalse (fun h => h1 h.1)
    | _, isFalse h2, _ => isFalse (fun h => h2 h.2.1)
    | _, _, isFalse h3 => isFalse (fun h => h3 h.2.2)

instance (o : Org) (fresh : Call → Img) (s : Img) (cs : List Call) : Decidable (ReuseOK o fresh s cs) := decReuseOK o fresh s cs

/-- the size arithmetic of every call fits, both over the storage the image has then and for the block a reallocation would obtain -/
def CallsOK (o : Org) (addr : Int → Int) : Img → List Call → Prop
  | _, [] => True
  | s, c :: cs => NoOvf o c.w c.h c.a s.mem ∧ NoOvf o c.w c.h c.a (addr (allocBytes o c.w c.h c.a))
      ∧ CallsOK o addr (recreate o (fun c => allocate o addr c.w c.h c.a) s c) cs

/-- **Spec**: every in-range pixel of every view derived from the image's view by a valid list of
    transformations touches only bytes inside `[0, _allocated_bytes)` of the image's storage -/
def Img.InBounds (o : Org) (s : Img) : Prop :=
  ∀ (ts : List Xform) (x y : Int), validAll ts s.view → (GilVerif.Model.C02.applyMemAll ts s.view).InRange x y →
    within s.allocated (footprintF o s.plane ((GilVerif.Model.C02.applyMemAll ts s.view).addr x y))

end GilVerif.Model.C01
