/-
  C01 -- model of where an image's pixels live relative to the buffer it obtained from its
  allocator, and which bytes an access to a pixel touches.

  The size arithmetic (`align`, `get_row_size_in_memunits`, `total_allocated_size_in_bytes` for the
  interleaved and the planar case) and the number of bytes a bit-aligned channel access copies
  (`packed_dynamic_channel_reference::data_size`) are the *generated* definitions of Gen/C01.lean.
  This file adds how `allocate_` / `create_view` place the first pixel (aligned up from the
  allocator's address `m`), the plane offsets of planar images, and the byte footprint of a pixel
  access for each pixel organisation.
-/
import GilVerif.Basic.Geom
import GilVerif.Gen.C01

namespace GilVerif.Model.C01
open GilVerif.Geom GilVerif.Gen.C01

/-- pixel organisation of an `image<Pixel, IsPlanar>` -/
structure Org where
  b2m : Int                  -- byte_to_memunit<x_iterator>: 1 (byte addressed) or 8 (bit-aligned)
  mstep : Int                -- memunit_step(x_iterator()): pixel size in memory units (planar: channel size)
  planar : Bool
  nch : Int                  -- channels (= planes when planar)
  chans : List (Int × Int)   -- bit-aligned: (bit offset inside the pixel, width) of each channel
  fieldBytes : Int           -- bit-aligned: sizeof(BitField)
  deriving Repr, DecidableEq, Inhabited

/-- row size in memory units -/
def rowUnits (o : Org) (w a : Int) : Int := row_size_in_memunits w o.mstep o.b2m a

/-- bytes requested from the allocator -/
def allocBytes (o : Org) (w h a : Int) : Int :=
  if o.planar then total_bytes_planar w h o.mstep o.b2m a o.nch else total_bytes_interleaved w h o.mstep o.b2m a o.nch

/-- `allocate_` / `create_view`: the first pixel is at `align(_memory, a)` when `a > 0`, at `_memory`
    otherwise; offset of the first pixel from the allocator's address `m`, in bytes -/
def originOff (m a : Int) : Int := if a > 0 then align m a - m else 0

/-- the image's view in memory units relative to the allocation start (planar: plane 0) -/
def imageView (o : Org) (w h a m : Int) : View :=
  { base := originOff m a * o.b2m, xs := o.mstep, ys := rowUnits o w a, w := w, h := h }

/-- byte intervals `(start, length)` relative to the allocation start touched by reading or writing
    the pixel whose memory-unit address (relative to the allocation start; planar: in plane 0) is `p`:
    interleaved / packed: the pixel's bytes; planar: the channel's bytes in every plane (plane k
    starts `k * row * h` units further); bit-aligned: for every channel the bytes its
    `packed_dynamic_channel_reference` copies, starting at the byte of the pixel's first bit -/
def footprint (o : Org) (planeUnits : Int) (p : Int) : List (Int × Int) :=
  if o.b2m = 8 then
    o.chans.map fun (co, cw) => (p / 8, chan_data_size (p % 8 + co) cw o.fieldBytes)
  else if o.planar then
    (List.range o.nch.toNat).map fun (k : Nat) => (p + (k : Int) * planeUnits, o.mstep)
  else [(p, o.mstep)]

/-- all intervals lie inside `[0, n)` -/
def within (n : Int) (iv : List (Int × Int)) : Prop := ∀ q ∈ iv, 0 ≤ q.1 ∧ q.1 + q.2 ≤ n

instance (n : Int) (iv : List (Int × Int)) : Decidable (within n iv) := by unfold within; exact inferInstance

/-- what bit-aligned channel access copied before c04bc05: always `sizeof(BitField)` bytes -/
def footprintOld (o : Org) (p : Int) : List (Int × Int) := o.chans.map fun _ => (p / 8, o.fieldBytes)

end GilVerif.Model.C01
