/-
  C10 -- image<Pixel,IsPlanar,Alloc> as a state machine over an allocator event log.

  The model follows include/boost/gil/image.hpp member by member (constructors, copy / converting
  copy, move constructor, operator=, move assignment with its choose_pocma branches, swap, the recreate
  overloads with the early return / reuse / temp+swap branches, destructor) and the element life time
  helpers of algorithm.hpp (default_construct_pixels, uninitialized_fill_pixels,
  uninitialized_copy_pixels, destruct_pixels) with their catch(...) roll-backs, under fault injection
  (the k-th allocation / the k-th element construction of a history throws).

  The allocation size formulas are NOT written here: they are the generated definitions of
  Gen/C10.lean (translated from image.hpp / utilities.hpp on every run).

  Core Lean only (this file is linked into the native driver).
-/
import GilVerif.Gen.C10

namespace GilVerif.Model.C10
open GilVerif.Gen.C10

/-! ### pixel organisation = the template parameters the size formulas depend on -/

structure Org where
  mstep : Nat        -- memunit_step(x_iterator): memory units per pixel (bytes; bits if bit-aligned; channel bytes if planar)
  b2m : Nat          -- byte_to_memunit: 1, or 8 for bit-aligned images
  chans : Nat        -- channels_in_image
  planar : Bool
  nontrivial : Bool  -- element type has non-trivial constructors / destructor (they are counted and may throw)
  pixel : Bool       -- element is a pixel (image(view, ...) is constrained on pixels_are_compatible)
  fillBroken : Bool := false  -- uninitialized_fill_pixels does not write through this organisation's iterators
                              -- (bit-aligned: std::uninitialized_fill placement-constructs a temporary proxy reference)
  deriving Repr, DecidableEq

/-- counted element objects per pixel: a planar image of a non-trivial channel type constructs every channel of every pixel separately -/
def Org.epp (o : Org) : Nat := if o.planar then o.chans else 1

def Org.rowSize (o : Org) (al w : Nat) : Nat := (row_size w al o.mstep o.b2m).toNat

/-- total_allocated_size_in_bytes for this organisation -/
def Org.needed (o : Org) (al w h : Nat) : Nat :=
  (if o.planar then total_bytes_planar w h al o.mstep o.b2m o.chans
   else total_bytes_interleaved w h al o.mstep o.b2m o.chans).toNat

/-- `(_align_in_bytes > 0) ? align(_memory, _align_in_bytes) : _memory`, as an offset from `_memory` -/
def alignOff (addr al : Nat) : Nat := if al > 0 then (align addr al).toNat - addr else 0

/-! ### allocator configuration -/

structure Cfg where
  pocma : Bool          -- propagate_on_container_move_assignment
  pocs : Bool           -- propagate_on_container_swap
  empty : Bool          -- std::is_empty<Alloc> (always-equal, choose_pocma = true)
  ntags : Nat           -- number of distinct allocator values the harness can make (pmr: 3 resources); 0 = unbounded
  ndebug : Bool         -- BOOST_ASSERT compiled out
  org : Org             -- slots 0..3
  porg : Option Org     -- slots 4,5 (partner organisation for converting copies), if any
  /-- does `a = std::move(b)` compile for a non-pixel element with a non-propagating allocator?  (known finding:
      the view constructor used by move_assign since 55a8c0c is constrained on pixels_are_compatible) -/
  elemMoveCompiles : Bool := false
  /-- source-selected variant of allocate_: when no byte is needed (w x 0 / 0 x h image), does it still build a view of the requested
      dimensions (proposed_fixes/C10-degenerate-image-dimensions.diff), or return before touching _view (image reports 0x0)? -/
  keepDims : Bool := false
  /-- source-selected variant of move_assign(no_propagate), branch "source owns no storage": does the target take over the source's
      dimensions (proposed_fixes/C10-move-assign-degenerate-source.diff), or is it reset to 0x0? -/
  moveKeepsDims : Bool := false
  deriving Repr

def Cfg.tagOf (c : Cfg) (t : Nat) : Nat := if c.empty then 0 else if c.ntags = 0 then t else t % c.ntags
/-- the tag of a default constructed allocator `Alloc()` -/
def Cfg.defaultTag (_ : Cfg) : Nat := 0
def Cfg.orgOf (c : Cfg) (s : Nat) : Option Org := if s < 4 then some c.org else if s < 6 then c.porg else none
/-- choose_pocma<allocator_type> -/
def Cfg.movePropagates (c : Cfg) : Bool := c.empty || c.pocma

/-! ### the world: heap of allocations (ghost), event log, image slots, element counters, fault counters -/

inductive Event where
  | alloc (id size tag : Nat)
  | dealloc (id size tag : Nat)
  deriving Repr, DecidableEq

structure Block where
  size : Nat
  tag : Nat
  freed : Nat := 0       -- number of deallocate calls that named this block
  bad : Bool := false    -- some deallocate named it with another size or through another allocator
  cons : Nat := 0        -- elements currently constructed inside
  over : Bool := false   -- a destructor ran on an element that was not constructed
  leaked : Bool := false -- deallocated while elements were still constructed
  deriving Repr, DecidableEq

structure Img where
  mem : Option Nat       -- _memory: id of the block, none = nullptr
  allocated : Nat        -- _allocated_bytes
  align : Nat            -- _align_in_bytes
  tag : Nat              -- _alloc
  w : Nat                -- _view.dimensions()
  h : Nat
  off : Nat              -- _view: byte offset of the first pixel from _memory
  row : Nat              -- _view: row size in memory units
  pix : List Nat         -- pixel values, row major (values the harness wrote)
  deriving Repr, DecidableEq

def Img.fresh (al tag : Nat) : Img := ⟨none, 0, al, tag, 0, 0, 0, 0, []⟩

inductive Outcome where
  | ok | badAlloc | ctorThrow | assertFail (site : String) | nocompile | skip
  | okFilled | okUnfilled      -- result of the fill probe
  deriving Repr, DecidableEq

structure World where
  heap : List Block := []
  log : List Event := []          -- newest first
  imgs : Nat → Option Img := fun _ => none
  ctor : Nat := 0
  dtor : Nat := 0
  failA : Option Nat := none      -- some k: k more allocations succeed, the next one throws
  failC : Option Nat := none      -- some k: k more element constructions succeed, the next one throws
  ub : Bool := false              -- an element was constructed / destroyed through a null _memory

def World.setImg (w : World) (s : Nat) (i : Option Img) : World :=
  { w with imgs := fun x => if x = s then i else w.imgs x }

/-- `_alloc.allocate(n)` -/
def World.alloc (w : World) (tag n : Nat) : World × Option Nat :=
  match w.failA with
  | some 0 => ({ w with failA := none }, none)
  | fa => ({ w with heap := w.heap ++ [{ size := n, tag := tag }], log := Event.alloc w.heap.length n tag :: w.log,
                    failA := fa.map (· - 1) }, some w.heap.length)

/-- `_alloc.deallocate(p, n)` through an allocator with tag `tag` -/
def World.dealloc (w : World) (b n tag : Nat) : World :=
  { w with log := Event.dealloc b n tag :: w.log,
           heap := match w.heap[b]? with
             | some blk => w.heap.set b { blk with freed := blk.freed + 1,
                                                   bad := blk.bad || (blk.size != n) || (blk.tag != tag) || (blk.freed != 0),
                                                   leaked := blk.leaked || (blk.cons != 0) }
             -- a deallocate that names no block at all is recorded as a bad pseudo block (never happens: `_memory` only ever holds ids
             -- returned by `alloc`; the invariant's "no bad block" covers it)
             | none => w.heap ++ [{ size := n, tag := tag, freed := 1, bad := true }] }

/-- ghost: `n` more elements are constructed inside block `b` -/
def World.grow (w : World) (b : Option Nat) (n : Nat) : World :=
  match b with
  | some b => { w with heap := match w.heap[b]? with
                               | some blk => w.heap.set b { blk with cons := blk.cons + n }
                               | none => w.heap }
  | none => if n = 0 then w else { w with ub := true }

/-- construct `n` elements in block `b` (default / fill / copy construction: all counted alike; `o.epp` element objects per pixel).
    Returns false if the fault fired: the elements built so far have been destroyed again by the
    roll-backs of default_construct_range_impl / std::uninitialized_* / the row loops. -/
def World.construct (w : World) (o : Org) (b : Option Nat) (n : Nat) : World × Bool :=
  if o.nontrivial then
    match w.failC with
    | some k =>
      if k < o.epp * n then ({ w with ctor := w.ctor + k, dtor := w.dtor + k, failC := none }, false)
      else (World.grow { w with ctor := w.ctor + o.epp * n, failC := some (k - o.epp * n) } b n, true)
    | none => (World.grow { w with ctor := w.ctor + o.epp * n } b n, true)
  else (w.grow b n, true)

/-- destruct_pixels(view) for a view of `n` elements inside block `b` -/
def World.destruct (w : World) (o : Org) (b : Option Nat) (n : Nat) : World :=
  let w := if o.nontrivial then { w with dtor := w.dtor + o.epp * n } else w
  match b with
  | some b => { w with heap := match w.heap[b]? with
                               | some blk => w.heap.set b { blk with cons := blk.cons - n, over := blk.over || decide (blk.cons < n) }
                               | none => w.heap }
  | none => if n = 0 then w else { w with ub := true }

/-- the address (mod 64) the harness allocator hands out for block `b` -/
def blockAddr (b : Nat) : Nat := 16 * (b % 4)

/-! ### private members of image -/

/-- `destruct_pixels(_view); deallocate();` -/
def release (o : Org) (w : World) (i : Img) : World :=
  let w := w.destruct o i.mem (i.w * i.h)
  match i.mem with
  | some b => if i.allocated > 0 then w.dealloc b i.allocated i.tag else w
  | none => w

/-- `_view = view_t{}` etc. -/
def Img.cleared (i : Img) : Img := { i with mem := none, allocated := 0, w := 0, h := 0, off := 0, row := 0, pix := [] }

/-- create_view(dims): the view over the existing storage -/
def Img.withView (o : Org) (i : Img) (W H : Nat) : Img :=
  { i with w := W, h := H, row := o.rowSize i.align W,
           off := match i.mem with | some b => alignOff (blockAddr b) i.align | none => 0 }

/-- The three constructor bodies allocate_and_default_construct / allocate_and_fill / allocate_and_copy:
    `try { allocate_(dims); construct } catch (...) { deallocate(); throw; }` into the empty slot `s`.
    `img0` carries the member initialisers (`_align_in_bytes`, `_alloc`); `content` = the pixel values built;
    `src` = dimensions of the source view for allocate_and_copy (uninitialized_copy_pixels asserts equal dimensions). -/
def pCtor (c : Cfg) (o : Org) (w : World) (s : Nat) (img0 : Img) (W H : Nat) (content : List Nat) (src : Option (Nat × Nat)) : World × Outcome :=
  let n := o.needed img0.align W H
  let img0 := { img0 with allocated := n }
  if n = 0 then
    if c.keepDims then
      -- allocate_ builds create_view(dimensions) over the null _memory; the element construction runs over that (empty) view
      match w.construct o none (W * H) with
      | (w, true) => (w.setImg s (some { Img.withView o img0 W H with pix := content }), .ok)
      | (w, false) => (w, .ctorThrow)
    -- allocate_ returns before touching _view: the image is 0x0 whatever was asked for
    else if src.isSome ∧ src ≠ some (0, 0) ∧ !c.ndebug then (w, .assertFail "view1.dimensions()==view2.dimensions()")
    else (w.setImg s (some img0), .ok)
  else
    match w.alloc img0.tag n with
    | (w, none) => (w, .badAlloc)
    | (w, some b) =>
      let img := Img.withView o { img0 with mem := some b } W H
      match w.construct o (some b) (W * H) with
      | (w, true) => (w.setImg s (some { img with pix := content }), .ok)
      | (w, false) => (w.dealloc b n img0.tag, .ctorThrow)

/-- ~image -/
def pDtor (o : Org) (w : World) (s : Nat) : World :=
  match w.imgs s with
  | some i => (release o w i).setImg s none
  | none => w

/-- image::swap -/
def pSwap (c : Cfg) (w : World) (s s2 : Nat) : World × Outcome :=
  match w.imgs s, w.imgs s2 with
  | some a, some b =>
    if c.pocs ∨ a.tag = b.tag then ((w.setImg s (some b)).setImg s2 (some a), .ok)
    else if c.ndebug then
      -- everything but the allocators is exchanged: each image now holds the other's block
      ((w.setImg s (some { b with tag := a.tag })).setImg s2 (some { a with tag := b.tag }), .ok)
    else (w, .assertFail "_alloc==img._alloc")
  | _, _ => (w, .skip)

/-- the reuse branch of recreate: `destruct_pixels(_view); create_view(dims); default_construct_pixels / uninitialized_fill_pixels` -/
def pReuse (o : Org) (w : World) (s : Nat) (W H : Nat) (content : List Nat) : World × Outcome :=
  match w.imgs s with
  | some i =>
    let w := w.destruct o i.mem (i.w * i.h)
    let i := Img.withView o i W H
    match w.construct o i.mem (W * H) with
    | (w, true) => (w.setImg s (some { i with pix := content }), .ok)
    | (w, false) => (w.setImg s (some { i with pix := List.replicate (W * H) 0 }), .ctorThrow)   -- the view already claims W x H elements
  | none => (w, .skip)

/-- `destruct_pixels(_view); deallocate(); [_alloc = img._alloc;] exchange_memory(*this, img)` -/
def pAdopt (o : Org) (w : World) (s s2 : Nat) (takeAlloc : Bool) : World :=
  match w.imgs s, w.imgs s2 with
  | some a, some b =>
    let w := release o w a
    let a' : Img := { b with tag := if takeAlloc then b.tag else a.tag }
    (w.setImg s (some a')).setImg s2 (some { b.cleared with align := 0 })
  | _, _ => w

/-- `destruct_pixels(_view); deallocate(); _memory = nullptr; _allocated_bytes = 0; _view = view_t{}` -/
def pRelease (o : Org) (w : World) (s : Nat) : World :=
  match w.imgs s with
  | some a => (release o w a).setImg s (some a.cleared)
  | none => w

/-- move_assign, unequal allocators, source without storage (patched variant): release own storage, build a view of the source's dimensions
    over the null _memory, reset the source's view -/
def pTakeDims (o : Org) (w : World) (s s2 : Nat) : World :=
  match w.imgs s, w.imgs s2 with
  | some a, some b =>
    let w := release o w a
    (w.setImg s (some (Img.withView o a.cleared b.w b.h))).setImg s2 (some { b with w := 0, h := 0, off := 0, row := 0, pix := [] })
  | _, _ => w

/-- slot used for the temporaries `image tmp(...)` -/
def tmpSlot : Nat := 6

def andThen (r : World × Outcome) (k : World → World × Outcome) : World × Outcome :=
  match r.2 with
  | .ok => k r.1
  | _ => r

/-- `image tmp(...); swap(tmp);` and the destructor of tmp at the end of the scope -/
def swapWithTmp (c : Cfg) (o : Org) (r : World × Outcome) (s : Nat) : World × Outcome :=
  andThen r fun w =>
    match pSwap c w s tmpSlot with
    | (w', .assertFail x) => (w', .assertFail x)      -- the process stops inside swap
    | (w', _) => (pDtor o w' tmpSlot, .ok)            -- end of scope: ~tmp

/-! ### the public operations -/

inductive Op where
  | dflt (s t al : Nat)
  | dims (s t al w h v : Nat)
  | fill (s t al w h v : Nat)
  | fillprobe (s t al w h v : Nat)
  | fromview (s t al s2 : Nat)
  | copy (s s2 : Nat)            -- also the converting copy constructor (slots of different organisation)
  | move (s s2 : Nat)
  | assign (s s2 : Nat)          -- also the converting assignment
  | massign (s s2 : Nat)
  | swap (s s2 : Nat)
  | recreate (s w h al : Nat) (fill : Option Nat) (alloc : Option Nat) (v : Nat)
  | write (s x y v : Nat)
  | destroy (s : Nat)
  | stop                         -- end of the history: destroy every slot
  | bad
  deriving Repr, DecidableEq

def userFill (w : World) (s v : Nat) : World :=
  match w.imgs s with
  | some i => w.setImg s (some { i with pix := List.replicate (i.w * i.h) v })
  | none => w

/-- `alloc_in == _alloc` (recreate overloads with an allocator), true for the overloads without -/
def sameAlloc (c : Cfg) (alloc : Option Nat) (tag : Nat) : Bool :=
  match alloc with | some t => c.tagOf t == tag | none => true

/-- allocator of the temporary in recreate: `alloc_in`, or a default constructed `Alloc()` -/
def tmpTag (c : Cfg) (alloc : Option Nat) : Nat :=
  match alloc with | some t => c.tagOf t | none => c.defaultTag

def stepRec (c : Cfg) (o : Org) (w : World) (s W H al : Nat) (fill : Option Nat) (alloc : Option Nat) (v : Nat) : World × Outcome :=
  match w.imgs s with
  | none => (w, .skip)
  | some i =>
    if W = i.w ∧ H = i.h ∧ i.align = al ∧ sameAlloc c alloc i.tag = true then
      (if fill.isNone then userFill w s v else w, .ok)
    else
      let i := { i with align := al }            -- `_align_in_bytes = alignment;` before anything can throw
      let w := w.setImg s (some i)
      let content := List.replicate (W * H) (fill.getD 0)
      let r :=
        if i.allocated ≥ o.needed al W H then pReuse o w s W H content
        else
          swapWithTmp c o (pCtor c o w tmpSlot (Img.fresh al (tmpTag c alloc)) W H content none) s
      andThen r fun w => (if fill.isNone then userFill w s v else w, .ok)

def stepAssign (c : Cfg) (o : Org) (w : World) (s s2 : Nat) : World × Outcome :=
  match w.imgs s, w.imgs s2 with
  | some a, some b =>
    if a.w = b.w ∧ a.h = b.h then (w.setImg s (some { a with pix := b.pix }), .ok)      -- copy_pixels
    else
      -- image tmp(img): the copy constructor takes the SOURCE's allocator and alignment
      swapWithTmp c o (pCtor c o w tmpSlot { Img.fresh b.align b.tag with allocated := b.allocated } b.w b.h b.pix (some (b.w, b.h))) s
  | _, _ => (w, .skip)

def stepMoveAssign (c : Cfg) (o : Org) (w : World) (s s2 : Nat) : World × Outcome :=
  match w.imgs s, w.imgs s2 with
  | some a, some b =>
    if s = s2 then (w, .ok)
    else if c.movePropagates then (pAdopt o w s s2 true, .ok)
    else if !o.pixel ∧ !c.elemMoveCompiles then (w, .nocompile)
    else if a.tag = b.tag then (pAdopt o w s s2 false, .ok)
    else if b.mem.isSome then
      -- image tmp(img._view, _align_in_bytes, _alloc); adopt tmp; release the source
      andThen (pCtor c o w tmpSlot (Img.fresh a.align a.tag) b.w b.h b.pix (some (b.w, b.h))) fun w =>
        let w := pAdopt o w s tmpSlot false
        let w := pRelease o w s2
        (pDtor o w tmpSlot, .ok)
    else if c.moveKeepsDims then (pTakeDims o w s s2, .ok)
    else (pRelease o w s, .ok)
  | _, _ => (w, .skip)

def slots : List Nat := [0, 1, 2, 3, 4, 5]

def step (c : Cfg) (w : World) (op : Op) : World × Outcome :=
  match op with
  | .dflt s t al =>
    match c.orgOf s, w.imgs s with
    | some _, none => (w.setImg s (some (Img.fresh al (c.tagOf t))), .ok)
    | _, _ => (w, .skip)
  | .dims s t al W H v =>
    match c.orgOf s, w.imgs s with
    | some o, none => andThen (pCtor c o w s (Img.fresh al (c.tagOf t)) W H (List.replicate (W * H) 0) none) fun w => (userFill w s v, .ok)
    | _, _ => (w, .skip)
  | .fill s t al W H v =>
    match c.orgOf s, w.imgs s with
    | some o, none => pCtor c o w s (Img.fresh al (c.tagOf t)) W H (List.replicate (W * H) v) none
    | _, _ => (w, .skip)
  | .fillprobe s t al W H v =>
    match c.orgOf s, w.imgs s with
    | some o, none =>
      match pCtor c o w s (Img.fresh al (c.tagOf t)) W H (List.replicate (W * H) v) none with
      | (w, .ok) =>
        (userFill w s v, match w.imgs s with
                         | some i => if o.fillBroken ∧ i.w * i.h > 0 then .okUnfilled else .okFilled
                         | none => .okFilled)
      | r => r
    | _, _ => (w, .skip)
  | .fromview s t al s2 =>
    match c.orgOf s, w.imgs s, w.imgs s2 with
    | some o, none, some b =>
      if o.pixel ∧ c.orgOf s2 = some o then pCtor c o w s (Img.fresh al (c.tagOf t)) b.w b.h b.pix (some (b.w, b.h)) else (w, .skip)
    | _, _, _ => (w, .skip)
  | .copy s s2 =>
    match c.orgOf s, c.orgOf s2, w.imgs s, w.imgs s2 with
    | some o, some _, none, some b => pCtor c o w s { Img.fresh b.align b.tag with allocated := b.allocated } b.w b.h b.pix (some (b.w, b.h))
    | _, _, _, _ => (w, .skip)
  | .move s s2 =>
    match c.orgOf s, w.imgs s, w.imgs s2 with
    | some o, none, some b =>
      if c.orgOf s2 = some o ∧ (s < 4) = (s2 < 4) then ((w.setImg s (some b)).setImg s2 (some { b.cleared with align := 0 }), .ok) else (w, .skip)
    | _, _, _ => (w, .skip)
  | .assign s s2 =>
    match c.orgOf s, c.orgOf s2 with
    | some o, some _ => stepAssign c o w s s2
    | _, _ => (w, .skip)
  | .massign s s2 =>
    match c.orgOf s with
    | some o => if (s < 4) = (s2 < 4) then stepMoveAssign c o w s s2 else (w, .skip)
    | none => (w, .skip)
  | .swap s s2 =>
    match c.orgOf s with
    | some _ => if (s < 4) = (s2 < 4) ∧ s2 < 6 then pSwap c w s s2 else (w, .skip)
    | none => (w, .skip)
  | .recreate s W H al fill alloc v =>
    match c.orgOf s with
    | some o => stepRec c o w s W H al fill alloc v
    | none => (w, .skip)
  | .write s x y v =>
    match c.orgOf s, w.imgs s with
    | some _, some i =>
      if i.w * i.h > 0 then (w.setImg s (some { i with pix := i.pix.set ((y % i.h) * i.w + x % i.w) v }), .ok) else (w, .ok)
    | _, _ => (w, .skip)
  | .destroy s =>
    match c.orgOf s, w.imgs s with
    | some o, some _ => (pDtor o w s, .ok)
    | _, _ => (w, .skip)
  | .stop =>
    (slots.foldl (fun w s => match c.orgOf s with | some o => pDtor o w s | none => w) w, .ok)
  | .bad => (w, .skip)

/-- run a history; stops after an assertion failure (the process is gone) -/
def run (c : Cfg) (w : World) : List Op → World
  | [] => w
  | op :: rest =>
    match step c w op with
    | (w', .assertFail _) => w'
    | (w', _) => run c w' rest

def World.init (fa fc : Option Nat) : World := { failA := fa, failC := fc }

/-! ### the ghost heap is a function of the event log alone -/

/-- what the event log determines about a block -/
structure GBlock where
  size : Nat
  tag : Nat
  freed : Nat
  bad : Bool
  deriving Repr, DecidableEq

/-- apply one logged event to a ghost heap, exactly as `World.alloc` / `World.dealloc` do (an alloc event whose id is not the next
    sequence number marks its block bad) -/
def ghostStep (h : List GBlock) : Event → List GBlock
  | .alloc id n t => h ++ [⟨n, t, 0, id != h.length⟩]
  | .dealloc b n t =>
    match h[b]? with
    | some g => h.set b { g with freed := g.freed + 1, bad := g.bad || (g.size != n) || (g.tag != t) || (g.freed != 0) }
    | none => h ++ [⟨n, t, 1, true⟩]

/-- replay of a log given oldest first -/
def ghostReplay (log : List Event) : List GBlock := log.foldl ghostStep []

def Block.strip (b : Block) : GBlock := ⟨b.size, b.tag, b.freed, b.bad⟩

/-- the model's heap of blocks agrees with the replay of the model's printed log -/
def HeapLog (w : World) : Prop := w.heap.map Block.strip = ghostReplay w.log.reverse

/-! ### Spec-level predicates on the allocator event log (what the property demands of the log) -/

/-- replay of a log (oldest first) on an abstract heap: `none` = the log itself is ill-formed
    (a dealloc that matches no live allocation in id, size and allocator) -/
def replayLog : List Event → List (Nat × Nat × Bool) → Option (List (Nat × Nat × Bool))
  | [], h => some h
  | .alloc id size tag :: rest, h => if id = h.length then replayLog rest (h ++ [(size, tag, true)]) else none
  | .dealloc id size tag :: rest, h =>
    match h[id]? with
    | some (sz, tg, true) => if sz = size ∧ tg = tag then replayLog rest (h.set id (sz, tg, false)) else none
    | _ => none

/-- every dealloc matches an earlier live alloc (same id, size, allocator), nothing is freed twice -/
def logWellFormed (log : List Event) : Bool := (replayLog log.reverse []).isSome
/-- ... and nothing is left allocated -/
def logBalanced (log : List Event) : Bool :=
  match replayLog log.reverse [] with
  | some h => h.all (fun b => !b.2.2)
  | none => false

end GilVerif.Model.C10
