/-
  C18 -- executable model of the toolbox colour spaces.

  hsv and hsl (float32 arithmetic, a few comparisons against double literals) are reproduced with Lean's hardware
  Float32 / Float in the order the C++ performs the operations, so the correspondence is on bit patterns.
  ycbcr_601: rgb -> ycbcr in `double` (Float), ycbcr -> rgb8 by the translated integer formulas (Gen/C18.lean).
  cmyka: the core rgb8 -> cmyk8 (C09's model of it, repeated here) plus alpha, then cmyk -> rgb, alpha = max.
  gray_alpha / gray -> rgba: channel copies and the 8-bit channel_multiply.
  ycbcr_709 likewise (both directions in `double`).
  xyz and lab (powf) are NOT modelled: their ops are judged on the implementation's output only.

  `HsvQ` is the same hsv -> rgb case split over exact rationals, used by the periodicity / grey theorems.
-/
import GilVerif.Gen.C18

namespace GilVerif.Model.C18
open GilVerif.Gen.C18

def f32 (bits : Int) : Float32 := Float32.ofBits bits.toNat.toUInt32
def bitsOf (x : Float32) : Int := Int.ofNat x.toBits.toNat
def f32OfInt (v : Int) : Float32 := v.toNat.toUInt32.toFloat32

/-- channel_convert<float32_t>(uint8_t) and channel_convert<uint8_t>(float32_t) -/
def toF (v : Int) : Float32 := f32OfInt v / f32OfInt 255
def toU8 (x : Float32) : Int := Int.ofNat ((x * f32OfInt 255 + 0.5).toUInt32.toNat % 256)

def fmin (a b : Float32) : Float32 := if b < a then b else a      -- std::min(a,b)
def fmax (a b : Float32) : Float32 := if a < b then b else a      -- std::max(a,b)

/-! ### hsv -/

/-- default_color_converter_impl<rgb_t, hsv_t> on an rgb8 pixel -/
def rgbToHsv (r g b : Int) : Float32 × Float32 × Float32 :=
  let tr := toF r; let tg := toF g; let tb := toF b
  let mn := fmin tr (fmin tg tb)
  let mx := fmax tr (fmax tg tb)
  let diff := mx - mn
  let sat : Float32 := if mx < 0.0001 then 0 else diff / mx
  let hue : Float32 :=
    if sat < 0.0001 then 0
    else
      let h : Float32 :=
        if Float32.abs (tr - mx) < 0.0001 then (tg - tb) / diff
        else if tg ≥ mx then 2 + (tb - tr) / diff
        else 4 + (tr - tg) / diff
      let h := h / 6
      if h < 0 then h + 1 else h
  (hue, sat, mx)

/-- default_color_converter_impl<hsv_t, rgb_t> into an rgb8 pixel -/
def hsvToRgb (h s v : Float32) : Int × Int × Int :=
  let (r, g, b) : Float32 × Float32 × Float32 :=
    if Float32.abs s < 0.0001 then (v, v, v)
    else
      let h6 := h * 6
      let i : UInt32 := (Float32.floor h6).toUInt32
      let frac := h6 - i.toFloat32
      let i := i % 6
      let p := v * (1 - s)
      let q := v * (1 - (s * frac))
      let t := v * (1 - (s * (1 - frac)))
      match i with
      | 0 => (v, t, p) | 1 => (q, v, p) | 2 => (p, v, t) | 3 => (p, q, v) | 4 => (t, p, v) | _ => (v, p, q)
  (toU8 r, toU8 g, toU8 b)

/-! ### hsl -/

def rgbToHsl (r g b : Int) : Float32 × Float32 × Float32 :=
  let tr := toF r; let tg := toF g; let tb := toF b
  let mn := fmin tr (fmin tg tb)
  let mx := fmax tr (fmax tg tb)
  if (Float32.abs (mn - mx)).toFloat < 0.001 then (0, 0, tr)
  else
    let diff := mx - mn
    let sum := mx + mn
    let l := (mn + mx) / 2
    let sat := if l < 0.5 then diff / sum else diff / (2 - sum)
    let sat := if sat > 1 then 1 else sat        -- clamp added by fix 154d970 (float rounding could exceed 1)
    let h : Float32 :=
      if Float32.abs (mx - tr) < 0.0001 then (tg - tb) / diff
      else if Float32.abs (mx - tg) < 0.0001 then 2 + (tb - tr) / diff
      else 4 + (tr - tg) / diff
    let h := h / 6
    let h := if h < 0 then h + 1 else h
    (h, sat, l)

/-- one channel of hsl -> rgb from the shifted hue `tc` -/
def hslChan (t1 t2 tc : Float32) : Float32 :=
  if tc < (1 : Float32) / 6 then t1 + (t2 - t1) * 6 * tc
  else if tc < 0.5 then t2
  else if tc < (2 : Float32) / 3 then t1 + (t2 - t1) * (((2 : Float32) / 3) - tc) * 6
  else t1

def hslToRgb (h s l : Float32) : Int × Int × Int :=
  let (r, g, b) : Float32 × Float32 × Float32 :=
    if (Float32.abs s).toFloat < 0.0001 then (l, l, l)
    else
      let t2 : Float32 := if l.toFloat < 0.5 then l * (1 + s) else (l + s) - (l * s)
      let t1 : Float32 := 2 * l - t2
      let tr := h + (1 : Float32) / 3
      let tr := if tr > 1 then tr - 1 else tr
      let tg := h
      let tb := h - (1 : Float32) / 3
      let tb := if tb < 0 then tb + 1 else tb
      (hslChan t1 t2 tr, hslChan t1 t2 tg, hslChan t1 t2 tb)
  (toU8 r, toU8 g, toU8 b)

/-! ### ycbcr_601 (8-bit) -/

def rgbToYcbcr601 (r g b : Int) : Int × Int × Int :=
  let fr := Float.ofInt r; let fg := Float.ofInt g; let fb := Float.ofInt b
  let y : Float := 16.0 + 0.2567 * fr + 0.5041 * fg + 0.0979 * fb
  let cb : Float := 128.0 - 0.1482 * fr - 0.2909 * fg + 0.4392 * fb
  let cr : Float := 128.0 + 0.4392 * fr - 0.3677 * fg - 0.0714 * fb
  (Int.ofNat y.toUInt8.toNat, Int.ofNat cb.toUInt8.toNat, Int.ofNat cr.toUInt8.toNat)

def ycbcr601ToRgb (y cb cr : Int) : Int × Int × Int :=
  (ycbcr601_red y cb cr, ycbcr601_green y cb cr, ycbcr601_blue y cb cr)

/-! ### ycbcr_709 (8-bit; the inverse as repaired by fix 4562cac: plain chroma offsets, 1.402, clamped) -/

def rgbToYcbcr709 (r g b : Int) : Int × Int × Int :=
  let fr := Float.ofInt r; let fg := Float.ofInt g; let fb := Float.ofInt b
  let y : Float := 0.299 * fr + 0.587 * fg + 0.114 * fb
  let cb : Float := 128.0 - 0.168736 * fr - 0.331264 * fg + 0.5 * fb
  let cr : Float := 128.0 + 0.5 * fr - 0.418688 * fg - 0.081312 * fb
  (Int.ofNat y.toUInt8.toNat, Int.ofNat cb.toUInt8.toNat, Int.ofNat cr.toUInt8.toNat)

/-- detail::clamp(v, 0.0, 255.0) = v < lo ? lo : hi < v ? hi : v -/
def clampF (v : Float) : Float := if v < 0.0 then 0.0 else if 255.0 < v then 255.0 else v

def ycbcr709ToRgb (y cb cr : Int) : Int × Int × Int :=
  let fy := Float.ofInt y; let fcb := Float.ofInt cb - 128.0; let fcr := Float.ofInt cr - 128.0
  let red := clampF (fy + 1.402 * fcr)
  let green := clampF (fy - 0.34414 * fcb - 0.71414 * fcr)
  let blue := clampF (fy + 1.772 * fcb)
  (Int.ofNat red.toUInt8.toNat, Int.ofNat green.toUInt8.toNat, Int.ofNat blue.toUInt8.toNat)

/-! ### cmyka: core rgb8 -> cmyk8, alpha appended, cmyka8 -> rgba8 -/

def div255 (x : Int) : Int := let t := x + 128; (t + t / 256) / 256      -- as C07/C09 prove for the generated kernel
def mul8 (a b : Int) : Int := div255 (a * b)

def rgbToCmyk8 (r g b : Int) : Int × Int × Int × Int :=
  let c := 255 - r; let m := 255 - g; let y := 255 - b
  let k := min c (min m y)
  let sdiv := 255 - k
  if sdiv ≠ 0 then
    let sc : Float := (255 : Float) / Float.ofInt sdiv
    let f (x : Int) : Int := Int.ofNat ((Float.ofInt (x - k) * sc).toUInt8.toNat)
    (f c, f m, f y, k)
  else (0, 0, 0, k)

def cmykChan8 (x k : Int) : Int :=
  let s := (mul8 x (255 - k) + k) % 256
  255 - (if s < 255 then s else 255)

/-- cmyka8 -> rgba8: the alpha of the source is dropped by the code (alpha_or_max of the cmyk pixel) -/
def cmykaToRgba8 (c m y k _a : Int) : List Int := [cmykChan8 c k, cmykChan8 m k, cmykChan8 y k, 255]

/-! ### gray_alpha -/
def grayAlphaToRgba8 (g a : Int) : List Int := [g, g, g, a]
def grayAlphaToRgb8 (g a : Int) : List Int := let v := mul8 g a; [v, v, v]
def grayToRgba8 (g : Int) : List Int := [g, g, g, 255]

/-! ### depth-changing gray_alpha / gray -> rgba (channel depths 8, 16, 32f; float32 values as bit patterns) -/

inductive Depth where | d8 | d16 | d32f
  deriving Repr, DecidableEq

def Depth.maxV : Depth → Int | .d8 => 255 | .d16 => 65535 | .d32f => 1065353216

/-- channel_convert between uint8_t, uint16_t, float32_t (C06) -/
def chConv (a b : Depth) (v : Int) : Int :=
  match a, b with
  | .d8, .d8 => v | .d16, .d16 => v | .d32f, .d32f => v
  | .d8, .d16 => up_div_B8_B16 v 255 65535
  | .d16, .d8 => down_div_B16_B8 v 65535 255
  | .d8, .d32f => bitsOf (f32OfInt v / f32OfInt 255)
  | .d16, .d32f => bitsOf (f32OfInt v / f32OfInt 65535)
  | .d32f, .d8 => Int.ofNat ((f32 v * f32OfInt 255 + 0.5).toUInt32.toNat % 256)
  | .d32f, .d16 => Int.ofNat ((f32 v * f32OfInt 65535 + 0.5).toUInt32.toNat % 65536)

/-- channel_multiply in the source depth (C07) -/
def chMul (d : Depth) (a b : Int) : Int :=
  match d with
  | .d8 => mul8 a b
  | .d16 => mul_u16 a b
  | .d32f => bitsOf (f32 a * f32 b)

/-- default_color_converter_impl<gray_alpha_t, rgba_t>: gray and alpha each through channel_convert to the DESTINATION channel type -/
def grayAlphaToRgba (s t : Depth) (g a : Int) : List Int := [chConv s t g, chConv s t g, chConv s t g, chConv s t a]
/-- gray_alpha -> rgb and -> gray: premultiplied in the source depth, then converted -/
def grayAlphaToRgb (s t : Depth) (g a : Int) : List Int := let v := chConv s t (chMul s g a); [v, v, v]
/-- toolbox gray -> rgba: alpha = max of the destination -/
def grayToRgba (s t : Depth) (g : Int) : List Int := [chConv s t g, chConv s t g, chConv s t g, t.maxV]

/-- position of a channel value in [0,1] -/
def unitD (d : Depth) (v : Int) : Float :=
  match d with
  | .d32f => (f32 v).toFloat
  | _ => Float.ofInt v / Float.ofInt d.maxV
/-- one unit of the depth as a fraction of the range (float32: 2^-22) -/
def stepD (d : Depth) : Float := match d with | .d8 => 1.0 / 255.0 | .d16 => 1.0 / 65535.0 | .d32f => 2.384185791015625e-7
def inRangeD (d : Depth) (v : Int) : Bool :=
  match d with
  | .d32f => (f32 v).toFloat ≥ 0 && (f32 v).toFloat ≤ 1
  | _ => decide (0 ≤ v ∧ v ≤ d.maxV)
/-- `out` is an acceptable channel_convert of `v` (the clauses of C06): in range, min to min, max to max, within one destination unit -/
def convOk (s t : Depth) (v out : Int) : Bool :=
  inRangeD t out && (v != 0 || out == 0) && (v != s.maxV || out == t.maxV)
  && Float.abs (unitD t out - unitD s v) ≤ stepD t + 1.0e-9

/-! ### luminance on double channels (toolbox rgb_to_luminance) -/
def lumDouble (r g b : Int) : Float :=
  let fr := Float.ofInt r / 255.0; let fg := Float.ofInt g / 255.0; let fb := Float.ofInt b / 255.0
  fr * 0.30 + fg * 0.59 + fb * 0.11

/-! ### hsv -> rgb over exact rationals (same case split; used by the theorems) -/

structure RgbQ where
  r : Rat
  g : Rat
  b : Rat
  deriving DecidableEq, Repr

/-- sector index as the code computes it: floor(6h) mod 6 -/
def sectorQ (h : Rat) : Nat := ((h * 6).floor.toNat) % 6

def hsvToRgbQ (h s v : Rat) : RgbQ :=
  if (if s < 0 then -s else s) < 1 / 10000 then ⟨v, v, v⟩
  else
    let h6 := h * 6
    let i := h6.floor.toNat
    let frac := h6 - (i : Rat)
    let p := v * (1 - s)
    let q := v * (1 - s * frac)
    let t := v * (1 - s * (1 - frac))
    match i % 6 with
    | 0 => ⟨v, t, p⟩ | 1 => ⟨q, v, p⟩ | 2 => ⟨p, v, t⟩ | 3 => ⟨p, q, v⟩ | 4 => ⟨t, p, v⟩ | _ => ⟨v, p, q⟩


/-- rgb -> hsv over exact rationals: the case split of hsv.hpp (same thresholds, std::min / std::max as min / max) -/
def absQ (x : Rat) : Rat := if x < 0 then -x else x
def rgbToHsvQ (r g b : Rat) : Rat × Rat × Rat :=
  let mn := min r (min g b); let mx := max r (max g b)
  let diff := mx - mn
  let sat := if mx < 1/10000 then 0 else diff / mx
  let hue := if sat < 1/10000 then 0 else
     let h := if absQ (r - mx) < 1/10000 then (g - b)/diff else if g ≥ mx then 2 + (b - r)/diff else 4 + (r - g)/diff
     let h := h / 6
     if h < 0 then h + 1 else h
  (hue, sat, mx)
/-- rgb -> hsv -> rgb over exact rationals -/
def hsvRoundTripQ (r g b : Rat) : RgbQ := let (h, s, v) := rgbToHsvQ r g b; hsvToRgbQ h s v

/-! ### hsl over exact rationals: the case split of hsl.hpp (thresholds 10^-3 / 10^-4, saturation clamp of fix 154d970) -/

def rgbToHslQ (r g b : Rat) : Rat × Rat × Rat :=
  let mn := min r (min g b); let mx := max r (max g b)
  if absQ (mn - mx) < 1/1000 then (0, 0, r)
  else
    let diff := mx - mn
    let sum := mx + mn
    let l := (mn + mx) / 2
    let sat := if l < 1/2 then diff / sum else diff / (2 - sum)
    let sat := if sat > 1 then 1 else sat
    let h := if absQ (mx - r) < 1/10000 then (g - b)/diff else if absQ (mx - g) < 1/10000 then 2 + (b - r)/diff else 4 + (r - g)/diff
    let h := h / 6
    let h := if h < 0 then h + 1 else h
    (h, sat, l)

def hslChanQ (t1 t2 tc : Rat) : Rat :=
  if tc < 1/6 then t1 + (t2 - t1) * 6 * tc
  else if tc < 1/2 then t2
  else if tc < 2/3 then t1 + (t2 - t1) * ((2/3) - tc) * 6
  else t1

def hslToRgbQ (h s l : Rat) : RgbQ :=
  if absQ s < 1/10000 then ⟨l, l, l⟩
  else
    let t2 := if l < 1/2 then l * (1 + s) else (l + s) - (l * s)
    let t1 := 2 * l - t2
    let tr := h + 1/3
    let tr := if tr > 1 then tr - 1 else tr
    let tg := h
    let tb := h - 1/3
    let tb := if tb < 0 then tb + 1 else tb
    ⟨hslChanQ t1 t2 tr, hslChanQ t1 t2 tg, hslChanQ t1 t2 tb⟩

/-- rgb -> hsl -> rgb over exact rationals -/
def hslRoundTripQ (r g b : Rat) : RgbQ := let (h, s, l) := rgbToHslQ r g b; hslToRgbQ h s l


/-! ### ycbcr over exact integers: which (y, cb, cr) / (r, g, b) the `double` formulas may produce

  The code evaluates decimal-literal formulas in `double` and truncates (cast to uint8_t). A triple is RELATED to a pixel when each
  component is the truncation of some real number within one unit of the last decimal place of the exact value of the formula
  (the double evaluation is off by about 10^-13). Pure integer inequalities; the theorems of Props/C18Ycbcr.lean quantify over
  all related triples, the driver checks the relation on what the real code produced. -/

def clampI (x : Int) : Int := max 0 (min 255 x)

/-- y = 16 + 0.2567 r + 0.5041 g + 0.0979 b, cb = 128 - 0.1482 r - 0.2909 g + 0.4392 b, cr = 128 + 0.4392 r - 0.3677 g - 0.0714 b (times 10^4) -/
def ycbcr601Rel (r g b y cb cr : Int) : Bool :=
  decide ((160000 + 2567*r + 5041*g + 979*b) - 10000 ≤ 10000*y ∧ 10000*y ≤ 160000 + 2567*r + 5041*g + 979*b
    ∧ (1280000 - 1482*r - 2909*g + 4392*b) - 10000 ≤ 10000*cb ∧ 10000*cb ≤ 1280000 - 1482*r - 2909*g + 4392*b
    ∧ (1280000 + 4392*r - 3677*g - 714*b) - 10000 ≤ 10000*cr ∧ 10000*cr ≤ 1280000 + 4392*r - 3677*g - 714*b)

/-- y = 0.299 r + 0.587 g + 0.114 b (times 10^3), cb = 128 - 0.168736 r - 0.331264 g + 0.5 b, cr = 128 + 0.5 r - 0.418688 g - 0.081312 b (times 10^6) -/
def ycbcr709Rel (r g b y cb cr : Int) : Bool :=
  decide (0 ≤ y ∧ (299*r + 587*g + 114*b) - 1000 ≤ 1000*y ∧ 1000*y ≤ 299*r + 587*g + 114*b
    ∧ (128000000 - 168736*r - 331264*g + 500000*b) - 1000000 ≤ 1000000*cb ∧ 1000000*cb ≤ 128000000 - 168736*r - 331264*g + 500000*b
    ∧ (128000000 + 500000*r - 418688*g - 81312*b) - 1000000 ≤ 1000000*cr ∧ 1000000*cr ≤ 128000000 + 500000*r - 418688*g - 81312*b)

/-- ycbcr_709 -> rgb: R = trunc(clamp(y + 1.402 e)), G = trunc(clamp(y - 0.34414 d - 0.71414 e)), B = trunc(clamp(y + 1.772 d)), d = cb - 128, e = cr - 128:
    each output lies between the clamped floors of the exact value minus / plus one unit of the last decimal -/
def ycbcr709BackRel (y cb cr R G B : Int) : Bool :=
  decide (clampI ((1000*y + 1402*(cr - 128) - 1) / 1000) ≤ R ∧ R ≤ clampI ((1000*y + 1402*(cr - 128) + 1) / 1000)
    ∧ clampI ((100000*y - 34414*(cb - 128) - 71414*(cr - 128) - 1) / 100000) ≤ G ∧ G ≤ clampI ((100000*y - 34414*(cb - 128) - 71414*(cr - 128) + 1) / 100000)
    ∧ clampI ((1000*y + 1772*(cb - 128) - 1) / 1000) ≤ B ∧ B ≤ clampI ((1000*y + 1772*(cb - 128) + 1) / 1000))

/-! ### Spec helpers -/
def inUnit (x : Float32) : Bool := x.toFloat ≥ 0 && x.toFloat ≤ 1

end GilVerif.Model.C18
