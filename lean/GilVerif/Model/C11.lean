/-
  C11 -- reading any byte sequence terminates safely.

  Executable, total, ub-tracking models of the three decoders Boost.GIL implements itself
  (BMP, PNM, TARGA), written statement by statement from

      io/device.hpp                          (file_stream_device / istream_device)
      io/reader_base.hpp, io/read_image.hpp, io/read_view.hpp, io/scanline_read_iterator.hpp
      extension/io/{bmp,pnm,targa}/detail/{reader_backend,read,scanline_read,is_allowed}.hpp

  Every array index, shift amount, signed negation / multiplication, allocation size and loop of the
  C++ is represented: where the C++ would index outside a buffer, shift out of range, overflow a
  signed int or fail an assertion the model stops with `Stop.ub site why` (never silently totalised);
  a C++ exception is `Stop.err kind`; loops that are not bounded by a counter run on explicit fuel
  and stop with `Stop.hang` when it is exhausted (Props/C11 proves the fuel bound).

  Core Lean only (linked into the native driver drv_C11).
-/
namespace GilVerif.Model.C11

/-! ## C integer helpers -/

def wrapU (n : Nat) (x : Int) : Int := x % (2 : Int) ^ n
def wrapS (n : Nat) (x : Int) : Int :=
  let m := x % (2 : Int) ^ n
  if m ≥ (2 : Int) ^ (n - 1) then m - (2 : Int) ^ n else m
def inS32 (x : Int) : Bool := decide (-2147483648 ≤ x) && decide (x ≤ 2147483647)

/-- every single allocation above this many bytes fails (std::bad_alloc); the harness has the same rule -/
def allocLimit : Int := 65536
/-- the harness stops a scanline iteration after this many rows (observation `err:big`); so does the model -/
def scanRowLimit : Int := 65536

/-! ## outcomes -/

inductive Stop where
  | err (kind : String)                 -- a C++ exception: "io" (std::ios_base::failure) | "alloc" (bad_alloc / length_error)
  | ub (site : String) (why : String)   -- undefined behaviour / abort; site = "<kind>@<file>:<function>" as the sanitizers name it
  | hang (why : String)                 -- does not terminate (fuel exhausted / unbounded iteration)
  deriving DecidableEq, Repr

/-- result of a successful read: header / dimension fields and destination bytes (256 = never written) -/
structure Img where
  hdr : List Int
  pix : List Nat
  deriving DecidableEq, Repr

inductive Outcome where
  | ok (img : Img)
  | err (kind : String)
  | ub (site : String) (why : String)
  | hang (why : String)
  deriving DecidableEq, Repr

inductive Dev where
  | file      -- file_stream_device (file name and FILE*)
  | stream    -- istream_device
  deriving DecidableEq, Repr

inductive Entry where
  | info | image | view | conv | scan
  deriving DecidableEq, Repr

inductive Dst where
  | rgb8 | rgba8 | gray8 | gray1 | none
  deriving DecidableEq, Repr

def Dst.nch : Dst → Nat
  | .rgb8 => 3 | .rgba8 => 4 | .gray8 => 1 | .gray1 => 1 | .none => 0
/-- bits per pixel of the destination type (is_allowed compares these) -/
def Dst.bits : Dst → Int
  | .rgb8 => 24 | .rgba8 => 32 | .gray8 => 8 | .gray1 => 1 | .none => 0

structure Settings where
  entry : Entry
  dst : Dst
  x0 : Int
  y0 : Int
  dw : Int
  dh : Int
  vw : Int      -- dimensions of the user's view (entry = view)
  vh : Int
  deriving DecidableEq, Repr

/-! ## device state and monad -/

structure St where
  data : List Nat          -- file contents
  pos : Nat                -- file position (may lie beyond the end after a seek)
  failed : Bool            -- istream in fail state (every later read returns nothing, seeks are ignored)
  dev : Dev
  taint : Option String    -- first place where bytes a short read did not deliver were used as data
  deriving Repr

abbrev M := StateT St (Except Stop)

def stop {α} (s : Stop) : M α := fun _ => .error s
def ioErr {α} : M α := stop (.err "io")
def allocErr {α} : M α := stop (.err "alloc")
def ubAt {α} (site why : String) : M α := stop (.ub site why)

def setTaint (why : String) : M Unit :=
  modify fun s => match s.taint with
    | some _ => s
    | none => { s with taint := some why }

/-- the bytes a read of `n` delivers (possibly fewer), advancing the position;
    istream: a read that hits the end leaves the stream failed -/
def readSome (n : Nat) : M (List Nat) := fun s =>
  if s.failed then .ok ([], s)
  else
    let got := (s.data.drop s.pos).take n
    let hitEnd := s.pos ≥ s.data.length || got.length < n
    .ok (got, { s with pos := s.pos + got.length, failed := s.dev == .stream && hitEnd })

/-- fixed-size array read `read(T(&)[N])`: the file device checks the count, the istream device does not
    (its caller then consumes the uninitialised stack array) -/
def readFixed (n : Nat) : M (List Nat) := do
  let got ← readSome n
  if got.length < n then
    match (← get).dev with
    | .file => ioErr
    | .stream => ubAt "uninit@io/device.hpp:istream_device::read"
                   "istream_device::read(T(&)[N]) ignores a short read: the uninitialised array is used as data"
  else pure got

def readU8 : M Int := do
  let b ← readFixed 1
  pure (Int.ofNat (b.getD 0 0))
def readU16 : M Int := do
  let b ← readFixed 2
  pure (Int.ofNat (b.getD 0 0 + 256 * b.getD 1 0))
def readU32 : M Int := do
  let b ← readFixed 4
  pure (Int.ofNat (b.getD 0 0 + 256 * b.getD 1 0 + 65536 * b.getD 2 0 + 16777216 * b.getD 3 0))

/-- `seek(off, SEEK_SET)` with `off` already converted to `long` -/
def seekSet (off : Int) : M Unit := fun s =>
  match s.dev with
  | .file => if off < 0 then .error (.err "io") else .ok ((), { s with pos := off.toNat })
  | .stream =>
    if s.failed then .ok ((), s)
    else if off < 0 then .ok ((), { s with failed := true })
    else .ok ((), { s with pos := off.toNat })

def seekCur (d : Int) : M Unit := do
  let s ← get
  seekSet (Int.ofNat s.pos + d)

/-- `getc()`: both devices throw at end of file -/
def getcChecked : M Nat := do
  let got ← readSome 1
  match got with
  | [c] => pure c
  | _ => ioErr

/-- `getc_unchecked()`: EOF is returned to the caller -/
def getcUnchecked : M (Option Nat) := do
  let got ← readSome 1
  match got with
  | [c] => pure (some c)
  | _ => pure none

/-- `read(ptr, n)` into an existing buffer (`buf.length ≥ n` is the caller's obligation, checked here):
    bytes not delivered keep their previous content. Returns the new buffer and the count delivered. -/
def readInto (site : String) (buf : List Nat) (n : Nat) : M (List Nat × Nat) := do
  if n > buf.length then ubAt ("heap-buffer-overflow@" ++ site) "read(ptr, n) with n larger than the buffer"
  else
    let got ← readSome n
    pure (got ++ buf.drop got.length, got.length)

/-- allocation of `n` bytes (n as the size_t the C++ computes, already wrapped to 64 bits) -/
def alloc (n : Int) : M Unit :=
  if n > allocLimit then allocErr else pure ()

/-! ## destination view -/

/-- destination storage: `vh` rows of `vw` pixels of `nch` bytes; 256 marks a byte never written -/
structure Dest where
  vw : Int
  vh : Int
  nch : Nat
  rows : Array (List Nat)

/-- `fill`: 0 for an image created by `init_image` (GIL value-initialises the pixels), 256 for a caller's view -/
def Dest.mk' (vw vh : Int) (nch : Nat) (fill : Nat := 256) : Dest :=
  if vw ≤ 0 ∨ vh ≤ 0 then { vw := vw, vh := vh, nch := nch, rows := #[] }
  else { vw := vw, vh := vh, nch := nch, rows := Array.replicate vh.toNat (List.replicate (vw.toNat * nch) fill) }

def Dest.pix (d : Dest) : List Nat := d.rows.toList.flatten

/-- `std::copy(beg, end, view.row_begin(y))` of `px` (whole pixels, `nch` bytes each) -/
def Dest.setRow (site : String) (d : Dest) (y : Int) (px : List Nat) : M Dest :=
  if y < 0 ∨ y ≥ d.vh ∨ Int.ofNat px.length > d.vw * d.nch then
    ubAt ("heap-buffer-overflow@" ++ site) "row written outside the destination view"
  else
    pure { d with rows := d.rows.setIfInBounds y.toNat (px ++ (d.rows.getD y.toNat []).drop px.length) }

/-- `image::recreate(w, h)` as called by `init_image` (size_t arithmetic wraps) -/
def recreateImage (st : Settings) (w h : Int) : M Dest := do
  if w == 0 ∨ h == 0 then
    ubAt "assert@io/reader_base.hpp:init_image" "BOOST_ASSERT(settings._dim.x && settings._dim.y): zero image dimension taken from the file"
  else
    let units := wrapU 64 (wrapU 64 (wrapU 64 w * (if st.dst == .gray1 then 1 else st.dst.nch)) * wrapU 64 h)
    let bytes := if st.dst == .gray1 then (units + 7) / 8 else units
    alloc bytes
    pure (Dest.mk' w h st.dst.nch 0)

/-- `check_image_size(view.dimensions())` (identical in the three back ends) -/
def checkImageSize (st : Settings) (dimx dimy w h : Int) : M Unit := do
  if dimx > 0 then (if st.vw < dimx then ioErr else pure ())
  else (if st.vw < w then ioErr else pure ())
  if dimy > 0 then (if st.vh < dimy then ioErr else pure ())
  else (if st.vh < h then ioErr else pure ())

/-- pixels `[x0, x0+dw)` of a row buffer of `row.length` bytes, `bpp` bytes each, as `cc_policy.read` reads them;
    `used` = number of leading bytes of the buffer that the last read delivered (the rest is stale) -/
def sliceRow (site : String) (row : List Nat) (bpp : Nat) (x0 dw : Int) (got : Nat) : M (List Nat) := do
  if dw ≤ 0 then pure []      -- std::copy with end <= begin copies nothing (end < begin cannot terminate early: see callers)
  else if x0 < 0 ∨ (x0 + dw) * bpp > row.length then
    ubAt ("heap-buffer-overflow@" ++ site) "sub-rectangle columns outside the row buffer (settings are not checked against the image width)"
  else
    if Int.ofNat got < (x0 + dw) * bpp then setTaint ("short row read used as pixel data in " ++ site) else pure ()
    pure ((row.drop (x0.toNat * bpp)).take (dw.toNat * bpp))

def chunks (k : Nat) : Nat → List Nat → List (List Nat)
  | 0, _ => []
  | n + 1, xs => xs.take k :: chunks k n (xs.drop k)

/-! ## BMP -/
namespace Bmp

structure Info where
  offset : Int
  hdrSize : Int
  width : Int
  height : Int
  bpp : Int
  comp : Int
  numColors : Int
  topDown : Bool
  deriving Repr

def fReaderBackend := "extension/io/bmp/detail/reader_backend.hpp"
def fRead := "extension/io/bmp/detail/read.hpp"
def fScan := "extension/io/bmp/detail/scanline_read.hpp"

/-- reader_backend::read_header -/
def readHeader : M Info := do
  let magic ← readU16
  if magic == 0x424D then ioErr      -- sic: little-endian "BM" is 0x4D42, so this rejects only "MB"
  else
    let _ ← readU32
    let _ ← readU16
    let _ ← readU16
    let offset ← readU32
    let hs ← readU32
    if hs == 40 then
      let w := wrapS 32 (← readU32)
      let h := wrapS 32 (← readU32)
      if h == -2147483648 then
        ubAt ("negation-overflow@" ++ fReaderBackend ++ ":read_header") "_info._height = -_info._height with height == INT_MIN"
      else
        let (h, td) := if h < 0 then (-h, true) else (h, false)
        let _ ← readU16
        let bpp ← readU16
        let comp ← readU32
        let _ ← readU32
        let _ ← readU32
        let _ ← readU32
        let nc ← readU32
        let _ ← readU32
        pure { offset := offset, hdrSize := hs, width := w, height := h, bpp := bpp, comp := comp, numColors := nc, topDown := td }
    else if hs == 12 then
      let w ← readU16
      let h ← readU16
      let _ ← readU16
      let bpp ← readU16
      pure { offset := offset, hdrSize := hs, width := w, height := h, bpp := bpp, comp := 0, numColors := 0, topDown := false }
    else if hs > 40 then
      let w := wrapS 32 (← readU32)
      let h := wrapS 32 (← readU32)
      let _ ← readU16
      let bpp ← readU16
      let comp ← readU32
      let _ ← readU32
      let _ ← readU32
      let _ ← readU32
      let nc ← readU32
      let _ ← readU32
      pure { offset := offset, hdrSize := hs, width := w, height := h, bpp := bpp, comp := comp, numColors := nc, topDown := false }
    else ioErr

/-- palette entries (r,g,b,a) -/
abbrev Palette := List (Nat × Nat × Nat × Nat)

def readPaletteLoop (four : Bool) : Nat → Palette → M Palette
  | 0, acc => pure acc.reverse
  | n + 1, acc => do
    let b ← readU8
    let g ← readU8
    let r ← readU8
    if four then let _ ← readU8; pure () else pure ()
    readPaletteLoop four n ((r.toNat, g.toNat, b.toNat, 0) :: acc)

/-- reader_backend::read_palette (and the scanline reader's copy) -/
def readPalette (i : Info) : M Palette := do
  let e0 := wrapS 32 i.numColors          -- int entries = _info._num_colors
  let entries := if e0 == 0 then (2 : Int) ^ i.bpp.toNat else e0     -- 1u << bpp, bpp ∈ {1,4,8} at every call site
  -- _palette.resize(entries): a negative int becomes a huge size_t (length_error)
  if entries < 0 then allocErr
  else
    alloc (entries * 4)
    readPaletteLoop (i.hdrSize == 40) entries.toNat []

/-- is_allowed<View>(info, is_read_and_no_convert) -/
def isAllowed (i : Info) (st : Settings) : M Bool :=
  if st.entry == .conv then pure true
  else
    if i.bpp == 1 ∨ i.bpp == 4 ∨ i.bpp == 8 then
      pure (st.dst.bits == (if i.hdrSize == 40 ∧ i.comp ≠ 1 ∧ i.comp ≠ 2 then 32 else 24))
    else if i.bpp == 15 ∨ i.bpp == 16 then pure (st.dst.bits == 24)
    else if i.bpp == 24 ∨ i.bpp == 32 then pure (st.dst.bits == i.bpp)
    else ioErr

/-- get_offset(pos): size_t arithmetic, converted to long -/
def getOffset (i : Info) (pitch : Int) (pos : Int) : Int :=
  if i.height > 0 then wrapS 64 (i.offset + wrapU 64 ((i.height - 1 - pos) * pitch))
  else wrapS 64 (i.offset + wrapU 64 (pos * pitch))

/-- palette colour assigned to a destination pixel (`*dst_it = _palette[c]`) -/
def palPixel (dst : Dst) (p : Nat × Nat × Nat × Nat) : List Nat :=
  match dst with
  | .rgba8 => [p.1, p.2.1, p.2.2.1, p.2.2.2]
  | _ => [p.1, p.2.1, p.2.2.1]

/-- detail::mirror_bits / detail::swap_half_bytes / do_nothing, applied in place to the whole row buffer -/
def mirror8 (b : Nat) : Nat :=
  b / 128 % 2 + 2 * (b / 64 % 2) + 4 * (b / 32 % 2) + 8 * (b / 16 % 2) + 16 * (b / 8 % 2) + 32 * (b / 4 % 2) + 64 * (b / 2 % 2) + 128 * (b % 2)
def manip (bpp : Int) (row : List Nat) : List Nat :=
  if bpp == 8 then row else if bpp == 4 then row.map (fun b => b % 16 * 16 + b / 16) else row.map mirror8

/-- indices of one row of a 1/4/8-bit palette image read from the *manipulated* buffer:
    bit-aligned gray1 / gray4 pixels are taken from the least significant bits upwards -/
def rowIndices (bpp : Int) (row : List Nat) : List Nat :=
  if bpp == 8 then row
  else if bpp == 4 then row.flatMap (fun b => [b % 16, b / 16])
  else row.flatMap (fun b => [b % 2, b / 2 % 2, b / 4 % 2, b / 8 % 2, b / 16 % 2, b / 32 % 2, b / 64 % 2, b / 128 % 2])

def lookupAll (site why : String) (pal : Palette) (dst : Dst) : List Nat → List Nat → M (List Nat)
  | [], acc => pure acc.reverse
  | c :: cs, acc =>
    match pal[c]? with
    | some p => lookupAll site why pal dst cs ((palPixel dst p).reverse ++ acc)
    | none => ubAt site why

/-- rows loop shared by read_palette_image / read_data_15 / read_data:
    `rowFn y row got` turns the row buffer into destination pixels -/
def rowsLoop (i : Info) (pitch : Int) (st : Settings) (y0 : Int) (site : String)
    (rowFn : List Nat → Nat → M (List Nat × List Nat)) : Nat → Int → List Nat → Dest → M Dest
  | 0, _, _, d => pure d
  | n + 1, y, row, d => do
    seekSet (getOffset i pitch (y + y0))
    let (row, got) ← readInto site row pitch.toNat
    let (px, row) ← rowFn row got
    let d ← d.setRow site y px
    rowsLoop i pitch st y0 site rowFn n (y + 1) row d

/-- the inner loop of read_palette_image over one (manipulated) row buffer -/
def paletteRowPixels (site : String) (i : Info) (st : Settings) (dimx : Int) (pal : Palette) (row : List Nat) (got : Nat) : M (List Nat) := do
  let ppb : Int := if i.bpp == 8 then 1 else if i.bpp == 4 then 2 else 8      -- pixels per byte
  -- it = rh.begin() + top_left.x ; end = it + dim.x ; for (; it != end; ++it)
  if dimx < 0 then
    ubAt ("heap-buffer-overflow@" ++ site) "negative dim.x: the loop `it != end` runs off the row buffer"
  else if dimx == 0 then pure []
  else if st.x0 < 0 ∨ st.x0 + dimx > Int.ofNat row.length * ppb then
    ubAt ("heap-buffer-overflow@" ++ site) "sub-rectangle columns outside the row buffer (settings are not checked against the image width)"
  else
    let idx := ((rowIndices i.bpp row).drop st.x0.toNat).take dimx.toNat
    if Int.ofNat got * ppb < st.x0 + dimx then setTaint ("short row read used as pixel data in " ++ site) else pure ()
    lookupAll ("vector-index@" ++ site) "palette index from the pixel data is >= the palette size declared by the header" pal st.dst idx []

/-- read_palette_image -/
def readPaletteImage (i : Info) (pitch : Int) (st : Settings) (dimx dimy : Int) (d : Dest) : M Dest := do
  let pal ← readPalette i
  alloc pitch                                   -- row_buffer_helper(_pitch, true)
  let site := fRead ++ ":read_palette_image"
  if pitch == 0 ∧ dimy > 0 then
    ubAt ("vector-index@" ++ site) "rh.data() == &_row_buffer[0] on an empty row buffer (zero width taken from the file)"
  else
  rowsLoop i pitch st st.y0 site (fun row got => do
      let row := manip i.bpp row                 -- byte_manipulator(rh.buffer()): in place, the buffer persists
      let px ← paletteRowPixels site i st dimx pal row got
      pure (px, row))
    dimy.toNat 0 (List.replicate pitch.toNat 0) d

def countOnes (x : Nat) : Nat := (List.range 32).foldl (fun n k => n + x / 2 ^ k % 2) 0
def trailingZeros32 (x : Nat) : Nat :=
  -- detail::trailing_zeros<unsigned>: 32 for x = 0
  if x == 0 then 32 else ((List.range 32).find? (fun k => x / 2 ^ k % 2 == 1)).getD 32

structure Mask where
  mask : Nat
  width : Nat
  shift : Nat
  deriving Repr

/-- colour masks of 15/16-bit images -/
def readMasks (i : Info) : M (Mask × Mask × Mask) := do
  if i.comp == 3 then
    let r ← readU32
    let g ← readU32
    let b ← readU32
    let m (x : Int) : Mask := { mask := x.toNat, width := countOnes x.toNat, shift := trailingZeros32 x.toNat }
    pure (m r, m g, m b)
  else if i.comp == 0 then
    -- switch (bpp) { case 15: case 16: ...; case 24: case 32: ... }   (only 15/16 reach this function)
    pure ({ mask := 0x7C00, width := 5, shift := 10 }, { mask := 0x03E0, width := 5, shift := 5 }, { mask := 0x1F, width := 5, shift := 0 })
  else ioErr

/-- `((p & mask) >> shift) << (8 - width)` on `int p` (0..65535), `unsigned mask, shift, width`:
    the arithmetic is unsigned 32-bit; a shift count ≥ 32 is undefined -/
def chan15 (site : String) (p : Nat) (m : Mask) : M Nat := do
  if m.shift ≥ 32 then ubAt ("shift-exponent@" ++ site) "bit-field mask is 0: shift by trailing_zeros(0) = 32"
  else
    let l : Int := 8 - Int.ofNat m.width        -- unsigned 8 - width wraps for width > 8
    if l < 0 then ubAt ("shift-exponent@" ++ site) "bit-field mask wider than 8 bits: shift by 8 - width (unsigned wrap)"
    else pure (((p % 4294967296 / 2 ^ 0) &&& m.mask) / 2 ^ m.shift * 2 ^ l.toNat % 4294967296 % 256)

def row15 (site : String) (ms : Mask × Mask × Mask) : Nat → List Nat → List Nat → M (List Nat)
  | 0, _, acc => pure acc.reverse
  | n + 1, src, acc => do
    let p := src.getD 0 0 + 256 * src.getD 1 0
    let r ← chan15 site p ms.1
    let g ← chan15 site p ms.2.1
    let b ← chan15 site p ms.2.2
    row15 site ms n (src.drop 2) (b :: g :: r :: acc)

/-- rgb8 source pixel → destination pixel (copy or default colour conversion to rgba8) -/
def cvtRgb (dst : Dst) : List Nat → List Nat
  | r :: g :: b :: rest => (if dst == .rgba8 then [r, g, b, 255] else [r, g, b]) ++ cvtRgb dst rest
  | _ => []
def cvtBgr (dst : Dst) : List Nat → List Nat
  | b :: g :: r :: rest => (if dst == .rgba8 then [r, g, b, 255] else [r, g, b]) ++ cvtBgr dst rest
  | _ => []
def mul255 (a b : Nat) : Nat := let t := a * b + 128; (t + t / 256) / 256
def cvtBgra (dst : Dst) : List Nat → List Nat
  | b :: g :: r :: a :: rest =>
    (if dst == .rgba8 then [r, g, b, a] else [mul255 r a, mul255 g a, mul255 b a]) ++ cvtBgra dst rest
  | _ => []

/-- read_data_15 -/
def readData15 (i : Info) (pitch : Int) (st : Settings) (dimx dimy : Int) (d : Dest) : M Dest := do
  alloc pitch                                                -- byte_vector_t row(_pitch)
  let ms ← readMasks i
  let site := fRead ++ ":read_data_15"
  if pitch == 0 ∧ dimy > 0 then
    ubAt ("vector-empty@" ++ site) "&row.front() on an empty row buffer (zero width taken from the file)"
  else
  rowsLoop i pitch st st.y0 site (fun row got => do
      alloc (wrapU 64 (wrapU 64 i.width * 3))                -- image_t img_row(_info._width, 1)
      let px ← row15 site ms i.width.toNat row []
      if Int.ofNat got < i.width * 2 then setTaint ("short row read used as pixel data in " ++ site) else pure ()
      -- beg = v.row_begin(0) + top_left.x ; end = beg + dim.x  over an rgb8 row of _info._width pixels
      if dimx ≤ 0 then pure ([], row)
      else if st.x0 < 0 ∨ st.x0 + dimx > i.width then
        ubAt ("heap-buffer-overflow@" ++ site) "sub-rectangle columns outside the converted row (settings are not checked against the image width)"
      else pure (cvtRgb st.dst ((px.drop (st.x0.toNat * 3)).take (dimx.toNat * 3)), row))
    dimy.toNat 0 (List.replicate pitch.toNat 0) d

/-- read_data<bgr8_view_t> / read_data<bgra8_view_t> -/
def readData (i : Info) (pitch : Int) (st : Settings) (dimx dimy : Int) (bpp : Nat) (d : Dest) : M Dest := do
  alloc pitch
  let site := fRead ++ ":read_data"
  if pitch == 0 then
    ubAt ("vector-empty@" ++ site) "&row.front() on an empty row buffer (zero width taken from the file)"
  else
  rowsLoop i pitch st st.y0 site (fun row got => do
      let px ← sliceRow site row bpp st.x0 dimx got
      pure (if bpp == 3 then cvtBgr st.dst px else cvtBgra st.dst px, row))
    dimy.toNat 0 (List.replicate pitch.toNat 0) d

/-! ### RLE -/

structure Rle where
  buf : List (Nat × Nat × Nat × Nat)   -- std::vector<rgba8_pixel_t> buf(dim.x)
  x : Int                              -- dst_it - buf.begin()
  xend : Int                           -- dst_end - buf.begin()
  y : Int
  streamPos : Int
  deriving Repr

def fRle := fRead ++ ":read_palette_image_rle"

/-- copy_row_if_needed -/
def copyRowIfNeeded (st : Settings) (dimx dimy : Int) (r : Rle) (d : Dest) : M Dest :=
  if r.y ≥ st.y0 ∧ r.y < dimy then
    if dimx ≤ 0 then pure d
    else if st.x0 < 0 ∨ st.x0 + dimx > Int.ofNat r.buf.length then
      ubAt ("heap-buffer-overflow@" ++ fRead ++ ":copy_row_if_needed") "buf.begin() + top_left.x + dim.x beyond the dim.x-wide row buffer"
    else
      d.setRow (fRead ++ ":copy_row_if_needed") r.y (((r.buf.drop st.x0.toNat).take dimx.toNat).flatMap (palPixel st.dst))
  else pure d

/-- `*dst_it++ = v` for each of `vals` -/
def putRun (r : Rle) (vals : List (Nat × Nat × Nat × Nat)) : M Rle :=
  if r.x < 0 ∨ r.x + Int.ofNat vals.length > Int.ofNat r.buf.length then
    ubAt ("heap-buffer-overflow@" ++ fRle) "write through dst_it outside buf (escape 2 moved dst_it beyond the row)"
  else
    pure { r with buf := r.buf.take r.x.toNat ++ vals ++ r.buf.drop (r.x.toNat + vals.length), x := r.x + vals.length }

def palAt (pal : Palette) (c : Int) : M (Nat × Nat × Nat × Nat) :=
  match pal[c.toNat]? with
  | some p => pure p
  | none => ubAt ("vector-index@" ++ fRle) "palette index from the RLE data is >= the palette size declared by the header"

/-- absolute-mode bytes (RLE8: one index per byte) -/
def absRun8 (pal : Palette) : Nat → Rle → M Rle
  | 0, r => pure r
  | n + 1, r => do
    let c ← readU8
    let p ← palAt pal c
    let r ← putRun { r with streamPos := r.streamPos + 1 } [p]
    absRun8 pal n r

/-- absolute-mode bytes (RLE4): `for (i = 0; i < count; ++i) { read; put hi; if (++i == second) break; put lo; }` -/
def absRun4 (pal : Palette) (count second : Int) : Nat → Int → Rle → M Rle
  | 0, _, r => pure r
  | fuel + 1, i, r =>
    if i < count then do
      let b ← readU8
      let r := { r with streamPos := r.streamPos + 1 }
      let p ← palAt pal (b / 16)
      let r ← putRun r [p]
      if i + 1 == second then pure r
      else
        let p ← palAt pal (b % 16)
        let r ← putRun r [p]
        absRun4 pal count second fuel (i + 2) r
    else pure r

/-- read_palette_image_rle main loop; one unit of fuel per `while (!finished)` iteration -/
def rleLoop (i : Info) (pitch : Int) (st : Settings) (dimx dimy : Int) (pal : Palette) (yend yinc : Int) :
    Nat → Rle → Dest → M Dest
  | 0, _, _ => stop (.hang "fuel exhausted in read_palette_image_rle")
  | fuel + 1, r, d => do
    let count ← readU8
    let second ← readU8
    let r := { r with streamPos := r.streamPos + 2 }
    if count ≠ 0 then
      let count := if count > r.xend - r.x then r.xend - r.x else count
      -- a negative count (dst_it beyond dst_end) runs no iteration
      if i.comp == 2 then
        let p0 ← palAt' pal (second / 16) count
        let p1 ← palAt' pal (second % 16) (count - 1)
        let vals := (List.range count.toNat).map (fun k => if k % 2 == 0 then p0 else p1)
        let r ← putRun r vals
        rleLoop i pitch st dimx dimy pal yend yinc fuel r d
      else
        let p ← palAt' pal second count
        let r ← putRun r (List.replicate count.toNat p)
        rleLoop i pitch st dimx dimy pal yend yinc fuel r d
    else if second == 0 then
      let d ← copyRowIfNeeded st dimx dimy r d
      let y := r.y + yinc
      if y == yend then pure d
      else rleLoop i pitch st dimx dimy pal yend yinc fuel { r with y := y, x := 0, xend := r.buf.length } d
    else if second == 1 then
      copyRowIfNeeded st dimx dimy r d
    else if second == 2 then
      let dx ← readU8
      let dy0 ← readU8
      let dy := dy0 * yinc
      let r := { r with streamPos := r.streamPos + 2 }
      let d ← if dy ≠ 0 then copyRowIfNeeded st dimx dimy r d else pure d
      let x := r.x + dx
      if x > i.width then ioErr
      else
        let y := r.y + dy
        if (if yinc > 0 then y > yend else y < yend) then ioErr
        else
          -- dst_it = buf.begin() + x may lie beyond buf.end() (x is checked against _info._width, the buffer is dim.x wide);
          -- every later run is clamped to dst_end - dst_it (negative: no iteration), so nothing is written through it
          rleLoop i pitch st dimx dimy pal yend yinc fuel { r with x := x, y := y, xend := r.buf.length } d
    else
      let count := if second > r.xend - r.x then r.xend - r.x else second
      let r ← if i.comp == 2 then absRun4 pal count second (count.toNat + 1) 0 r else absRun8 pal count.toNat r
      -- pad to word boundary: (stream_pos - get_offset(0)) & 1
      let r ← if (r.streamPos - getOffset i pitch 0) % 2 == 1 then do
                  seekCur 1
                  pure { r with streamPos := r.streamPos + 1 }
                else pure r
      rleLoop i pitch st dimx dimy pal yend yinc fuel r d
where
  /-- `_palette[idx]` evaluated only when the run writes at least `need` > 0 pixels -/
  palAt' (pal : Palette) (idx : Int) (need : Int) : M (Nat × Nat × Nat × Nat) :=
    if need ≤ 0 then pure (0, 0, 0, 0) else palAt pal idx

/-- read_palette_image_rle -/
def readPaletteImageRle (i : Info) (pitch : Int) (st : Settings) (dimx dimy : Int) (fuel : Nat) (d : Dest) : M Dest := do
  let pal ← readPalette i
  seekSet (wrapS 64 i.offset)
  if dimx < 0 then allocErr               -- Buf_type buf(dim.x): length_error
  else
    alloc (dimx * 4)
    let (ybeg, yend, yinc) : Int × Int × Int := if i.height > 0 then (dimy - 1, -1, -1) else (0, dimy, 1)
    rleLoop i pitch st dimx dimy pal yend yinc fuel
      { buf := List.replicate dimx.toNat (0, 0, 0, 0), x := 0, xend := dimx, y := ybeg, streamPos := i.offset } d

/-- reader::apply -/
def apply (i : Info) (st : Settings) (dimx dimy : Int) (fuel : Nat) (d : Dest) : M Dest := do
  let ok ← isAllowed i st
  if !ok then ioErr
  else
    -- the row pitch: int arithmetic on _info._width (int32_t) and _bits_per_pixel (uint16_t promoted to int)
    let raw : Int := if i.bpp < 8 then i.width * i.bpp else i.width * ((i.bpp + 7) / 8)
    if !inS32 raw ∨ (i.bpp < 8 ∧ !inS32 (raw + 7)) then
      ubAt ("signed-integer-overflow@" ++ fRead ++ ":apply") "_info._width * bits (or bytes) per pixel overflows int"
    else
      let p0 : Int := if i.bpp < 8 then (raw + 7) / 8 else raw       -- >> 3 on int is arithmetic (floor)
      let pitch := wrapU 64 (wrapU 64 p0 + 3) / 4 * 4                 -- size_t: (_pitch + 3) & ~3
      if i.bpp == 1 then readPaletteImage i pitch st dimx dimy d
      else if i.bpp == 4 then
        if i.comp == 2 then readPaletteImageRle i pitch st dimx dimy fuel d
        else if i.comp == 0 then readPaletteImage i pitch st dimx dimy d
        else ioErr
      else if i.bpp == 8 then
        if i.comp == 1 then readPaletteImageRle i pitch st dimx dimy fuel d
        else if i.comp == 0 then readPaletteImage i pitch st dimx dimy d
        else ioErr
      else if i.bpp == 15 ∨ i.bpp == 16 then readData15 i pitch st dimx dimy d
      else if i.bpp == 24 then readData i pitch st dimx dimy 3 d
      else if i.bpp == 32 then readData i pitch st dimx dimy 4 d
      else pure d          -- no default in the switch: nothing is read (reachable with read_and_convert_image only)

/-! ### scanline reader -/

/-- state of a scanline iteration: the iterator's row buffer and the reader's `_buffer` member -/
structure ScanBufs where
  dst : List Nat
  buf : List Nat

/-- `for (it = begin(); it != end(); ++it) *it`: each dereference seeks and reads one row -/
def scanRowsBuf (i : Info) (pitch : Int) (rowFn : ScanBufs → M ScanBufs) : Nat → Int → ScanBufs → List (List Nat) → M (List (List Nat))
  | 0, _, _, acc => pure acc
  | n + 1, pos, bufs, acc => do
    -- read(dst, pos): long offset = _info._offset + (height - 1 - pos) * _pitch   (int * int, then uint32 + int)
    let prod := (if i.height > 0 then i.height - 1 - pos else pos) * pitch
    if !inS32 prod then ubAt ("signed-integer-overflow@" ++ fScan ++ ":read") "(height - 1 - pos) * _pitch overflows int"
    else
      seekSet (wrapU 32 (i.offset + wrapU 32 prod))
      let bufs ← rowFn bufs
      scanRowsBuf i pitch rowFn n (pos + 1) bufs (bufs.dst :: acc)

def scan (i : Info) : M Img := do
  let raw : Int := if i.bpp < 8 then i.width * i.bpp else i.width * ((i.bpp + 7) / 8)
  if !inS32 raw ∨ (i.bpp < 8 ∧ !inS32 (raw + 7)) then
    ubAt ("signed-integer-overflow@" ++ fScan ++ ":initialize") "_info._width * bits (or bytes) per pixel overflows int"
  else
    let p0 : Int := if i.bpp < 8 then (raw + 7) / 8 else raw
    if !inS32 (p0 + 3) then ubAt ("signed-integer-overflow@" ++ fScan ++ ":initialize") "_pitch + 3 overflows int"
    else
    let pitch : Int := (p0 + 3) / 4 * 4        -- int: (_pitch + 3) & ~3
    let sl4 := wrapU 64 (wrapU 64 (wrapU 64 i.width * 4) + 3) / 4 * 4
    let sl3 := wrapU 64 (wrapU 64 (wrapU 64 i.width * 3) + 3) / 4 * 4
    -- finish: iterate begin()..end(): both iterators allocate a _scanline_length buffer; rows = _info._height
    let finish (sl : Int) (buf0 : List Nat) (rowFn : ScanBufs → M ScanBufs) : M Img := do
      if i.height > scanRowLimit then stop (.err "big") else
      alloc sl
      if sl == 0 then
        ubAt ("vector-empty@" ++ fScan ++ ":begin") "scanline_read_iterator: &buffer_->front() on an empty buffer (zero width taken from the file)"
      else if i.height < 0 then
        stop (.hang "negative height (only a 40-byte header is normalised): `it != end()` is not reached by incrementing from begin()")
      else
      let rows := i.height.toNat
      let rs ← scanRowsBuf i pitch rowFn rows 0 { dst := List.replicate sl.toNat 0, buf := buf0 } []
      pure { hdr := [i.width, i.height, sl, rows], pix := rs.reverse.flatten }
    if i.bpp == 1 ∨ ((i.bpp == 4 ∨ i.bpp == 8) ∧ i.comp == 0) then
      let pal ← readPalette i
      if pitch < 0 then allocErr else
      alloc pitch
      let site := fScan ++ ":read_bit_row"
      finish sl4 (List.replicate pitch.toNat 0) (fun b => do
        if pitch == 0 then ubAt ("vector-empty@" ++ fScan ++ ":read_row_bits") "&_buffer.front() on an empty buffer" else
        let (row, got) ← readInto site b.buf pitch.toNat
        let row := manip i.bpp row
        let idx := (rowIndices i.bpp row).take i.width.toNat
        let ppb : Int := if i.bpp == 8 then 1 else if i.bpp == 4 then 2 else 8
        if Int.ofNat got * ppb < i.width then setTaint ("short row read used as pixel data in " ++ site) else pure ()
        let px ← lookupAll ("vector-index@" ++ site) "palette index from the pixel data is >= the palette size declared by the header" pal .rgba8 idx []
        pure { dst := px ++ b.dst.drop px.length, buf := row })
    else if i.bpp == 4 then (if i.comp == 2 then ioErr else ioErr)
    else if i.bpp == 8 then (if i.comp == 1 then ioErr else ioErr)
    else if i.bpp == 15 ∨ i.bpp == 16 then
      if pitch < 0 then allocErr else
      alloc pitch
      let ms ← readMasks i
      let site := fScan ++ ":read_15_bits_row"
      finish sl3 (List.replicate pitch.toNat 0) (fun b => do
        if pitch == 0 then ubAt ("vector-empty@" ++ site) "&_buffer.front() on an empty buffer" else
        let (row, got) ← readInto site b.buf pitch.toNat
        let px ← row15 site ms i.width.toNat row []
        if Int.ofNat got < i.width * 2 then setTaint ("short row read used as pixel data in " ++ site) else pure ()
        pure { dst := px ++ b.dst.drop px.length, buf := row })
    else if i.bpp == 24 ∨ i.bpp == 32 then
      let sl := if i.bpp == 24 then sl3 else sl4
      finish sl [] (fun b => do
        if pitch < 0 then pure b else
        let site := fScan ++ ":read_row"
        let (row, got) ← readInto site b.dst pitch.toNat
        if Int.ofNat got < i.width * (i.bpp / 8) then setTaint ("short row read used as pixel data in " ++ site) else pure ()
        pure { b with dst := row })
    else ioErr

/-- the whole BMP read for one entry point -/
def run (st : Settings) (fuel : Nat) : M Img := do
  let i ← readHeader
  let dimx := if st.dw == 0 then i.width else st.dw
  let dimy := if st.dh == 0 then i.height else st.dh
  match st.entry with
  | .info => pure { hdr := [i.width, i.height, i.bpp, i.comp, i.offset, i.hdrSize, i.numColors, if i.topDown then 1 else 0], pix := [] }
  | .scan => scan i
  | .view =>
    checkImageSize st dimx dimy i.width i.height
    let d ← apply i st dimx dimy fuel (Dest.mk' st.vw st.vh st.dst.nch)
    pure { hdr := [st.vw, st.vh], pix := d.pix }
  | _ =>
    let d ← recreateImage st dimx dimy
    let d ← apply i st dimx dimy fuel d
    pure { hdr := [dimx, dimy], pix := d.pix }

end Bmp

/-! ## top level -/

inductive Fmt where
  | bmp | pnm | tga
  deriving DecidableEq, Repr

/-- fuel for the loops that are not bounded by a counter: one unit per input byte plus a constant -/
def fuelFor (bytes : List UInt8) : Nat := bytes.length + 2

/-- raw result: the monad's answer and the final state (the driver needs the taint separately) -/
def runRaw (f : Fmt) (dev : Dev) (bytes : List UInt8) (st : Settings) : Except Stop (Img × St) :=
  let s0 : St := { data := bytes.map UInt8.toNat, pos := 0, failed := false, dev := dev, taint := none }
  match f with
  | .bmp => (Bmp.run st (fuelFor bytes)).run s0
  | _ => .error (.err "io")

/-- `decode`: the outcome the property speaks about. A successful return that consumed bytes a short read
    did not deliver counts as undefined behaviour (uninitialised / stale bytes used as data). -/
def decode (f : Fmt) (dev : Dev) (bytes : List UInt8) (st : Settings) : Outcome :=
  match runRaw f dev bytes st with
  | .ok (img, s) =>
    match s.taint with
    | none => .ok img
    | some why => .ub "short-read" why
  | .error (.err k) => .err k
  | .error (.ub s w) => .ub s w
  | .error (.hang w) => .hang w

end GilVerif.Model.C11
