/-
  C11 -- reading any byte sequence terminates safely.

  Executable, total, ub-tracking models of the three decoders Boost.GIL implements itself
  (BMP, PNM, TARGA), written statement by statement from

      io/device.hpp                          (file_stream_device / istream_device)
      io/reader_base.hpp, io/read_image.hpp, io/read_view.hpp, io/scanline_read_iterator.hpp
      extension/io/{bmp,pnm,targa}/detail/{reader_backend,read,scanline_read,is_allowed}.hpp

  Every array index, shift amount, signed negation / multiplication, allocation size and loop of the
  C++ is represented: where the C++ would index outside a buffer, shift out of range, overflow a
  signed int or fail an assertion the model stops with `Stop.ub site why` (never silently totalised);
  a C++ exception is `Stop.err kind`; loops that are not bounded by a counter run on explicit fuel
  and stop with `Stop.fuel` when it is exhausted (Props/C11 proves that this never happens).

  Core Lean only (linked into the native driver drv_C11).
-/
namespace GilVerif.Model.C11

/-! ## C integer helpers -/

def wrapU (n : Nat) (x : Int) : Int := x % (2 : Int) ^ n
def wrapS (n : Nat) (x : Int) : Int :=
  let m := x % (2 : Int) ^ n
  if m ≥ (2 : Int) ^ (n - 1) then m - (2 : Int) ^ n else m
def inS32 (x : Int) : Bool := decide (-2147483648 ≤ x) && decide (x ≤ 2147483647)

/-- every single allocation above this many bytes fails (std::bad_alloc); the harness has the same rule -/
def allocLimit : Int := 65536
/-- the harness stops a scanline iteration after this many rows (observation `err:big`); so does the model -/
def scanRowLimit : Int := 65536

/-! ## outcomes -/

inductive Stop where
  | err (kind : String)                 -- a C++ exception: "io" (std::ios_base::failure) | "alloc" (bad_alloc / length_error)
  | ub (site : String) (why : String)   -- undefined behaviour / abort; site = "<kind>@<file>:<function>" as the sanitizers name it
  | hang (why : String)                 -- genuinely does not terminate (an iteration that never reaches its end)
  | fuel (loop : String)                -- the fuel of the named loop ran out (Props/C11: never happens)
  deriving DecidableEq, Repr

/-- result of a successful read: header / dimension fields and destination bytes (256 = never written) -/
structure Img where
  hdr : List Int
  pix : List Nat
  deriving DecidableEq, Repr

inductive Outcome where
  | ok (img : Img)
  | err (kind : String)
  | ub (site : String) (why : String)
  | hang (why : String)
  deriving DecidableEq, Repr

inductive Dev where
  | file      -- file_stream_device (file name and FILE*)
  | stream    -- istream_device over a std::ifstream (seeking beyond the end succeeds)
  | sstream   -- istream_device over a std::istringstream (seeking beyond the end fails: failbit without eofbit)
  deriving DecidableEq, Repr

inductive Entry where
  | info | image | view | conv | scan
  deriving DecidableEq, Repr

inductive Dst where
  | rgb8 | rgba8 | gray8 | gray1 | none
  deriving DecidableEq, Repr

def Dst.nch : Dst → Nat
  | .rgb8 => 3 | .rgba8 => 4 | .gray8 => 1 | .gray1 => 1 | .none => 0
/-- bits per pixel of the destination type (is_allowed compares these) -/
def Dst.bits : Dst → Int
  | .rgb8 => 24 | .rgba8 => 32 | .gray8 => 8 | .gray1 => 1 | .none => 0

structure Settings where
  entry : Entry
  dst : Dst
  x0 : Int
  y0 : Int
  dw : Int
  dh : Int
  vw : Int      -- dimensions of the user's view (entry = view)
  vh : Int
  deriving DecidableEq, Repr

/-! ## device state and monad -/

structure St where
  data : List UInt8        -- file contents
  pos : Nat                -- file position (may lie beyond the end after a seek)
  rest : List UInt8        -- = data.drop pos (kept so that sequential reads do not re-walk the file)
  failed : Bool            -- istream in fail state (every later read returns nothing, seeks are ignored)
  dev : Dev
  taint : Option String    -- first place where bytes a short read did not deliver were used as data
  deriving Repr

abbrev M := StateT St (Except Stop)

def stop {α} (s : Stop) : M α := fun _ => .error s
def ioErr {α} : M α := stop (.err "io")
def allocErr {α} : M α := stop (.err "alloc")
def ubAt {α} (site why : String) : M α := stop (.ub site why)

def setTaint (why : String) : M Unit := fun s =>
  match s.taint with
  | some _ => .ok ((), s)
  | none => .ok ((), { s with taint := some why })

def getSt : M St := fun s => .ok (s, s)

/-- `if c then setTaint why` as one action -/
def taintIf (c : Bool) (why : String) : M Unit := if c then setTaint why else pure ()

/-- the bytes a read of `n` delivers (possibly fewer), advancing the position;
    istream: a read that hits the end leaves the stream failed -/
def readSome (n : Nat) : M (List Nat) := fun s =>
  if s.failed then .ok ([], s)
  else
    let got := (s.rest.take n).map UInt8.toNat
    let hitEnd := s.rest.isEmpty || got.length < n
    .ok (got, { s with pos := s.pos + got.length, rest := s.rest.drop n, failed := s.dev != .file && hitEnd })

/-- fixed-size array read `read(T(&)[N])`: both devices check the count and throw on a short read
    (istream_device since /repo cdb7c21; before that it returned the uninitialised array) -/
def readFixed (n : Nat) : M (List Nat) := do
  let got ← readSome n
  if got.length < n then ioErr else pure got

def readU8 : M Int := do
  let b ← readFixed 1
  pure (Int.ofNat (b.getD 0 0))
def readU16 : M Int := do
  let b ← readFixed 2
  pure (Int.ofNat (b.getD 0 0 + 256 * b.getD 1 0))
def readU32 : M Int := do
  let b ← readFixed 4
  pure (Int.ofNat (b.getD 0 0 + 256 * b.getD 1 0 + 65536 * b.getD 2 0 + 16777216 * b.getD 3 0))

/-- `seek(off, SEEK_SET)` with `off` already converted to `long` -/
def seekSet (off : Int) : M Unit := fun s =>
  match s.dev with
  | .file => if off < 0 then .error (.err "io") else .ok ((), { s with pos := off.toNat, rest := s.data.drop off.toNat })
  | .stream =>
    if s.failed then .ok ((), s)
    else if off < 0 then .ok ((), { s with failed := true })
    else .ok ((), { s with pos := off.toNat, rest := s.data.drop off.toNat })
  | .sstream =>
    if s.failed then .ok ((), s)
    else if off < 0 ∨ off > Int.ofNat s.data.length then .ok ((), { s with failed := true })
    else .ok ((), { s with pos := off.toNat, rest := s.data.drop off.toNat })

/-- `seek(d, SEEK_CUR)` for d ≥ 0 (the only use): skips forward -/
def seekCur (d : Nat) : M Unit := fun s =>
  if s.dev != .file && s.failed then .ok ((), s)
  else if s.dev == .sstream && s.pos + d > s.data.length then .ok ((), { s with failed := true })
  else .ok ((), { s with pos := s.pos + d, rest := s.rest.drop d })

/-- fuel for a loop that consumes at least one input byte per iteration: the bytes left, plus one -/
def fuelHere : M Nat := fun s => .ok (s.rest.length + 1, s)

/-- `getc()`: both devices throw at end of file -/
def getcChecked : M Nat := do
  let got ← readSome 1
  match got with
  | [c] => pure c
  | _ => ioErr

/-- `getc_unchecked()`: EOF is returned to the caller -/
def getcUnchecked : M (Option Nat) := do
  let got ← readSome 1
  match got with
  | [c] => pure (some c)
  | _ => pure none

/-- `io_error_if( read(ptr, n) != n )` into an existing buffer (`buf.length ≥ n` is the caller's obligation, checked here).
    Since /repo 84ae407 every row / packet read of the three readers throws on a short count (before: the bytes not
    delivered kept their previous content and were used as pixels). Returns the new buffer (a short read never reaches the caller any more, so no stale byte is ever used as data). -/
def readInto (site : String) (buf : List Nat) (n : Nat) : M (List Nat) := do
  if n > buf.length then ubAt ("heap-buffer-overflow@" ++ site) "read(ptr, n) with n larger than the buffer"
  else
    let got ← readSome n
    if got.length < n then ioErr
    else pure (got ++ buf.drop got.length)

/-- allocation of `n` bytes (n as the size_t the C++ computes, already wrapped to 64 bits) -/
def alloc (n : Int) : M Unit :=
  if n > allocLimit then allocErr else pure ()

/-! ## destination view -/

/-- destination storage: `vh` rows of `vw` pixels of `nch` bytes; 256 marks a byte never written -/
structure Dest where
  vw : Int
  vh : Int
  nch : Nat
  rows : Array (List Nat)

/-- `fill`: 0 for an image created by `init_image` (GIL value-initialises the pixels), 256 for a caller's view -/
def Dest.mk' (vw vh : Int) (nch : Nat) (fill : Nat := 256) : Dest :=
  if vw ≤ 0 ∨ vh ≤ 0 then { vw := vw, vh := vh, nch := nch, rows := #[] }
  else { vw := vw, vh := vh, nch := nch, rows := Array.replicate vh.toNat (List.replicate (vw.toNat * nch) fill) }

def Dest.pix (d : Dest) : List Nat := d.rows.toList.flatten

/-- `std::copy(beg, end, view.row_begin(y))` of `px` (whole pixels, `nch` bytes each) -/
def Dest.setRow (site : String) (d : Dest) (y : Int) (px : List Nat) : M Dest :=
  if y < 0 ∨ y ≥ d.vh then
    ubAt ("assert@" ++ site) "view.row_begin(y): BOOST_ASSERT(0 <= y && y < height())"
  else if Int.ofNat px.length > d.vw * d.nch then
    ubAt ("heap-buffer-overflow@" ++ site) "row written outside the destination view"
  else
    pure { d with rows := d.rows.setIfInBounds y.toNat (px ++ (d.rows.getD y.toNat []).drop px.length) }

/-- `image::recreate(w, h)` as called by `init_image` (size_t arithmetic wraps) -/
def recreateImage (st : Settings) (w h : Int) : M Dest := do
  if w == 0 ∨ h == 0 then
    ubAt "assert@io/reader_base.hpp:init_image" "BOOST_ASSERT(settings._dim.x && settings._dim.y): zero image dimension taken from the file"
  else
    let units := wrapU 64 (wrapU 64 (wrapU 64 w * (if st.dst == .gray1 then 1 else st.dst.nch)) * wrapU 64 h)
    let bytes := if st.dst == .gray1 then (units + 7) / 8 else units
    alloc bytes
    pure (Dest.mk' w h st.dst.nch 0)

/-- `check_image_size(view.dimensions())` (identical in the three back ends) -/
def checkDim (dim v w : Int) : M Unit :=
  if dim > 0 then (if v < dim then ioErr else pure ())
  else (if v < w then ioErr else pure ())
def checkImageSize (st : Settings) (dimx dimy w h : Int) : M Unit := do
  checkDim dimx st.vw w
  checkDim dimy st.vh h

/-- the region check at the end of the three reader_backend constructors (/repo c6180a1) -/
def checkSettings (st : Settings) (dimx dimy w h : Int) : M Unit :=
  if st.x0 < 0 ∨ st.y0 < 0 ∨ dimx < 0 ∨ dimy < 0 ∨ st.x0 + dimx > w ∨ st.y0 + dimy > h then ioErr else pure ()

/-- pixels `[x0, x0+dw)` of a row buffer of `row.length` bytes, `bpp` bytes each, as `cc_policy.read` reads them;
    (the whole buffer was delivered by the preceding read: `readInto` throws on a short count) -/
def sliceRow (site : String) (row : List Nat) (bpp : Nat) (x0 dw : Int) : M (List Nat) := do
  if dw ≤ 0 then pure []      -- std::copy with end <= begin copies nothing (end < begin cannot terminate early: see callers)
  else if x0 < 0 ∨ (x0 + dw) * bpp > row.length then
    ubAt ("heap-buffer-overflow@" ++ site) "sub-rectangle columns outside the row buffer (settings are not checked against the image width)"
  else
    pure ((row.drop (x0.toNat * bpp)).take (dw.toNat * bpp))

def chunks (k : Nat) : Nat → List Nat → List (List Nat)
  | 0, _ => []
  | n + 1, xs => xs.take k :: chunks k n (xs.drop k)

/-! ## BMP -/
namespace Bmp

structure Info where
  offset : Int
  hdrSize : Int
  width : Int
  height : Int
  bpp : Int
  comp : Int
  numColors : Int
  topDown : Bool
  deriving Repr

def fReaderBackend := "extension/io/bmp/detail/reader_backend.hpp"
def fRead := "extension/io/bmp/detail/read.hpp"
def fScan := "extension/io/bmp/detail/scanline_read.hpp"

/-- reader_backend::read_header, up to the dimension check -/
def readHeader0 : M Info := do
  let magic ← readU16
  if magic == 0x424D then ioErr      -- sic: little-endian "BM" is 0x4D42, so this rejects only "MB"
  else
    let _ ← readU32
    let _ ← readU16
    let _ ← readU16
    let offset ← readU32
    let hs ← readU32
    if hs == 40 then
      let w := wrapS 32 (← readU32)
      let h := wrapS 32 (← readU32)
      if h == -2147483648 then ioErr          -- "Invalid BMP height." (/repo ad1e4c7; before: -INT_MIN)
      else
        let (h, td) := if h < 0 then (-h, true) else (h, false)
        let _ ← readU16
        let bpp ← readU16
        let comp ← readU32
        let _ ← readU32
        let _ ← readU32
        let _ ← readU32
        let nc ← readU32
        let _ ← readU32
        pure { offset := offset, hdrSize := hs, width := w, height := h, bpp := bpp, comp := comp, numColors := nc, topDown := td }
    else if hs == 12 then
      let w ← readU16
      let h ← readU16
      let _ ← readU16
      let bpp ← readU16
      pure { offset := offset, hdrSize := hs, width := w, height := h, bpp := bpp, comp := 0, numColors := 0, topDown := false }
    else if hs > 40 then
      let w := wrapS 32 (← readU32)
      let h := wrapS 32 (← readU32)
      let _ ← readU16
      let bpp ← readU16
      let comp ← readU32
      let _ ← readU32
      let _ ← readU32
      let _ ← readU32
      let nc ← readU32
      let _ ← readU32
      pure { offset := offset, hdrSize := hs, width := w, height := h, bpp := bpp, comp := comp, numColors := nc, topDown := false }
    else ioErr

/-- reader_backend::read_header: a zero or negative width, or a zero / still negative height, is rejected (/repo ad1e4c7) -/
def readHeader : M Info := do
  let i ← readHeader0
  if i.width < 1 ∨ i.height < 1 then ioErr
  -- /repo c96cb0d: the readers compute the row pitch in int: width * bits per pixel (+ 31) has to fit
  else if i.width * i.bpp > 2147483647 - 31 then ioErr
  else pure i

/-- palette entries (r,g,b,a) -/
abbrev Palette := List (Nat × Nat × Nat × Nat)

/-- the fourth byte of a palette entry (40-byte header only) -/
def skipByteIf (c : Bool) : M Unit := if c then (do let _ ← readU8; pure ()) else pure ()

def readPaletteLoop (four : Bool) : Nat → Palette → M Palette
  | 0, acc => pure acc.reverse
  | n + 1, acc => do
    let b ← readU8
    let g ← readU8
    let r ← readU8
    skipByteIf four
    readPaletteLoop four n ((r.toNat, g.toNat, b.toNat, 0) :: acc)

/-- reader_backend::read_palette (and the scanline reader's copy) -/
def readPalette (i : Info) : M Palette := do
  let e0 := wrapS 32 i.numColors          -- int entries = _info._num_colors
  let entries := if e0 == 0 then (2 : Int) ^ i.bpp.toNat else e0     -- 1u << bpp, bpp ∈ {1,4,8} at every call site
  -- _palette.resize(entries): a negative int becomes a huge size_t (length_error)
  if entries < 0 then allocErr
  else
    alloc (entries * 4)
    let pal ← readPaletteLoop (i.hdrSize == 40) entries.toNat []
    -- indices beyond the declared entries read black, not out of bounds (/repo d528079): _palette.resize(256, 0)
    pure (if pal.length < 256 then pal ++ List.replicate (256 - pal.length) (0, 0, 0, 0) else pal)

/-- number of palette entries the header declares (for the "inconsistent palette accepted" taint) -/
def declaredEntries (i : Info) : Int :=
  let e0 := wrapS 32 i.numColors
  if e0 == 0 then (2 : Int) ^ i.bpp.toNat else e0

/-- is_allowed<View>(info, is_read_and_no_convert) -/
def isAllowed (i : Info) (st : Settings) : M Bool :=
  if st.entry == .conv then pure true
  else
    if i.bpp == 1 ∨ i.bpp == 4 ∨ i.bpp == 8 then
      pure (st.dst.bits == (if i.hdrSize == 40 ∧ i.comp ≠ 1 ∧ i.comp ≠ 2 then 32 else 24))
    else if i.bpp == 15 ∨ i.bpp == 16 then pure (st.dst.bits == 24)
    else if i.bpp == 24 ∨ i.bpp == 32 then pure (st.dst.bits == i.bpp)
    else ioErr

/-- get_offset(pos): size_t arithmetic, converted to long -/
def getOffset (i : Info) (pitch : Int) (pos : Int) : Int :=
  if i.height > 0 then wrapS 64 (i.offset + wrapU 64 ((i.height - 1 - pos) * pitch))
  else wrapS 64 (i.offset + wrapU 64 (pos * pitch))

/-- palette colour assigned to a destination pixel (`*dst_it = _palette[c]`) -/
def palPixel (dst : Dst) (p : Nat × Nat × Nat × Nat) : List Nat :=
  match dst with
  | .rgba8 => [p.1, p.2.1, p.2.2.1, p.2.2.2]
  | _ => [p.1, p.2.1, p.2.2.1]

/-- detail::mirror_bits / detail::swap_half_bytes / do_nothing, applied in place to the whole row buffer -/
def mirror8 (b : Nat) : Nat :=
  b / 128 % 2 + 2 * (b / 64 % 2) + 4 * (b / 32 % 2) + 8 * (b / 16 % 2) + 16 * (b / 8 % 2) + 32 * (b / 4 % 2) + 64 * (b / 2 % 2) + 128 * (b % 2)
def manip (bpp : Int) (row : List Nat) : List Nat :=
  if bpp == 8 then row else if bpp == 4 then row.map (fun b => b % 16 * 16 + b / 16) else row.map mirror8

/-- indices of one row of a 1/4/8-bit palette image read from the *manipulated* buffer:
    bit-aligned gray1 / gray4 pixels are taken from the least significant bits upwards -/
def rowIndices (bpp : Int) (row : List Nat) : List Nat :=
  if bpp == 8 then row
  else if bpp == 4 then row.flatMap (fun b => [b % 16, b / 16])
  else row.flatMap (fun b => [b % 2, b / 2 % 2, b / 4 % 2, b / 8 % 2, b / 16 % 2, b / 32 % 2, b / 64 % 2, b / 128 % 2])

def lookupAll (site why : String) (pal : Palette) (dst : Dst) (declared : Int := 256) : List Nat → List Nat → M (List Nat)
  | [], acc => pure acc.reverse
  | c :: cs, acc =>
    match pal[c]? with
    | some p => do
      taintIf (decide (Int.ofNat c ≥ declared)) "palette index beyond the entries the header declares is read from the zero padding instead of being reported"
      lookupAll site why pal dst declared cs ((palPixel dst p).reverse ++ acc)
    | none => ubAt site why

/-- rows loop shared by read_palette_image / read_data_15 / read_data:
    `rowFn row` turns the row buffer into destination pixels (and the buffer it leaves behind) -/
def rowsLoop (i : Info) (pitch : Int) (st : Settings) (y0 : Int) (site : String)
    (rowFn : List Nat → M (List Nat × List Nat)) : Nat → Int → List Nat → Dest → M Dest
  | 0, _, _, d => pure d
  | n + 1, y, row, d => do
    seekSet (getOffset i pitch (y + y0))
    let row ← readInto site row pitch.toNat
    let (px, row) ← rowFn row
    let d ← d.setRow site y px
    rowsLoop i pitch st y0 site rowFn n (y + 1) row d

/-- the inner loop of read_palette_image over one (manipulated) row buffer -/
def paletteRowPixels (site : String) (i : Info) (st : Settings) (dimx : Int) (pal : Palette) (row : List Nat) : M (List Nat) := do
  let ppb : Int := if i.bpp == 8 then 1 else if i.bpp == 4 then 2 else 8      -- pixels per byte
  -- it = rh.begin() + top_left.x ; end = it + dim.x ; for (; it != end; ++it)
  if dimx < 0 then
    ubAt ("heap-buffer-overflow@" ++ site) "negative dim.x: the loop `it != end` runs off the row buffer"
  else if dimx == 0 then pure []
  else if st.x0 < 0 ∨ st.x0 + dimx > Int.ofNat row.length * ppb then
    ubAt ("heap-buffer-overflow@" ++ site) "sub-rectangle columns outside the row buffer (settings are not checked against the image width)"
  else
    let idx := ((rowIndices i.bpp row).drop st.x0.toNat).take dimx.toNat
    lookupAll ("vector-index@" ++ site) "palette index from the pixel data is >= the palette size declared by the header" pal st.dst (declaredEntries i) idx []

/-- read_palette_image -/
def readPaletteImage (i : Info) (pitch : Int) (st : Settings) (dimx dimy : Int) (d : Dest) : M Dest := do
  let pal ← readPalette i
  alloc pitch                                   -- row_buffer_helper(_pitch, true)
  let site := fRead ++ ":read_palette_image"
  if pitch == 0 ∧ dimy > 0 then
    ubAt ("vector-index@" ++ site) "rh.data() == &_row_buffer[0] on an empty row buffer (zero width taken from the file)"
  else
  rowsLoop i pitch st st.y0 site (fun row => do
      let row := manip i.bpp row                 -- byte_manipulator(rh.buffer()): in place, the buffer persists
      let px ← paletteRowPixels site i st dimx pal row
      pure (px, row))
    dimy.toNat 0 (List.replicate pitch.toNat 0) d

def countOnes (x : Nat) : Nat := (List.range 32).foldl (fun n k => n + x / 2 ^ k % 2) 0
def trailingZeros32 (x : Nat) : Nat :=
  -- detail::trailing_zeros<unsigned>: 32 for x = 0
  if x == 0 then 32 else ((List.range 32).find? (fun k => x / 2 ^ k % 2 == 1)).getD 32

structure Mask where
  mask : Nat
  width : Nat
  shift : Nat
  deriving Repr

/-- colour masks of 15/16-bit images -/
def readMasks (i : Info) : M (Mask × Mask × Mask) := do
  if i.comp == 3 then
    let r ← readU32
    let g ← readU32
    let b ← readU32
    let m (x : Int) : Mask := { mask := x.toNat, width := countOnes x.toNat, shift := trailingZeros32 x.toNat }
    -- /repo 12811a4: an empty mask or one wider than 8 bits is rejected (before: undefined shifts in chan15)
    if r == 0 ∨ g == 0 ∨ b == 0 ∨ (m r).width > 8 ∨ (m g).width > 8 ∨ (m b).width > 8 then ioErr
    else pure (m r, m g, m b)
  else if i.comp == 0 then
    -- switch (bpp) { case 15: case 16: ...; case 24: case 32: ... }   (only 15/16 reach this function)
    pure ({ mask := 0x7C00, width := 5, shift := 10 }, { mask := 0x03E0, width := 5, shift := 5 }, { mask := 0x1F, width := 5, shift := 0 })
  else ioErr

/-- `((p & mask) >> shift) << (8 - width)` on `int p` (0..65535), `unsigned mask, shift, width`:
    the arithmetic is unsigned 32-bit; a shift count ≥ 32 is undefined -/
def chan15 (site : String) (p : Nat) (m : Mask) : M Nat := do
  if m.shift ≥ 32 then ubAt ("shift-exponent@" ++ site) "bit-field mask is 0: shift by trailing_zeros(0) = 32"
  else
    let l : Int := 8 - Int.ofNat m.width        -- unsigned 8 - width wraps for width > 8
    if l < 0 then ubAt ("shift-exponent@" ++ site) "bit-field mask wider than 8 bits: shift by 8 - width (unsigned wrap)"
    else pure (((p % 4294967296 / 2 ^ 0) &&& m.mask) / 2 ^ m.shift * 2 ^ l.toNat % 4294967296 % 256)

def row15 (site : String) (ms : Mask × Mask × Mask) : Nat → List Nat → List Nat → M (List Nat)
  | 0, _, acc => pure acc.reverse
  | n + 1, src, acc => do
    let p := src.getD 0 0 + 256 * src.getD 1 0
    let r ← chan15 site p ms.1
    let g ← chan15 site p ms.2.1
    let b ← chan15 site p ms.2.2
    row15 site ms n (src.drop 2) (b :: g :: r :: acc)

/-- rgb8 source pixel → destination pixel (copy or default colour conversion to rgba8) -/
def cvtRgb (dst : Dst) : List Nat → List Nat
  | r :: g :: b :: rest => (if dst == .rgba8 then [r, g, b, 255] else [r, g, b]) ++ cvtRgb dst rest
  | _ => []
def cvtBgr (dst : Dst) : List Nat → List Nat
  | b :: g :: r :: rest => (if dst == .rgba8 then [r, g, b, 255] else [r, g, b]) ++ cvtBgr dst rest
  | _ => []
def mul255 (a b : Nat) : Nat := let t := a * b + 128; (t + t / 256) / 256
def cvtBgra (dst : Dst) : List Nat → List Nat
  | b :: g :: r :: a :: rest =>
    (if dst == .rgba8 then [r, g, b, a] else [mul255 r a, mul255 g a, mul255 b a]) ++ cvtBgra dst rest
  | _ => []

/-- read_data_15 -/
def readData15 (i : Info) (pitch : Int) (st : Settings) (dimx dimy : Int) (d : Dest) : M Dest := do
  alloc pitch                                                -- byte_vector_t row(_pitch)
  let ms ← readMasks i
  let site := fRead ++ ":read_data_15"
  if pitch == 0 ∧ dimy > 0 then
    ubAt ("vector-empty@" ++ site) "&row.front() on an empty row buffer (zero width taken from the file)"
  else
  rowsLoop i pitch st st.y0 site (fun row => do
      alloc (wrapU 64 (wrapU 64 i.width * 3))                -- image_t img_row(_info._width, 1)
      let px ← row15 site ms i.width.toNat row []
      -- beg = v.row_begin(0) + top_left.x ; end = beg + dim.x  over an rgb8 row of _info._width pixels
      if dimx ≤ 0 then pure ([], row)
      else if st.x0 < 0 ∨ st.x0 + dimx > i.width then
        ubAt ("heap-buffer-overflow@" ++ site) "sub-rectangle columns outside the converted row (settings are not checked against the image width)"
      else pure (cvtRgb st.dst ((px.drop (st.x0.toNat * 3)).take (dimx.toNat * 3)), row))
    dimy.toNat 0 (List.replicate pitch.toNat 0) d

/-- read_data<bgr8_view_t> / read_data<bgra8_view_t> -/
def readData (i : Info) (pitch : Int) (st : Settings) (dimx dimy : Int) (bpp : Nat) (d : Dest) : M Dest := do
  alloc pitch
  let site := fRead ++ ":read_data"
  if pitch == 0 then
    ubAt ("vector-empty@" ++ site) "&row.front() on an empty row buffer (zero width taken from the file)"
  else
  rowsLoop i pitch st st.y0 site (fun row => do
      let px ← sliceRow site row bpp st.x0 dimx
      pure (if bpp == 3 then cvtBgr st.dst px else cvtBgra st.dst px, row))
    dimy.toNat 0 (List.replicate pitch.toNat 0) d

/-! ### RLE -/

structure Rle where
  buf : List (Nat × Nat × Nat × Nat)   -- std::vector<rgba8_pixel_t> buf(dim.x)
  x : Int                              -- dst_it - buf.begin()
  xend : Int                           -- dst_end - buf.begin()
  y : Int
  streamPos : Int
  deriving Repr

def fRle := fRead ++ ":read_palette_image_rle"

/-- copy_row_if_needed -/
def copyRowIfNeeded (st : Settings) (dimx dimy : Int) (r : Rle) (d : Dest) : M Dest :=
  -- /repo 76f86d6: y is a row of the image, buf holds that whole row; row = y - top_left.y
  let row := r.y - st.y0
  if row ≥ 0 ∧ row < dimy then
    if dimx ≤ 0 then pure d
    else if st.x0 < 0 ∨ st.x0 + dimx > Int.ofNat r.buf.length then
      ubAt ("heap-buffer-overflow@" ++ fRead ++ ":copy_row_if_needed") "buf.begin() + top_left.x + dim.x beyond the dim.x-wide row buffer"
    else
      d.setRow (fRead ++ ":copy_row_if_needed") row (((r.buf.drop st.x0.toNat).take dimx.toNat).flatMap (palPixel st.dst))
  else pure d

/-- `*dst_it++ = v` for each of `vals` -/
def putRun (r : Rle) (vals : List (Nat × Nat × Nat × Nat)) : M Rle :=
  if vals.isEmpty then pure r          -- a clamped (≤ 0) count runs no iteration: dst_it is not dereferenced
  else if r.x < 0 ∨ r.x + Int.ofNat vals.length > Int.ofNat r.buf.length then
    ubAt ("heap-buffer-overflow@" ++ fRle) "write through dst_it outside buf (escape 2 moved dst_it beyond the row)"
  else
    pure { r with buf := r.buf.take r.x.toNat ++ vals ++ r.buf.drop (r.x.toNat + vals.length), x := r.x + vals.length }

def palAt (pal : Palette) (declared : Int) (c : Int) : M (Nat × Nat × Nat × Nat) :=
  match pal[c.toNat]? with
  | some p => do
    taintIf (decide (c ≥ declared)) "palette index beyond the entries the header declares is read from the zero padding instead of being reported"
    pure p
  | none => ubAt ("vector-index@" ++ fRle) "palette index from the RLE data is >= the palette size declared by the header"

/-- absolute-mode bytes (RLE8: one index per byte) -/
def absRun8 (pal : Palette) (declared : Int) : Nat → Rle → M Rle
  | 0, r => pure r
  | n + 1, r => do
    let c ← readU8
    let p ← palAt pal declared c
    let r ← putRun { r with streamPos := r.streamPos + 1 } [p]
    absRun8 pal declared n r

/-- absolute-mode bytes (RLE4): `for (i = 0; i < count; ++i) { read; put hi; if (++i == second) break; put lo; }` -/
def absRun4 (pal : Palette) (declared : Int) (count second : Int) : Nat → Int → Rle → M Rle
  | 0, _, r => pure r
  | fuel + 1, i, r =>
    if i < count then do
      let b ← readU8
      let r := { r with streamPos := r.streamPos + 1 }
      let p ← palAt pal declared (b / 16)
      let r ← putRun r [p]
      if i + 1 == second then pure r
      else if r.x == r.xend then pure r        -- /repo b2161e7: the run was clamped to the row, no room for the low nibble
      else
        let p ← palAt pal declared (b % 16)
        let r ← putRun r [p]
        absRun4 pal declared count second fuel (i + 2) r
    else pure r

/-- `if (dy) copy_row_if_needed(...)` -/
def copyRowIf (c : Bool) (st : Settings) (dimx dimy : Int) (r : Rle) (d : Dest) : M Dest :=
  if c then copyRowIfNeeded st dimx dimy r d else pure d

/-- `_palette[idx]` evaluated only when the run writes at least `need` > 0 pixels -/
def palAtIf (pal : Palette) (declared : Int) (idx : Int) (need : Int) : M (Nat × Nat × Nat × Nat) :=
  if need ≤ 0 then pure (0, 0, 0, 0) else palAt pal declared idx

/-- absolute mode: `count` (clamped) of the `second` coded pixels -/
def absRun (i : Info) (pal : Palette) (count second : Int) (r : Rle) : M Rle :=
  if i.comp == 2 then absRun4 pal (declaredEntries i) count second (count.toNat + 1) 0 r
  else absRun8 pal (declaredEntries i) count.toNat r

/-- pad to word boundary: `(stream_pos - get_offset(0)) & 1` -/
def padWord (i : Info) (pitch : Int) (r : Rle) : M Rle :=
  if (r.streamPos - getOffset i pitch 0) % 2 == 1 then do
    seekCur 1
    pure { r with streamPos := r.streamPos + 1 }
  else pure r

/-- read_palette_image_rle main loop; one unit of fuel per `while (!finished)` iteration -/
def rleLoop (i : Info) (pitch : Int) (st : Settings) (dimx dimy : Int) (pal : Palette) (yend yinc : Int) :
    Nat → Rle → Dest → M Dest
  | 0, _, _ => stop (.fuel "read_palette_image_rle")
  | fuel + 1, r, d => do
    let count ← readU8
    let second ← readU8
    let r := { r with streamPos := r.streamPos + 2 }
    if count ≠ 0 then
      let count := if count > r.xend - r.x then r.xend - r.x else count
      -- a negative count (dst_it beyond dst_end) runs no iteration
      if i.comp == 2 then
        let p0 ← palAtIf pal (declaredEntries i) (second / 16) count
        let p1 ← palAtIf pal (declaredEntries i) (second % 16) (count - 1)
        let vals := (List.range count.toNat).map (fun k => if k % 2 == 0 then p0 else p1)
        let r ← putRun r vals
        rleLoop i pitch st dimx dimy pal yend yinc fuel r d
      else
        let p ← palAtIf pal (declaredEntries i) second count
        let r ← putRun r (List.replicate count.toNat p)
        rleLoop i pitch st dimx dimy pal yend yinc fuel r d
    else if second == 0 then
      let d ← copyRowIfNeeded st dimx dimy r d
      let y := r.y + yinc
      if y == yend then pure d
      else rleLoop i pitch st dimx dimy pal yend yinc fuel { r with y := y, x := 0, xend := r.buf.length } d
    else if second == 1 then
      copyRowIfNeeded st dimx dimy r d
    else if second == 2 then
      let dx ← readU8
      let dy0 ← readU8
      let dy := dy0 * yinc
      let r := { r with streamPos := r.streamPos + 2 }
      let d ← copyRowIf (decide (dy ≠ 0)) st dimx dimy r d
      let x := r.x + dx
      if x > i.width then ioErr
      else
        let y := r.y + dy
        if (if yinc > 0 then y > yend else y < yend) then ioErr
        else
          -- dst_it = buf.begin() + x may lie beyond buf.end() (x is checked against _info._width, the buffer is dim.x wide);
          -- every later run is clamped to dst_end - dst_it (negative: no iteration), so nothing is written through it
          rleLoop i pitch st dimx dimy pal yend yinc fuel { r with x := x, y := y, xend := r.buf.length } d
    else
      let count := if second > r.xend - r.x then r.xend - r.x else second
      let r ← absRun i pal count second r
      let r ← padWord i pitch r
      rleLoop i pitch st dimx dimy pal yend yinc fuel r d

/-- read_palette_image_rle -/
def readPaletteImageRle (i : Info) (pitch : Int) (st : Settings) (dimx dimy : Int) (d : Dest) : M Dest := do
  let pal ← readPalette i
  seekSet (wrapS 64 i.offset)
  if i.width < 0 then allocErr            -- Buf_type buf(_info._width): length_error
  else
    alloc (i.width * 4)
    -- /repo 76f86d6: every row is decoded at the full image width, rows run over the image height
    let (ybeg, yend, yinc) : Int × Int × Int := if i.height > 0 then (i.height - 1, -1, -1) else (0, i.height, 1)
    let fuel ← fuelHere
    rleLoop i pitch st dimx dimy pal yend yinc fuel
      { buf := List.replicate i.width.toNat (0, 0, 0, 0), x := 0, xend := i.width, y := ybeg, streamPos := i.offset } d

/-- the `switch (_info._bits_per_pixel)` of reader::apply -/
def dispatch (i : Info) (pitch : Int) (st : Settings) (dimx dimy : Int) (d : Dest) : M Dest :=
  if i.bpp == 1 then readPaletteImage i pitch st dimx dimy d
  else if i.bpp == 4 then
    if i.comp == 2 then readPaletteImageRle i pitch st dimx dimy d
    else if i.comp == 0 then readPaletteImage i pitch st dimx dimy d
    else ioErr
  else if i.bpp == 8 then
    if i.comp == 1 then readPaletteImageRle i pitch st dimx dimy d
    else if i.comp == 0 then readPaletteImage i pitch st dimx dimy d
    else ioErr
  else if i.bpp == 15 ∨ i.bpp == 16 then readData15 i pitch st dimx dimy d
  else if i.bpp == 24 then readData i pitch st dimx dimy 3 d
  else if i.bpp == 32 then readData i pitch st dimx dimy 4 d
  else do              -- no default in the switch: nothing is read (reachable with read_and_convert_image only)
    setTaint ("unsupported bits-per-pixel value falls through the switch in apply(): nothing is read, the destination is returned unwritten (" ++ fRead ++ ":apply)")
    pure d

/-- reader::apply -/
def apply (i : Info) (st : Settings) (dimx dimy : Int) (d : Dest) : M Dest := do
  let ok ← isAllowed i st
  if !ok then ioErr
  else
    -- the row pitch: int arithmetic on _info._width (int32_t) and _bits_per_pixel (uint16_t promoted to int)
    let raw : Int := if i.bpp < 8 then i.width * i.bpp else i.width * ((i.bpp + 7) / 8)
    if !inS32 raw ∨ (i.bpp < 8 ∧ !inS32 (raw + 7)) then
      ubAt ("signed-integer-overflow@" ++ fRead ++ ":apply") "_info._width * bits (or bytes) per pixel overflows int"
    else
      let p0 : Int := if i.bpp < 8 then (raw + 7) / 8 else raw       -- >> 3 on int is arithmetic (floor)
      let pitch := wrapU 64 (wrapU 64 p0 + 3) / 4 * 4                 -- size_t: (_pitch + 3) & ~3
      dispatch i pitch st dimx dimy d

/-! ### scanline reader -/

/-- state of a scanline iteration: the iterator's row buffer and the reader's `_buffer` member -/
structure ScanBufs where
  dst : List Nat
  buf : List Nat

/-- `for (it = begin(); it != end(); ++it) *it`: each dereference seeks and reads one row -/
def scanRowsBuf (i : Info) (pitch : Int) (rowFn : ScanBufs → M ScanBufs) : Nat → Int → ScanBufs → List (List Nat) → M (List (List Nat))
  | 0, _, _, acc => pure acc
  | n + 1, pos, bufs, acc => do
    -- read(dst, pos): long offset = _info._offset + static_cast<long>(height - 1 - pos) * _pitch   (/repo c96cb0d: in long)
    let prod := (if i.height > 0 then i.height - 1 - pos else pos) * pitch
    seekSet (wrapS 64 (i.offset + prod))
    let bufs ← rowFn bufs
    scanRowsBuf i pitch rowFn n (pos + 1) bufs (bufs.dst :: acc)

/-- iterate begin()..end(): both iterators allocate a `_scanline_length` buffer; rows = `_info._height` -/
def scanFinish (i : Info) (pitch : Int) (sl : Int) (buf0 : List Nat) (rowFn : ScanBufs → M ScanBufs) : M Img := do
  if i.height > scanRowLimit then stop (.err "big") else
  alloc sl
  if sl == 0 then
    ubAt ("vector-empty@" ++ fScan ++ ":begin") "scanline_read_iterator: &buffer_->front() on an empty buffer (zero width taken from the file)"
  else if i.height < 0 then
    stop (.hang "negative height (only a 40-byte header is normalised): `it != end()` is not reached by incrementing from begin()")
  else
  let rows := i.height.toNat
  let rs ← scanRowsBuf i pitch rowFn rows 0 { dst := List.replicate sl.toNat 0, buf := buf0 } []
  pure { hdr := [i.width, i.height, sl, rows], pix := rs.reverse.flatten }

/-- read_1_bit_row / read_4_bits_row / read_8_bits_row + read_bit_row -/
def scanPaletteRow (i : Info) (pitch : Int) (pal : Palette) (b : ScanBufs) : M ScanBufs := do
  let site := fScan ++ ":read_bit_row"
  if pitch == 0 then ubAt ("vector-empty@" ++ fScan ++ ":read_row_bits") "&_buffer.front() on an empty buffer" else
  let row ← readInto site b.buf pitch.toNat
  let row := manip i.bpp row
  let idx := (rowIndices i.bpp row).take i.width.toNat
  let px ← lookupAll ("vector-index@" ++ site) "palette index from the pixel data is >= the palette size declared by the header" pal .rgba8 (declaredEntries i) idx []
  pure { dst := px ++ b.dst.drop px.length, buf := row }

/-- read_15_bits_row -/
def scan15Row (i : Info) (pitch : Int) (ms : Mask × Mask × Mask) (b : ScanBufs) : M ScanBufs := do
  let site := fScan ++ ":read_15_bits_row"
  if pitch == 0 then ubAt ("vector-empty@" ++ site) "&_buffer.front() on an empty buffer" else
  let row ← readInto site b.buf pitch.toNat
  let px ← row15 site ms i.width.toNat row []
  pure { dst := px ++ b.dst.drop px.length, buf := row }

/-- read_row (24 / 32 bit): the whole scanline (padding included) is handed to the caller -/
def scanRawRow (pitch : Int) (b : ScanBufs) : M ScanBufs := do
  if pitch < 0 then pure b else
  let row ← readInto (fScan ++ ":read_row") b.dst pitch.toNat
  pure { b with dst := row }

/-- scanline_reader::initialize after the pitch has been computed -/
def scanWith (i : Info) (pitch : Int) : M Img := do
  let sl4 := wrapU 64 (wrapU 64 (wrapU 64 i.width * 4) + 3) / 4 * 4
  let sl3 := wrapU 64 (wrapU 64 (wrapU 64 i.width * 3) + 3) / 4 * 4
  if i.bpp == 1 ∨ ((i.bpp == 4 ∨ i.bpp == 8) ∧ i.comp == 0) then
    let pal ← readPalette i
    if pitch < 0 then allocErr else
    alloc pitch
    scanFinish i pitch sl4 (List.replicate pitch.toNat 0) (scanPaletteRow i pitch pal)
  else if i.bpp == 4 then (if i.comp == 2 then ioErr else ioErr)
  else if i.bpp == 8 then (if i.comp == 1 then ioErr else ioErr)
  else if i.bpp == 15 ∨ i.bpp == 16 then
    if pitch < 0 then allocErr else
    alloc pitch
    let ms ← readMasks i
    scanFinish i pitch sl3 (List.replicate pitch.toNat 0) (scan15Row i pitch ms)
  else if i.bpp == 24 ∨ i.bpp == 32 then
    scanFinish i pitch (if i.bpp == 24 then sl3 else sl4) [] (scanRawRow pitch)
  else ioErr

def scan (i : Info) : M Img := do
  let raw : Int := if i.bpp < 8 then i.width * i.bpp else i.width * ((i.bpp + 7) / 8)
  if !inS32 raw ∨ (i.bpp < 8 ∧ !inS32 (raw + 7)) then
    ubAt ("signed-integer-overflow@" ++ fScan ++ ":initialize") "_info._width * bits (or bytes) per pixel overflows int"
  else
    let p0 : Int := if i.bpp < 8 then (raw + 7) / 8 else raw
    if !inS32 (p0 + 3) then ubAt ("signed-integer-overflow@" ++ fScan ++ ":initialize") "_pitch + 3 overflows int"
    else scanWith i ((p0 + 3) / 4 * 4)        -- int: (_pitch + 3) & ~3

/-- the whole BMP read for one entry point -/
def run (st : Settings) : M Img := do
  let i ← readHeader
  let dimx := if st.dw == 0 then i.width else st.dw
  let dimy := if st.dh == 0 then i.height else st.dh
  checkSettings st dimx dimy i.width i.height
  match st.entry with
  | .info => pure { hdr := [i.width, i.height, i.bpp, i.comp, i.offset, i.hdrSize, i.numColors, if i.topDown then 1 else 0], pix := [] }
  | .scan => scan i
  | .view =>
    checkImageSize st dimx dimy i.width i.height
    let d ← apply i st dimx dimy (Dest.mk' st.vw st.vh st.dst.nch)
    pure { hdr := [st.vw, st.vh], pix := d.pix }
  | _ =>
    let d ← recreateImage st dimx dimy
    let d ← apply i st dimx dimy d
    pure { hdr := [dimx, dimy], pix := d.pix }

end Bmp

/-! ## PNM -/
namespace Pnm

structure Info where
  type : Int
  width : Int
  height : Int
  maxValue : Int
  deriving Repr

def fBackend := "extension/io/pnm/detail/reader_backend.hpp"
def fRead := "extension/io/pnm/detail/read.hpp"
def fScan := "extension/io/pnm/detail/scanline_read.hpp"

def isDigit (c : Nat) : Bool := 48 ≤ c && c ≤ 57
/-- isspace in the "C" locale -/
def isSpace (c : Nat) : Bool := c == 32 || (9 ≤ c && c ≤ 13)

/-- skip a comment to end of line; every `getc()` throws at end of file. One unit of fuel per character. -/
def skipComment : Nat → M Nat
  | 0 => stop (.fuel "read_char")
  | fuel + 1 => do
    let c ← getcChecked
    if c == 10 ∨ c == 13 then pure c else skipComment fuel

/-- reader_backend::read_char -/
def readChar : M Nat := do
  let c ← getcChecked
  if c == 35 then do
    let fuel ← fuelHere
    skipComment fuel
  else pure c

def skipWs : Nat → M Nat
  | 0 => stop (.fuel "read_int")
  | k + 1 => do
    let c ← readChar
    if c == 32 ∨ c == 9 ∨ c == 10 ∨ c == 13 then skipWs k else pure c

def digitsLoop : Nat → Nat → Nat → M Int
  | 0, _, _ => stop (.fuel "read_int")
  | k + 1, c, val => do
    let dig := c - 48
    if val > 214748364 - dig then ioErr      -- val > INT_MAX / 10 - dig
    else
      let val := val * 10 + dig
      let c ← readChar
      if isDigit c then digitsLoop k c val else pure (Int.ofNat val)

/-- reader_backend::read_int -/
def readInt : M Int := do
  let c ← skipWs (← fuelHere)
  if !isDigit c then ioErr else digitsLoop (← fuelHere) c 0

/-- reader_backend::read_header -/
def readHeader : M Info := do
  let p ← readChar
  if p ≠ 80 then ioErr
  else
    let t ← readChar
    -- _info._type = read_char() - '0' (char is signed, the field unsigned): valid iff '1'..'6'
    if t < 49 ∨ t > 54 then ioErr
    else
      let ty : Int := Int.ofNat (t - 48)
      let w ← readInt
      let h ← readInt
      if w < 1 ∨ h < 1 then ioErr            -- /repo 8a05590
      else
      if ty == 1 ∨ ty == 4 then pure { type := ty, width := w, height := h, maxValue := 1 }
      else
        let m ← readInt
        if m > 255 then ioErr else pure { type := ty, width := w, height := h, maxValue := m }

/-- is_allowed<View>(info, is_read_and_no_convert) -/
def isAllowed (i : Info) (st : Settings) : Bool :=
  if st.entry == .conv then true
  else
    let (asc, bin) : Int × Int := match st.dst with
      | .gray1 => (1, 4) | .gray8 => (2, 5) | .rgb8 => (3, 6) | _ => (0, 0)
    if i.type == 1 then asc == 2 else (asc == i.type || bin == i.type)

/-- decimal value of a digit string modulo 256 (`static_cast<byte_t>(atoi(buf))`, at most 15 digits) -/
def atoiByte (ds : List Nat) : Nat := (ds.foldl (fun v d => v * 10 + (d - 48)) 0) % 256

/-- one token of a text row: `some digits`, or `none` when the row ends early (EOF or a non-space character).
    One unit of fuel per character. -/
def token (site : String) : Nat → List Nat → M (Option (List Nat))
  | 0, _ => stop (.fuel "read_text_row")
  | fuel + 1, acc => do
    let c ← getcUnchecked
    match c with
    | some ch =>
      if isDigit ch then
        if acc.length ≥ 15 then ioErr          -- k >= sizeof(buf) - 1: "Number too long in pnm file."
        else token site fuel (acc ++ [ch])
      else if acc.length > 0 then pure (some acc)
      else if !isSpace ch then pure none
      else token site fuel acc
    | none => if acc.length > 0 then pure (some acc) else pure none

/-- the `for (x < _scanline_length)` loop of read_text_row; returns the row buffer -/
def textSamples (site : String) (maxValue : Int) (process : Bool) : Nat → Nat → List Nat → M (List Nat)
  | 0, _, row => pure row
  | n + 1, x, row => do
    match ← token site (← fuelHere) [] with
    | none => ioErr            -- /repo 8a05590: "Unexpected end of data or character in pnm file." (before: silent return)
    | some ds =>
      if process then
        let v := atoiByte ds
        let b := if maxValue == 1 then (if ds.foldl (fun v d => v * 10 + (d - 48)) 0 % 4294967296 ≠ 0 then 0 else 255) else v
        textSamples site maxValue process n (x + 1) (row.set x b)
      else textSamples site maxValue process n (x + 1) row

def gray1To (dst : Dst) (bits : List Nat) : List Nat :=
  match dst with
  | .rgb8 => bits.flatMap (fun b => let v := if b == 0 then 0 else 255; [v, v, v])
  | _ => bits
def gray8To (dst : Dst) (xs : List Nat) : List Nat :=
  match dst with
  | .rgb8 => xs.flatMap (fun v => [v, v, v])
  | _ => xs

/-- rows of read_text_data: `skip` rows without processing, then one row per destination row -/
def textRows (i : Info) (st : Settings) (dimx : Int) (sl : Nat) (srcCh : Nat) (site : String) :
    Nat → Bool → Int → List Nat → Dest → M Dest
  | 0, _, _, _, d => pure d
  | n + 1, process, y, row, d => do
    let row ← textSamples site i.maxValue process sl 0 row
    if process then
      -- copy_data: beg = src.row_begin(0) + top_left.x ; end = beg + dim.x
      let px ← sliceRow (fRead ++ ":copy_data") row srcCh st.x0 dimx
      let px := if srcCh == 1 then gray8To st.dst px else px
      let d ← d.setRow (fRead ++ ":copy_data") y px
      textRows i st dimx sl srcCh site n process (y + 1) row d
    else
      textRows i st dimx sl srcCh site n process (y + 1) row d

/-- read_text_data -/
def readTextData (i : Info) (st : Settings) (dimx : Int) (sl : Int) (srcCh : Nat) (d : Dest) : M Dest := do
  alloc sl
  let site := fRead ++ ":read_text_row"
  let rowsSkip := if st.y0 > 0 then st.y0.toNat else 0
  let rowsRead := if d.vh > 0 then d.vh.toNat else 0
  if sl == 0 ∧ (rowsSkip > 0 ∨ rowsRead > 0) then
    ubAt ("vector-empty@" ++ site) "&row.front() on an empty row buffer (zero width taken from the file)"
  else
    let row := List.replicate sl.toNat 0
    -- the skipped rows fill `row` with nothing (process = false)
    let d ← textRows i st dimx sl.toNat srcCh site rowsSkip false 0 row d
    textRows i st dimx sl.toNat srcCh site rowsRead true 0 row d

/-- in-place manipulators of a bit row: negate_bits then mirror_bits
    (since /repo fedfb71 / c6cf4c1; before that the second one was swap_half_bytes) -/
def manipBits (row : List Nat) : List Nat := row.map (fun b => Bmp.mirror8 (255 - b))

def bitsOf (row : List Nat) : List Nat :=
  row.flatMap (fun b => [b % 2, b / 2 % 2, b / 4 % 2, b / 8 % 2, b / 16 % 2, b / 32 % 2, b / 64 % 2, b / 128 % 2])

def skipBinRows (site : String) (sl : Nat) : Nat → List Nat → M (List Nat)
  | 0, buf => pure buf
  | n + 1, buf => do
    let buf ← readInto site buf sl
    skipBinRows site sl n buf

/-- rows of read_bin_data; `unit` = pixels the row buffer holds per byte of `_scanline_length`
    (gray1: 8 pixels per byte; gray8 / rgb8: the buffer has `_scanline_length` *pixels*) -/
def binRows (i : Info) (st : Settings) (dimx : Int) (sl : Nat) (site : String) : Nat → Int → List Nat → Dest → M Dest
  | 0, _, _, d => pure d
  | n + 1, y, buf, d => do
    let buf ← readInto site buf sl
    if i.type == 4 then
      let buf := manipBits buf
      if dimx ≤ 0 then binRows i st dimx sl site n (y + 1) buf d
      else if st.x0 < 0 ∨ st.x0 + dimx > Int.ofNat sl * 8 then
        ubAt ("heap-buffer-overflow@" ++ site) "sub-rectangle columns outside the row buffer (settings are not checked against the image width)"
      else
        let px := gray1To st.dst (((bitsOf buf).drop st.x0.toNat).take dimx.toNat)
        let d ← d.setRow site y px
        binRows i st dimx sl site n (y + 1) buf d
    else
      let ch : Nat := if i.type == 6 then 3 else 1
      -- the row buffer is a std::vector of `_scanline_length` pixels (ch bytes each): only its first sl bytes are read into
      if dimx ≤ 0 then binRows i st dimx sl site n (y + 1) buf d
      else if st.x0 < 0 ∨ st.x0 + dimx > Int.ofNat sl then
        ubAt ("heap-buffer-overflow@" ++ site) "sub-rectangle columns outside the row buffer (settings are not checked against the image width)"
      else
        -- bytes beyond the first sl of the over-allocated buffer are value-initialised and never written
        let bytes := ((buf ++ List.replicate (sl * ch - sl) 0).drop (st.x0.toNat * ch)).take (dimx.toNat * ch)
        let px := if ch == 1 then gray8To st.dst bytes else bytes
        let d ← d.setRow site y px
        binRows i st dimx sl site n (y + 1) buf d

/-- read_bin_data -/
def readBinData (i : Info) (st : Settings) (dimx : Int) (sl : Int) (d : Dest) : M Dest := do
  let ch : Int := if i.type == 6 then 3 else 1
  alloc (sl * ch)                               -- row_buffer_helper(_scanline_length, true)
  let site := fRead ++ ":read_bin_data"
  let rowsSkip := if st.y0 > 0 then st.y0.toNat else 0
  let rowsRead := if d.vh > 0 then d.vh.toNat else 0
  if sl == 0 ∧ i.type == 4 then
    ubAt ("vector-empty@" ++ site) "rh.begin() == &_row_buffer.front() on an empty row buffer (zero width taken from the file)"
  else if sl == 0 ∧ (rowsSkip > 0 ∨ rowsRead > 0) then
    ubAt ("vector-index@" ++ site) "rh.data() == &_row_buffer[0] on an empty row buffer (zero width taken from the file)"
  else
    let buf ← skipBinRows site sl.toNat rowsSkip (List.replicate sl.toNat 0)
    binRows i st dimx sl.toNat site rowsRead 0 buf d

/-- reader::apply -/
def apply (i : Info) (st : Settings) (dimx : Int) (d : Dest) : M Dest := do
  if !isAllowed i st then ioErr
  else if i.type == 1 ∨ i.type == 2 then readTextData i st dimx i.width 1 d
  else if i.type == 3 then readTextData i st dimx (i.width * 3) 3 d
  else if i.type == 4 then readBinData i st dimx (wrapU 32 (i.width + 7) / 8) d
  else if i.type == 5 then readBinData i st dimx i.width d
  else readBinData i st dimx (i.width * 3) d

/-- scanline reader: text row written straight into the iterator's buffer -/
def scanTextRow (maxValue : Int) (sl : Nat) (dst : List Nat) : M (List Nat) := do
  textSamples (fScan ++ ":read_text_row") maxValue true sl 0 dst

def scanRows (rowFn : List Nat → M (List Nat)) : Nat → List Nat → List (List Nat) → M (List (List Nat))
  | 0, _, acc => pure acc
  | n + 1, buf, acc => do
    let buf ← rowFn buf
    scanRows rowFn n buf (buf :: acc)

/-- `_scanline_length` as `initialize()` computes it -/
def scanLen (i : Info) : Int :=
  if i.type == 1 ∨ i.type == 2 ∨ i.type == 5 then i.width
  else if i.type == 3 ∨ i.type == 6 then i.width * 3
  else wrapU 32 (i.width + 7) / 8

def scanWith (i : Info) (sl : Int) : M Img := do
  if i.height > scanRowLimit then stop (.err "big") else
  alloc sl
  if sl == 0 then
    ubAt ("vector-empty@" ++ fScan ++ ":begin") "scanline_read_iterator: &buffer_->front() on an empty buffer (zero width taken from the file)"
  else
    let site := fScan ++ ":read_binary_row"
    let rs ← scanRows (fun dst => do
        if i.type ≤ 3 then scanTextRow i.maxValue sl.toNat dst
        else
          let row ← readInto site dst sl.toNat
          pure (if i.type == 4 then manipBits row else row))
      i.height.toNat (List.replicate sl.toNat 0) []
    pure { hdr := [i.width, i.height, sl, i.height], pix := rs.reverse.flatten }

def scan (i : Info) : M Img := scanWith i (scanLen i)

def run (st : Settings) : M Img := do
  let i ← readHeader
  let dimx := if st.dw == 0 then i.width else st.dw
  let dimy := if st.dh == 0 then i.height else st.dh
  checkSettings st dimx dimy i.width i.height
  match st.entry with
  | .info => pure { hdr := [i.width, i.height, i.type, i.maxValue], pix := [] }
  | .scan => scan i
  | .view =>
    checkImageSize st dimx dimy i.width i.height
    let d ← apply i st dimx (Dest.mk' st.vw st.vh st.dst.nch)
    pure { hdr := [st.vw, st.vh], pix := d.pix }
  | _ =>
    let d ← recreateImage st dimx dimy
    let d ← apply i st dimx d
    pure { hdr := [dimx, dimy], pix := d.pix }

end Pnm

/-! ## TARGA -/
namespace Tga

structure Info where
  offset : Int
  cmType : Int
  imageType : Int
  cmLength : Int
  width : Int
  height : Int
  bpp : Int
  descriptor : Int
  origin : Bool
  deriving Repr

def fBackend := "extension/io/targa/detail/reader_backend.hpp"
def fRead := "extension/io/targa/detail/read.hpp"
def fScan := "extension/io/targa/detail/scanline_read.hpp"

/-- reader_backend::read_header -/
def readHeader : M Info := do
  let idl ← readU8
  let offset := wrapU 8 (idl + 18)              -- targa_offset::type is uint8_t
  let cmt ← readU8
  let it ← readU8
  let _ ← readU16
  let cml ← readU16
  let _ ← readU8
  let _ ← readU16
  let _ ← readU16
  let w ← readU16
  let h ← readU16
  if w < 1 ∨ h < 1 then ioErr
  else
    let bpp ← readU8
    if bpp ≠ 24 ∧ bpp ≠ 32 then ioErr
    else
      let desc ← readU8
      if it == 1 ∧ desc ≠ 0 then ioErr
      else if bpp == 24 ∧ desc.toNat % 16 ≠ 0 then ioErr
      else if bpp == 32 ∧ desc ≠ 8 ∧ desc ≠ 40 then ioErr
      else pure { offset := offset, cmType := cmt, imageType := it, cmLength := cml, width := w, height := h, bpp := bpp,
                  descriptor := desc, origin := desc.toNat / 32 % 2 == 1 }

def cvtBgrx (bpp : Nat) (dst : Dst) (px : List Nat) : List Nat :=
  if bpp == 3 then Bmp.cvtBgr dst px else Bmp.cvtBgra dst px

/-- destination row of `view.row_begin(y)` where view is the destination, flipped when the origin bit is set -/
def dstRow (i : Info) (d : Dest) (y : Int) : Int := if i.origin then d.vh - 1 - y else y

def rawRows (i : Info) (st : Settings) (dimx : Int) (bpp : Nat) (site : String) : Nat → Int → List Nat → Dest → M Dest
  | 0, _, _, d => pure d
  | n + 1, y, row, d => do
    let row ← readInto site row row.length
    let px ← sliceRow site row bpp st.x0 dimx
    let d ← d.setRow site (dstRow i d y) (cvtBgrx bpp st.dst px)
    rawRows i st dimx bpp site n (y - 1) row d

/-- read_data -/
def readData (i : Info) (st : Settings) (dimx dimy : Int) (d : Dest) : M Dest := do
  let bpp := (i.bpp / 8).toNat
  let rowSize := i.width * bpp
  alloc rowSize
  let skipped : Int := if i.origin then st.y0 else i.height - st.y0 - dimy
  seekSet (wrapS 64 (i.offset + wrapU 64 (wrapU 64 skipped * rowSize)))
  rawRows i st dimx bpp (fRead ++ ":read_data") (if dimy > 0 then dimy.toNat else 0) (dimy - 1) (List.replicate rowSize.toNat 0) d

def fRle := fRead ++ ":read_rle_data"

def readBytes : Nat → List Nat → M (List Nat)
  | 0, acc => pure acc.reverse
  | n + 1, acc => do
    let b ← readU8
    readBytes n (b.toNat :: acc)

/-- the packet loop of read_rle_data: `data` is image_data up to `pixel` (reversed chunks), one unit of fuel per packet -/
def rleLoop (bpp : Nat) (imageSize : Nat) : Nat → Nat → List (List Nat) → M (List (List Nat))
  | 0, _, _ => stop (.fuel "read_rle_data")
  | fuel + 1, pixel, acc =>
    if pixel < imageSize then do
      let cur ← readU8
      if cur ≥ 128 then
        let chunk := (cur - 127).toNat
        if pixel + chunk * bpp > imageSize then ioErr
        else
          let px ← readBytes bpp []
          rleLoop bpp imageSize fuel (pixel + chunk * bpp) ((List.replicate chunk px).flatten :: acc)
      else
        let written := (cur.toNat + 1) * bpp
        if pixel + written > imageSize then ioErr
        else
          let got ← readSome written
          if got.length < written then ioErr          -- /repo 84ae407 (before: zeros used as pixels)
          else rleLoop bpp imageSize fuel (pixel + written) (got :: acc)
    else pure acc

/-- the source pixels of destination row `y`: `beg = v.row_begin(first_row + y) + top_left.x` over the flipped whole-image view `v` -/
def rleRowPixels (i : Info) (st : Settings) (dimx : Int) (bpp : Nat) (data : List Nat) (firstRow y : Int) : M (List Nat) :=
  let r := i.height - 1 - (firstRow + y)
  let start := (r * i.width + st.x0) * bpp
  if firstRow + y < 0 ∨ firstRow + y ≥ i.height then
    ubAt ("assert@" ++ fRle) "v.row_begin(first_row + y): BOOST_ASSERT(0 <= y && y < height()) (settings are not checked against the image size)"
  else if dimx ≤ 0 then pure []
  else if start < 0 ∨ start + dimx * bpp > Int.ofNat data.length then
    ubAt ("heap-buffer-overflow@" ++ fRle) "sub-rectangle outside the decoded image (settings are not checked against the image size)"
  else pure ((data.drop start.toNat).take (dimx.toNat * bpp))

def rleCopyRows (i : Info) (st : Settings) (dimx : Int) (bpp : Nat) (data : List Nat) (firstRow : Int) : Nat → Int → Dest → M Dest
  | 0, _, d => pure d
  | n + 1, y, d => do
    let px ← rleRowPixels i st dimx bpp data firstRow y
    let d ← d.setRow fRle (dstRow i d y) (cvtBgrx bpp st.dst px)
    rleCopyRows i st dimx bpp data firstRow n (y + 1) d

/-- read_rle_data -/
def readRleData (i : Info) (st : Settings) (dimx dimy : Int) (d : Dest) : M Dest := do
  let bpp := (i.bpp / 8).toNat
  -- size_t image_size = static_cast<size_t>(_info._width) * _info._height * bytes_per_pixel
  --   (/repo 84b4471; before that the product was formed in int and overflowed for e.g. 30000 x 30000 x 3)
  if False then ioErr
  else
    let imageSize := (i.width * i.height * bpp).toNat
    alloc imageSize
    seekSet i.offset
    let chunks ← rleLoop bpp imageSize (← fuelHere) 0 []
    let data := chunks.reverse.flatten
    let firstRow : Int := if i.origin then i.height - st.y0 - dimy else st.y0
    if dimy < 0 then stop (.hang "negative dim.y: `y != dim.y` is never reached")
    else rleCopyRows i st dimx bpp data firstRow dimy.toNat 0 d

/-- reader::apply -/
def apply (i : Info) (st : Settings) (dimx dimy : Int) (d : Dest) : M Dest := do
  if st.entry ≠ .conv ∧ st.dst.bits ≠ i.bpp then ioErr
  else if i.imageType == 2 ∨ i.imageType == 10 then
    if i.cmType ≠ 0 then ioErr
    else if i.cmLength ≠ 0 then ioErr
    else if i.imageType == 2 then readData i st dimx dimy d
    else readRleData i st dimx dimy d
  else ioErr

def scanRows (i : Info) (sl : Nat) : Nat → Int → List Nat → List (List Nat) → M (List (List Nat))
  | 0, _, _, acc => pure acc
  | n + 1, pos, buf, acc => do
    seekSet (i.offset + (i.height - 1 - pos) * sl)
    let site := fScan ++ ":read_row"
    let buf ← readInto site buf sl
    scanRows i sl n (pos + 1) buf (buf :: acc)

def scan (i : Info) : M Img := do
  if i.cmType ≠ 0 then ioErr
  else if i.imageType ≠ 2 then ioErr
  else if i.cmLength ≠ 0 then ioErr
  else if i.origin then ioErr
  else
    let sl := i.width * (i.bpp / 8)
    seekSet i.offset
    alloc sl
    let rs ← scanRows i sl.toNat i.height.toNat 0 (List.replicate sl.toNat 0) []
    pure { hdr := [i.width, i.height, sl, i.height], pix := rs.reverse.flatten }

def run (st : Settings) : M Img := do
  let i ← readHeader
  let dimx := if st.dw == 0 then i.width else st.dw
  let dimy := if st.dh == 0 then i.height else st.dh
  checkSettings st dimx dimy i.width i.height
  match st.entry with
  | .info => pure { hdr := [i.width, i.height, i.bpp, i.imageType, i.offset, i.descriptor, i.cmType, i.cmLength], pix := [] }
  | .scan => scan i
  | .view =>
    checkImageSize st dimx dimy i.width i.height
    let d ← apply i st dimx dimy (Dest.mk' st.vw st.vh st.dst.nch)
    pure { hdr := [st.vw, st.vh], pix := d.pix }
  | _ =>
    let d ← recreateImage st dimx dimy
    let d ← apply i st dimx dimy d
    pure { hdr := [dimx, dimy], pix := d.pix }

end Tga

/-! ## top level -/

inductive Fmt where
  | bmp | pnm | tga
  deriving DecidableEq, Repr


/-- raw result: the monad's answer and the final state (the driver needs the taint separately) -/
def runRaw (f : Fmt) (dev : Dev) (bytes : List UInt8) (st : Settings) : Except Stop (Img × St) :=
  let s0 : St := { data := bytes, pos := 0, rest := bytes, failed := false, dev := dev, taint := none }
  match f with
  | .bmp => (Bmp.run st).run s0
  | .pnm => (Pnm.run st).run s0
  | .tga => (Tga.run st).run s0

/-- `decode`: the outcome the property speaks about. A successful return that consumed bytes a short read
    did not deliver counts as undefined behaviour (uninitialised / stale bytes used as data). -/
def decode (f : Fmt) (dev : Dev) (bytes : List UInt8) (st : Settings) : Outcome :=
  match runRaw f dev bytes st with
  | .ok (img, s) =>
    match s.taint with
    | none => .ok img
    | some why => .ub "inconsistent-data-accepted" why
  | .error (.err k) => .err k
  | .error (.ub s w) => .ub s w
  | .error (.hang w) => .hang w
  | .error (.fuel w) => .hang ("fuel exhausted in " ++ w)

end GilVerif.Model.C11
