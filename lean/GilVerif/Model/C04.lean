/-
  C04 -- pixel algorithms of algorithm.hpp at the level of pixel cells.

  A view is an affine map from (x, y) to the address of a pixel cell (`base + y*ys + x*xs`, in units of one pixel step: bytes,
  or bits for bit-aligned views); memory maps cell addresses to pixel values.  This is the level at which algorithm.hpp works: it
  decides IN WHICH ORDER and THROUGH WHICH ITERATORS (x-iterators over a whole 1-D traversable view, or row chunks through
  iterator_from_2d) the pixels are visited.  How one pixel store touches bytes and bits is C08's subject; here the harness checks
  it directly on the real buffer (bits outside the destination view's pixels unchanged).

  The Impl functions mirror the code: copy_with_2d_iterators' four-way dispatch on (src 1-D traversable?, dst 1-D traversable?),
  the three copier_n chunk loops (`numToCopy = min(n, width - x_pos)`), the std::fill overload, fill_pixels, the equal_n_fn
  specialisations behind std::equal, for_each_pixel / generate_pixels (1-D or row by row), transform_pixels(_positions).
  The Spec functions are the obvious loops over (x, y) in row-major order.

  Core Lean only (linked into the native driver).
-/
namespace GilVerif.Model.C04

structure View where
  base : Int
  xs : Int      -- step of the x iterator (pixel cells)
  ys : Int      -- step between rows
  w : Nat
  h : Nat
  deriving Repr, DecidableEq

def View.addr (v : View) (x y : Nat) : Int := v.base + (y : Int) * v.ys + (x : Int) * v.xs

/-- memory_based_2d_locator::is_1d_traversable(width): `row_size() - pixel_size()*width == 0` -/
def View.is1d (v : View) : Bool := v.ys == (v.w : Int) * v.xs

/-- iterator_from_2d at linear position `i`: x_pos = i % w, row = i / w; `.x()` is the x-iterator at that pixel -/
def View.at2d (v : View) (i : Nat) : Int := v.addr (i % v.w) (i / v.w)

/-- x-iterator of a 1-D traversable view advanced by `i`: `begin().x() + i` -/
def View.at1d (v : View) (i : Nat) : Int := v.base + (i : Int) * v.xs

/-- memory: pixel cell address -> pixel value, as an association list (newest binding first; unbound cells read 0) -/
structure Mem where
  cells : List (Int × Nat)
  deriving Repr

def Mem.get (m : Mem) (a : Int) : Nat :=
  match m.cells.find? (fun e => e.1 == a) with
  | some e => e.2
  | none => 0

def Mem.set (m : Mem) (a : Int) (v : Nat) : Mem := ⟨(a, v) :: m.cells⟩

theorem Mem.get_set (m : Mem) (a x : Int) (v : Nat) : (m.set a v).get x = if x = a then v else m.get x := by
  unfold Mem.set Mem.get
  by_cases h : x = a
  · subst h; simp [List.find?]
  · have : (a == x) = false := by simp [Ne.symm h]
    simp [List.find?, this, h]

/-! ### Spec: the obvious loops -/

/-- all (x, y) of a w x h view in row-major order, as linear indices -/
def coords (w h : Nat) : List (Nat × Nat) := (List.range (w * h)).map (fun i => (i % w, i / w))

def specAddrs (v : View) : List Int := (List.range (v.w * v.h)).map v.at2d

/-- `for y, for x: dst(x,y) = src(x,y)` -/
def specCopyPairs (s d : View) : List (Int × Int) := (List.range (d.w * d.h)).map (fun i => (s.at2d i, d.at2d i))

def applyPairs (m : Mem) (ps : List (Int × Int)) : Mem := ps.foldl (fun m p => m.set p.2 (m.get p.1)) m

def specCopy (m : Mem) (s d : View) : Mem := applyPairs m (specCopyPairs s d)
def specFill (m : Mem) (d : View) (v : Nat) : Mem := (specAddrs d).foldl (fun m a => m.set a v) m
def specEqual (m : Mem) (a b : View) (eq : Nat → Nat → Bool) : Bool := (specCopyPairs a b).all (fun p => eq (m.get p.1) (m.get p.2))
/-- generate_pixels: the k-th call of the functor produces the pixel at linear index k -/
def specGenerate (m : Mem) (d : View) (f : Nat → Nat) : Mem :=
  ((List.range (d.w * d.h)).map (fun k => (d.at2d k, f k))).foldl (fun m p => m.set p.1 p.2) m
/-- transform_pixels: dst(x,y) = fun(src(x,y)) -/
def specTransform (m : Mem) (s d : View) (f : Nat → Nat) : Mem :=
  (specCopyPairs s d).foldl (fun m p => m.set p.2 (f (m.get p.1))) m
def specTransform2 (m : Mem) (s1 s2 d : View) (f : Nat → Nat → Nat) : Mem :=
  ((List.range (d.w * d.h)).map (fun i => (s1.at2d i, s2.at2d i, d.at2d i))).foldl (fun m p => m.set p.2.2 (f (m.get p.1) (m.get p.2.1))) m

/-! ### Impl: the traversal the code performs -/

/-- one row chunk through x-iterators: `k` consecutive pixels starting at `.x()` of linear position `i` -/
def chunk (v : View) (i k : Nat) : List Int := (List.range k).map (fun j => v.addr (i % v.w + j) (i / v.w))

/-- the chunk loop shared by copier_n<iterator_from_2d, ...>, the std::fill overload and equal_n_fn<iterator_from_2d, ...>:
    `while (n > 0) { num = min(n, width - x_pos); <num pixels through .x()>; it += num; n -= num; }`  (fuel = n) -/
def chunkLoop (v : View) : (fuel : Nat) → (i n : Nat) → List Int
  | 0, _, _ => []
  | fuel + 1, i, n =>
    if n = 0 then []
    else
      let k := min n (v.w - i % v.w)
      if k = 0 then []                     -- width 0: the C++ loop would not terminate; never reached from the view algorithms (n = w*h = 0)
      else chunk v i k ++ chunkLoop v fuel (i + k) (n - k)

/-- addresses visited through the x-iterator of a 1-D traversable view: `first.x() .. first.x() + n` -/
def run1d (v : View) (n : Nat) : List Int := (List.range n).map v.at1d

/-- the addresses one side of copy_with_2d_iterators visits, in order, given how the OTHER side is traversed:
    1-D traversable: through its x-iterator in one go; otherwise through iterator_from_2d in row chunks.
    (copier_n<I,O> with two x-iterators: std::copy(src, src+n, dst); with one iterator_from_2d: chunks of the 2-D side's rows,
     the x-iterator side simply advances by the chunk length; with two: chunks of the destination's rows, equal for equal widths.) -/
def implSide (v : View) : List Int :=
  if v.is1d then run1d v (v.w * v.h) else chunkLoop v (v.w * v.h) 0 (v.w * v.h)

/-- copy_pixels -> copy_with_2d_iterators -/
def implCopyPairs (s d : View) : List (Int × Int) := (implSide s).zip (implSide d)
def implCopy (m : Mem) (s d : View) : Mem := applyPairs m (implCopyPairs s d)

/-- fill_pixels: 1-D traversable: fill_aux(begin().x(), end().x()); else row by row -/
def implFillAddrs (d : View) : List Int :=
  if d.is1d then run1d d (d.w * d.h)
  else (List.range d.h).flatMap (fun y => (List.range d.w).map (fun x => d.addr x y))
def implFill (m : Mem) (d : View) (v : Nat) : Mem := (implFillAddrs d).foldl (fun m a => m.set a v) m

/-- equal_pixels -> std::equal overload -> equal_n_fn: chunk-wise comparison with early exit = `all` over the same traversal -/
def implEqual (m : Mem) (a b : View) (eq : Nat → Nat → Bool) : Bool :=
  ((implSide a).zip (implSide b)).all (fun p => eq (m.get p.1) (m.get p.2))

/-- image operator==: different dimensions -> false, else equal_pixels(const_view(a), const_view(b)); operator!= is its negation -/
def implImageEq (m : Mem) (a b : View) (eq : Nat → Nat → Bool) : Bool :=
  if a.w = b.w ∧ a.h = b.h then implEqual m a b eq else false

/-- for_each_pixel / generate_pixels: same two-way split as fill_pixels -/
def implGenerate (m : Mem) (d : View) (f : Nat → Nat) : Mem :=
  ((implFillAddrs d).zipIdx.map (fun p => (p.1, f p.2))).foldl (fun m p => m.set p.1 p.2) m

/-- transform_pixels: `for y { srcIt = src.row_begin(y); dstIt = dst.row_begin(y); for x: dstIt[x] = fun(srcIt[x]) }` -/
def rowPairs (s d : View) : List (Int × Int) :=
  (List.range d.h).flatMap (fun y => (List.range d.w).map (fun x => (s.addr x y, d.addr x y)))
def implTransform (m : Mem) (s d : View) (f : Nat → Nat) : Mem :=
  (rowPairs s d).foldl (fun m p => m.set p.2 (f (m.get p.1))) m

/-- copy_and_convert_pixels: compatible views: plain copy_pixels; otherwise copy_pixels(color_converted_view(src, cc), dst):
    the converting view is a dereference adaptor over the same locator (same traversability, same addresses) -/
def implConvertCopy (m : Mem) (s d : View) (compatible : Bool) (cc : Nat → Nat) : Mem :=
  if compatible then implCopy m s d else (implCopyPairs s d).foldl (fun m p => m.set p.2 (cc (m.get p.1))) m

/-- transform_pixels with two sources: row loops over dst's dimensions -/
def implTransform2 (m : Mem) (s1 s2 d : View) (f : Nat → Nat → Nat) : Mem :=
  ((List.range d.h).flatMap (fun y => (List.range d.w).map (fun x => (s1.addr x y, s2.addr x y, d.addr x y)))).foldl
    (fun m p => m.set p.2.2 (f (m.get p.1) (m.get p.2.1))) m


/-! ### overlapping source and destination (copy_pixels inside one buffer)

  `std::copy` over an x-iterator run is a BLOCK MOVE for some iterator types: the `pixel<T,CS>*` overload copies the bytes with
  `std::copy(unsigned char*)` (memmove), the `planar_pixel_iterator` overload does that per plane, and libstdc++ turns `std::copy` over raw
  pointers to a trivially copyable pixel type (packed pixels) into memmove as well.  A block move reads the whole source run before it writes
  (every destination pixel receives the ORIGINAL source pixel); every other iterator (step adaptors, bit-aligned iterators, mixed types) is
  the forward element loop, which reads each source pixel at the moment it is copied.  One block = one `copier_n` / `copy_n` call: the whole
  view when both sides are 1-D traversable (`copier_n<I,O>`: `std::copy(src, src+n, dst)`, GIL's overloads visible), otherwise one row
  (`numToCopy = min(n, width - x_pos)` = a row, the views have equal widths) through `detail::copy_n` of utilities.hpp, whose qualified
  `std::copy` call is bound BEFORE GIL's overloads are declared: there only libstdc++'s own memmove (trivially copyable pixel types: packed
  pixels) is a block move, interleaved `pixel<T,CS>` and planar rows are copied by the element loop.  Hence two flags. -/

/-- block move of a list of (source cell, destination cell): all reads happen in the initial memory -/
def snapshotPairs (m : Mem) (ps : List (Int × Int)) : Mem :=
  (ps.map (fun p => (p.2, m.get p.1))).foldl (fun acc p => acc.set p.1 p.2) m

/-- the row chunks of copy_with_2d_iterators when at least one side is not 1-D traversable -/
def copyRows (s d : View) : List (List (Int × Int)) :=
  (List.range d.h).map (fun y => (List.range d.w).map (fun x => (s.addr x y, d.addr x y)))

/-- copy_pixels as the code performs it, including what happens when source and destination overlap.
    `block1d` / `blockRow`: the whole-view run / a row run through the two x-iterators is a block move (see above) -/
def implCopyOv (block1d blockRow : Bool) (m : Mem) (s d : View) : Mem :=
  if s.is1d && d.is1d then
    if block1d then snapshotPairs m (implCopyPairs s d) else implCopy m s d
  else
    if blockRow then (copyRows s d).foldl snapshotPairs m else implCopy m s d

/-! ### uninitialized_fill_pixels, uninitialized_copy_pixels, default_construct_pixels, destruct_pixels -/

/-- uninitialized_fill_pixels: 1-D traversable: one uninitialized_fill_aux over the x-iterator run, else row by row
    (planar: per channel plane, which at cell level is the same set of cells in the same order) -/
def implUninitFill (m : Mem) (d : View) (v : Nat) : Mem :=
  (if d.is1d then run1d d (d.w * d.h)
   else (List.range d.h).flatMap (fun y => (List.range d.w).map (fun x => d.addr x y))).foldl (fun m a => m.set a v) m

/-- uninitialized_copy_pixels: BOTH views 1-D traversable: one run through the x-iterators; otherwise row by row
    (a two-way split, unlike copy_pixels' four-way dispatch) -/
def implUninitCopyPairs (s d : View) : List (Int × Int) :=
  if s.is1d && d.is1d then (run1d s (s.w * s.h)).zip (run1d d (d.w * d.h)) else rowPairs s d
/-- `proxyNoStore`: DEFECT of the current tree (finding C04-uninitialized-copy-bit-aligned-step-views): for bit-aligned views of which at
    least one x-iterator is a step adaptor, std::uninitialized_copy placement-constructs a temporary proxy reference at `&*dst` instead of
    storing the pixel: nothing is copied.  (Two plain bit-aligned iterators: libstdc++ takes its trivial-type shortcut to std::copy, which
    assigns through the proxies.) -/
def implUninitCopy (proxyNoStore : Bool) (m : Mem) (s d : View) : Mem :=
  if proxyNoStore then m else applyPairs m (implUninitCopyPairs s d)

/-- default_construct_pixels / destruct_pixels: `trivial` (has_trivial_pixel_constructor / is_trivially_destructible, or the x-iterator
    is not a raw pointer): nothing is executed.  Otherwise the value-initialising placement new runs over the same two-way traversal as
    fill_pixels and leaves `v0` (the value-initialised pixel) in every pixel of the view. -/
def implDefaultConstruct (trivial : Bool) (m : Mem) (d : View) (v0 : Nat) : Mem :=
  if trivial then m else implUninitFill m d v0

/-! ### for_each_pixel_position / transform_pixel_positions: ONE locator walks the source

  `loc = src.xy_at(0,0); for y { for x { fun(loc); ++loc.x(); }  loc.x() -= width; ++loc.y(); }`: the address is kept incrementally. -/

/-- addresses of the walking locator at the calls of `fun`, `h` rows from address `a` on -/
def locRows (xs ys : Int) (w : Nat) : Nat → Int → List Int
  | 0, _ => []
  | h + 1, a => (List.range w).map (fun (x : Nat) => a + (x : Int) * xs) ++ locRows xs ys w h (a + (w : Int) * xs - (w : Int) * xs + ys)

def implPosAddrs (s : View) : List Int := locRows s.xs s.ys s.w s.h s.base

/-- transform_pixel_positions: the locator walk over src (src's width and height drive the loops), `dstIt = dst.row_begin(y)`, `dstIt[x] = fun(loc)` -/
def implTransformPos (m : Mem) (s d : View) (f : Nat → Nat) : Mem :=
  ((implPosAddrs s).zip ((List.range s.h).flatMap (fun y => (List.range s.w).map (fun x => d.addr x y)))).foldl
    (fun m p => m.set p.2 (f (m.get p.1))) m

/-- cells of a view -/
def View.cells (v : View) : List Int := specAddrs v

end GilVerif.Model.C04
