/-
  C02 -- executable model of the view factories of image_view_factory.hpp.

  A derived view is built the way the C++ builds it: the factory picks an origin `xy_at(ox,oy)`,
  step arguments and a transpose flag (all seven numbers come from the *generated* factory bodies
  `fac_*`), and hands them to one of the locator constructors, whose step expressions are generated
  too (`loc_ystep_ctor`, `loc_step_ctor_x/y`; `vloc_*` for virtual_2d_locator).  The documented
  behaviour (Spec) is `Xform.dims` / `Xform.phi` / `Xform.apply` of Basic/Geom.lean.
-/
import GilVerif.Basic.Geom
import GilVerif.Gen.C02

namespace GilVerif.Model.C02
open GilVerif.Geom GilVerif.Gen.C02

/-- arguments a factory passes on -/
structure FacArgs where
  ox : Int
  oy : Int
  sx : Int
  sy : Int
  tr : Int
  dw : Int
  dh : Int
  deriving Repr, DecidableEq, Inhabited

def FacArgs.ofTuple (t : Int × Int × Int × Int × Int × Int × Int) : FacArgs :=
  ⟨t.1, t.2.1, t.2.2.1, t.2.2.2.1, t.2.2.2.2.1, t.2.2.2.2.2.1, t.2.2.2.2.2.2⟩

/-- the generated factory body evaluated on a source of dimensions (w,h) -/
def facArgs (t : Xform) (w h : Int) : FacArgs :=
  .ofTuple <| match t with
  | .flipUD => fac_flipped_up_down_view w h 0 0 0 0 0 0 0 0 0 0 0 0 0
  | .flipLR => fac_flipped_left_right_view w h 0 0 0 0 0 0 0 0 0 0 0 0 0
  | .transpose => fac_transposed_view w h 0 0 0 0 0 0 0 0 0 0 0 0 0
  | .rot90cw => fac_rotated90cw_view w h 0 0 0 0 0 0 0 0 0 0 0 0 0
  | .rot90ccw => fac_rotated90ccw_view w h 0 0 0 0 0 0 0 0 0 0 0 0 0
  | .rot180 => fac_rotated180_view w h 0 0 0 0 0 0 0 0 0 0 0 0 0
  | .sub x0 y0 sw sh => fac_subimage_view w h 0 0 x0 y0 sw sh 0 0 0 0 0 0 0
  | .subsample sx sy => fac_subsampled_view w h sx sy 0 0 0 0 0 0 0 0 0 0 0

/-- which locator constructor the factory calls -/
inductive Ctor where
  | plain      -- subimage_view: the locator returned by xy_at, unchanged
  | ystep      -- flipped_up_down_view: (loc, y_step)
  | xystep     -- all others: (loc, x_step, y_step, transpose)
  deriving Repr, DecidableEq

def ctorOf : Xform → Ctor
  | .sub _ _ _ _ => .plain
  | .flipUD => .ystep
  | _ => .xystep

/-- `src.xy_at(ox,oy)` trips a BOOST_ASSERT (assert-enabled builds) -/
def xyAtAsserts (a : FacArgs) (w h : Int) : Bool := xy_at_ok a.ox a.oy w h = 0

/-- **memory-based views**: the derived view as the factory + locator constructor build it -/
def applyMem (t : Xform) (v : View) : View :=
  let a := facArgs t v.w v.h
  let base := v.base + loc_offset a.ox a.oy v.ys v.xs
  match ctorOf t with
  | .plain => { base := base, xs := v.xs, ys := v.ys, w := a.dw, h := a.dh }
  | .ystep => { base := base, xs := v.xs, ys := loc_ystep_ctor v.ys a.sy, w := a.dw, h := a.dh }
  | .xystep => { base := base, xs := loc_step_ctor_x a.tr v.ys v.xs a.sx, ys := loc_step_ctor_y a.tr v.ys v.xs a.sy,
                 w := a.dw, h := a.dh }

def applyMemAll (ts : List Xform) (v : View) : View := ts.foldl (fun v t => applyMem t v) v

/-- first transformation of the list whose `xy_at` assertion fails (none = the whole list builds) -/
def firstAssert : List Xform → View → Option Nat
  | [], _ => none
  | t :: ts, v =>
    if xyAtAsserts (facArgs t v.w v.h) v.w v.h then some 0
    else (firstAssert ts (applyMem t v)).map (· + 1)

/-! ### virtual views (virtual_2d_locator<Deref, IsTransposed>) -/

@[ext] structure VView where
  px : Int        -- pos()
  py : Int
  sx : Int        -- step()
  sy : Int
  tr : Bool       -- IsTransposed: the x axis runs along the second coordinate
  w : Int
  h : Int
  deriving Repr, DecidableEq, Inhabited

/-- the point handed to the dereference function for pixel (x,y): the x-iterator is
    `position_iterator<Deref, IsTransposed>`, the y-iterator `position_iterator<Deref, 1-IsTransposed>` -/
def VView.pt (v : VView) (x y : Int) : Int × Int :=
  if v.tr then (v.px + y * v.sx, v.py + x * v.sy) else (v.px + x * v.sx, v.py + y * v.sy)

def VView.InRange (v : VView) (x y : Int) : Prop := 0 ≤ x ∧ x < v.w ∧ 0 ≤ y ∧ y < v.h

def applyVirt (t : Xform) (v : VView) : VView :=
  let a := facArgs t v.w v.h
  let p := v.pt a.ox a.oy
  match ctorOf t with
  | .plain => { v with px := p.1, py := p.2, w := a.dw, h := a.dh }
  | .ystep =>      -- dynamic_y_step_type<virtual view> is the same type: IsTransposed unchanged
    if v.tr then { v with px := p.1, py := p.2, sx := vloc_y_tr_x v.sx v.sy 1 a.sy, sy := vloc_y_tr_y v.sx v.sy 1 a.sy, w := a.dw, h := a.dh }
    else { v with px := p.1, py := p.2, sx := vloc_y_id_x v.sx v.sy 1 a.sy, sy := vloc_y_id_y v.sx v.sy 1 a.sy, w := a.dw, h := a.dh }
  | .xystep =>     -- transposing factories return the transposed_type: IsTransposed flips
    let tr' := if a.tr ≠ 0 then !v.tr else v.tr
    if tr' then { px := p.1, py := p.2, sx := vloc_xy_tr_x v.sx v.sy a.sx a.sy, sy := vloc_xy_tr_y v.sx v.sy a.sx a.sy, tr := tr', w := a.dw, h := a.dh }
    else { px := p.1, py := p.2, sx := vloc_xy_id_x v.sx v.sy a.sx a.sy, sy := vloc_xy_id_y v.sx v.sy a.sx a.sy, tr := tr', w := a.dw, h := a.dh }

def applyVirtAll (ts : List Xform) (v : VView) : VView := ts.foldl (fun v t => applyVirt t v) v

def firstAssertV : List Xform → VView → Option Nat
  | [], _ => none
  | t :: ts, v =>
    if xyAtAsserts (facArgs t v.w v.h) v.w v.h then some 0
    else (firstAssertV ts (applyVirt t v)).map (· + 1)

/-! ### channel views and dereference adaptors -/

/-- `nth_channel_view(v, n)` of a memory-based view: the x-iterator is re-pointed at channel `n` of
    pixel (0,0) (`chanOff n` memory units further: `n*sizeof(channel)` for interleaved pixels, the
    distance between planes for planar ones), pixel and row steps are the source's -/
def nthChannel (chanOff : Int) (v : View) : View := { v with base := v.base + chanOff }

/-! ### Spec helpers for the judge -/

/-- dimensions after a list of transformations (documented) -/
def dimsAll : List Xform → Int × Int → Int × Int
  | [], d => d
  | t :: ts, d => dimsAll ts (t.dims d)

/-- documented coordinate map of a list, using only dimensions -/
def phiDims : List Xform → Int × Int → Int × Int → Int × Int
  | [], _, p => p
  | t :: ts, d, p => t.phi d (phiDims ts (t.dims d) p)

/-- validity of a list, using only dimensions -/
def validDims : List Xform → Int × Int → Bool
  | [], _ => true
  | t :: ts, (w, h) =>
    (match t with
     | .sub x0 y0 sw sh => decide (0 ≤ x0 ∧ 0 ≤ y0 ∧ 0 ≤ sw ∧ 0 ≤ sh ∧ x0 + sw ≤ w ∧ y0 + sh ≤ h)
     | .subsample sx sy => decide (0 < sx ∧ 0 < sy)
     | _ => true) && validDims ts (t.dims (w, h))

end GilVerif.Model.C02
