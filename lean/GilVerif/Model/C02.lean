/-
  C02 -- executable model of the view factories of image_view_factory.hpp.

  A derived view is built the way the C++ builds it: the factory picks an origin `xy_at(ox,oy)`,
  step arguments and a transpose flag (all seven numbers come from the *generated* factory bodies
  `fac_*`), and hands them to one of the locator constructors, whose step expressions are generated
  too (`loc_ystep_ctor`, `loc_step_ctor_x/y`; `vloc_*` for virtual_2d_locator).  The documented
  behaviour (Spec) is `Xform.dims` / `Xform.phi` / `Xform.apply` of Basic/Geom.lean.
-/
import GilVerif.Basic.Geom
import GilVerif.Gen.C02

namespace GilVerif.Model.C02
open GilVerif.Geom GilVerif.Gen.C02

/-- arguments a factory passes on -/
structure FacArgs where
  ox : Int
  oy : Int
  sx : Int
  sy : Int
  tr : Int
  dw : Int
  dh : Int
  deriving Repr, DecidableEq, Inhabited

def FacArgs.ofTuple (t : Int × Int × Int × Int × Int × Int × Int) : FacArgs :=
  ⟨t.1, t.2.1, t.2.2.1, t.2.2.2.1, t.2.2.2.2.1, t.2.2.2.2.2.1, t.2.2.2.2.2.2⟩

/-- the generated factory body evaluated on a source of dimensions (w,h) -/
def facArgs (t : Xform) (w h : Int) : FacArgs :=
  .ofTuple <| match t with
  | .flipUD => fac_flipped_up_down_view w h 0 0 0 0 0 0 0 0 0 0 0 0 0
  | .flipLR => fac_flipped_left_right_view w h 0 0 0 0 0 0 0 0 0 0 0 0 0
  | .transpose => fac_transposed_view w h 0 0 0 0 0 0 0 0 0 0 0 0 0
  | .rot90cw => fac_rotated90cw_view w h 0 0 0 0 0 0 0 0 0 0 0 0 0
  | .rot90ccw => fac_rotated90ccw_view w h 0 0 0 0 0 0 0 0 0 0 0 0 0
  | .rot180 => fac_rotated180_view w h 0 0 0 0 0 0 0 0 0 0 0 0 0
  | .sub x0 y0 sw sh => fac_subimage_view w h 0 0 x0 y0 sw sh 0 0 0 0 0 0 0
  | .subsample sx sy => fac_subsampled_view w h sx sy 0 0 0 0 0 0 0 0 0 0 0

/-- which locator constructor the factory calls -/
inductive Ctor where
  | plain      -- subimage_view: the locator returned by xy_at, unchanged
  | ystep      -- flipped_up_down_view: (loc, y_step)
  | xystep     -- all others: (loc, x_step, y_step, transpose)
  deriving Repr, DecidableEq

def ctorOf : Xform → Ctor
  | .sub _ _ _ _ => .plain
  | .flipUD => .ystep
  | _ => .xystep

/-- `src.xy_at(ox,oy)` trips a BOOST_ASSERT (assert-enabled builds) -/
def xyAtAsserts (a : FacArgs) (w h : Int) : Bool := xy_at_ok a.ox a.oy w h = 0

/-- **memory-based views**: the derived view as the factory + locator constructor build it -/
def applyMem (t : Xform) (v : View) : View :=
  let a := facArgs t v.w v.h
  let base := v.base + loc_offset a.ox a.oy v.ys v.xs
  match ctorOf t with
  | .plain => { base := base, xs := v.xs, ys := v.ys, w := a.dw, h := a.dh }
  | .ystep => { base := base, xs := v.xs, ys := loc_ystep_ctor v.ys a.sy, w := a.dw, h := a.dh }
  | .xystep => { base := base, xs := loc_step_ctor_x a.tr v.ys v.xs a.sx, ys := loc_step_ctor_y a.tr v.ys v.xs a.sy,
                 w := a.dw, h := a.dh }

def applyMemAll (ts : List Xform) (v : View) : View := ts.foldl (fun v t => applyMem t v) v

/-- first transformation of the list whose `xy_at` assertion fails (none = the whole list builds) -/
def firstAssert : List Xform → View → Option Nat
  | [], _ => none
  | t :: ts, v =>
    if xyAtAsserts (facArgs t v.w v.h) v.w v.h then some 0
    else (firstAssert ts (applyMem t v)).map (· + 1)

/-! ### virtual views (virtual_2d_locator<Deref, IsTransposed>) -/

@[ext] structure VView where
  px : Int        -- pos()
  py : Int
  sx : Int        -- step()
  sy : Int
  tr : Bool       -- IsTransposed: the x axis runs along the second coordinate
  w : Int
  h : Int
  deriving Repr, DecidableEq, Inhabited

/-- the point handed to the dereference function for pixel (x,y): the x-iterator is
    `position_iterator<Deref, IsTransposed>`, the y-iterator `position_iterator<Deref, 1-IsTransposed>` -/
def VView.pt (v : VView) (x y : Int) : Int × Int :=
  if v.tr then (v.px + y * v.sx, v.py + x * v.sy) else (v.px + x * v.sx, v.py + y * v.sy)

def VView.InRange (v : VView) (x y : Int) : Prop := 0 ≤ x ∧ x < v.w ∧ 0 ≤ y ∧ y < v.h

def applyVirt (t : Xform) (v : VView) : VView :=
  let a := facArgs t v.w v.h
  let p := v.pt a.ox a.oy
  match ctorOf t with
  | .plain => { v with px := p.1, py := p.2, w := a.dw, h := a.dh }
  | .ystep =>      -- dynamic_y_step_type<virtual view> is the same type: IsTransposed unchanged
    if v.tr then { v with px := p.1, py := p.2, sx := vloc_y_tr_x v.sx v.sy 1 a.sy, sy := vloc_y_tr_y v.sx v.sy 1 a.sy, w := a.dw, h := a.dh }
    else { v with px := p.1, py := p.2, sx := vloc_y_id_x v.sx v.sy 1 a.sy, sy := vloc_y_id_y v.sx v.sy 1 a.sy, w := a.dw, h := a.dh }
  | .xystep =>     -- transposing factories return the transposed_type: IsTransposed flips
    let tr' := if a.tr ≠ 0 then !v.tr else v.tr
    if tr' then { px := p.1, py := p.2, sx := vloc_xy_tr_x v.sx v.sy a.sx a.sy, sy := vloc_xy_tr_y v.sx v.sy a.sx a.sy, tr := tr', w := a.dw, h := a.dh }
    else { px := p.1, py := p.2, sx := vloc_xy_id_x v.sx v.sy a.sx a.sy, sy := vloc_xy_id_y v.sx v.sy a.sx a.sy, tr := tr', w := a.dw, h := a.dh }

/-- `dst = src` for virtual views / locators of the same orientation: `position_iterator::operator=` (generated) on the one iterator the
    locator stores, plus the dimensions -/
def VView.assign (dst src : VView) : VView :=
  let r := pos_assign src.px src.py src.sx src.sy dst.px dst.py dst.sx dst.sy
  { px := r.1, py := r.2.1, sx := r.2.2.1, sy := r.2.2.2, tr := src.tr, w := src.w, h := src.h }

def applyVirtAll (ts : List Xform) (v : VView) : VView := ts.foldl (fun v t => applyVirt t v) v

def firstAssertV : List Xform → VView → Option Nat
  | [], _ => none
  | t :: ts, v =>
    if xyAtAsserts (facArgs t v.w v.h) v.w v.h then some 0
    else (firstAssertV ts (applyVirt t v)).map (· + 1)

/-! ### channel views and dereference adaptors -/

/-- Spec form of a channel view of a memory-based view: every pixel `chanOff` memory units further
    (the selected channel of the same source pixel), pixel and row steps and dimensions are the source's -/
def nthChannel (chanOff : Int) (v : View) : View := { v with base := v.base + chanOff }

/-- what the type of a basic source view says about its x-iterator (inputs of the `adjacent` predicate) -/
structure ChanSrc where
  isStep : Bool      -- iterator_is_step<x_iterator>
  planar : Bool      -- is_planar<x_iterator>
  nch : Int          -- num_channels<View>
  chanSize : Int     -- sizeof(channel_t) in memory units
  deriving Repr, DecidableEq, Inhabited

/-- arguments a channel-view factory passes on -/
structure ChanArgs where
  ox : Int
  oy : Int
  ch : Int
  xstep : Int
  ystep : Int
  dw : Int
  dh : Int
  deriving Repr, DecidableEq, Inhabited

def ChanArgs.ofTuple (t : Int × Int × Int × Int × Int × Int × Int) : ChanArgs :=
  ⟨t.1, t.2.1, t.2.2.1, t.2.2.2.1, t.2.2.2.2.1, t.2.2.2.2.2.1, t.2.2.2.2.2.2⟩

def b2i (b : Bool) : Int := if b then 1 else 0

/-- the generated `adjacent` predicate and `make` body of `__nth_channel_view` (`kth = false`, run-time index `n`)
    or `__kth_channel_view<K>` (`kth = true`, compile-time index `n`) for a source of type facts `t` -/
def chanArgs (kth : Bool) (t : ChanSrc) (n : Int) (v : View) : ChanArgs :=
  .ofTuple <|
    if kth then
      if kth_channel_is_adjacent (b2i t.isStep) (b2i t.planar) t.nch ≠ 0
      then kth_channel_adjacent 0 n v.xs v.ys t.chanSize v.w v.h 0 0 0 0 0 0 0
      else kth_channel_stepped 0 n v.xs v.ys t.chanSize v.w v.h 0 0 0 0 0 0 0
    else
      if nth_channel_is_adjacent (b2i t.isStep) (b2i t.planar) t.nch ≠ 0
      then nth_channel_adjacent n 0 v.xs v.ys t.chanSize v.w v.h 0 0 0 0 0 0 0
      else nth_channel_stepped n 0 v.xs v.ys t.chanSize v.w v.h 0 0 0 0 0 0 0

/-- **channel views of basic views** as `make` builds them: the new x-iterator points at channel `ch`
    of pixel `(ox,oy)` -- `chanAddr ch` memory units after that pixel's (plane-0) address: `ch * sizeof(channel)`
    inside an interleaved pixel, the distance to plane `ch` for a planar one -- with the generated steps and dimensions -/
def chanViewMem (kth : Bool) (t : ChanSrc) (chanAddr : Int → Int) (n : Int) (v : View) : View :=
  let a := chanArgs kth t n v
  { base := v.base + loc_offset a.ox a.oy v.ys v.xs + chanAddr a.ch, xs := a.xstep, ys := a.ystep, w := a.dw, h := a.dh }

/-- type facts of the channel view: single channel, interleaved; a step view unless the channels were adjacent -/
def chanViewSrc (kth : Bool) (t : ChanSrc) : ChanSrc :=
  let adj := (if kth then kth_channel_is_adjacent else nth_channel_is_adjacent) (b2i t.isStep) (b2i t.planar) t.nch ≠ 0
  { isStep := !adj, planar := false, nch := 1, chanSize := t.chanSize }

/-! dereference adaptors: a view whose pixels are read through a function (`add_deref`) -/

/-- a memory-based view together with the function applied on dereferencing (identity for plain views) -/
structure DView (α β : Type) where
  v : View
  deref : α → β

/-- reading pixel (x,y): the dereference function applied to what is stored at its address -/
def DView.read {α β : Type} (m : Int → α) (d : DView α β) (x y : Int) : β := d.deref (m (d.v.addr x y))

/-- the coordinate transformations rebuild the locator and keep the dereference function -/
def DView.applyAll {α β : Type} (ts : List Xform) (d : DView α β) : DView α β := { d with v := applyMemAll ts d.v }

/-- `color_converted_view<DstP>(src, cc)` when `DstP` differs from the source's value type: `add_deref`
    with `color_convert_deref_fn` -- same locator, dereference composed with the converter.
    (When `DstP` *is* the source's value type `_color_converted_view_type<…,DstP,DstP>::make` returns the
    source view itself and `cc` is never called: see `colorConvertedSame`.) -/
def colorConverted {α β γ : Type} (cc : β → γ) (d : DView α β) : DView α γ := { v := d.v, deref := cc ∘ d.deref }

/-- does a transformation re-create the x-iterator with `make_step_iterator` (the stepping / transposing locator constructor)?
    `flipped_up_down_view` (y-step constructor) and `subimage_view` keep the x-iterator -/
def _root_.GilVerif.Geom.Xform.stepsX : Xform → Bool
  | .flipUD => false | .sub _ _ _ _ => false | _ => true

/-- the coordinate transformations **as the code applies them to a dereference-adaptor view whose adaptor is the outermost x-iterator**
    (known finding C02-deref-adaptor-step-drops-functor): unless the tree keeps the function object (`keeps`, the generated probe
    `deref_step_keeps_functor`), a transformation that steps in x converts the stepped base iterator back to the adaptor type and thereby
    DEFAULT-CONSTRUCTS the function object (`dflt`) -/
def DView.applyCode {α β : Type} (keeps : Bool) (dflt : α → β) (ts : List Xform) (d : DView α β) : DView α β :=
  { v := applyMemAll ts d.v, deref := if keeps || !(ts.any Xform.stepsX) then d.deref else dflt }

def colorConvertedSame {α β : Type} (_cc : β → β) (d : DView α β) : DView α β := d

/-! ### Spec helpers for the judge -/

/-- dimensions after a list of transformations (documented) -/
def dimsAll : List Xform → Int × Int → Int × Int
  | [], d => d
  | t :: ts, d => dimsAll ts (t.dims d)

/-- documented coordinate map of a list, using only dimensions -/
def phiDims : List Xform → Int × Int → Int × Int → Int × Int
  | [], _, p => p
  | t :: ts, d, p => t.phi d (phiDims ts (t.dims d) p)

/-- validity of a list, using only dimensions -/
def validDims : List Xform → Int × Int → Bool
  | [], _ => true
  | t :: ts, (w, h) =>
    (match t with
     | .sub x0 y0 sw sh => decide (0 ≤ x0 ∧ 0 ≤ y0 ∧ 0 ≤ sw ∧ 0 ≤ sh ∧ x0 + sw ≤ w ∧ y0 + sh ≤ h)
     | .subsample sx sy => decide (0 < sx ∧ 0 < sy)
     | _ => true) && validDims ts (t.dims (w, h))

end GilVerif.Model.C02
