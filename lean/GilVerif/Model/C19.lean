/-
  C19 -- executable model of boost/gil/histogram.hpp (histogram::fill, fill_histogram with its dense
  pre-fill, cumulative_histogram, both sub_histogram overloads, normalize) and of the std-container
  fillers of extension/histogram/std.hpp.

  * A histogram is an association list `List (Key × Nat)` (Key = list of integers, one per axis); that
    keys never repeat is a theorem (C19_nodup), not part of the type.  Counts are `Nat`: the C++ stores
    `double`, which is exact for counts below 2^53.
  * `scale` (`ch = static_cast<channel_t>(ch / static_cast<std::ptrdiff_t>(bin_width))`, signed division since fix
    1570f66) and the two expressions of the dense pre-fill loop come from the GENERATED file Gen/C19.lean.
  * `fill` follows histogram::fill: mask test, per-channel scaling, key from the selected channels
    (cast to the key type `int`), limit test through `tuple_compare` (component-wise ≤ on both sides),
    `operator[](key)++`.
  * `fillHistogram` follows fill_histogram: clear unless accumulate; dense pre-fill (1-D only) which creates
    the keys of the range with `+= 0` (since fix 1570f66; it used to ASSIGN 0 and lose accumulated counts).
-/
import GilVerif.Gen.C19

namespace GilVerif.Model.C19
open GilVerif.Gen.C19

abbrev Key := List Int
abbrev Hist := List (Key × Nat)

inductive Ch where
  | u8 | i8 | u16 | i16
  deriving DecidableEq, Repr

def Ch.lo : Ch → Int
  | .u8 => 0 | .i8 => -128 | .u16 => 0 | .i16 => -32768
def Ch.hi : Ch → Int
  | .u8 => 255 | .i8 => 127 | .u16 => 65535 | .i16 => 32767

/-- `ch = ch / bin_width` for a channel of type `c` (generated kernels) -/
def scale (c : Ch) (ch bw : Int) : Int :=
  match c with
  | .u8 => scale_u8 ch bw | .i8 => scale_i8 ch bw | .u16 => scale_u16 ch bw | .i16 => scale_i16 ch bw

/-! ### the map operations of std::unordered_map that the code uses -/

def Hist.get (h : Hist) (k : Key) : Nat :=
  match h with
  | [] => 0
  | (k', c) :: rest => if k' = k then c else Hist.get rest k

/-- `operator[](k) += n` (inserts a zero bin first when the key is new) -/
def Hist.add (h : Hist) (k : Key) (n : Nat) : Hist :=
  match h with
  | [] => [(k, n)]
  | (k', c) :: rest => if k' = k then (k', c + n) :: rest else (k', c) :: Hist.add rest k n

/-- `operator[](k) = n` -/
def Hist.set (h : Hist) (k : Key) (n : Nat) : Hist :=
  match h with
  | [] => [(k, n)]
  | (k', c) :: rest => if k' = k then (k', n) :: rest else (k', c) :: Hist.set rest k n

def Hist.keys (h : Hist) : List Key := h.map (·.1)
def Hist.mass (h : Hist) : Nat := (h.map (·.2)).sum

/-! ### fill -/

/-- `detail::tuple_compare(t1, t2)`: every component of t1 ≤ the component of t2 (`comp & comp_list[i]`) -/
def tupleCompare : List Int → List Int → Bool
  | a :: as, b :: bs => decide (a ≤ b) && tupleCompare as bs
  | _, _ => true

/-- key of a pixel: channels scaled, then the selected channels (`sel`, or all when empty), cast to `int` (no-op here) -/
def keyOf (c : Ch) (bw : Int) (sel : List Nat) (px : List Int) : Key :=
  let scaled := px.map (fun ch => scale c ch bw)
  if sel.isEmpty then scaled else sel.map (fun i => scaled.getD i 0)

structure FillArgs where
  c : Ch
  bw : Int
  sel : List Nat
  applymask : Bool
  setlimits : Bool
  lower : Key
  upper : Key

/-- does `fill` count this pixel (mask bit `m`)? -/
def counted (a : FillArgs) (m : Bool) (px : List Int) : Bool :=
  (!a.applymask || m) &&
  (!a.setlimits || (tupleCompare a.lower (keyOf a.c a.bw a.sel px) && tupleCompare (keyOf a.c a.bw a.sel px) a.upper))

/-- histogram::fill over the pixels in row-major order (`pixels` zipped with the mask bits) -/
def fill (a : FillArgs) (h : Hist) (pixels : List (List Int × Bool)) : Hist :=
  pixels.foldl (fun h pm => if counted a pm.2 pm.1 then h.add (keyOf a.c a.bw a.sel pm.1) 1 else h) h

/-! ### dense pre-fill, `detail::filler<1>` (key type int) -/

/-- the `for` loop, `fuel` bounds the number of iterations of the model -/
def prefillLoop (bw upper : Int) : Nat → Int → Hist → Hist × Bool
  | 0, _, h => (h, false)                       -- fuel exhausted (never happens under the theorem's hypotheses)
  | fuel + 1, i, h =>
    if prefill_cond_int i upper bw ≠ 0 then prefillLoop bw upper fuel (i + bw) (h.add [prefill_key_int i bw] 0)   -- `hist(i / width) += 0`
    else (h, true)

def prefill (bw lower upper : Int) (h : Hist) : Hist :=
  let r := prefillLoop bw upper ((upper - lower).toNat + 1) lower h
  r.1.add [prefill_key_int upper bw] 0

/-- fill_histogram -/
def fillHistogram (a : FillArgs) (accumulate sparse : Bool) (h : Hist) (pixels : List (List Int × Bool)) : Hist :=
  let h1 := if accumulate then h else []
  let dim := if a.sel.isEmpty then (pixels.head?.map (·.1.length)).getD 1 else a.sel.length
  let h2 := if !sparse && dim == 1 then prefill a.bw (a.lower.headD 0) (a.upper.headD 0) h1 else h1
  fill a h2 pixels

/-! ### cumulative_histogram -/

def keyLe : Key → Key → Bool
  | a :: as, b :: bs => if a < b then true else if a > b then false else keyLe as bs
  | [], _ => true
  | _ :: _, [] => false

def insertSorted (x : Key × Nat) : List (Key × Nat) → List (Key × Nat)
  | [] => [x]
  | y :: ys => if keyLe x.1 y.1 then x :: y :: ys else y :: insertSorted x ys

def sortHist (h : Hist) : Hist := h.foldr insertSorted []

def prefixSums : Nat → List (Key × Nat) → List (Key × Nat)
  | _, [] => []
  | acc, (k, c) :: rest => (k, acc + c) :: prefixSums (acc + c) rest

/-- 1-D: sort, running sum; n-D: for every key the sum over all keys that are component-wise ≤ -/
def cumulative (dims : Nat) (h : Hist) : Hist :=
  if dims = 1 then prefixSums 0 (sortHist h)
  else h.map fun kv => (kv.1, ((h.filter fun kv2 => tupleCompare kv2.1 kv.1).map (·.2)).sum)

/-! cumulative histograms of weighted (non-integer) bins: the C++ stores `double`, and after `normalize()` or any
    re-weighting the running sums are sums of fractions.  Generic in the weight type (Int / Rat / Float). -/

section weights
variable {α : Type} [Add α] [OfNat α 0]

def insertSortedW (x : Key × α) : List (Key × α) → List (Key × α)
  | [] => [x]
  | y :: ys => if keyLe x.1 y.1 then x :: y :: ys else y :: insertSortedW x ys
def sortW (h : List (Key × α)) : List (Key × α) := h.foldr insertSortedW []
def prefixSumsW : α → List (Key × α) → List (Key × α)
  | _, [] => []
  | acc, (k, c) :: rest => (k, acc + c) :: prefixSumsW (acc + c) rest

/-- `cumulative_histogram` on weighted bins: the running sum has the mapped type (`double`), never an integer -/
def cumulativeW (dims : Nat) (h : List (Key × α)) : List (Key × α) :=
  if dims = 1 then prefixSumsW 0 (sortW h)
  else h.map fun kv => (kv.1, ((h.filter fun kv2 => tupleCompare kv2.1 kv.1).map (·.2)).foldr (· + ·) 0)
end weights

/-! ### fractional bins in exact arithmetic (`Rat`): sum(), normalize(), accumulate on top of a normalised histogram -/

abbrev HistQ := List (Key × Rat)

def ofCounts (h : Hist) : HistQ := h.map fun kv => (kv.1, (kv.2 : Rat))
/-- `histogram::sum()` -/
def sumQ (h : HistQ) : Rat := (h.map (·.2)).foldr (· + ·) 0
/-- `histogram::normalize()`: every bin divided by the sum of all bins -/
def normalizeQ (h : HistQ) : HistQ := h.map fun kv => (kv.1, kv.2 / sumQ h)
def scaleQ (q : Rat) (h : HistQ) : HistQ := h.map fun kv => (kv.1, kv.2 * q)
/-- `operator[](k) += n` on fractional bins -/
def addQ (h : HistQ) (k : Key) (n : Rat) : HistQ :=
  match h with
  | [] => [(k, n)]
  | (k', c) :: rest => if k' = k then (k', c + n) :: rest else (k', c) :: addQ rest k n
/-- accumulate-fill on top of fractional bins -/
def fillQ (a : FillArgs) (h : HistQ) (pixels : List (List Int × Bool)) : HistQ :=
  pixels.foldl (fun h pm => if counted a pm.2 pm.1 then addQ h (keyOf a.c a.bw a.sel pm.1) 1 else h) h

/-! ### sub_histogram -/

def project (axes : List Nat) (k : Key) : Key := axes.map (fun i => k.getD i 0)

/-- `sub_histogram<axes...>()`: marginalisation -/
def subAxes (axes : List Nat) (h : Hist) : Hist :=
  h.foldl (fun s kv => s.add (project axes kv.1) kv.2) []

/-- `sub_histogram<axes...>(t1, t2)`: keeps the bins whose projected key lies between the projected limits
    (std::tuple `<=`, i.e. lexicographic; identical to the interval test for one axis) -/
def subRange (axes : List Nat) (t1 t2 : Key) (h : Hist) : Hist :=
  h.foldl (fun s kv =>
    if keyLe (project axes t1) (project axes kv.1) && keyLe (project axes kv.1) (project axes t2) then s.add kv.1 kv.2 else s) []

/-! ### key queries of the histogram class: equals, min_key, max_key, nearest_key, sorted_keys, key_from_pixel / key_from_tuple,
    is_tuple_compatible.  The C++ iterates the unordered_map in an unspecified order; the model iterates the association list in
    its own order and the theorems (Props) characterise every result independently of that order. -/

/-- `std::tuple::operator<` (lexicographic, strict); `a <= b` on tuples is `!(b < a)` -/
def keyLt : Key → Key → Bool
  | a :: as, b :: bs => if a < b then true else if b < a then false else keyLt as bs
  | _, _ => false

/-- `base_t::find(k)` / `at(k)` -/
def Hist.findKey? (h : Hist) (k : Key) : Option Nat :=
  match h with
  | [] => none
  | (k', c) :: rest => if k' = k then some c else Hist.findKey? rest k

/-- `histogram::equals(other)`: `check` starts as "same dimension"; every entry of OTHER must be present in *this with the same
    count (entries of *this that OTHER lacks are never looked at: the test is one-sided, as coded) -/
def equalsStep (h o : Hist) (check : Bool) (v : Key × Nat) : Bool :=
  match h.findKey? v.1 with
  | some c => check && (c == o.get v.1)       -- check & (at(key) == otherhist.at(v.first))
  | none => false
def equalsH (sameDim : Bool) (h o : Hist) : Bool := o.foldl (equalsStep h o) sameDim

/-- `histogram::min_key()` (std::tuple `<`); the C++ dereferences begin(): an empty histogram is outside its contract (model: []) -/
def minKey : Hist → Key
  | [] => []
  | kv :: rest => (kv :: rest).foldl (fun m v => if keyLt v.1 m then v.1 else m) kv.1

/-- `histogram::max_key()` -/
def maxKey : Hist → Key
  | [] => []
  | kv :: rest => (kv :: rest).foldl (fun m v => if keyLt m v.1 then v.1 else m) kv.1

/-- one step of the `for_each` of nearest_key; state = (once, nearest_k) -/
def nearestStep (k : Key) (s : Bool × Key) (v : Key × Nat) : Bool × Key :=
  if !keyLt k v.1 then                                   -- v.first <= k
    (if s.1 then (false, v.1) else if keyLt s.2 v.1 then (false, v.1) else s)
  else s

/-- `histogram::nearest_key(k)`: k itself when present, otherwise the greatest key not above k (k again when there is none) -/
def nearestKey (h : Hist) (k : Key) : Key :=
  if (h.findKey? k).isSome then k else (h.foldl (nearestStep k) (true, k)).2

/-- `histogram::sorted_keys()` -/
def sortedKeys (h : Hist) : List Key := (sortHist h).map (·.1)

/-- merging: `dst[k] += c` for every bin of `src` (what `sub_histogram` does into a fresh histogram and what an accumulating
    fill amounts to, theorem C19_fill_accumulate_is_merge) -/
def merge (dst src : Hist) : Hist := src.foldl (fun s kv => s.add kv.1 kv.2) dst

/-- key component types of the harness (`histogram<unsigned char, short, int>`) -/
inductive KTy where
  | u8 | i16 | i32
  deriving DecidableEq, Repr

def KTy.bits : KTy → Nat
  | .u8 => 8 | .i16 => 16 | .i32 => 32
def KTy.lo : KTy → Int
  | .u8 => 0 | .i16 => -32768 | .i32 => -2147483648
def KTy.hi : KTy → Int
  | .u8 => 255 | .i16 => 32767 | .i32 => 2147483647

/-- `static_cast<T>(x)` of make_histogram_key (modular conversion) -/
def KTy.cast : KTy → Int → Int
  | .u8, x => x % 256
  | .i16, x => (x + 32768) % 65536 - 32768
  | .i32, x => (x + 2147483648) % 4294967296 - 2147483648

/-- `key_from_pixel<Dimensions...>(p)` / `key_from_tuple<Dimensions...>(t)`: the selected components (the first `dimension()`
    ones when no selection is given), each cast to the key type of its axis -/
def keyFromPixel (tys : List KTy) (sel : List Nat) (px : List Int) : Key :=
  let chosen := if sel.isEmpty then px.take tys.length else sel.map (fun i => px.getD i 0)
  (tys.zip chosen).map fun tc => tc.1.cast tc.2

/-- `is_tuple_compatible(t)`: same size and (for the common prefix) every key type convertible to the tuple's element type -/
def isTupleCompatible (dim : Nat) (convertible : List Bool) : Bool :=
  if convertible.length == dim then (convertible.take dim).all id else false

/-! ### std containers -/

/-- `fill_histogram(view, std::vector<T>&)` on a gray view (`old` = [] when not accumulating): the vector grows to max+1
    entries but never shrinks (fix 09f7546), then `++hist[p]` -/
def vectorFill (size : Nat) (old : List Nat) (pixels : List Int) : List Nat :=
  let base := old ++ List.replicate (size - old.length) 0      -- if (histogram.size() < bins) histogram.resize(bins)
  pixels.foldl (fun v p => v.set p.toNat (v.getD p.toNat 0 + 1)) base

/-! ### Spec -/

/-- number of counted pixels whose key is `k` -/
def countKey (a : FillArgs) (pixels : List (List Int × Bool)) (k : Key) : Nat :=
  (pixels.filter fun pm => counted a pm.2 pm.1 && decide (keyOf a.c a.bw a.sel pm.1 = k)).length

def countAll (a : FillArgs) (pixels : List (List Int × Bool)) : Nat :=
  (pixels.filter fun pm => counted a pm.2 pm.1).length

/-- the property's reading of "channel divided by the bin width": either rounding of the exact quotient
    (C++ `/` truncates, the unsigned arithmetic floors for powers of two) -/
def keySpecOk (ch bw got : Int) : Bool := got == ch / bw || got == Int.tdiv ch bw

end GilVerif.Model.C19
