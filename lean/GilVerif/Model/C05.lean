/-
  C05 -- executable model of how GIL pairs channels: layouts (channel_mapping), semantic access,
  converting construction (`mapping_transform`), and the static_* colour-base algorithms
  (color_base.hpp, color_base_algorithm.hpp), plus the Spec predicates judged on the implementation's output.

  A pixel is a function `Nat → α` from the index in MEMORY order (`at_c<K>`) to the channel value; a layout is
  the list `channel_mapping` (semantic index → memory index).  The layouts of the library and the index
  pairs of `homogeneous_color_base`'s constructors come from the GENERATED file Gen/C05.lean.
  Core Lean only.
-/
import GilVerif.Gen.C05

namespace GilVerif.Model.C05

abbrev Layout := List Nat

/-- `m[s]`: memory index of semantic channel `s` -/
def Layout.phys (m : Layout) (s : Nat) : Nat := m.getD s 0

/-- Spec: `m` is a permutation of `0..n-1`: entries are in range and every memory index has exactly one semantic index -/
def IsPerm (m : Layout) : Prop :=
  (∀ s, s < m.length → m.phys s < m.length) ∧
  ∀ k, k < m.length → ∃ s, s < m.length ∧ m.phys s = k ∧ ∀ s', s' < m.length → m.phys s' = k → s' = s

instance (m : Layout) : Decidable (IsPerm m) := by unfold IsPerm; infer_instance

/-- `detail::type_to_index<Mapping, integral_constant<int,K>>` = `mp_find`: first position of `K` (size if absent) -/
def typeToIndex (m : Layout) (k : Nat) : Nat := m.idxOf k

/-- `detail::mapping_transform<DstLayout, SrcLayout, K>` = `mp_at<SrcMap, type_to_index<DstMap, K>>` -/
def mappingTransform (dst src : Layout) (k : Nat) : Nat := src.phys (typeToIndex dst k)

/-- `semantic_at_c<S>(p)` = `at_c<mapping[S]>(p)` -/
def semanticAt {α} (m : Layout) (p : Nat → α) (s : Nat) : α := p (m.phys s)

/-- `get_color(p, Color())` = `semantic_at_c<index of Color in the colour space>` -/
def getColor {α} (m : Layout) (p : Nat → α) (colourIndex : Nat) : α := semanticAt m p colourIndex

/-- converting constructor of `homogeneous_color_base<E,Dst,N>` from `<E2,Src,N>`: member `k` is
    `at_c<mapping_transform<Dst,Src,k>>(src)` -/
def construct {α} (dst src : Layout) (p : Nat → α) : Nat → α := fun k => p (mappingTransform dst src k)

def upd {α} (p : Nat → α) (i : Nat) (v : α) : Nat → α := fun j => if j = i then v else p j

/-- `static_copy(src, dst)`: for S = 0..N-1: `semantic_at_c<S>(dst) = semantic_at_c<S>(src)` -/
def staticCopy {α} (srcMap dstMap : Layout) (src dst : Nat → α) : Nat → α :=
  (List.range dstMap.length).foldl (fun d s => upd d (dstMap.phys s) (semanticAt srcMap src s)) dst

/-- `static_equal(p1, p2)`: conjunction over S of `semantic_at_c<S>(p1) == semantic_at_c<S>(p2)` -/
def staticEqual {α} [BEq α] (m1 m2 : Layout) (p1 p2 : Nat → α) : Bool :=
  (List.range m1.length).all (fun s => semanticAt m1 p1 s == semanticAt m2 p2 s)

/-- `static_fill(p, v)` -/
def staticFill {α} (m : Layout) (p : Nat → α) (v : α) : Nat → α :=
  (List.range m.length).foldl (fun d s => upd d (m.phys s) v) p

/-- `static_generate(p, op)`: the S-th call of `op` (result `g S`) goes to semantic channel S -/
def staticGenerate {α} (m : Layout) (p : Nat → α) (g : Nat → α) : Nat → α :=
  (List.range m.length).foldl (fun d s => upd d (m.phys s) (g s)) p

/-- `static_for_each(p, op)`: the memory indices handed to `op`, in call order -/
def visitOrder (m : Layout) : List Nat := (List.range m.length).map m.phys

/-- `static_for_each(p1, p2, op)` / three sources: the tuples of memory indices handed to `op` -/
def visitPairs (m1 m2 : Layout) : List (Nat × Nat) := (List.range m1.length).map (fun s => (m1.phys s, m2.phys s))

/-- `static_transform(src, dst, op)`: `semantic_at_c<S>(dst) = op(semantic_at_c<S>(src))` -/
def staticTransform {α β} (srcMap dstMap : Layout) (src : Nat → α) (dst : Nat → β) (f : α → β) : Nat → β :=
  (List.range dstMap.length).foldl (fun d s => upd d (dstMap.phys s) (f (semanticAt srcMap src s))) dst

def staticTransform2 {α β γ} (m1 m2 dstMap : Layout) (p1 : Nat → α) (p2 : Nat → β) (dst : Nat → γ) (f : α → β → γ) : Nat → γ :=
  (List.range dstMap.length).foldl (fun d s => upd d (dstMap.phys s) (f (semanticAt m1 p1 s) (semanticAt m2 p2 s))) dst

/-- ALIASED destination: `static_transform(src1, src2, dst, op)` where `dst` is one of the sources (or both): the S-th step
    `semantic_at_c<S>(dst) = op(semantic_at_c<S>(src1), semantic_at_c<S>(src2))` reads the CURRENT content of the object it
    writes.  `g s x` = the new value of colour `s` given the current value `x` of that colour in the destination object. -/
def staticUpdateInPlace {α} (m : Layout) (acc : Nat → α) (g : Nat → α → α) : Nat → α :=
  (List.range m.length).foldl (fun d s => upd d (m.phys s) (g s (semanticAt m d s))) acc

/-- `static_transform(acc, p2, acc, f)`: the destination IS the first source -/
def staticTransform2Acc1 {α β} (m1 m2 : Layout) (acc : Nat → α) (p2 : Nat → β) (f : α → β → α) : Nat → α :=
  staticUpdateInPlace m1 acc (fun s x => f x (semanticAt m2 p2 s))
/-- `static_transform(p1, acc, acc, f)`: the destination IS the second source -/
def staticTransform2Acc2 {α β} (m1 m2 : Layout) (p1 : Nat → α) (acc : Nat → β) (f : α → β → β) : Nat → β :=
  staticUpdateInPlace m2 acc (fun s x => f (semanticAt m1 p1 s) x)
/-- `static_transform(acc, acc, acc, f)`: one object in all three places -/
def staticTransform2Self {α} (m : Layout) (acc : Nat → α) (f : α → α → α) : Nat → α :=
  staticUpdateInPlace m acc (fun _ x => f x x)

/-- `static_for_each(p1, p2, p3, op)`: the triples of memory indices handed to `op` -/
def visitTriples (m1 m2 m3 : Layout) : List (Nat × Nat × Nat) := (List.range m1.length).map (fun s => (m1.phys s, m2.phys s, m3.phys s))

/-- `static_min` / `static_max` (`min_max_recur`): fold over S = 0..N-1 with `mutable_min(x,y) = x<y ? x : y`
    and `mutable_max(x,y) = x<y ? y : x`; returns the MEMORY index of the selected channel -/
def staticMinIdx (m : Layout) (p : Nat → Int) : Nat :=
  (List.range m.length).foldl (fun best s => if s = 0 then m.phys 0 else if p best < p (m.phys s) then best else m.phys s) (m.phys 0)
def staticMaxIdx (m : Layout) (p : Nat → Int) : Nat :=
  (List.range m.length).foldl (fun best s => if s = 0 then m.phys 0 else if p best < p (m.phys s) then m.phys s else best) (m.phys 0)

/-! ### packed pixels: equality looks at the channels, not at the bit field -/

/-- the channel values of a packed pixel's bit field `f`: consecutive bit slices of the given widths starting at bit `lo` -/
def channelsFrom (f lo : Nat) : List Nat → List Nat
  | [] => []
  | w :: ws => (f >>> lo) % 2 ^ w :: channelsFrom f (lo + w) ws

def totalBits : List Nat → Nat
  | [] => 0
  | w :: ws => w + totalBits ws

/-- `operator==` of two packed pixels of one type (`static_equal`: channel by channel; same layout on both sides) -/
def packedEqual (widths : List Nat) (f g : Nat) : Bool := channelsFrom f 0 widths == channelsFrom g 0 widths

/-- store channel values into consecutive slices of `f` (channel-wise assignment; every other bit of `f` stays) -/
def putFrom (f lo : Nat) : List Nat → List Nat → Nat
  | w :: ws, v :: vs => putFrom (f - ((f >>> lo) % 2 ^ w) * 2 ^ lo + (v % 2 ^ w) * 2 ^ lo) (lo + w) ws vs
  | _, _ => f

/-! ### the provided layouts (generated table) -/

/-- look a provided layout up by its name (character codes): colour names and channel_mapping -/
def lookup (name : List Nat) : Option (List (List Nat) × Layout) :=
  (GilVerif.Gen.C05.layoutCodes.find? (fun e => e.1 == name)).map (fun e => e.2)

/-! ### Spec for the provided layouts: the layout's NAME spells the memory order -/

def blackCodes : List Nat := [98, 108, 97, 99, 107]

/-- the letter a colour contributes to a layout name: its initial, `k` for black -/
def colourLetter (colour : List Nat) : Nat := if colour = blackCodes then 107 else colour.headD 0

/-- expected channel_mapping: if the name has one letter per colour, semantic channel `s` lives at the position of its
    letter in the name (`argb`: alpha first); otherwise (gray, devicenN) memory order = colour-space order -/
def specMapping (name : List Nat) (colours : List (List Nat)) : List Nat :=
  if name.length = colours.length ∧ colours.all (fun c => name.contains (colourLetter c)) then
    colours.map (fun c => name.idxOf (colourLetter c))
  else List.range colours.length

/-- constructor / accessor table entry is diagonal -/
def diagonal (t : List (Nat × Nat × Nat × Nat)) : Bool := t.all (fun e => e.2.2.1 == e.2.2.2)

/-- for each arity N (1..5) and kind, the members listed are 0..N-1 repeated (nothing missing, nothing twice per constructor) -/
def kindComplete (t : List (Nat × Nat × Nat × Nat)) (n kind : Nat) : Bool :=
  let ks := (t.filter (fun e => e.1 == n && e.2.1 == kind)).map (fun e => e.2.2.1)
  ks.length % n == 0 && ks.length > 0 && (List.range ks.length).all (fun i => ks.getD i 0 == i % n)

end GilVerif.Model.C05
