/-
  C09 -- executable model of the default colour converters (color_convert.hpp) between gray, rgb, rgba and cmyk
  pixels with uint8_t, uint16_t or float32_t channels.

  Pixels are lists of channel values in SEMANTIC order (gray | r g b | r g b a | c m y k); float32 channels are
  carried as IEEE-754 binary32 bit patterns.  Integer kernels (8-bit luminance, channel multiply/invert, 8<->16-bit
  channel_convert) come from the generated file Gen/C09.lean; the float32 and `double` steps are reproduced with
  Lean's hardware Float32 / Float in the order the C++ performs them.  The model follows the code's dispatch
  (default_color_converter_impl<C1,C2>), not what the conversions "should" do.
-/
import GilVerif.Gen.C09
import GilVerif.Model.C09Table
import GilVerif.Model.C06

namespace GilVerif.Model.C09
open GilVerif.Gen.C09

inductive Depth where | d8 | d16 | d32f
  deriving Repr, DecidableEq
inductive Space where | gray | rgb | rgba | cmyk
  deriving Repr, DecidableEq

def Depth.maxV : Depth → Int | .d8 => 255 | .d16 => 65535 | .d32f => 1065353216   -- 1.0f as bits
def Depth.isFloat : Depth → Bool | .d32f => true | _ => false
def Space.size : Space → Nat | .gray => 1 | .rgb => 3 | .rgba => 4 | .cmyk => 4

def f32 (bits : Int) : Float32 := Float32.ofBits bits.toNat.toUInt32
def bitsOf (x : Float32) : Int := Int.ofNat x.toBits.toNat
def f32OfInt (v : Int) : Float32 := v.toNat.toUInt32.toFloat32

/-- channel_convert between the three channel models (C06) -/
def chConv (a b : Depth) (v : Int) : Int :=
  match a, b with
  | .d8, .d8 => v | .d16, .d16 => v | .d32f, .d32f => v
  | .d8, .d16 => up_div_B8_B16 v 255 65535
  | .d16, .d8 => down_div_B16_B8 v 65535 255
  | .d8, .d32f => bitsOf (f32OfInt v / f32OfInt 255)
  | .d16, .d32f => bitsOf (f32OfInt v / f32OfInt 65535)
  | .d32f, .d8 => Int.ofNat ((f32 v * f32OfInt 255 + 0.5).toUInt32.toNat % 256)
  | .d32f, .d16 => Int.ofNat ((f32 v * f32OfInt 65535 + 0.5).toUInt32.toNat % 65536)

/-- channel_multiply (C07) -/
def chMul (d : Depth) (a b : Int) : Int :=
  match d with
  | .d8 => mul_u8 a b
  | .d16 => mul_u16 a b
  | .d32f => bitsOf (f32 a * f32 b)

/-- channel_invert (C07) -/
def chInv (d : Depth) (x : Int) : Int :=
  match d with
  | .d8 => invert_u8 x 255 0
  | .d16 => invert_u16 x 65535 0
  | .d32f => bitsOf ((1 : Float32) - f32 x + 0)

/-- detail::rgb_to_luminance<Gray>(r,g,b) for source channels of depth `s` and gray channel of depth `g` -/
def lum (s g : Depth) (r gr b : Int) : Int :=
  match s with
  | .d8 => chConv .d8 g (lum8 r gr b)              -- the uint8_t specialisation (fixed point)
  | _ =>
    let fr := f32 (chConv s .d32f r); let fg := f32 (chConv s .d32f gr); let fb := f32 (chConv s .d32f b)
    chConv .d32f g (bitsOf (fr * 0.30 + fg * 0.59 + fb * 0.11))

/-- T1(channel_multiply(x, invert(k)) + k) clamped at max, inverted: one channel of cmyk -> rgb (in depth d) -/
def cmykChan (d : Depth) (x k : Int) : Int :=
  let m := chMul d x (chInv d k)
  let sum : Int := match d with
    | .d8 => (m + k) % 256
    | .d16 => (m + k) % 65536
    | .d32f => bitsOf (f32 m + f32 k)
  let clamped : Int := match d with
    | .d32f => if f32 sum < f32 d.maxV then sum else d.maxV      -- std::min(max, x) = (x < max) ? x : max
    | _ => if sum < d.maxV then sum else d.maxV
  chInv d clamped

/-- default_color_converter_impl<rgb_t, cmyk_t>: through uint8_t and a `double` scale factor -/
def rgbToCmyk (s t : Depth) (r g b : Int) : List Int :=
  let c := invert_u8 (chConv s .d8 r) 255 0
  let m := invert_u8 (chConv s .d8 g) 255 0
  let y := invert_u8 (chConv s .d8 b) 255 0
  let k := min c (min m y)
  let sdiv := (255 - k) % 256
  let (c, m, y) :=
    if sdiv ≠ 0 then
      let sc : Float := (255 : Float) / Float.ofInt sdiv
      let f (x : Int) : Int := Int.ofNat ((Float.ofInt (x - k) * sc).toUInt8.toNat)
      (f c, f m, f y)
    else (0, 0, 0)
  [chConv .d8 t c, chConv .d8 t m, chConv .d8 t y, chConv .d8 t k]

/-- rgb8 -> cmyk8 with the `double` step replaced by the table extracted from the compiled code (Model/C09Table.lean);
    pure integer arithmetic, so the kernel can reason about it.  Equal to `rgbToCmyk .d8 .d8` as long as the table is the
    code's table, which every run checks on all 255 rows (and the sweeps check on all 2^24 pixels). -/
def rgbToCmykT (r g b : Int) : List Int :=
  let c := invert_u8 r 255 0
  let m := invert_u8 g 255 0
  let y := invert_u8 b 255 0
  let k := min c (min m y)
  if k = 255 then [0, 0, 0, 255]
  else
    let f (x : Int) : Int := Int.ofNat (cmykScale k.toNat (x - k).toNat)
    [f c, f m, f y, k]

def nth (p : List Int) (i : Nat) : Int := p.getD i 0

/-- default_color_converter_impl<C1, rgb_t> (C1 without alpha) into depth t -/
def toRgb (c1 : Space) (s t : Depth) (p : List Int) : List Int :=
  match c1 with
  | .gray => let v := chConv s t (nth p 0); [v, v, v]
  | .rgb => [chConv s t (nth p 0), chConv s t (nth p 1), chConv s t (nth p 2)]
  | .cmyk => [chConv s t (cmykChan s (nth p 0) (nth p 3)), chConv s t (cmykChan s (nth p 1) (nth p 3)), chConv s t (cmykChan s (nth p 2) (nth p 3))]
  | .rgba => []      -- handled by the caller (premultiplication)

/-- conversion from a colour space without alpha -/
def convNoAlpha (c1 c2 : Space) (s t : Depth) (p : List Int) : List Int :=
  match c1, c2 with
  | .gray, .gray => [chConv s t (nth p 0)]
  | .rgb, .rgb => toRgb .rgb s t p
  | .cmyk, .cmyk => p.map (chConv s t)
  | .gray, .rgb => toRgb .gray s t p
  | .cmyk, .rgb => toRgb .cmyk s t p
  | .gray, .cmyk => [0, 0, 0, chConv s t (nth p 0)]
  | .rgb, .gray => [lum s t (nth p 0) (nth p 1) (nth p 2)]
  | .rgb, .cmyk => rgbToCmyk s t (nth p 0) (nth p 1) (nth p 2)
  | .cmyk, .gray => [chConv s t (chMul s (chInv s (lum s s (nth p 0) (nth p 1) (nth p 2))) (chInv s (nth p 3)))]
  | c, .rgba => toRgb c s t p ++ [chConv s t s.maxV]      -- alpha_or_max = max of the source channel type
  | .rgba, _ => []

/-- the alpha-premultiplied rgb pixel that default_color_converter_impl<rgba_t,C2> builds (depth s) -/
def premultiply (s : Depth) (p : List Int) : List Int :=
  [chMul s (nth p 0) (nth p 3), chMul s (nth p 1) (nth p 3), chMul s (nth p 2) (nth p 3)]

/-- color_convert(src, dst): src in space c1 with channel depth s, dst in space c2 with depth t -/
def colorConvert (c1 c2 : Space) (s t : Depth) (p : List Int) : List Int :=
  match c1, c2 with
  | .rgba, .rgba => p.map (chConv s t)
  | .rgba, c => convNoAlpha .rgb c s t (premultiply s p)
  | c, d => convNoAlpha c d s t p

/-! ### heterogeneous rgb pixels: channels of different depths (packed rgb565 / rgb332, bit-aligned references)

  Every channel is converted with ITS OWN channel type: `channel_convert<color_element_type<P2, C>::type>` of C06's
  converters (Model/C06.lean: packed_channel_value<n> <-> uint8_t / uint16_t / float32_t).  `ws` lists the channel widths in
  semantic order (r, g, b). -/

/-- default_color_converter_impl<gray_t, rgb_t> into a heterogeneous rgb pixel; `s` is .u8 or .u16 -/
def grayToHet (s : C06.Ch) (ws : List Nat) (v : Int) : List Int := ws.map fun w => C06.conv s (.packed w) v

/-- rgb8 -> heterogeneous rgb (same colour space: per-channel channel_convert) -/
def rgb8ToHet (ws : List Nat) (p : List Int) : List Int := (ws.zip p).map fun (w, x) => C06.conv .u8 (.packed w) x

/-- heterogeneous rgb -> rgb8 -/
def hetToRgb8 (ws : List Nat) (p : List Int) : List Int := (ws.zip p).map fun (w, x) => C06.conv (.packed w) .u8 x

/-- heterogeneous rgb -> gray8: the generic (float32) luminance, each channel normalised by its own maximum -/
def hetToGray8 (ws : List Nat) (p : List Int) : List Int :=
  let f (i : Nat) : Float32 := f32 (C06.conv (.packed (ws.getD i 1)) .f32 (p.getD i 0))
  [C06.conv .f32 .u8 (bitsOf (f 0 * 0.30 + f 1 * 0.59 + f 2 * 0.11))]

/-! ### Spec helpers (the clauses are assembled in the driver's `judge`) -/

/-- position of a channel value in [0,1] as a binary64 -/
def unit (d : Depth) (v : Int) : Float :=
  match d with
  | .d32f => (f32 v).toFloat
  | _ => Float.ofInt v / Float.ofInt d.maxV

def inRange (d : Depth) (v : Int) : Bool :=
  match d with
  | .d32f => (f32 v).toFloat ≥ 0 && (f32 v).toFloat ≤ 1
  | _ => decide (0 ≤ v ∧ v ≤ d.maxV)

def isBlack (c : Space) (d : Depth) (p : List Int) : Bool :=
  match c with
  | .rgb => p == [0, 0, 0]
  | .rgba => p == [0, 0, 0, d.maxV]
  | .cmyk => p == [0, 0, 0, d.maxV]
  | .gray => p == [0]
def isWhite (c : Space) (d : Depth) (p : List Int) : Bool :=
  match c with
  | .rgb => p == [d.maxV, d.maxV, d.maxV]
  | .rgba => p == [d.maxV, d.maxV, d.maxV, d.maxV]
  | .cmyk => p == [0, 0, 0, 0]
  | .gray => p == [d.maxV]

/-- one 8-bit level / one unit of the given depth, as a fraction of the range (float32: 2^-22, "float precision") -/
def unitStep (d : Depth) : Float :=
  match d with
  | .d8 => 1.0 / 255.0 | .d16 => 1.0 / 65535.0 | .d32f => 2.384185791015625e-7

end GilVerif.Model.C09
