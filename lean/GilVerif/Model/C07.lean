/-
  C07 -- executable model of channel_multiply / channel_invert for every channel model.

  Integer kernels come from the *generated* file Gen/C07.lean (translated from
  channel_algorithm.hpp on every run); this file only adds the dispatch that the C++ templates
  perform (which kernel a channel type selects) and the float32 path,
  and the Spec predicates that `judge` evaluates on the implementation's observations.
-/
import GilVerif.Gen.C07

namespace GilVerif.Model.C07
open GilVerif.Gen.C07

/-- channel models of the library -/
inductive Ch where
  | u8 | u16 | u32 | i8 | i16 | i32
  | packed (n : Nat)            -- packed_channel_value<n>, 1 ≤ n ≤ 32
  | scoped (bits : Nat) (signed : Bool) (lo hi : Int)   -- scoped_channel_value<base, lo, hi> (invert only)
  deriving Repr, DecidableEq

def Ch.parse (s : String) : Option Ch :=
  match s with
  | "u8" => some .u8 | "u16" => some .u16 | "u32" => some .u32
  | "i8" => some .i8 | "i16" => some .i16 | "i32" => some .i32
  | "s8" => some (.scoped 8 false 16 235) | "s16" => some (.scoped 16 false 1000 60000)
  | "si16" => some (.scoped 16 true (-100) 1000) | "su32" => some (.scoped 32 false 7 4000000000)
  | _ => if s.startsWith "p" then (s.drop 1).toString.toNat?.bind (fun n => if 1 ≤ n ∧ n ≤ 32 then some (.packed n) else none) else none

def Ch.minV : Ch → Int
  | .i8 => -128 | .i16 => -32768 | .i32 => -2147483648 | .scoped _ _ lo _ => lo | _ => 0
def Ch.maxV : Ch → Int
  | .u8 => 255 | .u16 => 65535 | .u32 => 4294967295
  | .i8 => 127 | .i16 => 32767 | .i32 => 2147483647
  | .packed n => 2 ^ n - 1
  | .scoped _ _ _ hi => hi

/-- base (carrier) type width of packed_channel_value<n>: min_fast_uint -/
def packedCarrier (n : Nat) : Nat := if n ≤ 8 then 8 else if n ≤ 16 then 16 else 32

/-- generic channel_multiplier_unsigned, integral path (the packed value constructor masks) -/
def mulPacked (n : Nat) (a b : Int) : Int :=
  let m : Int := 2 ^ n - 1
  let r := match packedCarrier n with
    | 8 => mulgen_u8 a b m
    | 16 => mulgen_u16 a b m
    | _ => mulgen_u32 a b m
  r % 2 ^ n

/-- channel_multiply on integral channel values -/
def mul : Ch → Int → Int → Int
  | .u8, a, b => mul_u8 a b
  | .u16, a, b => mul_u16 a b
  | .u32, a, b => mulgen_u32 a b 4294967295
  | .i8, a, b => from_unsigned_i8 (mul_u8 (to_unsigned_i8 a) (to_unsigned_i8 b))
  | .i16, a, b => from_unsigned_i16 (mul_u16 (to_unsigned_i16 a) (to_unsigned_i16 b))
  | .i32, a, b => from_unsigned_i32 (mulgen_u32 (to_unsigned_i32 a) (to_unsigned_i32 b) 4294967295)
  | .packed n, a, b => mulPacked n a b
  | .scoped .., _, _ => 0     -- channel_multiply is not exercised on scoped channels

/-- channel_invert -/
def invert (c : Ch) (x : Int) : Int :=
  match c with
  | .u8 => invert_u8 x c.maxV c.minV
  | .u16 => invert_u16 x c.maxV c.minV
  | .u32 => invert_u32 x c.maxV c.minV
  | .i8 => invert_i8 x c.maxV c.minV
  | .i16 => invert_i16 x c.maxV c.minV
  | .i32 => invert_i32 x c.maxV c.minV
  | .scoped bits signed lo hi =>   -- the base type's kernel with the scoped minimum and maximum
    match bits, signed with
    | 8, false => invert_u8 x hi lo | 16, false => invert_u16 x hi lo | 32, false => invert_u32 x hi lo
    | 8, true => invert_i8 x hi lo | 16, true => invert_i16 x hi lo | _, _ => invert_i32 x hi lo
  | .packed n =>   -- base type uint8/16/32_t; the packed_channel_value constructor then masks
    let r := match packedCarrier n with
      | 8 => invert_u8 x c.maxV 0
      | 16 => invert_u16 x c.maxV 0
      | _ => invert_u32 x c.maxV 0
    r % 2 ^ n

/-! ### Spec (what the property demands), evaluated by `judge` on implementation output -/

/-- Spec clauses for one product `r = channel_multiply(a,b)`; `none` = satisfied -/
def mulSpec (c : Ch) (a b r : Int) : Option String :=
  let lo := c.minV; let M := c.maxV - c.minV
  let a' := a - lo; let b' := b - lo; let r' := r - lo
  if r < c.minV ∨ r > c.maxV then some "range"
  else if ¬ ((r' * M - a' * b').natAbs < M.natAbs) then some "within-one-unit"
  else if b' = M ∧ r ≠ a then some "max-is-identity"
  else if a' = M ∧ r ≠ b then some "max-is-identity"
  else if (a' = 0 ∨ b' = 0) ∧ r' ≠ 0 then some "min-is-annihilator"
  else none

def invSpec (c : Ch) (x v w : Int) : Option String :=
  if v ≠ c.maxV - x + c.minV then some "invert-exact"
  else if w ≠ x then some "invert-involution"
  else if v < c.minV ∨ v > c.maxV then some "range"
  else none

def monotone : List Int → Bool
  | a :: b :: rest => a ≤ b && monotone (b :: rest)
  | _ => true

end GilVerif.Model.C07
