/-
  C03 -- executable model of view navigation: the 1-D iterator (iterator_from_2d), 2-D locators,
  x / y step iterators, bit ranges, and every navigation path image_view offers.

  The arithmetic kernels (row carry, offsets, step difference, sign-keyed comparisons, bit carry
  with its `int` narrowing) are the *generated* definitions of Gen/C03.lean, re-translated from the
  headers on every run.  This file adds what the C++ composes around them (which kernel a path
  calls, in which order) and the Spec predicates evaluated by `judge`.

  Addresses are integers in memory units relative to the buffer: bytes, bits for bit-aligned
  views, coordinate codes (y*4096+x) for virtual views.
-/
import GilVerif.Basic.Geom
import GilVerif.Gen.C03

namespace GilVerif.Model.C03
open GilVerif.Geom GilVerif.Gen.C03

/-- how the x-iterator underneath a view moves -/
structure Kind where
  bit : Bool      -- bit_aligned_pixel_iterator at the bottom (bit_range arithmetic)
  xstep : Bool    -- the x-iterator is a memory_based_step_iterator (dynamic x step)
  pixbits : Int   -- bit_size of the pixel (bit kinds only)
  virt : Bool     -- virtual view: x / y iterators are position_iterators (no step adaptor, no memory)
  planar : Bool   -- planar_pixel_iterator at the bottom (one pointer per channel; positions are those of plane 0)
  chan : Int      -- sizeof(channel_t) (planar kinds only)
  deriving Repr, DecidableEq, Inhabited

def b2i (b : Bool) : Int := if b then 1 else 0

/-- `memunit_advance(it, diff)`: raw pointers add bytes (pixel_iterator.hpp), a planar iterator advances every
    channel pointer with `memunit_advanced` (plane 0 shown), bit iterators call `bit_range::bit_advance`.
    A bit position `p` stands for (`_current_byte`, `_bit_offset`) = (p / 8, p % 8), floor. -/
def memAdvance (k : Kind) (pos diff : Int) : Int :=
  if k.bit then
    let r := bit_advance (pos / 8) (pos % 8) diff
    r.1 * 8 + r.2
  else if k.planar then ptr_memunit_advanced pos diff
  else ptr_memunit_advance pos diff

/-- `memunit_distance(a, b)` -/
def memDistance (k : Kind) (a b : Int) : Int :=
  if k.bit then bit_distance_to (a / 8) (a % 8) (b / 8) (b % 8) else ptr_memunit_distance a b

/-- `x_iterator += n` / `x_iterator + n`: a raw bit iterator calls `bit_advance(n * bit_size)`, a raw planar
    iterator adds `n` to every channel pointer (n channels = `n * sizeof(channel_t)` bytes), step iterators
    call `memunit_advance(base, n * step)`, a raw pointer moves by `n` pixels -/
def xAdv (k : Kind) (xs pos n : Int) : Int :=
  if k.bit && !k.xstep then memAdvance k pos (bitit_advance_bits n k.pixbits)
  else if k.planar && !k.xstep then pos + n * k.chan
  else memAdvance k pos (step_advance 0 n xs)

/-- `x_iterator[n]`: `planar_pixel_iterator` has its own `operator[]`
    (`memunit_advanced_ref(*this, n * sizeof(channel_t))`); every other iterator dereferences `it + n` -/
def xIdx (k : Kind) (xs pos n : Int) : Int :=
  if k.planar && !k.xstep then ptr_memunit_advanced pos (planar_index_bytes n k.chan)
  else xAdv k xs pos n

/-- `++x_iterator`: a raw bit iterator uses `bit_range::operator++`, a raw planar iterator increments every
    channel pointer, a step iterator `memunit_advance(base, 1*step)`, a pointer adds one pixel -/
def xInc (k : Kind) (xs pos : Int) : Int :=
  if k.bit && !k.xstep then
    let r := bit_increment (pos / 8) (pos % 8) k.pixbits
    r.1 * 8 + r.2
  else if k.planar && !k.xstep then pos + k.chan
  else memAdvance k pos (step_advance 0 1 xs)

/-- `--x_iterator` (`bit_range::operator--` is `bit_advance(-RangeSize)`) -/
def xDec (k : Kind) (xs pos : Int) : Int :=
  if k.planar && !k.xstep then pos - k.chan
  else memAdvance k pos (step_advance 0 (-1) xs)

/-- `y_iterator += n` (always a memory_based_step_iterator with step row_size) -/
def yAdv (k : Kind) (ys pos n : Int) : Int := memAdvance k pos (step_advance 0 n ys)

/-- what the TYPE of a raw (non-step) x-iterator fixes about its step: a bit iterator steps by the pixel's
    bit size, a planar iterator by one channel -/
def Kind.Natural (k : Kind) (xs : Int) : Prop :=
  (k.bit = true → k.xstep = false → xs = k.pixbits ∧ 0 ≤ k.pixbits)
  ∧ (k.planar = true → k.xstep = false → k.bit = false ∧ xs = k.chan ∧ 0 < k.chan)

instance (k : Kind) (xs : Int) : Decidable (k.Natural xs) := by unfold Kind.Natural; exact inferInstance

/-- a 2-D locator: position of its x-iterator plus the two steps -/
structure Loc where
  pos : Int
  xs : Int
  ys : Int
  deriving Repr, DecidableEq, Inhabited

/-- `loc += point(dx,dy)`  (memory_based_2d_locator::operator+=; also xy_at / x_at / operator()) -/
def Loc.move (k : Kind) (l : Loc) (dx dy : Int) : Loc :=
  { l with pos := memAdvance k l.pos (loc_offset dx dy l.ys l.xs) }

def View.loc (v : View) : Loc := { pos := v.base, xs := v.xs, ys := v.ys }

/-- the 1-D iterator: coordinates, width, locator -/
structure It where
  x : Int
  y : Int
  w : Int
  p : Loc
  deriving Repr, DecidableEq, Inhabited

def View.begin (v : View) : It := { x := 0, y := 0, w := v.w, p := View.loc v }

/-- `it += d`: the generated carry arithmetic gives the new coordinates and the displacement
    `delta` handed to `_p += delta` -/
def It.advance (k : Kind) (it : It) (d : Int) : It :=
  let r := it2d_advance d it.x it.y it.w 0 0
  if it.w = 0 then it else
  { it with x := r.1, y := r.2.1, p := it.p.move k r.2.2.1 r.2.2.2 }

/-- `++it`: `++_p.x()` and, on carry, `_p += point_t(-_width, 1)` -/
def It.inc (k : Kind) (it : It) : It :=
  let r := it2d_increment it.x it.y it.w 0 0
  let p1 : Loc := { it.p with pos := xInc k it.p.xs it.p.pos }
  { it with x := r.1, y := r.2.1,
            p := if r.2.2.1 = 1 ∧ r.2.2.2 = 0 then p1 else p1.move k (r.2.2.1 - 1) r.2.2.2 }

/-- `--it` -/
def It.dec (k : Kind) (it : It) : It :=
  let r := it2d_decrement it.x it.y it.w 0 0
  let p1 : Loc := { it.p with pos := xDec k it.p.xs it.p.pos }
  { it with x := r.1, y := r.2.1,
            p := if r.2.2.1 = -1 ∧ r.2.2.2 = 0 then p1 else p1.move k (r.2.2.1 + 1) r.2.2.2 }

/-- `a.distance_to(b)`  (= b - a) -/
def It.distanceTo (a b : It) : Int := it2d_distance_to a.x a.y a.w b.x b.y

/-- `a == b`: `iterator_from_2d::equal` (same coordinates and same locator position) -/
def It.equal (a b : It) : Int := it2d_equal a.x a.y b.x b.y a.p.pos b.p.pos

/-- `a - b` as iterator_facade computes it: `-(a.distance_to(b))` -/
def It.sub (a b : It) : Int := -(a.distanceTo b)

/-- `a < b` as iterator_facade computes it: `0 > -(a.distance_to(b))` -/
def It.lt (a b : It) : Bool := decide (0 > -(a.distanceTo b))

def View.size (v : View) : Int := v.w * v.h
def View.endIt (k : Kind) (v : View) : It := (View.begin v).advance k (View.size v)

/-! ### the navigation paths of image_view (address reached for pixel (x,y)) -/

def pathCall (k : Kind) (v : View) (x y : Int) : Int := ((View.loc v).move k x y).pos       -- view(x,y), x_at, xy_at
def pathRow (k : Kind) (v : View) (x y : Int) : Int := xIdx k v.xs ((View.loc v).move k 0 y).pos x   -- row_begin(y)[x]
def pathCol (k : Kind) (v : View) (x y : Int) : Int := yAdv k v.ys ((View.loc v).move k x 0).pos y   -- col_begin(x)[y]
def pathBegin (k : Kind) (v : View) (x y : Int) : Int := ((View.begin v).advance k (y * v.w + x)).p.pos  -- begin()[y*w+x]
def pathAt (k : Kind) (v : View) (x y : Int) : Int :=                                        -- at(x,y) = (begin() + y*w) + x
  (((View.begin v).advance k (y * v.w)).advance k x).p.pos
def pathRbegin (k : Kind) (v : View) (x y : Int) : Int :=                                    -- rbegin()[w*h-1-(y*w+x)]
  let n := v.w * v.h - 1 - (y * v.w + x)
  (((View.endIt k v).advance k (-n)).dec k).p.pos
def pathCached (k : Kind) (v : View) (cx cy x y : Int) : Int :=                              -- xy_at(cx,cy)[cache_location(x-cx,y-cy)]
  let l := (View.loc v).move k cx cy
  memAdvance k l.pos (loc_offset (x - cx) (y - cy) l.ys l.xs)

def View.is1d (v : View) : Int := loc_is_1d_traversable v.w v.ys v.xs

/-! ### locator move programs -/

inductive Move where
  | add (dx dy : Int)      -- loc += point(dx,dy)
  | subm (dx dy : Int)     -- loc -= point(dx,dy)
  | xadd (n : Int)         -- loc.x() += n
  | yadd (n : Int)         -- loc.y() += n
  | xinc | xdec | yinc | ydec
  deriving Repr, DecidableEq, Inhabited

def Move.run (k : Kind) (l : Loc) : Move → Loc
  | .add dx dy => l.move k dx dy
  | .subm dx dy => l.move k (-dx) (-dy)
  | .xadd n => { l with pos := xAdv k l.xs l.pos n }
  | .yadd n => { l with pos := yAdv k l.ys l.pos n }
  | .xinc => { l with pos := xInc k l.xs l.pos }
  | .xdec => { l with pos := xDec k l.xs l.pos }
  | .yinc => { l with pos := yAdv k l.ys l.pos 1 }
  | .ydec => { l with pos := yAdv k l.ys l.pos (-1) }

/-- net 2-D displacement of a move -/
def Move.delta : Move → Int × Int
  | .add dx dy => (dx, dy) | .subm dx dy => (-dx, -dy)
  | .xadd n => (n, 0) | .yadd n => (0, n)
  | .xinc => (1, 0) | .xdec => (-1, 0) | .yinc => (0, 1) | .ydec => (0, -1)

def runMoves (k : Kind) (l : Loc) (ms : List Move) : Loc := ms.foldl (Move.run k) l

def sumMoves : List Move → Int × Int
  | [] => (0, 0)
  | m :: ms => let s := sumMoves ms; (m.delta.1 + s.1, m.delta.2 + s.2)

/-! ### x / y iterators as (position, step) pairs -/

/-- Boost `iterator_facade`'s relational operators, from `d = lhs.distance_to(rhs)`: `lhs < rhs` is
    `0 > -d`, `>` is `0 < -d`, `<=` is `0 >= -d`, `>=` is `0 <= -d` (hand-modelled: not a GIL header) -/
def facadeCmp (d : Int) : List Int := [b2i (decide (0 > -d)), b2i (decide (0 < -d)), b2i (decide (0 ≥ -d)), b2i (decide (0 ≤ -d))]

/-- `a.distance_to(b)` of two x-iterators of the same view (memory-unit step `step`, positions `a`, `b`):
    position_iterator / bit_aligned_pixel_iterator / planar_pixel_iterator have their own `distance_to`
    (the planar one subtracts the channel-0 pointers: a difference in channels); step iterators use
    `memunit_step_fn::difference`; raw pointers subtract (`(b - a) / sizeof(pixel)`) -/
def xDistanceTo (k : Kind) (step a b : Int) : Int :=
  if k.virt then pos_distance a b step
  else if k.bit && !k.xstep then bitit_distance (memDistance k a b) k.pixbits
  else if k.planar && !k.xstep then planar_distance_to (Int.tdiv (b - a) k.chan) 0
  else step_difference (memDistance k a b) step

/-- `a - b`: `-(a.distance_to(b))` (y-iterators are always step iterators) -/
def itSub (k : Kind) (isY : Bool) (step a b : Int) : Int :=
  -(if isY then step_difference (memDistance k a b) step else xDistanceTo k step a b)

/-- `a < b`, `a > b`, `a <= b`, `a >= b` on x-iterators (`isY = false`) or y-iterators (`isY = true`)
    with memory-unit step `step`, at positions `a`, `b`.  Step iterators (every y-iterator; the
    x-iterator of a dynamic-step view) use the generated sign-keyed operators of
    `step_iterator_adaptor`, which compare the memory positions of their bases
    (`memunit_distance`, so a step iterator nested over another one compares correctly);
    raw bit iterators and position_iterators get all four from `iterator_facade` and their `distance_to`;
    a raw planar iterator has its own `operator<` (channel-0 pointers) and the facade's other three;
    raw pointers compare addresses. -/
def itCmp (k : Kind) (isY : Bool) (step a b : Int) : List Int :=
  if k.virt then facadeCmp (pos_distance a b step)
  else if isY || k.xstep then [step_lt step a b, step_gt step a b, step_le step a b, step_ge step a b]
  else if k.bit then facadeCmp (xDistanceTo k step a b)
  else if k.planar then planar_lt a b :: (facadeCmp (xDistanceTo k step a b)).drop 1
  else [b2i (decide (a < b)), b2i (decide (a > b)), b2i (decide (a ≤ b)), b2i (decide (a ≥ b))]

/-- `a == b` (planar iterators compare their channel-0 pointers) -/
def itEq (k : Kind) (a b : Int) : Int := if k.planar && !k.xstep && !k.virt then planar_equal a b else b2i (a == b)

/-! ### planar iterators with all their planes: a list of channel-pointer byte addresses -/

/-- `it[d]`: `memunit_advanced_ref(it, d * sizeof(channel_t))` -- every channel pointer advanced by the same byte offset -/
def planarIndex (c : Int) (ps : List Int) (d : Int) : List Int := ps.map fun p => ptr_memunit_advanced p (planar_index_bytes d c)

/-- which channel pointer of a planar iterator the `(ptr, diff)` constructor of `homogeneous_color_base<.,.,n>` binds member `k` to (generated) -/
def refPlane (n k : Nat) : Int :=
  match n, k with
  | 2, 0 => hcb_ref_plane_2_0 | 2, 1 => hcb_ref_plane_2_1
  | 3, 0 => hcb_ref_plane_3_0 | 3, 1 => hcb_ref_plane_3_1 | 3, 2 => hcb_ref_plane_3_2
  | 4, 0 => hcb_ref_plane_4_0 | 4, 1 => hcb_ref_plane_4_1 | 4, 2 => hcb_ref_plane_4_2 | 4, 3 => hcb_ref_plane_4_3
  | 5, 0 => hcb_ref_plane_5_0 | 5, 1 => hcb_ref_plane_5_1 | 5, 2 => hcb_ref_plane_5_2 | 5, 3 => hcb_ref_plane_5_3 | 5, 4 => hcb_ref_plane_5_4
  | _, k => k

/-- `memunit_advanced_ref(it, diff)` of a planar iterator with channel pointers `ps`: the planar reference whose channel `k` is
    `*memunit_advanced(<channel pointer refPlane n k>, diff)` -- what `view(x,y)`, `loc(dx,dy)`, `loc[point]`, `loc[cached_location]` and the raw
    iterator's `it[d]` return -/
def planarRef (ps : List Int) (diff : Int) : List Int :=
  (List.range ps.length).map fun k => ptr_memunit_advanced (ps.getD (refPlane ps.length k).toNat 0) diff

/-- `it + d`: `plus_asymmetric` adds `d` to every channel pointer (pointer arithmetic: `d * sizeof(channel_t)` bytes) -/
def planarAdvance (c : Int) (ps : List Int) (d : Int) : List Int := ps.map fun p => p + d * c

/-! ### Spec: what the property demands of the *observations* (used by `judge`) -/

def allEq : List Int → Bool
  | [] => true
  | a :: rest => rest.all (· == a)

/-- random-access laws on one observed row: offset `n`, second offset `m`;
    observed distance, the two orderings, and the two ways of reaching `it+n+m` -/
def raSpec (n : Int) (dist : Int) (lt gt : Int) (p1 p2 : List Int) : Option String :=
  if dist ≠ n then some "distance: (it+n)-it == n"
  else if (lt = 1) ≠ (n > 0) then some "order: it<jt iff jt-it>0"
  else if (gt = 1) ≠ (n < 0) then some "order: jt<it iff it-jt>0"
  else if p1 ≠ p2 then some "assoc: (it+n)+m == it+(n+m)"
  else none

end GilVerif.Model.C03
