/-
  Helper lemmas for Props/C11: a small logic for "this action never reports exhausted fuel and never makes the
  unread input longer" over the decoder monad of Model/C11.
-/
import GilVerif.Model.C11

namespace GilVerif.Lemmas.C11
open GilVerif.Model.C11

/-- the property of one result: the fuel did not run out, and at most as much unread input as in `s` -/
def Good {α} (s : St) : Except Stop (α × St) → Prop
  | .ok (_, s') => s'.rest.length ≤ s.rest.length
  | .error e => ∀ w, e ≠ Stop.fuel w

/-- at state `s`: `m` does not run out of fuel, and leaves at most as much unread input as it found -/
def NHs {α} (m : M α) (s : St) : Prop := Good s (m s)

def NH {α} (m : M α) : Prop := ∀ s, NHs m s

theorem bind_eq {α β} (m : M α) (f : α → M β) (s : St) :
    (m >>= f) s = match m s with | .ok (a, s') => f a s' | .error e => .error e := by
  show (StateT.bind m f) s = _
  unfold StateT.bind
  cases m s with
  | error e => rfl
  | ok p => obtain ⟨a, s'⟩ := p; rfl

theorem NHs.bind {α β} {m : M α} {f : α → M β} {s : St}
    (hm : NHs m s) (hf : ∀ a s', m s = .ok (a, s') → s'.rest.length ≤ s.rest.length → NHs (f a) s') : NHs (m >>= f) s := by
  unfold NHs at *
  rw [bind_eq]
  cases h : m s with
  | error e => rw [h] at hm; exact hm
  | ok p =>
    obtain ⟨a, s'⟩ := p
    rw [h] at hm
    have h1 : s'.rest.length ≤ s.rest.length := hm
    have h2 := hf a s' h h1
    show Good s (f a s')
    cases h3 : f a s' with
    | error e => rw [h3] at h2; exact h2
    | ok q =>
      obtain ⟨b, s''⟩ := q
      rw [h3] at h2
      have h4 : s''.rest.length ≤ s'.rest.length := h2
      show s''.rest.length ≤ s.rest.length
      omega

theorem nh_bind {α β} {m : M α} {f : α → M β} (hm : NH m) (hf : ∀ a, NH (f a)) : NH (m >>= f) :=
  fun s => NHs.bind (hm s) (fun a s' _ _ => hf a s')

theorem nh_pure {α} (a : α) : NH (pure a : M α) := by
  intro s; show Good s (Except.ok (a, s)); exact Nat.le_refl _

theorem nh_stop {α} (e : Stop) (h : ∀ w, e ≠ Stop.fuel w) : NH (stop e : M α) := by
  intro s; show Good s (Except.error e); exact h

theorem nh_ioErr {α} : NH (ioErr : M α) := nh_stop _ (by intro w; simp)
theorem nh_allocErr {α} : NH (allocErr : M α) := nh_stop _ (by intro w; simp)
theorem nh_ubAt {α} (a b : String) : NH (ubAt a b : M α) := nh_stop _ (by intro w; simp)

theorem nh_ite {α} {c : Prop} [Decidable c] {a b : M α} (ha : NH a) (hb : NH b) : NH (if c then a else b) := by
  split <;> assumption

theorem nh_getSt : NH getSt := by
  intro s; show Good s (Except.ok (s, s)); exact Nat.le_refl _

theorem nh_setTaint (w : String) : NH (GilVerif.Model.C11.setTaint w) := by
  intro s
  unfold NHs GilVerif.Model.C11.setTaint
  cases s.taint <;> exact Nat.le_refl _

theorem nh_fuelHere : NH fuelHere := by
  intro s; show Good s (Except.ok (s.rest.length + 1, s)); exact Nat.le_refl _

theorem nh_readSome (n : Nat) : NH (readSome n) := by
  intro s
  unfold NHs readSome
  split
  · exact Nat.le_refl _
  · show (s.rest.drop n).length ≤ s.rest.length
    simp [List.length_drop]

/-- a successful `readSome` of `n ≥ 1` bytes that delivered all of them consumed input -/
theorem readSome_full {n : Nat} {s s' : St} {got : List Nat} (h : readSome n s = .ok (got, s')) (hl : got.length = n) (hn : 0 < n) :
    s'.rest.length < s.rest.length := by
  unfold readSome at h
  split at h
  · simp at h; obtain ⟨h1, _⟩ := h; subst h1; simp at hl; omega
  · simp at h; obtain ⟨h1, h2⟩ := h; subst h2; subst h1
    simp [List.length_take] at hl
    simp [List.length_drop]; omega


/-- closes `NH (do ...)` goals built from the primitives above -/
macro "nh_tac" : tactic =>
  `(tactic| repeat' (first
      | apply nh_pure | apply nh_ioErr | apply nh_allocErr | apply nh_ubAt | apply nh_setTaint | apply nh_readSome
      | apply nh_getSt | apply nh_fuelHere | apply nh_stop
      | assumption
      | apply nh_bind
      | (intro _)
      | split))

theorem nh_readFixed (n : Nat) : NH (readFixed n) := by
  unfold readFixed; nh_tac

theorem readFixed_cons {n : Nat} {s s' : St} {got : List Nat} (h : readFixed n s = .ok (got, s')) (hn : 0 < n) :
    s'.rest.length < s.rest.length := by
  unfold readFixed at h
  rw [bind_eq] at h
  cases h1 : readSome n s with
  | error e => rw [h1] at h; simp at h
  | ok p =>
    obtain ⟨g, s1⟩ := p
    rw [h1] at h
    simp only at h
    split at h
    · simp [ioErr, stop] at h
    · rename_i hlt
      have h' : (Except.ok (g, s1) : Except Stop (List Nat × St)) = Except.ok (got, s') := h
      injection h' with h'
      injection h' with hg hs
      subst hs
      have hlen : g.length ≤ n := by
        unfold readSome at h1
        split at h1
        · injection h1 with h1; injection h1 with h2 _; subst h2; simp
        · injection h1 with h1; injection h1 with h2 _; subst h2; simp [List.length_take]; omega
      exact readSome_full h1 (by omega) hn

theorem nh_readU8 : NH readU8 := by
  unfold readU8; apply nh_bind (nh_readFixed 1); intro _; apply nh_pure

theorem readU8_cons {s s' : St} {v : Int} (h : readU8 s = .ok (v, s')) : s'.rest.length < s.rest.length := by
  unfold readU8 at h
  rw [bind_eq] at h
  cases h1 : readFixed 1 s with
  | error e => rw [h1] at h; simp at h
  | ok p =>
    obtain ⟨g, s1⟩ := p
    rw [h1] at h
    have h' : (Except.ok (Int.ofNat (g.getD 0 0), s1) : Except Stop (Int × St)) = Except.ok (v, s') := h
    injection h' with h'
    injection h' with _ hs
    subst hs
    exact readFixed_cons h1 (by decide)

theorem nh_readBytes : ∀ (n : Nat) (acc : List Nat), NH (Tga.readBytes n acc)
  | 0, acc => by unfold Tga.readBytes; apply nh_pure
  | n + 1, acc => by
    unfold Tga.readBytes
    apply nh_bind nh_readU8; intro b
    exact nh_readBytes n _

/-- TARGA RLE packet loop: with more fuel than unread bytes it never runs out of fuel -/
theorem tga_rleLoop_nhs (bpp size : Nat) :
    ∀ (fuel pixel : Nat) (acc : List (List Nat)) (s : St), s.rest.length < fuel → NHs (Tga.rleLoop bpp size fuel pixel acc) s
  | 0, _, _, s, h => by omega
  | fuel + 1, pixel, acc, s, h => by
    unfold Tga.rleLoop
    split
    · apply NHs.bind (nh_readU8 s)
      intro cur s1 h1 _
      have hc := readU8_cons h1
      split
      · dsimp only
        split
        · exact nh_ioErr s1
        · apply NHs.bind (nh_readBytes _ _ s1)
          intro px s2 _ h2
          exact tga_rleLoop_nhs bpp size fuel _ _ s2 (by omega)
      · dsimp only
        split
        · exact nh_ioErr s1
        · apply NHs.bind (nh_readSome _ s1)
          intro got s2 _ h2
          try dsimp only
          split
          · exact nh_ioErr s2
          · exact tga_rleLoop_nhs bpp size fuel _ _ s2 (by omega)
    · exact nh_pure _ s


/-! ### PNM character loops -/

theorem nh_getcChecked : NH getcChecked := by unfold getcChecked; nh_tac
theorem nh_getcUnchecked : NH getcUnchecked := by unfold getcUnchecked; nh_tac

theorem readSome_one {s s' : St} {c : Nat} (h : readSome 1 s = .ok ([c], s')) : s'.rest.length < s.rest.length :=
  readSome_full h rfl (by decide)

theorem getcChecked_cons {s s' : St} {c : Nat} (h : getcChecked s = .ok (c, s')) : s'.rest.length < s.rest.length := by
  unfold getcChecked at h
  rw [bind_eq] at h
  cases h1 : readSome 1 s with
  | error e => rw [h1] at h; simp at h
  | ok p =>
    obtain ⟨g, s1⟩ := p
    rw [h1] at h
    dsimp only at h
    split at h
    · rename_i c'
      have h' : (Except.ok (c', s1) : Except Stop (Nat × St)) = Except.ok (c, s') := h
      injection h' with h'; injection h' with _ hs; subst hs
      exact readSome_one h1
    · simp [ioErr, stop] at h

theorem getcUnchecked_cons {s s' : St} {c : Nat} (h : getcUnchecked s = .ok (some c, s')) : s'.rest.length < s.rest.length := by
  unfold getcUnchecked at h
  rw [bind_eq] at h
  cases h1 : readSome 1 s with
  | error e => rw [h1] at h; simp at h
  | ok p =>
    obtain ⟨g, s1⟩ := p
    rw [h1] at h
    dsimp only at h
    split at h
    · rename_i c'
      have h' : (Except.ok (some c', s1) : Except Stop (Option Nat × St)) = Except.ok (some c, s') := h
      injection h' with h'; injection h' with _ hs; subst hs
      exact readSome_one h1
    · have h' : (Except.ok (none, s1) : Except Stop (Option Nat × St)) = Except.ok (some c, s') := h
      injection h' with h'; injection h' with h'' _; cases h''

theorem fuelHere_eq (s : St) : fuelHere s = .ok (s.rest.length + 1, s) := rfl

theorem pnm_skipComment_nhs : ∀ (fuel : Nat) (s : St), s.rest.length < fuel → NHs (Pnm.skipComment fuel) s
  | 0, s, h => by omega
  | fuel + 1, s, h => by
    unfold Pnm.skipComment
    apply NHs.bind (nh_getcChecked s)
    intro c s1 h1 _
    have := getcChecked_cons h1
    split
    · exact nh_pure _ s1
    · exact pnm_skipComment_nhs fuel s1 (by omega)

theorem nh_readChar : NH Pnm.readChar := by
  intro s
  unfold Pnm.readChar
  apply NHs.bind (nh_getcChecked s)
  intro c s1 _ _
  split
  · apply NHs.bind (nh_fuelHere s1)
    intro fuel s2 h2 _
    rw [fuelHere_eq] at h2
    injection h2 with h2; injection h2 with hf hs; subst hs; subst hf
    exact pnm_skipComment_nhs _ s1 (by omega)
  · exact nh_pure _ s1

/-- a successful read_char consumed at least one character -/
theorem readChar_cons {s s' : St} {c : Nat} (h : Pnm.readChar s = .ok (c, s')) : s'.rest.length < s.rest.length := by
  unfold Pnm.readChar at h
  rw [bind_eq] at h
  cases h1 : getcChecked s with
  | error e => rw [h1] at h; simp at h
  | ok p =>
    obtain ⟨c1, s1⟩ := p
    rw [h1] at h
    have hc := getcChecked_cons h1
    dsimp only at h
    split at h
    · -- the comment loop only moves forward
      rw [bind_eq, fuelHere_eq] at h
      dsimp only at h
      have hn := pnm_skipComment_nhs (s1.rest.length + 1) s1 (by omega)
      unfold NHs at hn
      rw [h] at hn
      have : s'.rest.length ≤ s1.rest.length := hn
      omega
    · have h' : (Except.ok (c1, s1) : Except Stop (Nat × St)) = Except.ok (c, s') := h
      injection h' with h'; injection h' with _ hs; subst hs; exact hc

theorem pnm_skipWs_nhs : ∀ (k : Nat) (s : St), s.rest.length < k → NHs (Pnm.skipWs k) s
  | 0, s, h => by omega
  | k + 1, s, h => by
    unfold Pnm.skipWs
    apply NHs.bind (nh_readChar s)
    intro c s1 h1 _
    have := readChar_cons h1
    split
    · exact pnm_skipWs_nhs k s1 (by omega)
    · exact nh_pure _ s1

theorem pnm_digitsLoop_nhs : ∀ (k c val : Nat) (s : St), s.rest.length < k → NHs (Pnm.digitsLoop k c val) s
  | 0, _, _, s, h => by omega
  | k + 1, c, val, s, h => by
    unfold Pnm.digitsLoop
    dsimp only
    split
    · exact nh_ioErr s
    · apply NHs.bind (nh_readChar s)
      intro c1 s1 h1 _
      have := readChar_cons h1
      split
      · exact pnm_digitsLoop_nhs k _ _ s1 (by omega)
      · exact nh_pure _ s1

theorem nh_readInt : NH Pnm.readInt := by
  intro s
  unfold Pnm.readInt
  apply NHs.bind (nh_fuelHere s)
  intro f s0 h0 _
  rw [fuelHere_eq] at h0
  injection h0 with h0; injection h0 with hf hs; subst hs; subst hf
  apply NHs.bind (pnm_skipWs_nhs _ s (by omega))
  intro c s1 _ _
  split
  · exact nh_ioErr s1
  · apply NHs.bind (nh_fuelHere s1)
    intro f s2 h2 _
    rw [fuelHere_eq] at h2
    injection h2 with h2; injection h2 with hf hs; subst hs; subst hf
    exact pnm_digitsLoop_nhs _ _ _ s1 (by omega)

theorem nh_pnm_readHeader : NH Pnm.readHeader := by
  unfold Pnm.readHeader
  apply nh_bind nh_readChar; intro p
  split
  · exact nh_ioErr
  · apply nh_bind nh_readChar; intro t
    split
    · exact nh_ioErr
    · dsimp only
      apply nh_bind nh_readInt; intro w
      apply nh_bind nh_readInt; intro h
      split
      · exact nh_ioErr
      · split
        · exact nh_pure _
        · apply nh_bind nh_readInt; intro m
          split
          · exact nh_ioErr
          · exact nh_pure _

theorem pnm_token_nhs (site : String) : ∀ (fuel : Nat) (acc : List Nat) (s : St), s.rest.length < fuel → NHs (Pnm.token site fuel acc) s
  | 0, _, s, h => by omega
  | fuel + 1, acc, s, h => by
    unfold Pnm.token
    apply NHs.bind (nh_getcUnchecked s)
    intro c s1 h1 hle
    split
    · rename_i ch
      have := getcUnchecked_cons h1
      split
      · split
        · exact nh_ioErr s1
        · exact pnm_token_nhs site fuel _ s1 (by omega)
      · split
        · exact nh_pure _ s1
        · split
          · exact nh_pure _ s1
          · exact pnm_token_nhs site fuel _ s1 (by omega)
    · split
      · exact nh_pure _ s1
      · exact nh_pure _ s1

theorem nh_pnm_textSamples (site : String) (maxv : Int) (process : Bool) :
    ∀ (n x : Nat) (row : List Nat), NH (Pnm.textSamples site maxv process n x row)
  | 0, _, _ => by unfold Pnm.textSamples; exact nh_pure _
  | n + 1, x, row => by
    intro s
    unfold Pnm.textSamples
    apply NHs.bind (nh_fuelHere s)
    intro f s0 h0 _
    rw [fuelHere_eq] at h0
    injection h0 with h0; injection h0 with hf hs; subst hs; subst hf
    apply NHs.bind (pnm_token_nhs site _ _ s (by omega))
    intro t s1 _ _
    split
    · exact nh_ioErr s1
    · split
      · exact nh_pnm_textSamples site maxv process n _ _ s1
      · exact nh_pnm_textSamples site maxv process n _ _ s1


/-! ### BMP RLE loop -/

theorem nh_seekCur (d : Nat) : NH (seekCur d) := by
  intro s
  unfold NHs seekCur
  split
  · exact Nat.le_refl _
  · split
    · exact Nat.le_refl _
    · show (s.rest.drop d).length ≤ s.rest.length
      simp [List.length_drop]

theorem nh_setRow (site : String) (d : Dest) (y : Int) (px : List Nat) : NH (d.setRow site y px) := by
  unfold Dest.setRow; nh_tac

theorem nh_bmp_copyRowIfNeeded (st : Settings) (dimx dimy : Int) (r : Bmp.Rle) (d : Dest) :
    NH (Bmp.copyRowIfNeeded st dimx dimy r d) := by
  unfold Bmp.copyRowIfNeeded
  dsimp only
  split
  · split
    · exact nh_pure _
    · split
      · exact nh_ubAt _ _
      · exact nh_setRow _ _ _ _
  · exact nh_pure _

theorem nh_bmp_putRun (r : Bmp.Rle) (vals : List (Nat × Nat × Nat × Nat)) : NH (Bmp.putRun r vals) := by
  unfold Bmp.putRun; nh_tac

theorem nh_taintIf (c : Bool) (w : String) : NH (taintIf c w) := by
  unfold taintIf; split
  · exact nh_setTaint w
  · exact nh_pure _

theorem nh_bmp_palAt (pal : Bmp.Palette) (dcl c : Int) : NH (Bmp.palAt pal dcl c) := by
  unfold Bmp.palAt
  split
  · apply nh_bind (nh_taintIf _ _); intro _; exact nh_pure _
  · exact nh_ubAt _ _

theorem nh_bmp_palAtIf (pal : Bmp.Palette) (dcl c n : Int) : NH (Bmp.palAtIf pal dcl c n) := by
  unfold Bmp.palAtIf
  split
  · exact nh_pure _
  · exact nh_bmp_palAt _ _ _

theorem nh_bmp_absRun8 (pal : Bmp.Palette) (dcl : Int) : ∀ (n : Nat) (r : Bmp.Rle), NH (Bmp.absRun8 pal dcl n r)
  | 0, r => by unfold Bmp.absRun8; exact nh_pure _
  | n + 1, r => by
    unfold Bmp.absRun8
    apply nh_bind nh_readU8; intro c
    apply nh_bind (nh_bmp_palAt _ _ _); intro p
    apply nh_bind (nh_bmp_putRun _ _); intro r'
    exact nh_bmp_absRun8 pal dcl n r'

theorem nh_bmp_absRun4 (pal : Bmp.Palette) (dcl count second : Int) : ∀ (fuel : Nat) (i : Int) (r : Bmp.Rle), NH (Bmp.absRun4 pal dcl count second fuel i r)
  | 0, _, r => by unfold Bmp.absRun4; exact nh_pure _
  | fuel + 1, i, r => by
    unfold Bmp.absRun4
    split
    · apply nh_bind nh_readU8; intro b
      dsimp only
      apply nh_bind (nh_bmp_palAt _ _ _); intro p
      apply nh_bind (nh_bmp_putRun _ _); intro r'
      split
      · exact nh_pure _
      · split
        · exact nh_pure _
        · apply nh_bind (nh_bmp_palAt _ _ _); intro p2
          apply nh_bind (nh_bmp_putRun _ _); intro r''
          exact nh_bmp_absRun4 pal dcl count second fuel _ r''
    · exact nh_pure _


theorem nh_bmp_copyRowIf (c : Bool) (st : Settings) (dimx dimy : Int) (r : Bmp.Rle) (d : Dest) : NH (Bmp.copyRowIf c st dimx dimy r d) := by
  unfold Bmp.copyRowIf
  split
  · exact nh_bmp_copyRowIfNeeded _ _ _ _ _
  · exact nh_pure _

theorem nh_bmp_absRun (i : Bmp.Info) (pal : Bmp.Palette) (count second : Int) (r : Bmp.Rle) : NH (Bmp.absRun i pal count second r) := by
  unfold Bmp.absRun
  split
  · exact nh_bmp_absRun4 _ _ _ _ _ _ _
  · exact nh_bmp_absRun8 _ _ _ _

theorem nh_bmp_padWord (i : Bmp.Info) (pitch : Int) (r : Bmp.Rle) : NH (Bmp.padWord i pitch r) := by
  unfold Bmp.padWord
  split
  · apply nh_bind (nh_seekCur 1); intro _; exact nh_pure _
  · exact nh_pure _

/-- BMP RLE main loop: with more fuel than unread bytes it never runs out of fuel
    (every iteration consumes at least the two bytes of its code pair) -/
theorem bmp_rleLoop_nhs (i : Bmp.Info) (pitch : Int) (st : Settings) (dimx dimy : Int) (pal : Bmp.Palette) (yend yinc : Int) :
    ∀ (fuel : Nat) (r : Bmp.Rle) (d : Dest) (s : St), s.rest.length < fuel →
      NHs (Bmp.rleLoop i pitch st dimx dimy pal yend yinc fuel r d) s
  | 0, _, _, s, h => by omega
  | fuel + 1, r, d, s, h => by
    unfold Bmp.rleLoop
    apply NHs.bind (nh_readU8 s)
    intro count s1 h1 _
    have hc1 := readU8_cons h1
    apply NHs.bind (nh_readU8 s1)
    intro second s2 h2 _
    have hc2 := readU8_cons h2
    try dsimp only
    split
    · split
      · apply NHs.bind (nh_bmp_palAtIf _ _ _ _ s2); intro p0 s3 _ h3
        apply NHs.bind (nh_bmp_palAtIf _ _ _ _ s3); intro p1 s4 _ h4
        try dsimp only
        apply NHs.bind (nh_bmp_putRun _ _ s4); intro r' s5 _ h5
        exact bmp_rleLoop_nhs i pitch st dimx dimy pal yend yinc fuel _ _ s5 (by omega)
      · apply NHs.bind (nh_bmp_palAtIf _ _ _ _ s2); intro p s3 _ h3
        apply NHs.bind (nh_bmp_putRun _ _ s3); intro r' s4 _ h4
        exact bmp_rleLoop_nhs i pitch st dimx dimy pal yend yinc fuel _ _ s4 (by omega)
    · split
      · apply NHs.bind (nh_bmp_copyRowIfNeeded _ _ _ _ _ s2); intro d' s3 _ h3
        try dsimp only
        split
        · exact nh_pure _ s3
        · exact bmp_rleLoop_nhs i pitch st dimx dimy pal yend yinc fuel _ _ s3 (by omega)
      · split
        · exact nh_bmp_copyRowIfNeeded _ _ _ _ _ s2
        · split
          · apply NHs.bind (nh_readU8 s2); intro dx s3 _ h3
            apply NHs.bind (nh_readU8 s3); intro dy0 s4 _ h4
            try dsimp only
            apply NHs.bind (nh_bmp_copyRowIf _ _ _ _ _ _ s4); intro d' s5 _ h5
            repeat' (first
              | exact nh_ioErr s5
              | exact bmp_rleLoop_nhs i pitch st dimx dimy pal yend yinc fuel _ _ s5 (by omega)
              | split)
          · try dsimp only
            apply NHs.bind (nh_bmp_absRun _ _ _ _ _ s2); intro r' s3 _ h3
            apply NHs.bind (nh_bmp_padWord _ _ _ s3); intro r'' s4 _ h4
            exact bmp_rleLoop_nhs i pitch st dimx dimy pal yend yinc fuel _ _ s4 (by omega)

/-! ## a second logic: "either succeeds or throws a C++ exception" (no `ub`, no `hang`) -/

/-- the property of one result: success (input not longer, same device, taint untouched) or a C++ exception -/
def GoodE {α} (P : Stop → Prop) (s : St) : Except Stop (α × St) → Prop
  | .ok (_, s') => s'.rest.length ≤ s.rest.length ∧ s'.dev = s.dev ∧ s'.taint = s.taint
  | .error e => P e

/-- the stops that are C++ exceptions -/
def IsErr (e : Stop) : Prop := ∃ k, e = Stop.err k
/-- `P` admits every C++ exception -/
def Adm (P : Stop → Prop) : Prop := ∀ k, P (Stop.err k)
theorem adm_isErr : Adm IsErr := fun k => ⟨k, rfl⟩

def SEs {α} (P : Stop → Prop) (m : M α) (s : St) : Prop := GoodE P s (m s)
/-- on every device: success or a stop allowed by `P` -/
def SE {α} (P : Stop → Prop) (m : M α) : Prop := ∀ s, SEs P m s
/-- on the file device (file name / FILE*) -/
def SEf {α} (P : Stop → Prop) (m : M α) : Prop := ∀ s, s.dev = .file → SEs P m s

theorem SEs.bind {α β} {P : Stop → Prop} {m : M α} {f : α → M β} {s : St}
    (hm : SEs P m s) (hf : ∀ a s', m s = .ok (a, s') → s'.rest.length ≤ s.rest.length → s'.dev = s.dev → SEs P (f a) s') : SEs P (m >>= f) s := by
  unfold SEs at *
  rw [bind_eq]
  cases h : m s with
  | error e => rw [h] at hm; exact hm
  | ok p =>
    obtain ⟨a, s'⟩ := p
    rw [h] at hm
    have h1 : s'.rest.length ≤ s.rest.length ∧ s'.dev = s.dev ∧ s'.taint = s.taint := hm
    have h2 := hf a s' h h1.1 h1.2.1
    show GoodE P s (f a s')
    cases h3 : f a s' with
    | error e => rw [h3] at h2; exact h2
    | ok q =>
      obtain ⟨b, s''⟩ := q
      rw [h3] at h2
      have h4 : s''.rest.length ≤ s'.rest.length ∧ s''.dev = s'.dev ∧ s''.taint = s'.taint := h2
      show s''.rest.length ≤ s.rest.length ∧ s''.dev = s.dev ∧ s''.taint = s.taint
      exact ⟨by omega, h4.2.1.trans h1.2.1, h4.2.2.trans h1.2.2⟩

theorem se_bind {α β} {P : Stop → Prop} {m : M α} {f : α → M β} (hm : SE P m) (hf : ∀ a, SE P (f a)) : SE P (m >>= f) :=
  fun s => SEs.bind (hm s) (fun a s' _ _ _ => hf a s')

theorem sef_bind {α β} {P : Stop → Prop} {m : M α} {f : α → M β} (hm : SEf P m) (hf : ∀ a, SEf P (f a)) : SEf P (m >>= f) :=
  fun s hs => SEs.bind (hm s hs) (fun a s' _ _ hd => hf a s' (hd.trans hs))

theorem se_pure {α} {P : Stop → Prop} (a : α) : SE P (pure a : M α) := by
  intro s; show GoodE P s (Except.ok (a, s)); exact ⟨Nat.le_refl _, rfl, rfl⟩
theorem se_ioErr {α} {P : Stop → Prop} (hP : Adm P) : SE P (ioErr : M α) := by
  intro s; show GoodE P s (Except.error (Stop.err "io")); exact hP _
theorem sef_of_se {α} {P : Stop → Prop} {m : M α} (h : SE P m) : SEf P m := fun s _ => h s

theorem se_fuelHere {P : Stop → Prop} : SE P fuelHere := by
  intro s; show GoodE P s (Except.ok (s.rest.length + 1, s)); exact ⟨Nat.le_refl _, rfl, rfl⟩

theorem se_readSome {P : Stop → Prop} (n : Nat) : SE P (readSome n) := by
  intro s
  unfold SEs readSome
  split
  · exact ⟨Nat.le_refl _, rfl, rfl⟩
  · show (s.rest.drop n).length ≤ s.rest.length ∧ _
    exact ⟨by simp [List.length_drop], rfl, rfl⟩

theorem se_getcChecked {P : Stop → Prop} (hP : Adm P) : SE P getcChecked := by
  unfold getcChecked
  apply se_bind (se_readSome 1); intro got
  split
  · exact se_pure _
  · exact se_ioErr hP

theorem se_getcUnchecked {P : Stop → Prop} : SE P getcUnchecked := by
  unfold getcUnchecked
  apply se_bind (se_readSome 1); intro got
  split <;> exact se_pure _

theorem pnm_skipComment_ses {P : Stop → Prop} (hP : Adm P) : ∀ (fuel : Nat) (s : St), s.rest.length < fuel → SEs P (Pnm.skipComment fuel) s
  | 0, s, h => by omega
  | fuel + 1, s, h => by
    unfold Pnm.skipComment
    apply SEs.bind (se_getcChecked hP s)
    intro c s1 h1 _ _
    have := getcChecked_cons h1
    split
    · exact se_pure _ s1
    · exact pnm_skipComment_ses hP fuel s1 (by omega)

theorem se_readChar {P : Stop → Prop} (hP : Adm P) : SE P Pnm.readChar := by
  intro s
  unfold Pnm.readChar
  apply SEs.bind (se_getcChecked hP s)
  intro c s1 _ _ _
  split
  · apply SEs.bind (se_fuelHere s1)
    intro fuel s2 h2 _ _
    rw [fuelHere_eq] at h2
    injection h2 with h2; injection h2 with hf hs; subst hs; subst hf
    exact pnm_skipComment_ses hP _ s1 (by omega)
  · exact se_pure _ s1

theorem pnm_skipWs_ses {P : Stop → Prop} (hP : Adm P) : ∀ (k : Nat) (s : St), s.rest.length < k → SEs P (Pnm.skipWs k) s
  | 0, s, h => by omega
  | k + 1, s, h => by
    unfold Pnm.skipWs
    apply SEs.bind (se_readChar hP s)
    intro c s1 h1 _ _
    have := readChar_cons h1
    split
    · exact pnm_skipWs_ses hP k s1 (by omega)
    · exact se_pure _ s1

theorem pnm_digitsLoop_ses {P : Stop → Prop} (hP : Adm P) : ∀ (k c val : Nat) (s : St), s.rest.length < k → SEs P (Pnm.digitsLoop k c val) s
  | 0, _, _, s, h => by omega
  | k + 1, c, val, s, h => by
    unfold Pnm.digitsLoop
    dsimp only
    split
    · exact se_ioErr hP s
    · apply SEs.bind (se_readChar hP s)
      intro c1 s1 h1 _ _
      have := readChar_cons h1
      split
      · exact pnm_digitsLoop_ses hP k _ _ s1 (by omega)
      · exact se_pure _ s1

theorem se_readInt {P : Stop → Prop} (hP : Adm P) : SE P Pnm.readInt := by
  intro s
  unfold Pnm.readInt
  apply SEs.bind (se_fuelHere s)
  intro f s0 h0 _ _
  rw [fuelHere_eq] at h0
  injection h0 with h0; injection h0 with hf hs; subst hs; subst hf
  apply SEs.bind (pnm_skipWs_ses hP _ s (by omega))
  intro c s1 _ _ _
  split
  · exact se_ioErr hP s1
  · apply SEs.bind (se_fuelHere s1)
    intro f s2 h2 _ _
    rw [fuelHere_eq] at h2
    injection h2 with h2; injection h2 with hf hs; subst hs; subst hf
    exact pnm_digitsLoop_ses hP _ _ _ s1 (by omega)

/-- PNM `read_header` on any bytes, any device: a header or `std::ios_base::failure`, nothing else -/
theorem se_pnm_readHeader {P : Stop → Prop} (hP : Adm P) : SE P Pnm.readHeader := by
  unfold Pnm.readHeader
  apply se_bind (se_readChar hP); intro p
  split
  · exact se_ioErr hP
  · apply se_bind (se_readChar hP); intro t
    split
    · exact se_ioErr hP
    · dsimp only
      apply se_bind (se_readInt hP); intro w
      apply se_bind (se_readInt hP); intro h
      split
      · exact se_ioErr hP
      · split
        · exact se_pure _
        · apply se_bind (se_readInt hP); intro m
          split
          · exact se_ioErr hP
          · exact se_pure _

/-! fixed-size reads are checked by both devices (istream_device since /repo cdb7c21) -/

theorem se_readFixed {P : Stop → Prop} (hP : Adm P) (n : Nat) : SE P (readFixed n) := by
  unfold readFixed
  apply se_bind (se_readSome n); intro got
  split
  · exact se_ioErr hP
  · exact se_pure _

theorem se_readU8 {P : Stop → Prop} (hP : Adm P) : SE P readU8 := by
  unfold readU8; apply se_bind (se_readFixed hP 1); intro _; exact se_pure _
theorem se_readU16 {P : Stop → Prop} (hP : Adm P) : SE P readU16 := by
  unfold readU16; apply se_bind (se_readFixed hP 2); intro _; exact se_pure _
theorem se_readU32 {P : Stop → Prop} (hP : Adm P) : SE P readU32 := by
  unfold readU32; apply se_bind (se_readFixed hP 4); intro _; exact se_pure _

/-- TARGA `read_header` on any bytes, any device: a header or `std::ios_base::failure` -/
theorem se_tga_readHeader {P : Stop → Prop} (hP : Adm P) : SE P Tga.readHeader := by
  unfold Tga.readHeader
  apply se_bind (se_readU8 hP); intro idl
  dsimp only
  apply se_bind (se_readU8 hP); intro cmt
  apply se_bind (se_readU8 hP); intro it
  apply se_bind (se_readU16 hP); intro _
  apply se_bind (se_readU16 hP); intro cml
  apply se_bind (se_readU8 hP); intro _
  apply se_bind (se_readU16 hP); intro _
  apply se_bind (se_readU16 hP); intro _
  apply se_bind (se_readU16 hP); intro w
  apply se_bind (se_readU16 hP); intro h
  split
  · exact se_ioErr hP
  · apply se_bind (se_readU8 hP); intro bpp
    split
    · exact se_ioErr hP
    · apply se_bind (se_readU8 hP); intro desc
      repeat' (first | exact se_ioErr hP | exact se_pure _ | split)


/-- BMP `read_header` (before the dimension check) on any bytes, any device: a header or `std::ios_base::failure`
    (the INT_MIN height is rejected since /repo ad1e4c7) -/
theorem se_bmp_readHeader0 {P : Stop → Prop} (hP : Adm P) : SE P Bmp.readHeader0 := by
  unfold Bmp.readHeader0
  apply se_bind (se_readU16 hP); intro magic
  split
  · exact se_ioErr hP
  · apply se_bind (se_readU32 hP); intro _
    apply se_bind (se_readU16 hP); intro _
    apply se_bind (se_readU16 hP); intro _
    apply se_bind (se_readU32 hP); intro offset
    apply se_bind (se_readU32 hP); intro hs
    split
    · apply se_bind (se_readU32 hP); intro w0
      apply se_bind (se_readU32 hP); intro h0
      dsimp only
      split
      · exact se_ioErr hP
      · apply se_bind (se_readU16 hP); intro _
        apply se_bind (se_readU16 hP); intro bpp
        apply se_bind (se_readU32 hP); intro comp
        apply se_bind (se_readU32 hP); intro _
        apply se_bind (se_readU32 hP); intro _
        apply se_bind (se_readU32 hP); intro _
        apply se_bind (se_readU32 hP); intro nc
        apply se_bind (se_readU32 hP); intro _
        exact se_pure _
    · split
      · apply se_bind (se_readU16 hP); intro w
        apply se_bind (se_readU16 hP); intro h
        apply se_bind (se_readU16 hP); intro _
        apply se_bind (se_readU16 hP); intro bpp
        exact se_pure _
      · split
        · apply se_bind (se_readU32 hP); intro w0
          apply se_bind (se_readU32 hP); intro h0
          dsimp only
          apply se_bind (se_readU16 hP); intro _
          apply se_bind (se_readU16 hP); intro bpp
          apply se_bind (se_readU32 hP); intro comp
          apply se_bind (se_readU32 hP); intro _
          apply se_bind (se_readU32 hP); intro _
          apply se_bind (se_readU32 hP); intro _
          apply se_bind (se_readU32 hP); intro nc
          apply se_bind (se_readU32 hP); intro _
          exact se_pure _
        · exact se_ioErr hP

theorem se_bmp_readHeader {P : Stop → Prop} (hP : Adm P) : SE P Bmp.readHeader := by
  unfold Bmp.readHeader
  apply se_bind (se_bmp_readHeader0 hP); intro i
  split
  · exact se_ioErr hP
  · split
    · exact se_ioErr hP
    · exact se_pure _

theorem se_checkSettings {P : Stop → Prop} (hP : Adm P) (st : Settings) (a b c d : Int) : SE P (checkSettings st a b c d) := by
  unfold checkSettings
  split
  · exact se_ioErr hP
  · exact se_pure _

end GilVerif.Lemmas.C11
