/-
  C18 (hsv, float32) -- abstract model of the toolbox rgb8 <-> hsv32f converters relative to a rounding structure
  `R : FloatSpec`, following extension/toolbox/color_spaces/hsv.hpp operation by operation (one `R.rnd` per float
  operation; `channel_convert` to / from float32_t = `toF` / `fromF` of C06; `0.0001f` = `c4`; comparisons, `std::min`,
  `std::max`, `std::abs` and `floor` are exact).  The executable model (Model/C18.lean `rgbToHsv` / `hsvToRgb`) performs the
  same sequence with `Float32` and is compared bit for bit with the real code on all 2^24 pixels.
-/
import GilVerif.Props.C06Float

namespace GilVerif.Lemmas.C18Float
open GilVerif GilVerif.FloatSpec GilVerif.Lemmas.C06Float

/-- the literal 0.0001f -/
def c4 : ℚ := 13743895 / 137438953472

/-- default_color_converter_impl<rgb_t, hsv_t> on an rgb8 pixel: (hue, saturation, value) -/
def rgbToHsvF (R : FloatSpec) (r g b : ℤ) : ℚ × ℚ × ℚ :=
  let tr := toF R 255 r; let tg := toF R 255 g; let tb := toF R 255 b
  let mn := min tr (min tg tb); let mx := max tr (max tg tb)
  let diff := R.rnd (mx - mn)
  let sat := if mx < c4 then 0 else R.rnd (diff / mx)
  let hue :=
    if sat < c4 then 0
    else
      let h := if |R.rnd (tr - mx)| < c4 then R.rnd (R.rnd (tg - tb) / diff)
               else if tg ≥ mx then R.rnd (2 + R.rnd (R.rnd (tb - tr) / diff))
               else R.rnd (4 + R.rnd (R.rnd (tr - tg) / diff))
      let h := R.rnd (h / 6)
      if h < 0 then R.rnd (h + 1) else h
  (hue, sat, mx)

/-- default_color_converter_impl<hsv_t, rgb_t> into an rgb8 pixel -/
def hsvToRgbF (R : FloatSpec) (h s v : ℚ) : ℤ × ℤ × ℤ :=
  let rgb : ℚ × ℚ × ℚ :=
    if |s| < c4 then (v, v, v)
    else
      let h6 := R.rnd (h * 6)
      let i : ℤ := ⌊h6⌋
      let frac := R.rnd (h6 - R.rnd i)
      let p := R.rnd (v * R.rnd (1 - s))
      let q := R.rnd (v * R.rnd (1 - R.rnd (s * frac)))
      let t := R.rnd (v * R.rnd (1 - R.rnd (s * R.rnd (1 - frac))))
      match (i % 6).toNat with
      | 0 => (v, t, p) | 1 => (q, v, p) | 2 => (p, v, t) | 3 => (p, q, v) | 4 => (t, p, v) | _ => (v, p, q)
  (fromF R 255 rgb.1, fromF R 255 rgb.2.1, fromF R 255 rgb.2.2)

/-- rgb8 → hsv32f → rgb8 -/
def hsvRoundTripF (R : FloatSpec) (r g b : ℤ) : ℤ × ℤ × ℤ :=
  hsvToRgbF R (rgbToHsvF R r g b).1 (rgbToHsvF R r g b).2.1 (rgbToHsvF R r g b).2.2

theorem c4_pos : 0 < c4 := by unfold c4; norm_num

end GilVerif.Lemmas.C18Float
