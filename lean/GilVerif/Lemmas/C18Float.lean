/-
  C18 (hsv, float32) -- abstract model of the toolbox rgb8 <-> hsv32f converters relative to a rounding structure
  `R : FloatSpec`, following extension/toolbox/color_spaces/hsv.hpp operation by operation (one `R.rnd` per float
  operation; `channel_convert` to / from float32_t = `toF` / `fromF` of C06; `0.0001f` = `c4`; comparisons, `std::min`,
  `std::max`, `std::abs` and `floor` are exact).  The executable model (Model/C18.lean `rgbToHsv` / `hsvToRgb`) performs the
  same sequence with `Float32` and is compared bit for bit with the real code on all 2^24 pixels.
-/
import GilVerif.Props.C06Float

namespace GilVerif.Lemmas.C18Float
open GilVerif GilVerif.FloatSpec GilVerif.Lemmas.C06Float

/-- the literal 0.0001f -/
def c4 : ℚ := 13743895 / 137438953472

/-- `max_color` / `min_color` of the three converted channels -/
def hsvMx (R : FloatSpec) (r g b : ℤ) : ℚ := max (toF R 255 r) (max (toF R 255 g) (toF R 255 b))
def hsvMn (R : FloatSpec) (r g b : ℤ) : ℚ := min (toF R 255 r) (min (toF R 255 g) (toF R 255 b))
/-- `diff = max_color - min_color` -/
def hsvDiff (R : FloatSpec) (r g b : ℤ) : ℚ := R.rnd (hsvMx R r g b - hsvMn R r g b)
/-- saturation -/
def hsvSat (R : FloatSpec) (r g b : ℤ) : ℚ :=
  if hsvMx R r g b < c4 then 0 else R.rnd (hsvDiff R r g b / hsvMx R r g b)
/-- hue -/
def hsvHue (R : FloatSpec) (r g b : ℤ) : ℚ :=
  if hsvSat R r g b < c4 then 0
  else
    let tr := toF R 255 r; let tg := toF R 255 g; let tb := toF R 255 b
    let mx := hsvMx R r g b; let diff := hsvDiff R r g b
    let h := if |R.rnd (tr - mx)| < c4 then R.rnd (R.rnd (tg - tb) / diff)
             else if tg ≥ mx then R.rnd (2 + R.rnd (R.rnd (tb - tr) / diff))
             else R.rnd (4 + R.rnd (R.rnd (tr - tg) / diff))
    let h := R.rnd (h / 6)
    if h < 0 then R.rnd (h + 1) else h

/-- default_color_converter_impl<rgb_t, hsv_t> on an rgb8 pixel: (hue, saturation, value) -/
def rgbToHsvF (R : FloatSpec) (r g b : ℤ) : ℚ × ℚ × ℚ := (hsvHue R r g b, hsvSat R r g b, hsvMx R r g b)

/-- default_color_converter_impl<hsv_t, rgb_t> into an rgb8 pixel -/
def hsvToRgbF (R : FloatSpec) (h s v : ℚ) : ℤ × ℤ × ℤ :=
  let rgb : ℚ × ℚ × ℚ :=
    if |s| < c4 then (v, v, v)
    else
      let h6 := R.rnd (h * 6)
      let i : ℤ := ⌊h6⌋
      let frac := R.rnd (h6 - R.rnd i)
      let p := R.rnd (v * R.rnd (1 - s))
      let q := R.rnd (v * R.rnd (1 - R.rnd (s * frac)))
      let t := R.rnd (v * R.rnd (1 - R.rnd (s * R.rnd (1 - frac))))
      match (i % 6).toNat with
      | 0 => (v, t, p) | 1 => (q, v, p) | 2 => (p, v, t) | 3 => (p, q, v) | 4 => (t, p, v) | _ => (v, p, q)
  (fromF R 255 rgb.1, fromF R 255 rgb.2.1, fromF R 255 rgb.2.2)

/-- rgb8 → hsv32f → rgb8 -/
def hsvRoundTripF (R : FloatSpec) (r g b : ℤ) : ℤ × ℤ × ℤ :=
  hsvToRgbF R (rgbToHsvF R r g b).1 (rgbToHsvF R r g b).2.1 (rgbToHsvF R r g b).2.2

theorem c4_pos : 0 < c4 := by unfold c4; norm_num

/-- value component: the maximum of the three converted channels -/
theorem rgbToHsvF_val (R : FloatSpec) (r g b : ℤ) :
    (rgbToHsvF R r g b).2.2 = max (toF R 255 r) (max (toF R 255 g) (toF R 255 b)) := rfl

/-- saturation component -/
theorem rgbToHsvF_sat (R : FloatSpec) (r g b : ℤ) :
    (rgbToHsvF R r g b).2.1 =
      if max (toF R 255 r) (max (toF R 255 g) (toF R 255 b)) < c4 then 0
      else R.rnd (R.rnd (max (toF R 255 r) (max (toF R 255 g) (toF R 255 b)) - min (toF R 255 r) (min (toF R 255 g) (toF R 255 b)))
                  / max (toF R 255 r) (max (toF R 255 g) (toF R 255 b))) := by
  show hsvSat R r g b = _
  unfold hsvSat hsvDiff hsvMx hsvMn; rfl

/-- numeric core of the saturation error: X ≈ M/255 (± eps), D ≈ (M-m)/255 (± 3 eps)  ⇒  |D/X - (M-m)/M| ≤ 1/16000.
    (D*M - d*X = (D - d/255)*M - d*(X - M/255) is at most 4 eps M in magnitude, X*M ≥ M/256.) -/
theorem sat_core (ε X D Mq mq : ℚ) (hε0 : 0 ≤ ε) (hε : ε ≤ 1 / 16777216) (hM1 : 1 ≤ Mq) (hm0 : 0 ≤ mq) (hd : 1 ≤ Mq - mq)
    (hX1 : Mq / 255 - ε ≤ X) (hX2 : X ≤ Mq / 255 + ε) (hD1 : (Mq - mq) / 255 - 3 * ε ≤ D) (hD2 : D ≤ (Mq - mq) / 255 + 3 * ε) :
    |D / X - (Mq - mq) / Mq| ≤ 1 / 16000 := by
  have hMpos : 0 < Mq := by linarith
  have hXlo : Mq / 256 ≤ X * Mq := by
    have h1 : Mq / 255 - ε ≥ 1 / 256 := by
      have : (1 : ℚ) / 255 ≤ Mq / 255 := div_le_div_of_nonneg_right hM1 (by norm_num)
      linarith
    have : (1 / 256 : ℚ) * Mq ≤ X * Mq := mul_le_mul_of_nonneg_right (by linarith) hMpos.le
    linarith
  have hXpos : 0 < X := by
    have : (1 : ℚ) / 255 ≤ Mq / 255 := div_le_div_of_nonneg_right hM1 (by norm_num)
    linarith
  have hXM : 0 < X * Mq := mul_pos hXpos hMpos
  have e : D / X - (Mq - mq) / Mq = (D * Mq - (Mq - mq) * X) / (X * Mq) := by field_simp
  have e2 : D * Mq - (Mq - mq) * X = (D - (Mq - mq) / 255) * Mq - (Mq - mq) * (X - Mq / 255) := by ring
  -- the two products
  have a1 : (D - (Mq - mq) / 255) * Mq ≤ 3 * ε * Mq := mul_le_mul_of_nonneg_right (by linarith) hMpos.le
  have a2 : -(3 * ε) * Mq ≤ (D - (Mq - mq) / 255) * Mq := mul_le_mul_of_nonneg_right (by linarith) hMpos.le
  have hd0 : 0 ≤ Mq - mq := by linarith
  have b1 : (Mq - mq) * (X - Mq / 255) ≤ (Mq - mq) * ε := mul_le_mul_of_nonneg_left (by linarith) hd0
  have b2 : (Mq - mq) * (-ε) ≤ (Mq - mq) * (X - Mq / 255) := mul_le_mul_of_nonneg_left (by linarith) hd0
  have c1 : (Mq - mq) * ε ≤ Mq * ε := mul_le_mul_of_nonneg_right (by linarith) hε0
  have hεM : ε * Mq ≤ Mq / 16777216 := by
    have := mul_le_mul_of_nonneg_right hε hMpos.le; linarith
  rw [e, abs_le]
  constructor
  · rw [le_div_iff₀ hXM]; rw [e2]; nlinarith
  · rw [div_le_iff₀ hXM]; rw [e2]; nlinarith

/-- the round trip is the identity on a list of pixels (Boolean form, for kernel evaluation) -/
def roundTripAll (R : FloatSpec) (ps : List (ℤ × ℤ × ℤ)) : Bool :=
  ps.all (fun p => decide (hsvRoundTripF R p.1 p.2.1 p.2.2 = p))

/-- the grid {0, 51, ..., 255}^3 -/
def grid6 : List (ℤ × ℤ × ℤ) :=
  [0, 51, 102, 153, 204, 255].flatMap (fun r => [0, 51, 102, 153, 204, 255].flatMap (fun g => [0, 51, 102, 153, 204, 255].map (fun b => (r, g, b))))

end GilVerif.Lemmas.C18Float
