/-
  C09 (float luminance) -- abstract model of `detail::rgb_to_luminance_fn` (generic version, used for every source
  depth except uint8_t) relative to a rounding structure `R : FloatSpec`.

  color_convert.hpp:
      channel_convert<Gray>(float32_t( channel_convert<float32_t>(red)*0.30f
                                     + channel_convert<float32_t>(green)*0.59f
                                     + channel_convert<float32_t>(blue)*0.11f ))
  The literals are the binary32 values nearest to 0.30, 0.59, 0.11 (`w30`, `w59`, `w11` below; that they are is
  kernel-evaluated with the genuine rounding in Props/C09Float: `C09_float_weights`); `a*x + b*y + c*z` associates to
  the left; one rounding per operation:
      lumF R r g b = rnd (rnd (rnd (r*w30) + rnd (g*w59)) + rnd (b*w11))
  16-bit channels enter through `toF` and leave through `fromF` (Lemmas/C06Float.lean):
      lum16 R r g b = fromF R 65535 (lumF R (toF R 65535 r) (toF R 65535 g) (toF R 65535 b)).
  The executable model (Model/C09.lean `lum`) performs the same sequence with `Float32`.
-/
import GilVerif.Props.C06Float

set_option linter.unusedSectionVars false

namespace GilVerif.Lemmas.C09Float
open GilVerif GilVerif.FloatSpec GilVerif.Lemmas.C06Float

/-- 0.30f -/
def w30 : ℚ := 5033165 / 16777216
/-- 0.59f -/
def w59 : ℚ := 9898557 / 16777216
/-- 0.11f -/
def w11 : ℚ := 7381975 / 67108864

/-- float32 luminance -/
def lumF (R : FloatSpec) (r g b : ℚ) : ℚ := R.rnd (R.rnd (R.rnd (r * w30) + R.rnd (g * w59)) + R.rnd (b * w11))

/-- rgb16 → gray16 luminance -/
def lum16 (R : FloatSpec) (r g b : ℤ) : ℤ :=
  fromF R 65535 (lumF R (toF R 65535 r) (toF R 65535 g) (toF R 65535 b))

theorem w_sum : w30 + w59 + w11 = 1 - 1 / 2 ^ 26 := by unfold w30 w59 w11; norm_num

/-- the five roundings of the luminance: every intermediate is non-negative and within 7 eps of the exact weighted sum -/
theorem lumF_steps (R : FloatSpec) (he : R.eps ≤ 1 / 16) {r g b : ℚ} (hr : 0 ≤ r) (hr1 : r ≤ 1) (hg : 0 ≤ g) (hg1 : g ≤ 1)
    (hb : 0 ≤ b) (hb1 : b ≤ 1) :
    0 ≤ lumF R r g b ∧ |lumF R r g b - (r * w30 + g * w59 + b * w11)| ≤ 7 * R.eps := by
  have he0 := R.eps_nonneg
  have h30 : (0 : ℚ) ≤ w30 ∧ w30 ≤ 1 := by unfold w30; norm_num
  have h59 : (0 : ℚ) ≤ w59 ∧ w59 ≤ 1 := by unfold w59; norm_num
  have h11 : (0 : ℚ) ≤ w11 ∧ w11 ≤ 1 := by unfold w11; norm_num
  have hw := w_sum
  have a0 : 0 ≤ r * w30 := mul_nonneg hr h30.1
  have b0 : 0 ≤ g * w59 := mul_nonneg hg h59.1
  have c0 : 0 ≤ b * w11 := mul_nonneg hb h11.1
  have a1 : r * w30 ≤ w30 := by nlinarith
  have b1 : g * w59 ≤ w59 := by nlinarith
  have c1 : b * w11 ≤ w11 := by nlinarith
  have ea := abs_le.mp (R.abs_err_le' a0 (by linarith) (le_refl 1))
  have eb := abs_le.mp (R.abs_err_le' b0 (by linarith) (le_refl 1))
  have ec := abs_le.mp (R.abs_err_le' c0 (by linarith) (le_refl 1))
  have pa := R.rnd_nonneg a0
  have pb := R.rnd_nonneg b0
  have pc := R.rnd_nonneg c0
  have s0 : 0 ≤ R.rnd (r * w30) + R.rnd (g * w59) := by linarith
  have es := abs_le.mp (R.abs_err_le' (B := 2) s0 (by linarith) (by norm_num))
  have ps := R.rnd_nonneg s0
  have t0 : 0 ≤ R.rnd (R.rnd (r * w30) + R.rnd (g * w59)) + R.rnd (b * w11) := by linarith
  have et := abs_le.mp (R.abs_err_le' (B := 2) t0 (by linarith) (by norm_num))
  refine ⟨R.rnd_nonneg t0, ?_⟩
  unfold lumF; rw [abs_le]; constructor <;> linarith

/-- float32 → integer for an input that may exceed 1 by a little (the luminance can, by rounding):
    `x*m ≤ m + 1` suffices for the two intermediate error bounds -/
theorem fromF_steps' (R : FloatSpec) {m : ℤ} (hm1 : 1 ≤ m) (hmb : (m : ℚ) + 2 ≤ R.big) {x : ℚ} (hx : 0 ≤ x) (hxm : x * m ≤ m + 1) :
    |R.rnd (x * m) - x * m| ≤ R.eps * (m + 1)
    ∧ 0 ≤ R.rnd (R.rnd (x * m) + 1 / 2)
    ∧ |R.rnd (R.rnd (x * m) + 1 / 2) - (R.rnd (x * m) + 1 / 2)| ≤ R.eps * (m + 2) := by
  have hm0 : (1 : ℚ) ≤ m := by exact_mod_cast hm1
  have h0 : 0 ≤ x * m := mul_nonneg hx (by linarith)
  have hp0 : 0 ≤ R.rnd (x * m) := R.rnd_nonneg h0
  have hp1 : R.rnd (x * m) ≤ m + 1 := by
    have := R.rnd_le_int (x := x * m) (m + 1) (by push_cast; rw [abs_of_nonneg (by linarith)]; linarith) (by push_cast; exact hxm)
    push_cast at this; exact this
  refine ⟨R.abs_err_le' h0 hxm (by linarith), R.rnd_nonneg (by linarith), ?_⟩
  exact R.abs_err_le' (by linarith) (by linarith) (by linarith)

/-- core of the 16-bit luminance: the result is the floor of a value q within 1/25 of E + 1/2, where
    E = r*w30 + g*w59 + b*w11 is the exact weighted sum in 16-bit units.  Error budget (binary32, M = 65535):
    three conversions to float (eps each, weighted by w: ≤ eps), five roundings of the luminance (7 eps), times M;
    the product with M (eps*(M+1)) and the addition of 0.5f (eps*(M+2)):  eps*(10 M + 3) ≤ 0.0391 -/
theorem lum16_core (R : FloatSpec) (h32 : R.IsBinary32) {r g b : ℤ} (hr : 0 ≤ r) (hr1 : r ≤ 65535) (hg : 0 ≤ g) (hg1 : g ≤ 65535)
    (hb : 0 ≤ b) (hb1 : b ≤ 65535) :
    ∃ q : ℚ, lum16 R r g b = ⌊q⌋ ∧ |q - ((r : ℚ) * w30 + g * w59 + b * w11 + 1 / 2)| ≤ 1 / 25 := by
  obtain ⟨he, hbig⟩ := h32
  have he0 := R.eps_nonneg
  have hmb : ((65535 : ℤ) : ℚ) ≤ R.big := by norm_num at hbig ⊢; linarith
  have hmb2 : ((65535 : ℤ) : ℚ) + 2 ≤ R.big := by norm_num at hbig ⊢; linarith
  have he' : R.eps ≤ 1 / 16777216 := by norm_num at he; exact he
  obtain ⟨fr0, fr1, -, fre⟩ := GilVerif.Props.C06Float.C06_float_of_int_range_error R 65535 r (by norm_num) hmb hr hr1
  obtain ⟨fg0, fg1, -, fge⟩ := GilVerif.Props.C06Float.C06_float_of_int_range_error R 65535 g (by norm_num) hmb hg hg1
  obtain ⟨fb0, fb1, -, fbe⟩ := GilVerif.Props.C06Float.C06_float_of_int_range_error R 65535 b (by norm_num) hmb hb hb1
  obtain ⟨y0, ye⟩ := lumF_steps R (by linarith) fr0 fr1 fg0 fg1 fb0 fb1
  have hrq : (0 : ℚ) ≤ r ∧ (r : ℚ) ≤ 65535 := ⟨by exact_mod_cast hr, by exact_mod_cast hr1⟩
  have hgq : (0 : ℚ) ≤ g ∧ (g : ℚ) ≤ 65535 := ⟨by exact_mod_cast hg, by exact_mod_cast hg1⟩
  have hbq : (0 : ℚ) ≤ b ∧ (b : ℚ) ≤ 65535 := ⟨by exact_mod_cast hb, by exact_mod_cast hb1⟩
  set fr := toF R 65535 r
  set fg := toF R 65535 g
  set fb := toF R 65535 b
  set y := lumF R fr fg fb
  push_cast at fre fge fbe
  rw [abs_le] at fre fge fbe ye
  have h30 : (0 : ℚ) ≤ w30 ∧ w30 ≤ 1 := by unfold w30; norm_num
  have h59 : (0 : ℚ) ≤ w59 ∧ w59 ≤ 1 := by unfold w59; norm_num
  have h11 : (0 : ℚ) ≤ w11 ∧ w11 ≤ 1 := by unfold w11; norm_num
  have hw := w_sum
  -- D = y - Σ (r_i/M) w_i  is within 8 eps
  have l1 := mul_le_mul_of_nonneg_right fre.2 h30.1
  have l1' := mul_le_mul_of_nonneg_right fre.1 h30.1
  have l2 := mul_le_mul_of_nonneg_right fge.2 h59.1
  have l2' := mul_le_mul_of_nonneg_right fge.1 h59.1
  have l3 := mul_le_mul_of_nonneg_right fbe.2 h11.1
  have l3' := mul_le_mul_of_nonneg_right fbe.1 h11.1
  have hwe : R.eps * w30 + R.eps * w59 + R.eps * w11 ≤ R.eps := by
    have := mul_le_mul_of_nonneg_left (show w30 + w59 + w11 ≤ 1 by rw [hw]; norm_num) he0
    linarith
  have hD1 : y - ((r : ℚ) / 65535 * w30 + (g : ℚ) / 65535 * w59 + (b : ℚ) / 65535 * w11) ≤ 8 * R.eps := by linarith [ye.2]
  have hD2 : -(8 * R.eps) ≤ y - ((r : ℚ) / 65535 * w30 + (g : ℚ) / 65535 * w59 + (b : ℚ) / 65535 * w11) := by linarith [ye.1]
  have e0 : y * 65535 - ((r : ℚ) * w30 + g * w59 + b * w11)
      = (y - ((r : ℚ) / 65535 * w30 + (g : ℚ) / 65535 * w59 + (b : ℚ) / 65535 * w11)) * 65535 := by field_simp
  have hyM : -(8 * R.eps * 65535) ≤ y * 65535 - ((r : ℚ) * w30 + g * w59 + b * w11)
      ∧ y * 65535 - ((r : ℚ) * w30 + g * w59 + b * w11) ≤ 8 * R.eps * 65535 := by
    rw [e0]; constructor <;> linarith
  have m1 := mul_le_mul_of_nonneg_right hrq.2 h30.1
  have m2 := mul_le_mul_of_nonneg_right hgq.2 h59.1
  have m3 := mul_le_mul_of_nonneg_right hbq.2 h11.1
  have hE1 : (r : ℚ) * w30 + g * w59 + b * w11 ≤ 65535 := by
    have : (65535 : ℚ) * w30 + 65535 * w59 + 65535 * w11 ≤ 65535 := by
      have := mul_le_mul_of_nonneg_left (show w30 + w59 + w11 ≤ 1 by rw [hw]; norm_num) (show (0 : ℚ) ≤ 65535 by norm_num)
      linarith
    linarith
  have hE0 : 0 ≤ (r : ℚ) * w30 + g * w59 + b * w11 := by
    have := mul_nonneg hrq.1 h30.1; have := mul_nonneg hgq.1 h59.1; have := mul_nonneg hbq.1 h11.1; linarith
  have hxm : y * ((65535 : ℤ) : ℚ) ≤ ((65535 : ℤ) : ℚ) + 1 := by push_cast; linarith [hyM.2]
  obtain ⟨hp, hq0, hq⟩ := fromF_steps' R (m := 65535) (by norm_num) hmb2 y0 hxm
  push_cast at hp hq hq0
  rw [abs_le] at hp hq
  refine ⟨R.rnd (R.rnd (y * 65535) + 1 / 2), ?_, ?_⟩
  · have := fromF_closed R (m := 65535) (by norm_num) hmb y0
    push_cast at this; exact this
  · rw [abs_le]; constructor <;> linarith [hyM.1, hyM.2, hp.1, hp.2, hq.1, hq.2]

end GilVerif.Lemmas.C09Float
