/-
  Helper lemmas for Props/C19.lean (association-list maps, prefix sums, filters).
-/
import GilVerif.Model.C19
import Mathlib.Tactic.SplitIfs

namespace GilVerif.Lemmas.C19
open GilVerif.Model.C19 GilVerif.Gen.C19

theorem get_add (h : Hist) (k k' : Key) (n : Nat) :
    (h.add k n).get k' = if k' = k then h.get k + n else h.get k' := by
  induction h with
  | nil =>
    simp only [Hist.add, Hist.get]
    split_ifs with h1 h2 h2
    · simp
    · exact absurd h1.symm h2
    · exact absurd h2.symm h1
    · rfl
  | cons kv rest ih =>
    obtain ⟨k0, c⟩ := kv
    simp only [Hist.add]
    by_cases e : k0 = k
    · subst e
      simp only [if_true, Hist.get]
      by_cases e2 : k' = k0
      · subst e2; simp
      · have : ¬ k0 = k' := fun h => e2 h.symm
        simp [e2, this]
    · simp only [e, if_false, Hist.get]
      by_cases e2 : k0 = k'
      · subst e2
        have : ¬ k0 = k := e
        simp [this]
      · simp only [e2, if_false]; exact ih

theorem mass_add (h : Hist) (k : Key) (n : Nat) : (h.add k n).mass = h.mass + n := by
  induction h with
  | nil => simp [Hist.add, Hist.mass]
  | cons kv rest ih =>
    obtain ⟨k0, c⟩ := kv
    simp only [Hist.add]
    split_ifs with e
    · simp [Hist.mass]; omega
    · simp only [Hist.mass, List.map_cons, List.sum_cons] at ih ⊢; omega

theorem keys_add (h : Hist) (k : Key) (n : Nat) :
    (h.add k n).keys = if k ∈ h.keys then h.keys else h.keys ++ [k] := by
  induction h with
  | nil => simp [Hist.add, Hist.keys]
  | cons kv rest ih =>
    obtain ⟨k0, c⟩ := kv
    simp only [Hist.add]
    by_cases e : k0 = k
    · subst e; simp [Hist.keys]
    · simp only [e, if_false]
      simp only [Hist.keys, List.map_cons, List.mem_cons] at ih ⊢
      rw [ih]
      have : ¬ k = k0 := fun h => e h.symm
      simp only [this, false_or]
      split_ifs with hm <;> simp [hm]

theorem nodup_add (h : Hist) (k : Key) (n : Nat) (hn : h.keys.Nodup) : (h.add k n).keys.Nodup := by
  rw [keys_add]
  split_ifs with hm
  · exact hn
  · rw [List.nodup_append]
    refine ⟨hn, by simp, ?_⟩
    intro a ha b hb
    simp at hb; subst hb
    intro e; subst e; exact hm ha

theorem get_eq_zero_of_not_mem (h : Hist) (k : Key) (hk : k ∉ h.keys) : h.get k = 0 := by
  induction h with
  | nil => rfl
  | cons kv rest ih =>
    obtain ⟨k0, c⟩ := kv
    simp only [Hist.keys, List.map_cons, List.mem_cons, not_or] at hk
    simp only [Hist.get]
    have : ¬ k0 = k := fun e => hk.1 e.symm
    simp only [this, if_false]
    exact ih hk.2

theorem prefillLoop_terminates (bw upper : Int) (fuel : Nat) (i : Int) (h : Hist)
    (hbw : 1 ≤ bw) (hi : i ≤ upper) (hr : upper - i < 18446744073709551616) (hf : (upper - i).toNat < fuel) :
    (prefillLoop bw upper fuel i h).2 = true := by
  induction fuel generalizing i h with
  | zero => omega
  | succ fuel ih =>
    unfold prefillLoop
    have hc : prefill_cond_int i upper bw = if upper - i ≥ bw then 1 else 0 := by
      unfold prefill_cond_int
      rw [Int.emod_eq_of_lt (by omega) hr]
      split_ifs <;> simp_all
    rw [hc]
    by_cases hge : upper - i ≥ bw
    · rw [if_pos hge, if_pos (by decide)]
      exact ih (i + bw) _ (by omega) (by omega) (by omega)
    · rw [if_neg hge, if_neg (by decide)]

theorem prefixSums_ge (acc : Nat) (l : List (Key × Nat)) : ∀ x ∈ prefixSums acc l, acc ≤ x.2 := by
  induction l generalizing acc with
  | nil => simp [prefixSums]
  | cons kv rest ih =>
    obtain ⟨k, c⟩ := kv
    intro x hx
    simp only [prefixSums, List.mem_cons] at hx
    rcases hx with rfl | hx
    · simp
    · have := ih (acc + c) x hx; omega

theorem sum_filter_mono (l : List (Key × Nat)) (p q : Key × Nat → Bool) (hpq : ∀ x ∈ l, p x = true → q x = true) :
    ((l.filter p).map (·.2)).sum ≤ ((l.filter q).map (·.2)).sum := by
  induction l with
  | nil => simp
  | cons x rest ih =>
    have ih' := ih (fun y hy => hpq y (List.mem_cons_of_mem _ hy))
    simp only [List.filter_cons]
    by_cases hp : p x = true
    · simp only [hp, hpq x List.mem_cons_self hp, if_true, List.map_cons, List.sum_cons]; omega
    · simp only [hp, Bool.false_eq_true, if_false]
      split_ifs
      · simp only [List.map_cons, List.sum_cons]; omega
      · exact ih'

theorem tupleCompare_trans (a b c : List Int) (hab : a.length = b.length) (hbc : b.length = c.length)
    (h1 : tupleCompare a b = true) (h2 : tupleCompare b c = true) : tupleCompare a c = true := by
  induction a generalizing b c with
  | nil => cases c <;> simp [tupleCompare]
  | cons x xs ih =>
    cases b with
    | nil => simp at hab
    | cons y ys =>
      cases c with
      | nil => simp at hbc
      | cons z zs =>
        simp only [tupleCompare, Bool.and_eq_true, decide_eq_true_eq] at h1 h2 ⊢
        exact ⟨by omega, ih ys zs (by simpa using hab) (by simpa using hbc) h1.2 h2.2⟩

end GilVerif.Lemmas.C19
