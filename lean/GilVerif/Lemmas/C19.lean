/-
  Helper lemmas for Props/C19.lean (association-list maps, prefix sums, filters).
-/
import GilVerif.Model.C19
import Mathlib.Tactic.SplitIfs

namespace GilVerif.Lemmas.C19
open GilVerif.Model.C19 GilVerif.Gen.C19

theorem get_add (h : Hist) (k k' : Key) (n : Nat) :
    (h.add k n).get k' = if k' = k then h.get k + n else h.get k' := by
  induction h with
  | nil =>
    simp only [Hist.add, Hist.get]
    split_ifs with h1 h2 h2
    · simp
    · exact absurd h1.symm h2
    · exact absurd h2.symm h1
    · rfl
  | cons kv rest ih =>
    obtain ⟨k0, c⟩ := kv
    simp only [Hist.add]
    by_cases e : k0 = k
    · subst e
      simp only [if_true, Hist.get]
      by_cases e2 : k' = k0
      · subst e2; simp
      · have : ¬ k0 = k' := fun h => e2 h.symm
        simp [e2, this]
    · simp only [e, if_false, Hist.get]
      by_cases e2 : k0 = k'
      · subst e2
        have : ¬ k0 = k := e
        simp [this]
      · simp only [e2, if_false]; exact ih

theorem mass_add (h : Hist) (k : Key) (n : Nat) : (h.add k n).mass = h.mass + n := by
  induction h with
  | nil => simp [Hist.add, Hist.mass]
  | cons kv rest ih =>
    obtain ⟨k0, c⟩ := kv
    simp only [Hist.add]
    split_ifs with e
    · simp [Hist.mass]; omega
    · simp only [Hist.mass, List.map_cons, List.sum_cons] at ih ⊢; omega

theorem keys_add (h : Hist) (k : Key) (n : Nat) :
    (h.add k n).keys = if k ∈ h.keys then h.keys else h.keys ++ [k] := by
  induction h with
  | nil => simp [Hist.add, Hist.keys]
  | cons kv rest ih =>
    obtain ⟨k0, c⟩ := kv
    simp only [Hist.add]
    by_cases e : k0 = k
    · subst e; simp [Hist.keys]
    · simp only [e, if_false]
      simp only [Hist.keys, List.map_cons, List.mem_cons] at ih ⊢
      rw [ih]
      have : ¬ k = k0 := fun h => e h.symm
      simp only [this, false_or]
      split_ifs with hm <;> simp [hm]

theorem nodup_add (h : Hist) (k : Key) (n : Nat) (hn : h.keys.Nodup) : (h.add k n).keys.Nodup := by
  rw [keys_add]
  split_ifs with hm
  · exact hn
  · rw [List.nodup_append]
    refine ⟨hn, by simp, ?_⟩
    intro a ha b hb
    simp at hb; subst hb
    intro e; subst e; exact hm ha

theorem get_eq_zero_of_not_mem (h : Hist) (k : Key) (hk : k ∉ h.keys) : h.get k = 0 := by
  induction h with
  | nil => rfl
  | cons kv rest ih =>
    obtain ⟨k0, c⟩ := kv
    simp only [Hist.keys, List.map_cons, List.mem_cons, not_or] at hk
    simp only [Hist.get]
    have : ¬ k0 = k := fun e => hk.1 e.symm
    simp only [this, if_false]
    exact ih hk.2

theorem prefillLoop_terminates (bw upper : Int) (fuel : Nat) (i : Int) (h : Hist)
    (hbw : 1 ≤ bw) (hi : i ≤ upper) (hr : upper - i < 18446744073709551616) (hf : (upper - i).toNat < fuel) :
    (prefillLoop bw upper fuel i h).2 = true := by
  induction fuel generalizing i h with
  | zero => omega
  | succ fuel ih =>
    unfold prefillLoop
    have hc : prefill_cond_int i upper bw = if upper - i ≥ bw then 1 else 0 := by
      unfold prefill_cond_int
      rw [Int.emod_eq_of_lt (by omega) hr]
      split_ifs <;> simp_all
    rw [hc]
    by_cases hge : upper - i ≥ bw
    · rw [if_pos hge, if_pos (by decide)]
      exact ih (i + bw) _ (by omega) (by omega) (by omega)
    · rw [if_neg hge, if_neg (by decide)]

theorem prefixSums_ge (acc : Nat) (l : List (Key × Nat)) : ∀ x ∈ prefixSums acc l, acc ≤ x.2 := by
  induction l generalizing acc with
  | nil => simp [prefixSums]
  | cons kv rest ih =>
    obtain ⟨k, c⟩ := kv
    intro x hx
    simp only [prefixSums, List.mem_cons] at hx
    rcases hx with rfl | hx
    · simp
    · have := ih (acc + c) x hx; omega

theorem sum_filter_mono (l : List (Key × Nat)) (p q : Key × Nat → Bool) (hpq : ∀ x ∈ l, p x = true → q x = true) :
    ((l.filter p).map (·.2)).sum ≤ ((l.filter q).map (·.2)).sum := by
  induction l with
  | nil => simp
  | cons x rest ih =>
    have ih' := ih (fun y hy => hpq y (List.mem_cons_of_mem _ hy))
    simp only [List.filter_cons]
    by_cases hp : p x = true
    · simp only [hp, hpq x List.mem_cons_self hp, if_true, List.map_cons, List.sum_cons]; omega
    · simp only [hp, Bool.false_eq_true, if_false]
      split_ifs
      · simp only [List.map_cons, List.sum_cons]; omega
      · exact ih'

theorem tupleCompare_trans (a b c : List Int) (hab : a.length = b.length) (hbc : b.length = c.length)
    (h1 : tupleCompare a b = true) (h2 : tupleCompare b c = true) : tupleCompare a c = true := by
  induction a generalizing b c with
  | nil => cases c <;> simp [tupleCompare]
  | cons x xs ih =>
    cases b with
    | nil => simp at hab
    | cons y ys =>
      cases c with
      | nil => simp at hbc
      | cons z zs =>
        simp only [tupleCompare, Bool.and_eq_true, decide_eq_true_eq] at h1 h2 ⊢
        exact ⟨by omega, ih ys zs (by simpa using hab) (by simpa using hbc) h1.2 h2.2⟩

/-! ### key queries (equals, min_key, max_key, nearest_key) and merging -/

theorem keyLt_irrefl (a : Key) : keyLt a a = false := by
  induction a with
  | nil => simp [keyLt]
  | cons x xs ih => simp [keyLt, ih]

theorem keyLt_trans : ∀ (a b c : Key), keyLt a b = true → keyLt b c = true → keyLt a c = true
  | [], _, _, h, _ => by simp [keyLt] at h
  | _ :: _, [], _, h, _ => by simp [keyLt] at h
  | _ :: _, _ :: _, [], _, h => by simp [keyLt] at h
  | x :: xs, y :: ys, z :: zs, h1, h2 => by
    simp only [keyLt] at h1 h2 ⊢
    by_cases hxy : x < y
    · by_cases hyz : y < z
      · have : x < z := by omega
        simp [this]
      · by_cases hzy : z < y
        · simp [hyz, hzy] at h2
        · have : y = z := by omega
          subst this; simp [hxy]
    · by_cases hyx : y < x
      · simp [hxy, hyx] at h1
      · have : x = y := by omega
        subst this
        simp only [hxy, if_false] at h1
        by_cases hxz : x < z
        · simp [hxz]
        · by_cases hzx : z < x
          · simp [hxz, hzx] at h2
          · simp only [hxz, hzx, if_false] at h2 ⊢
            exact keyLt_trans xs ys zs h1 h2

/-- for tuples of the same size the order is total -/
theorem keyLt_total : ∀ (a b : Key), a.length = b.length → keyLt a b = false → keyLt b a = false → a = b
  | [], [], _, _, _ => rfl
  | [], _ :: _, h, _, _ => by simp at h
  | _ :: _, [], h, _, _ => by simp at h
  | x :: xs, y :: ys, hl, h1, h2 => by
    simp only [keyLt] at h1 h2
    by_cases hxy : x < y
    · simp [hxy] at h1
    · by_cases hyx : y < x
      · simp [hyx] at h2
      · have : x = y := by omega
        subst this
        simp only [hxy, if_false] at h1 h2
        have := keyLt_total xs ys (by simpa using hl) h1 h2
        rw [this]

theorem findKey?_isSome_iff (h : Hist) (k : Key) : (h.findKey? k).isSome = true ↔ k ∈ h.keys := by
  induction h with
  | nil => simp [Hist.findKey?, Hist.keys]
  | cons kv rest ih =>
    obtain ⟨k', c⟩ := kv
    simp only [Hist.findKey?, Hist.keys, List.map_cons, List.mem_cons]
    by_cases e : k' = k
    · simp [e]
    · have e' : ¬ k = k' := fun h => e h.symm
      simp only [e, if_false, e', false_or]
      simpa [Hist.keys] using ih

theorem findKey?_eq_some_get (h : Hist) (k : Key) (c : Nat) (hf : h.findKey? k = some c) : h.get k = c := by
  induction h with
  | nil => simp [Hist.findKey?] at hf
  | cons kv rest ih =>
    obtain ⟨k', c'⟩ := kv
    simp only [Hist.findKey?, Hist.get] at hf ⊢
    by_cases e : k' = k
    · simp [e] at hf ⊢; exact hf
    · simp only [e, if_false] at hf ⊢; exact ih hf

/-- the fold of `equals` is a conjunction -/
theorem equals_foldl (h o : Hist) (l : List (Key × Nat)) (d : Bool) :
    l.foldl (equalsStep h o) d = (d && l.all fun v => h.findKey? v.1 == some (o.get v.1)) := by
  induction l generalizing d with
  | nil => simp
  | cons v rest ih =>
    simp only [List.foldl_cons, List.all_cons]
    rw [ih]
    unfold equalsStep
    cases hf : h.findKey? v.1 with
    | none => simp
    | some c => simp [Bool.and_assoc]

theorem findKey?_of_mem (h : Hist) (k : Key) (hk : k ∈ h.keys) : h.findKey? k = some (h.get k) := by
  induction h with
  | nil => simp [Hist.keys] at hk
  | cons kv rest ih =>
    obtain ⟨k', c⟩ := kv
    simp only [Hist.findKey?, Hist.get]
    by_cases e : k' = k
    · simp [e]
    · simp only [e, if_false]
      apply ih
      simp only [Hist.keys, List.map_cons, List.mem_cons] at hk
      rcases hk with hk | hk
      · exact absurd hk.symm e
      · exact hk

/-- a `foldl` that keeps the `lt`-smaller element: nothing that was seen lies below the result (only transitivity and
    irreflexivity of `lt` are used, so the same lemma serves min_key (`lt` = tuple `<`) and max_key (`lt` = tuple `>`)) -/
theorem foldl_least_inv (lt : Key → Key → Bool) (irr : ∀ a, lt a a = false)
    (tr : ∀ a b c, lt a b = true → lt b c = true → lt a c = true)
    (l : List (Key × Nat)) (m0 : Key) (seen : List Key) (h0 : ∀ k ∈ seen, lt k m0 = false) :
    ∀ k ∈ seen ++ l.map (·.1), lt k (l.foldl (fun m v => if lt v.1 m then v.1 else m) m0) = false := by
  induction l generalizing m0 seen with
  | nil => simpa using h0
  | cons v rest ih =>
    simp only [List.foldl_cons, List.map_cons]
    have key := ih (if lt v.1 m0 then v.1 else m0) (seen ++ [v.1]) (by
      intro k hk
      simp only [List.mem_append, List.mem_singleton] at hk
      by_cases hv : lt v.1 m0 = true
      · simp only [hv, if_true]
        rcases hk with hk | hk
        · cases hkv : lt k v.1 with
          | false => rfl
          | true => have := tr k v.1 m0 hkv hv; rw [h0 k hk] at this; exact absurd this (by simp)
        · subst hk; exact irr _
      · simp only [hv]
        rcases hk with hk | hk
        · simpa using h0 k hk
        · subst hk; simpa using hv)
    intro k hk
    apply key
    simp only [List.mem_append, List.mem_cons, List.not_mem_nil, or_false] at hk ⊢
    rcases hk with h | h | h
    · exact Or.inl (Or.inl h)
    · exact Or.inl (Or.inr h)
    · exact Or.inr h

theorem foldl_least_mem (lt : Key → Key → Bool) (l : List (Key × Nat)) (m0 : Key) :
    l.foldl (fun m v => if lt v.1 m then v.1 else m) m0 = m0 ∨ l.foldl (fun m v => if lt v.1 m then v.1 else m) m0 ∈ l.map (·.1) := by
  induction l generalizing m0 with
  | nil => simp
  | cons v rest ih =>
    simp only [List.foldl_cons, List.map_cons, List.mem_cons]
    rcases ih (if lt v.1 m0 then v.1 else m0) with h | h
    · rw [h]
      by_cases hv : lt v.1 m0 = true
      · simp [hv]
      · simp [hv]
    · exact Or.inr (Or.inr h)

/-- invariant of the `for_each` of nearest_key after the keys `seen` -/
def NearInv (k : Key) (s : Bool × Key) (seen : List Key) : Prop :=
  (s.1 = true → s.2 = k ∧ ∀ u ∈ seen, keyLt k u = true) ∧
  (s.1 = false → s.2 ∈ seen ∧ keyLt k s.2 = false ∧ ∀ u ∈ seen, keyLt k u = false → keyLt s.2 u = false)

theorem nearest_inv (k : Key) (l : List (Key × Nat)) (s : Bool × Key) (seen : List Key) (h0 : NearInv k s seen) :
    NearInv k (l.foldl (nearestStep k) s) (seen ++ l.map (·.1)) := by
  induction l generalizing s seen with
  | nil => simpa using h0
  | cons v rest ih =>
    simp only [List.foldl_cons, List.map_cons]
    have step : NearInv k (nearestStep k s v) (seen ++ [v.1]) := by
      obtain ⟨once, r⟩ := s
      obtain ⟨hT, hF⟩ := h0
      simp only [nearestStep]
      cases hkv : keyLt k v.1 with
      | true =>
        simp only [Bool.not_true, Bool.false_eq_true, if_false]
        constructor
        · intro ho
          obtain ⟨h1, h2⟩ := hT ho
          refine ⟨h1, ?_⟩
          intro u hu
          simp only [List.mem_append, List.mem_singleton] at hu
          rcases hu with hu | hu
          · exact h2 u hu
          · subst hu; exact hkv
        · intro ho
          obtain ⟨h1, h2, h3⟩ := hF ho
          refine ⟨by simp [h1], h2, ?_⟩
          intro u hu hku
          simp only [List.mem_append, List.mem_singleton] at hu
          rcases hu with hu | hu
          · exact h3 u hu hku
          · subst hu; rw [hkv] at hku; exact absurd hku (by simp)
      | false =>
        simp only [Bool.not_false, if_true]
        cases once with
        | true =>
          simp only [if_true]
          obtain ⟨_, h2⟩ := hT rfl
          constructor
          · intro h; exact absurd h (by simp)
          · intro _
            refine ⟨by simp, hkv, ?_⟩
            intro u hu hku
            simp only [List.mem_append, List.mem_singleton] at hu
            rcases hu with hu | hu
            · rw [h2 u hu] at hku; exact absurd hku (by simp)
            · subst hu; exact keyLt_irrefl _
        | false =>
          simp only [Bool.false_eq_true, if_false]
          obtain ⟨h1, h2, h3⟩ := hF rfl
          cases hrv : keyLt r v.1 with
          | true =>
            simp only [if_true]
            constructor
            · intro h; exact absurd h (by simp)
            · intro _
              refine ⟨by simp, hkv, ?_⟩
              intro u hu hku
              simp only [List.mem_append, List.mem_singleton] at hu
              rcases hu with hu | hu
              · cases hvu : keyLt v.1 u with
                | false => rfl
                | true => have := keyLt_trans r v.1 u hrv hvu; rw [h3 u hu hku] at this; exact absurd this (by simp)
              · subst hu; exact keyLt_irrefl _
          | false =>
            simp only [Bool.false_eq_true, if_false]
            constructor
            · intro h; exact absurd h (by simp)
            · intro _
              refine ⟨by simp [h1], h2, ?_⟩
              intro u hu hku
              simp only [List.mem_append, List.mem_singleton] at hu
              rcases hu with hu | hu
              · exact h3 u hu hku
              · subst hu; exact hrv
    have := ih (nearestStep k s v) (seen ++ [v.1]) step
    simpa [List.append_assoc] using this

/-- merging adds, per key, everything `src` holds under that key -/
theorem merge_get (dst src : Hist) (k : Key) :
    (merge dst src).get k = dst.get k + ((src.filter fun kv => kv.1 = k).map (·.2)).sum := by
  induction src generalizing dst with
  | nil => simp [merge]
  | cons kv rest ih =>
    have e : merge dst (kv :: rest) = merge (dst.add kv.1 kv.2) rest := by simp [merge]
    rw [e, ih, get_add]
    by_cases hk : kv.1 = k
    · simp [hk]; omega
    · have hk' : ¬ k = kv.1 := fun h => hk h.symm
      simp [hk, hk']

theorem merge_mass (dst src : Hist) : (merge dst src).mass = dst.mass + src.mass := by
  induction src generalizing dst with
  | nil => simp [merge, Hist.mass]
  | cons kv rest ih =>
    have e : merge dst (kv :: rest) = merge (dst.add kv.1 kv.2) rest := by simp [merge]
    rw [e, ih, mass_add]
    simp [Hist.mass]; omega

/-- in a histogram without repeated keys the entries under one key sum to `get` -/
theorem sum_filter_key_eq_get (h : Hist) (hn : h.keys.Nodup) (k : Key) :
    ((h.filter fun kv => kv.1 = k).map (·.2)).sum = h.get k := by
  induction h with
  | nil => simp [Hist.get]
  | cons kv rest ih =>
    obtain ⟨k', c⟩ := kv
    simp only [Hist.keys, List.map_cons, List.nodup_cons] at hn
    simp only [Hist.get, List.filter_cons]
    by_cases e : k' = k
    · subst e
      simp only [decide_true, if_true, List.map_cons, List.sum_cons]
      have : rest.filter (fun kv => decide (kv.1 = k')) = [] := by
        apply List.filter_eq_nil_iff.mpr
        intro x hx hxe
        simp only [decide_eq_true_eq] at hxe
        exact hn.1 (by rw [← hxe]; exact List.mem_map_of_mem hx)
      simp [this]
    · simp only [e, decide_false, if_false, Bool.false_eq_true]
      exact ih hn.2
end GilVerif.Lemmas.C19
