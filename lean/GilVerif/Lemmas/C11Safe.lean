/-
  Helper lemmas for Props/C11, part 2: the logics used for the full safety statements.

  `Tr t m Q`  (fuel-free, state-light): whenever `m` returns, `Q` holds of the result (and, if `t`, the taint is
              untouched); whenever it stops, it stops with a C++ exception or with exhausted fuel -- never `ub`, never `hang`.
  `NF m`      : `m` never stops with exhausted fuel (uses the pointwise loop lemmas of Lemmas/C11, which track the unread input).
-/
import GilVerif.Lemmas.C11
import Mathlib.Tactic.Linarith
import Mathlib.Tactic.Ring

namespace GilVerif.Lemmas.C11
open GilVerif.Model.C11

/-! ## the two judgements -/

/-- stops tolerated by `Tr`: C++ exceptions, and fuel exhaustion (excluded separately by `NF`) -/
def Tol (e : Stop) : Prop := IsErr e ∨ ∃ w, e = Stop.fuel w

theorem tol_err (k : String) : Tol (Stop.err k) := Or.inl ⟨k, rfl⟩
theorem tol_fuel (w : String) : Tol (Stop.fuel w) := Or.inr ⟨w, rfl⟩

def GoodT {α} (t : Bool) (Q : α → Prop) (s : St) : Except Stop (α × St) → Prop
  | .ok (a, s') => (t = true → s'.taint = s.taint) ∧ Q a
  | .error e => Tol e

def Tr {α} (t : Bool) (m : M α) (Q : α → Prop) : Prop := ∀ s, GoodT t Q s (m s)

theorem tr_bind {α β} {t : Bool} {m : M α} {f : α → M β} {Q : α → Prop} {R : β → Prop}
    (hm : Tr t m Q) (hf : ∀ a, Q a → Tr t (f a) R) : Tr t (m >>= f) R := by
  intro s
  have h0 := hm s
  rw [bind_eq]
  cases h : m s with
  | error e => rw [h] at h0; exact h0
  | ok p =>
    obtain ⟨a, s'⟩ := p
    rw [h] at h0
    have h1 : (t = true → s'.taint = s.taint) ∧ Q a := h0
    have h2 := hf a h1.2 s'
    show GoodT t R s (f a s')
    cases h3 : f a s' with
    | error e => rw [h3] at h2; exact h2
    | ok q =>
      obtain ⟨b, s''⟩ := q
      rw [h3] at h2
      have h4 : (t = true → s''.taint = s'.taint) ∧ R b := h2
      exact ⟨fun ht => (h4.1 ht).trans (h1.1 ht), h4.2⟩

theorem tr_mono {α} {t : Bool} {m : M α} {Q Q' : α → Prop} (hm : Tr t m Q) (h : ∀ a, Q a → Q' a) : Tr t m Q' := by
  intro s
  have h0 := hm s
  cases hms : m s with
  | error e => rw [hms] at h0; exact h0
  | ok p => obtain ⟨a, s'⟩ := p; rw [hms] at h0; exact ⟨h0.1, h _ h0.2⟩

theorem tr_pure {α} {t : Bool} {Q : α → Prop} {a : α} (h : Q a) : Tr t (pure a : M α) Q := by
  intro s; show GoodT t Q s (Except.ok (a, s)); exact ⟨fun _ => rfl, h⟩

theorem tr_stop_err {α} {t : Bool} {Q : α → Prop} (k : String) : Tr t (stop (Stop.err k) : M α) Q := by
  intro s; exact tol_err k
theorem tr_ioErr {α} {t : Bool} {Q : α → Prop} : Tr t (ioErr : M α) Q := tr_stop_err _
theorem tr_allocErr {α} {t : Bool} {Q : α → Prop} : Tr t (allocErr : M α) Q := tr_stop_err _
theorem tr_fuel {α} {t : Bool} {Q : α → Prop} (w : String) : Tr t (stop (Stop.fuel w) : M α) Q := by
  intro s; exact tol_fuel w

theorem tr_setTaint (w : String) : Tr false (GilVerif.Model.C11.setTaint w) (fun _ => True) := by
  intro s
  unfold GilVerif.Model.C11.setTaint
  cases s.taint <;> exact ⟨fun h => absurd h (by decide), trivial⟩

theorem tr_taintIf (c : Bool) (w : String) : Tr false (taintIf c w) (fun _ => True) := by
  unfold taintIf; split
  · exact tr_setTaint w
  · exact tr_pure trivial

theorem tr_ite {α} {t : Bool} {c : Prop} [Decidable c] {a b : M α} {Q : α → Prop} (ha : c → Tr t a Q) (hb : ¬ c → Tr t b Q) :
    Tr t (if c then a else b) Q := by
  split
  · exact ha ‹_›
  · exact hb ‹_›

theorem tr_fuelHere {t : Bool} : Tr t fuelHere (fun _ => True) := by
  intro s; show GoodT t _ s (Except.ok (s.rest.length + 1, s)); exact ⟨fun _ => rfl, trivial⟩

/-- all elements are byte values -/
def Bytes (l : List Nat) : Prop := ∀ b ∈ l, b < 256

theorem bytes_nil : Bytes [] := by intro b hb; cases hb
theorem bytes_replicate (n : Nat) : Bytes (List.replicate n 0) := by
  intro b hb; rw [List.mem_replicate] at hb; omega
theorem bytes_append {a b : List Nat} (ha : Bytes a) (hb : Bytes b) : Bytes (a ++ b) := by
  intro x hx; rcases List.mem_append.mp hx with h | h
  · exact ha x h
  · exact hb x h
theorem bytes_drop {a : List Nat} (n : Nat) (ha : Bytes a) : Bytes (a.drop n) := fun x hx => ha x (List.mem_of_mem_drop hx)
theorem bytes_take {a : List Nat} (n : Nat) (ha : Bytes a) : Bytes (a.take n) := fun x hx => ha x (List.mem_of_mem_take hx)
theorem bytes_getD {a : List Nat} (ha : Bytes a) (k : Nat) : a.getD k 0 < 256 := by
  rw [List.getD_eq_getElem?_getD]
  cases h : a[k]? with
  | none => simp
  | some v => simp; exact ha v (List.mem_of_getElem? h)

theorem tr_readSome {t : Bool} (n : Nat) : Tr t (readSome n) (fun got => got.length ≤ n ∧ Bytes got) := by
  intro s
  unfold readSome
  split
  · exact ⟨fun _ => rfl, Nat.zero_le _, bytes_nil⟩
  · refine ⟨fun _ => rfl, ?_, ?_⟩
    · show ((s.rest.take n).map UInt8.toNat).length ≤ n
      rw [List.length_map, List.length_take]; exact Nat.min_le_left _ _
    · intro b hb
      have hb' : b ∈ (s.rest.take n).map UInt8.toNat := hb
      rw [List.mem_map] at hb'
      obtain ⟨u, _, hu⟩ := hb'
      rw [← hu]
      exact UInt8.toNat_lt u

theorem tr_readFixed {t : Bool} (n : Nat) : Tr t (readFixed n) (fun got => got.length = n ∧ Bytes got) := by
  unfold readFixed
  apply tr_bind (tr_readSome n); intro got hg
  split
  · exact tr_ioErr
  · exact tr_pure ⟨by omega, hg.2⟩

theorem tr_readU8 {t : Bool} : Tr t readU8 (fun v => 0 ≤ v ∧ v ≤ 255) := by
  unfold readU8
  apply tr_bind (tr_readFixed 1); intro b hb
  have := bytes_getD hb.2 0
  exact tr_pure ⟨Int.natCast_nonneg _, by simp only [Int.ofNat_eq_natCast]; omega⟩
theorem tr_readU16 {t : Bool} : Tr t readU16 (fun v => 0 ≤ v ∧ v ≤ 65535) := by
  unfold readU16
  apply tr_bind (tr_readFixed 2); intro b hb
  have := bytes_getD hb.2 0; have := bytes_getD hb.2 1
  exact tr_pure ⟨Int.natCast_nonneg _, by simp only [Int.ofNat_eq_natCast]; omega⟩
theorem tr_readU32 {t : Bool} : Tr t readU32 (fun v => 0 ≤ v ∧ v ≤ 4294967295) := by
  unfold readU32
  apply tr_bind (tr_readFixed 4); intro b hb
  have := bytes_getD hb.2 0; have := bytes_getD hb.2 1; have := bytes_getD hb.2 2; have := bytes_getD hb.2 3
  exact tr_pure ⟨Int.natCast_nonneg _, by simp only [Int.ofNat_eq_natCast]; omega⟩

theorem tr_seekSet {t : Bool} (off : Int) : Tr t (seekSet off) (fun _ => True) := by
  intro s
  unfold seekSet
  cases s.dev with
  | file =>
    dsimp only
    split
    · exact tol_err _
    · exact ⟨fun _ => rfl, trivial⟩
  | stream =>
    dsimp only
    split
    · exact ⟨fun _ => rfl, trivial⟩
    · split <;> exact ⟨fun _ => rfl, trivial⟩
  | sstream =>
    dsimp only
    split
    · exact ⟨fun _ => rfl, trivial⟩
    · split <;> exact ⟨fun _ => rfl, trivial⟩

theorem tr_seekCur {t : Bool} (d : Nat) : Tr t (seekCur d) (fun _ => True) := by
  intro s
  unfold seekCur
  split
  · exact ⟨fun _ => rfl, trivial⟩
  · split <;> exact ⟨fun _ => rfl, trivial⟩

theorem tr_alloc {t : Bool} (n : Int) : Tr t (alloc n) (fun _ => n ≤ allocLimit) := by
  unfold alloc
  split
  · exact tr_allocErr
  · exact tr_pure (by omega)

theorem tr_readInto {t : Bool} (site : String) (buf : List Nat) (n : Nat) (h : n ≤ buf.length) :
    Tr t (readInto site buf n) (fun b => b.length = buf.length ∧ (Bytes buf → Bytes b)) := by
  unfold readInto
  split
  · omega
  · apply tr_bind (tr_readSome n); intro got hg
    split
    · exact tr_ioErr
    · apply tr_pure
      constructor
      · simp [List.length_append, List.length_drop]; omega
      · intro hb; exact bytes_append hg.2 (bytes_drop _ hb)

/-! ### destination -/

/-- the shape of a destination (fixed through a read) -/
def Shape (d : Dest) (vw vh : Int) (nch : Nat) : Prop := d.vw = vw ∧ d.vh = vh ∧ d.nch = nch

theorem tr_setRow {t : Bool} (site : String) (d : Dest) (y : Int) (px : List Nat) {vw vh : Int} {nch : Nat}
    (hd : Shape d vw vh nch) (hy0 : 0 ≤ y) (hy1 : y < vh) (hp : (px.length : Int) ≤ vw * nch) :
    Tr t (d.setRow site y px) (fun d' => Shape d' vw vh nch) := by
  obtain ⟨h1, h2, h3⟩ := hd
  unfold Dest.setRow
  split
  · rename_i hc; rw [h2] at hc; omega
  · split
    · rename_i hc; rw [h1, h3] at hc; simp only [Int.ofNat_eq_natCast] at hc; omega
    · exact tr_pure ⟨h1, h2, h3⟩

theorem mk'_shape (vw vh : Int) (nch fill : Nat) : Shape (Dest.mk' vw vh nch fill) vw vh nch := by
  unfold Dest.mk'
  split <;> exact ⟨rfl, rfl, rfl⟩

theorem tr_recreateImage {t : Bool} (st : Settings) (w h : Int) (hw : w ≠ 0) (hh : h ≠ 0) :
    Tr t (recreateImage st w h) (fun d => Shape d w h st.dst.nch) := by
  unfold recreateImage
  split
  · rename_i hc
    rcases hc with hc | hc
    · exact absurd (by simpa using hc) hw
    · exact absurd (by simpa using hc) hh
  · dsimp only
    apply tr_bind (tr_alloc _); intro _ _
    exact tr_pure (mk'_shape _ _ _ _)

theorem tr_checkDim {t : Bool} (dim v w : Int) : Tr t (checkDim dim v w) (fun _ => 0 < dim → dim ≤ v) := by
  unfold checkDim
  split
  · split
    · exact tr_ioErr
    · exact tr_pure (by intro _; omega)
  · split
    · exact tr_ioErr
    · exact tr_pure (by intro h; omega)

theorem tr_checkImageSize {t : Bool} (st : Settings) (dimx dimy w h : Int) :
    Tr t (checkImageSize st dimx dimy w h) (fun _ => (0 < dimx → dimx ≤ st.vw) ∧ (0 < dimy → dimy ≤ st.vh)) := by
  unfold checkImageSize
  apply tr_bind (tr_checkDim _ _ _); intro _ hx
  exact tr_mono (tr_checkDim _ _ _) (fun _ hy => ⟨hx, hy⟩)

theorem tr_checkSettings {t : Bool} (st : Settings) (dimx dimy w h : Int) :
    Tr t (checkSettings st dimx dimy w h)
      (fun _ => 0 ≤ st.x0 ∧ 0 ≤ st.y0 ∧ 0 ≤ dimx ∧ 0 ≤ dimy ∧ st.x0 + dimx ≤ w ∧ st.y0 + dimy ≤ h) := by
  unfold checkSettings
  split
  · exact tr_ioErr
  · exact tr_pure (by omega)

theorem tr_sliceRow {t : Bool} (site : String) (row : List Nat) (bpp : Nat) (x0 dw : Int)
    (h0 : 0 ≤ x0) (h1 : (x0 + dw) * bpp ≤ row.length) :
    Tr t (sliceRow site row bpp x0 dw) (fun px => (px.length : Int) ≤ dw * bpp ∨ (dw ≤ 0 ∧ px = [])) := by
  unfold sliceRow
  split
  · exact tr_pure (Or.inr ⟨by omega, rfl⟩)
  · split
    · rename_i hc; omega
    · apply tr_pure
      left
      rename_i hdw _
      have : ((List.take (dw.toNat * bpp) (List.drop (x0.toNat * bpp) row)).length : Int) ≤ (dw.toNat * bpp : Nat) := by
        exact_mod_cast List.length_take_le _ _
      have h2 : (dw.toNat : Int) = dw := Int.toNat_of_nonneg (by omega)
      push_cast at this
      rw [h2] at this
      exact this

/-! ## never out of fuel -/

def NFs {α} (m : M α) (s : St) : Prop := ∀ w, m s ≠ .error (Stop.fuel w)
def NF {α} (m : M α) : Prop := ∀ s, NFs m s

theorem NFs.bind {α β} {m : M α} {f : α → M β} {s : St}
    (hm : NFs m s) (hf : ∀ a s', m s = .ok (a, s') → NFs (f a) s') : NFs (m >>= f) s := by
  intro w
  rw [bind_eq]
  cases h : m s with
  | error e => intro hc; injection hc with hc; exact hm w (by rw [h, hc])
  | ok p => obtain ⟨a, s'⟩ := p; exact hf a s' h w

theorem nf_bind {α β} {m : M α} {f : α → M β} (hm : NF m) (hf : ∀ a, NF (f a)) : NF (m >>= f) :=
  fun s => NFs.bind (hm s) (fun a s' _ => hf a s')

theorem nfs_of_nhs {α} {m : M α} {s : St} (h : NHs m s) : NFs m s := by
  intro w hw
  unfold NHs at h
  rw [hw] at h
  exact h w rfl

theorem nf_of_nh {α} {m : M α} (h : NH m) : NF m := fun s => nfs_of_nhs (h s)

theorem nf_pure {α} (a : α) : NF (pure a : M α) := nf_of_nh (nh_pure a)
theorem nf_ioErr {α} : NF (ioErr : M α) := nf_of_nh nh_ioErr
theorem nf_allocErr {α} : NF (allocErr : M α) := nf_of_nh nh_allocErr
theorem nf_ubAt {α} (a b : String) : NF (ubAt a b : M α) := nf_of_nh (nh_ubAt a b)
theorem nf_stop {α} (e : Stop) (h : ∀ w, e ≠ Stop.fuel w) : NF (stop e : M α) := nf_of_nh (nh_stop e h)

theorem nf_seekSet (off : Int) : NF (seekSet off) := by
  intro s w
  unfold seekSet
  cases s.dev <;> dsimp only <;> (repeat' split) <;> simp

/-- a fuel loop entered with `fuelHere`: the pointwise loop lemma discharges it -/
theorem nfs_fuelHere_bind {β} {f : Nat → M β} (s : St) (h : ∀ fuel, s.rest.length < fuel → NFs (f fuel) s) :
    NFs (fuelHere >>= f) s := by
  apply NFs.bind
  · intro w; rw [fuelHere_eq]; simp
  · intro fuel s' h1
    rw [fuelHere_eq] at h1
    injection h1 with h1; injection h1 with hf hs; subst hs; subst hf
    exact h _ (by omega)


/-! ## pixel conversions: output sizes -/

/-- bytes per destination pixel the conversions produce (rgb8: 3, rgba8: 4) -/
def outCh (dst : Dst) : Nat := if dst == .rgba8 then 4 else 3

theorem outCh_eq_nch {dst : Dst} (h : dst = .rgb8 ∨ dst = .rgba8) : outCh dst = dst.nch := by
  rcases h with h | h <;> subst h <;> rfl

theorem cvtBgr_length (dst : Dst) : ∀ l : List Nat, (Bmp.cvtBgr dst l).length * 3 ≤ l.length * outCh dst := by
  intro l
  induction l using Bmp.cvtBgr.induct with
  | case1 b g r rest ih =>
    unfold Bmp.cvtBgr
    by_cases hd : dst = .rgba8
    · simp [outCh, hd] at ih ⊢; omega
    · simp [outCh, hd] at ih ⊢; omega
  | case2 l h =>
    unfold Bmp.cvtBgr
    split
    · rename_i b g r rest; exact absurd rfl (h b g r rest)
    · simp

theorem cvtRgb_length (dst : Dst) : ∀ l : List Nat, (Bmp.cvtRgb dst l).length * 3 ≤ l.length * outCh dst := by
  intro l
  induction l using Bmp.cvtRgb.induct with
  | case1 b g r rest ih =>
    unfold Bmp.cvtRgb
    by_cases hd : dst = .rgba8
    · simp [outCh, hd] at ih ⊢; omega
    · simp [outCh, hd] at ih ⊢; omega
  | case2 l h =>
    unfold Bmp.cvtRgb
    split
    · rename_i b g r rest; exact absurd rfl (h b g r rest)
    · simp

theorem cvtBgra_length (dst : Dst) : ∀ l : List Nat, (Bmp.cvtBgra dst l).length * 4 ≤ l.length * outCh dst := by
  intro l
  induction l using Bmp.cvtBgra.induct with
  | case1 b g r a rest ih =>
    unfold Bmp.cvtBgra
    by_cases hd : dst = .rgba8
    · simp [outCh, hd] at ih ⊢; omega
    · simp [outCh, hd] at ih ⊢; omega
  | case2 l h =>
    unfold Bmp.cvtBgra
    split
    · rename_i b g r a rest; exact absurd rfl (h b g r a rest)
    · simp


/-! ## TARGA -/

/-- what `read_header` guarantees -/
def TgaHdr (i : Tga.Info) : Prop := 1 ≤ i.width ∧ 1 ≤ i.height ∧ (i.bpp = 24 ∨ i.bpp = 32)

theorem tr_tga_readHeader {t : Bool} : Tr t Tga.readHeader TgaHdr := by
  unfold Tga.readHeader
  apply tr_bind tr_readU8; intro idl _
  dsimp only
  apply tr_bind tr_readU8; intro cmt _
  apply tr_bind tr_readU8; intro it _
  apply tr_bind tr_readU16; intro _ _
  apply tr_bind tr_readU16; intro cml _
  apply tr_bind tr_readU8; intro _ _
  apply tr_bind tr_readU16; intro _ _
  apply tr_bind tr_readU16; intro _ _
  apply tr_bind tr_readU16; intro w _
  apply tr_bind tr_readU16; intro h _
  split
  · exact tr_ioErr
  · rename_i hwh
    apply tr_bind tr_readU8; intro bpp _
    split
    · exact tr_ioErr
    · rename_i hb
      apply tr_bind tr_readU8; intro desc _
      repeat' (first | exact tr_ioErr | exact tr_pure (by unfold TgaHdr; dsimp only; omega) | split)

/-- the destination types the TARGA / BMP pixel paths are modelled for -/
def RgbDst (dst : Dst) : Prop := dst = .rgb8 ∨ dst = .rgba8

theorem cvtBgrx_length {bpp : Nat} (hb : bpp = 3 ∨ bpp = 4) (dst : Dst) (px : List Nat) :
    (Tga.cvtBgrx bpp dst px).length * bpp ≤ px.length * outCh dst := by
  unfold Tga.cvtBgrx
  rcases hb with hb | hb <;> subst hb
  · simp; exact cvtBgr_length dst px
  · simp; exact cvtBgra_length dst px

/-- converted pixels of a sliced row fit `dimx` destination pixels -/
theorem cvt_fits {bpp : Nat} (hb : bpp = 3 ∨ bpp = 4) {dst : Dst} (hd : RgbDst dst) {px : List Nat} {dimx vw : Int}
    (hpx : (px.length : Int) ≤ dimx * bpp ∨ (dimx ≤ 0 ∧ px = [])) (hvw : dimx ≤ vw) (h0 : 0 ≤ dimx) :
    ((Tga.cvtBgrx bpp dst px).length : Int) ≤ vw * dst.nch := by
  have hl := cvtBgrx_length hb dst px
  rw [outCh_eq_nch hd] at hl
  have hn : 0 ≤ (dst.nch : Int) := Int.natCast_nonneg _
  rcases hpx with hpx | ⟨_, hnil⟩
  · have h1 : ((Tga.cvtBgrx bpp dst px).length : Int) * bpp ≤ px.length * dst.nch := by exact_mod_cast hl
    have hbpos : (0 : Int) < bpp := by rcases hb with hb | hb <;> subst hb <;> decide
    have h2 : (px.length : Int) * dst.nch ≤ dimx * bpp * dst.nch := by
      nlinarith
    have h3 : ((Tga.cvtBgrx bpp dst px).length : Int) ≤ dimx * dst.nch := by nlinarith
    have h4 : dimx * dst.nch ≤ vw * dst.nch := by nlinarith
    omega
  · subst hnil
    have : (Tga.cvtBgrx bpp dst []).length = 0 := by
      unfold Tga.cvtBgrx; split <;> simp [Bmp.cvtBgr, Bmp.cvtBgra]
    rw [this]
    have : 0 ≤ vw * dst.nch := by nlinarith
    simpa using this

theorem dstRow_bounds (i : Tga.Info) (d : Dest) {vw vh : Int} {nch : Nat} (hd : Shape d vw vh nch) {y dimy : Int}
    (hy0 : 0 ≤ y) (hy1 : y < dimy) (hv : dimy ≤ vh) : 0 ≤ Tga.dstRow i d y ∧ Tga.dstRow i d y < vh := by
  unfold Tga.dstRow
  rw [hd.2.1]
  split <;> omega

theorem tr_tga_rawRows {t : Bool} (i : Tga.Info) (st : Settings) (dimx : Int) (bpp : Nat) (site : String) {vw vh dimy : Int}
    (hb : bpp = 3 ∨ bpp = 4) (hdst : RgbDst st.dst) (hx0 : 0 ≤ st.x0) (hdx : 0 ≤ dimx) (hxw : st.x0 + dimx ≤ i.width)
    (hvw : dimx ≤ vw) (hvh : dimy ≤ vh) :
    ∀ (n : Nat) (y : Int) (row : List Nat) (d : Dest), (n : Int) = y + 1 → y < dimy → (row.length : Int) = i.width * bpp →
      Shape d vw vh st.dst.nch → Tr t (Tga.rawRows i st dimx bpp site n y row d) (fun d' => Shape d' vw vh st.dst.nch)
  | 0, _, _, d, _, _, _, hd => by unfold Tga.rawRows; exact tr_pure hd
  | n + 1, y, row, d, hn, hy, hrow, hd => by
    unfold Tga.rawRows
    apply tr_bind (tr_readInto site row row.length (Nat.le_refl _)); intro row' hrow'
    have hlen : (row'.length : Int) = i.width * bpp := by rw [hrow'.1]; exact hrow
    apply tr_bind (tr_sliceRow site row' bpp st.x0 dimx hx0 (by
      have : (st.x0 + dimx) * bpp ≤ i.width * bpp := by
        have : (0 : Int) ≤ bpp := Int.natCast_nonneg _
        nlinarith
      omega)); intro px hpx
    have hyb := dstRow_bounds i d hd (y := y) (dimy := dimy) (by push_cast at hn; omega) hy hvh
    apply tr_bind (tr_setRow site d _ _ hd hyb.1 hyb.2 (cvt_fits hb hdst hpx hvw hdx)); intro d' hd'
    exact tr_tga_rawRows i st dimx bpp site hb hdst hx0 hdx hxw hvw hvh n (y - 1) row' d' (by push_cast at hn; omega) (by omega) hlen hd'


/-- everything `run` knows about the region when the pixel readers start -/
structure Region (x0 y0 dimx dimy w h vw vh : Int) : Prop where
  hx0 : 0 ≤ x0
  hy0 : 0 ≤ y0
  hdx : 0 ≤ dimx
  hdy : 0 ≤ dimy
  hxw : x0 + dimx ≤ w
  hyh : y0 + dimy ≤ h
  hvw : dimx ≤ vw
  hvh : dimy ≤ vh

theorem bppOf {i : Tga.Info} (h : TgaHdr i) : (i.bpp / 8).toNat = 3 ∨ (i.bpp / 8).toNat = 4 := by
  rcases h.2.2 with h | h <;> rw [h] <;> decide

theorem tr_tga_readData {t : Bool} (i : Tga.Info) (st : Settings) (dimx dimy : Int) (d : Dest) {vw vh : Int}
    (hi : TgaHdr i) (hdst : RgbDst st.dst) (hr : Region st.x0 st.y0 dimx dimy i.width i.height vw vh)
    (hd : Shape d vw vh st.dst.nch) :
    Tr t (Tga.readData i st dimx dimy d) (fun d' => Shape d' vw vh st.dst.nch) := by
  unfold Tga.readData
  dsimp only
  apply tr_bind (tr_alloc _); intro _ _
  apply tr_bind (tr_seekSet _); intro _ _
  have hw : 0 ≤ i.width := by have := hi.1; omega
  have hlen : ((List.replicate (i.width * ↑(i.bpp / 8).toNat).toNat 0).length : Int) = i.width * ↑(i.bpp / 8).toNat := by
    rw [List.length_replicate]
    exact Int.toNat_of_nonneg (by positivity)
  split
  · rename_i hpos
    exact tr_tga_rawRows i st dimx _ _ (bppOf hi) hdst hr.hx0 hr.hdx hr.hxw hr.hvw hr.hvh _ _ _ _
      (by rw [Int.toNat_of_nonneg hr.hdy]; omega) (by omega) hlen hd
  · exact tr_tga_rawRows i st dimx _ _ (bppOf hi) hdst hr.hx0 hr.hdx hr.hxw hr.hvw hr.hvh 0 _ _ _
      (by have := hr.hdy; push_cast; omega) (by omega) hlen hd

theorem tr_tga_readBytes {t : Bool} : ∀ (n : Nat) (acc : List Nat), Tr t (Tga.readBytes n acc) (fun l => l.length = n + acc.length)
  | 0, acc => by unfold Tga.readBytes; exact tr_pure (by simp)
  | n + 1, acc => by
    unfold Tga.readBytes
    apply tr_bind tr_readU8; intro b _
    exact tr_mono (tr_tga_readBytes n _) (fun l hl => by simp at hl; omega)

theorem flatten_replicate_length (k : Nat) (px : List Nat) : (List.replicate k px).flatten.length = k * px.length := by
  induction k with
  | zero => simp
  | succ k ih => simp [List.replicate_succ, ih]; ring

/-- the packet loop delivers exactly `imageSize` bytes -/
theorem tr_tga_rleLoop {t : Bool} (bpp imageSize : Nat) :
    ∀ (fuel pixel : Nat) (acc : List (List Nat)), acc.flatten.length = pixel → pixel ≤ imageSize →
      Tr t (Tga.rleLoop bpp imageSize fuel pixel acc) (fun ch => ch.flatten.length = imageSize)
  | 0, _, _, _, _ => by unfold Tga.rleLoop; exact tr_fuel _
  | fuel + 1, pixel, acc, hacc, hle => by
    unfold Tga.rleLoop
    split
    · apply tr_bind tr_readU8; intro cur _
      split
      · dsimp only
        split
        · exact tr_ioErr
        · rename_i hfit
          apply tr_bind (tr_tga_readBytes bpp []); intro px hpx
          apply tr_tga_rleLoop bpp imageSize fuel
          · simp only [List.flatten_cons, List.length_append, flatten_replicate_length, hacc]
            simp at hpx; rw [hpx]; ring
          · omega
      · dsimp only
        split
        · exact tr_ioErr
        · rename_i hfit
          apply tr_bind (tr_readSome _); intro got hgot
          split
          · exact tr_ioErr
          · rename_i hfull
            apply tr_tga_rleLoop bpp imageSize fuel
            · simp only [List.flatten_cons, List.length_append, hacc]; omega
            · omega
    · rename_i hge
      exact tr_pure (by omega)


theorem tr_tga_rleCopyRows {t : Bool} (i : Tga.Info) (st : Settings) (dimx : Int) (bpp : Nat) (data : List Nat) (firstRow : Int)
    {vw vh dimy : Int} (hb : bpp = 3 ∨ bpp = 4) (hdst : RgbDst st.dst) (hw : 1 ≤ i.width)
    (hx0 : 0 ≤ st.x0) (hdx : 0 ≤ dimx) (hxw : st.x0 + dimx ≤ i.width) (hvw : dimx ≤ vw) (hvh : dimy ≤ vh)
    (hf0 : 0 ≤ firstRow) (hf1 : firstRow + dimy ≤ i.height)
    (hdata : (data.length : Int) = i.width * i.height * bpp) :
    ∀ (n : Nat) (y : Int) (d : Dest), 0 ≤ y → y + n = dimy → Shape d vw vh st.dst.nch →
      Tr t (Tga.rleCopyRows i st dimx bpp data firstRow n y d) (fun d' => Shape d' vw vh st.dst.nch)
  | 0, _, d, _, _, hd => by unfold Tga.rleCopyRows; exact tr_pure hd
  | n + 1, y, d, hy, hyn, hd => by
    unfold Tga.rleCopyRows
    have hyd : y < dimy := by push_cast at hyn; omega
    have hbn : (0 : Int) ≤ bpp := Int.natCast_nonneg _
    apply @tr_bind _ _ t _ _ (fun px => (px.length : Int) ≤ dimx * bpp ∨ (dimx ≤ 0 ∧ px = []))
    · unfold Tga.rleRowPixels
      dsimp only
      split
      · rename_i hc; omega
      · split
        · exact tr_pure (Or.inr ⟨by omega, rfl⟩)
        · split
          · rename_i hc
            exfalso
            -- the requested pixels lie inside the decoded image
            have hr0 : 0 ≤ i.height - 1 - (firstRow + y) := by omega
            have hr1 : i.height - 1 - (firstRow + y) ≤ i.height - 1 := by omega
            have h1 : 0 ≤ (i.height - 1 - (firstRow + y)) * i.width := by positivity
            have h2 : (i.height - 1 - (firstRow + y)) * i.width ≤ (i.height - 1) * i.width := by nlinarith
            rcases hc with hc | hc
            · have : 0 ≤ ((i.height - 1 - (firstRow + y)) * i.width + st.x0) * bpp := by positivity
              omega
            · simp only [Int.ofNat_eq_natCast] at hc
              rw [hdata] at hc
              have : ((i.height - 1 - (firstRow + y)) * i.width + st.x0) * bpp + dimx * bpp ≤ i.width * i.height * bpp := by nlinarith
              omega
          · apply tr_pure
            left
            have hl : ((List.take (dimx.toNat * bpp) (List.drop (((i.height - 1 - (firstRow + y)) * i.width + st.x0) * ↑bpp).toNat data)).length : Int)
                ≤ ((dimx.toNat * bpp : Nat) : Int) := by exact_mod_cast List.length_take_le _ _
            push_cast at hl
            rw [Int.toNat_of_nonneg hdx] at hl
            exact hl
    · intro px hpx
      have hyb := dstRow_bounds i d hd (y := y) (dimy := dimy) hy hyd hvh
      apply tr_bind (tr_setRow Tga.fRle d _ _ hd hyb.1 hyb.2 (cvt_fits hb hdst hpx hvw hdx)); intro d' hd'
      exact tr_tga_rleCopyRows i st dimx bpp data firstRow hb hdst hw hx0 hdx hxw hvw hvh hf0 hf1 hdata n (y + 1) d' (by omega)
        (by push_cast at hyn ⊢; omega) hd'

theorem tr_tga_readRleData {t : Bool} (i : Tga.Info) (st : Settings) (dimx dimy : Int) (d : Dest) {vw vh : Int}
    (hi : TgaHdr i) (hdst : RgbDst st.dst) (hr : Region st.x0 st.y0 dimx dimy i.width i.height vw vh)
    (hd : Shape d vw vh st.dst.nch) :
    Tr t (Tga.readRleData i st dimx dimy d) (fun d' => Shape d' vw vh st.dst.nch) := by
  unfold Tga.readRleData
  dsimp only
  split
  · exact tr_ioErr
  · apply tr_bind (tr_alloc _); intro _ _
    apply tr_bind (tr_seekSet _); intro _ _
    apply tr_bind tr_fuelHere; intro fuel _
    apply tr_bind (tr_tga_rleLoop _ _ fuel 0 [] rfl (Nat.zero_le _)); intro chunks hch
    split
    · rename_i hneg; have := hr.hdy; omega
    · have hw := hi.1
      have hh := hi.2.1
      have hdata : ((chunks.reverse.flatten).length : Int) = i.width * i.height * ↑(i.bpp / 8).toNat := by
        have : chunks.reverse.flatten.length = chunks.flatten.length := by
          simp [List.length_flatten, List.map_reverse, List.sum_reverse]
        rw [this, hch]
        exact Int.toNat_of_nonneg (by positivity)
      have hy0 := hr.hy0; have hyh := hr.hyh; have hdy := hr.hdy
      refine tr_tga_rleCopyRows i st dimx _ _ _ (bppOf hi) hdst hw hr.hx0 hr.hdx hr.hxw hr.hvw hr.hvh ?_ ?_ hdata _ 0 d (le_refl _) ?_ hd
      · split <;> omega
      · split <;> omega
      · rw [Int.toNat_of_nonneg hdy]; omega

theorem dst_of_bits {dst : Dst} {bpp : Int} (hb : bpp = 24 ∨ bpp = 32) (h : ¬ dst.bits ≠ bpp) : RgbDst dst := by
  have h' : dst.bits = bpp := by omega
  cases dst <;> simp [Dst.bits] at h' <;> first | exact Or.inl rfl | exact Or.inr rfl | omega

/-- the conversion targets that are modelled for the converting entry point -/
def ConvOk (f : Fmt) (st : Settings) : Prop :=
  st.entry = .conv → match f with
    | .pnm => st.dst = .rgb8
    | _ => RgbDst st.dst

theorem tr_tga_apply {t : Bool} (i : Tga.Info) (st : Settings) (dimx dimy : Int) (d : Dest) {vw vh : Int}
    (hi : TgaHdr i) (hconv : ConvOk .tga st) (hr : Region st.x0 st.y0 dimx dimy i.width i.height vw vh)
    (hd : Shape d vw vh st.dst.nch) :
    Tr t (Tga.apply i st dimx dimy d) (fun d' => Shape d' vw vh st.dst.nch) := by
  unfold Tga.apply
  split
  · exact tr_ioErr
  · rename_i hal
    have hdst : RgbDst st.dst := by
      by_cases hc : st.entry = .conv
      · exact hconv hc
      · have : ¬ st.dst.bits ≠ i.bpp := fun hne => hal ⟨hc, hne⟩
        exact dst_of_bits hi.2.2 this
    repeat' (first | exact tr_ioErr | exact tr_tga_readData i st dimx dimy d hi hdst hr hd
                   | exact tr_tga_readRleData i st dimx dimy d hi hdst hr hd | split)

theorem tr_tga_scanRows {t : Bool} (i : Tga.Info) (sl : Nat) :
    ∀ (n : Nat) (pos : Int) (buf : List Nat) (acc : List (List Nat)), buf.length = sl →
      Tr t (Tga.scanRows i sl n pos buf acc) (fun _ => True)
  | 0, _, _, _, _ => by unfold Tga.scanRows; exact tr_pure trivial
  | n + 1, pos, buf, acc, hb => by
    unfold Tga.scanRows
    apply tr_bind (tr_seekSet _); intro _ _
    dsimp only
    apply tr_bind (tr_readInto _ buf sl (by omega)); intro buf' hb'
    exact tr_tga_scanRows i sl n _ buf' _ (by omega)

theorem tr_tga_scan {t : Bool} (i : Tga.Info) : Tr t (Tga.scan i) (fun _ => True) := by
  unfold Tga.scan
  repeat' (first | exact tr_ioErr | split)
  dsimp only
  apply tr_bind (tr_seekSet _); intro _ _
  apply tr_bind (tr_alloc _); intro _ _
  apply tr_bind (tr_tga_scanRows i _ _ _ _ _ (by simp)); intro _ _
  exact tr_pure trivial


theorem dim_pos {d w : Int} (hw : 1 ≤ w) (h0 : 0 ≤ (if d = 0 then w else d)) : 1 ≤ (if d = 0 then w else d) := by
  split at h0 <;> split <;> omega

theorem tr_tga_run {t : Bool} (st : Settings) (hconv : ConvOk .tga st) : Tr t (Tga.run st) (fun _ => True) := by
  unfold Tga.run
  apply tr_bind tr_tga_readHeader; intro i hi
  dsimp only
  apply tr_bind (tr_checkSettings _ _ _ _ _); intro _ hs
  obtain ⟨hx0, hy0, hdx, hdy, hxw, hyh⟩ := hs
  have hdx1 := dim_pos hi.1 (by simpa using hdx)
  have hdy1 := dim_pos hi.2.1 (by simpa using hdy)
  simp only [beq_iff_eq] at hdx1 hdy1 hdx hdy hxw hyh ⊢
  cases he : st.entry with
  | info => exact tr_pure trivial
  | scan => exact tr_tga_scan i
  | view =>
    dsimp only
    apply tr_bind (tr_checkImageSize _ _ _ _ _); intro _ hv
    have hr : Region st.x0 st.y0 (if st.dw = 0 then i.width else st.dw) (if st.dh = 0 then i.height else st.dh) i.width i.height st.vw st.vh :=
      ⟨hx0, hy0, hdx, hdy, hxw, hyh, hv.1 (by omega), hv.2 (by omega)⟩
    apply tr_bind (tr_tga_apply i st _ _ _ hi hconv hr (mk'_shape _ _ _ _)); intro _ _
    exact tr_pure trivial
  | image =>
    dsimp only
    apply tr_bind (tr_recreateImage st _ _ (by omega) (by omega)); intro d hd
    have hr : Region st.x0 st.y0 (if st.dw = 0 then i.width else st.dw) (if st.dh = 0 then i.height else st.dh) i.width i.height _ _ :=
      ⟨hx0, hy0, hdx, hdy, hxw, hyh, le_refl _, le_refl _⟩
    apply tr_bind (tr_tga_apply i st _ _ _ hi hconv hr hd); intro _ _
    exact tr_pure trivial
  | conv =>
    dsimp only
    apply tr_bind (tr_recreateImage st _ _ (by omega) (by omega)); intro d hd
    have hr : Region st.x0 st.y0 (if st.dw = 0 then i.width else st.dw) (if st.dh = 0 then i.height else st.dh) i.width i.height _ _ :=
      ⟨hx0, hy0, hdx, hdy, hxw, hyh, le_refl _, le_refl _⟩
    apply tr_bind (tr_tga_apply i st _ _ _ hi hconv hr hd); intro _ _
    exact tr_pure trivial


/-! ## never out of fuel: the readers -/

theorem nf_ite {α} {c : Prop} [Decidable c] {a b : M α} (ha : NF a) (hb : NF b) : NF (if c then a else b) := by
  split <;> assumption

theorem nf_of_se {α} {m : M α} (h : SE IsErr m) : NF m := by
  intro s w hw
  have := h s
  unfold SEs at this
  rw [hw] at this
  obtain ⟨k, hk⟩ := this
  cases hk

/-- closes `NF (do ...)` goals of fuel-free code -/
macro "nf_tac" : tactic =>
  `(tactic| repeat' (first
      | apply nf_pure | apply nf_ioErr | apply nf_allocErr | apply nf_ubAt
      | assumption
      | apply nf_bind
      | split
      | (intro _)))

theorem nf_readSome (n : Nat) : NF (readSome n) := nf_of_nh (nh_readSome n)
theorem nf_readU8 : NF readU8 := nf_of_nh nh_readU8
theorem nf_fuelHere : NF fuelHere := nf_of_nh nh_fuelHere
theorem nf_setTaint (w : String) : NF (GilVerif.Model.C11.setTaint w) := nf_of_nh (nh_setTaint w)
theorem nf_seekCur (d : Nat) : NF (seekCur d) := nf_of_nh (nh_seekCur d)
theorem nf_alloc (n : Int) : NF (alloc n) := by unfold alloc; nf_tac
theorem nf_readFixed (n : Nat) : NF (readFixed n) := nf_of_nh (nh_readFixed n)
theorem nf_readU16 : NF readU16 := by unfold readU16; apply nf_bind (nf_readFixed 2); intro _; exact nf_pure _
theorem nf_readU32 : NF readU32 := by unfold readU32; apply nf_bind (nf_readFixed 4); intro _; exact nf_pure _
theorem nf_readInto (site : String) (buf : List Nat) (n : Nat) : NF (readInto site buf n) := by
  unfold readInto
  split
  · exact nf_ubAt _ _
  · apply nf_bind (nf_readSome n); intro _; nf_tac
theorem nf_setRow (site : String) (d : Dest) (y : Int) (px : List Nat) : NF (d.setRow site y px) := nf_of_nh (nh_setRow site d y px)
theorem nf_recreateImage (st : Settings) (w h : Int) : NF (recreateImage st w h) := by
  unfold recreateImage
  split
  · exact nf_ubAt _ _
  · dsimp only; apply nf_bind (nf_alloc _); intro _; exact nf_pure _
theorem nf_checkDim (a b c : Int) : NF (checkDim a b c) := by unfold checkDim; nf_tac
theorem nf_checkImageSize (st : Settings) (a b c d : Int) : NF (checkImageSize st a b c d) := by
  unfold checkImageSize; apply nf_bind (nf_checkDim _ _ _); intro _; exact nf_checkDim _ _ _
theorem nf_checkSettings (st : Settings) (a b c d : Int) : NF (checkSettings st a b c d) := by unfold checkSettings; nf_tac
theorem nf_sliceRow (site : String) (row : List Nat) (bpp : Nat) (x0 dw : Int) : NF (sliceRow site row bpp x0 dw) := by
  unfold sliceRow; nf_tac

theorem nf_tga_rawRows (i : Tga.Info) (st : Settings) (dimx : Int) (bpp : Nat) (site : String) :
    ∀ (n : Nat) (y : Int) (row : List Nat) (d : Dest), NF (Tga.rawRows i st dimx bpp site n y row d)
  | 0, _, _, _ => by unfold Tga.rawRows; exact nf_pure _
  | n + 1, y, row, d => by
    unfold Tga.rawRows
    apply nf_bind (nf_readInto _ _ _); intro row'
    apply nf_bind (nf_sliceRow _ _ _ _ _); intro px
    apply nf_bind (nf_setRow _ _ _ _); intro d'
    exact nf_tga_rawRows i st dimx bpp site n _ _ _

theorem nf_tga_readData (i : Tga.Info) (st : Settings) (dimx dimy : Int) (d : Dest) : NF (Tga.readData i st dimx dimy d) := by
  unfold Tga.readData
  dsimp only
  apply nf_bind (nf_alloc _); intro _
  apply nf_bind (nf_seekSet _); intro _
  exact nf_tga_rawRows _ _ _ _ _ _ _ _ _

theorem nf_tga_rleRowPixels (i : Tga.Info) (st : Settings) (dimx : Int) (bpp : Nat) (data : List Nat) (f y : Int) :
    NF (Tga.rleRowPixels i st dimx bpp data f y) := by
  unfold Tga.rleRowPixels; dsimp only; nf_tac

theorem nf_tga_rleCopyRows (i : Tga.Info) (st : Settings) (dimx : Int) (bpp : Nat) (data : List Nat) (f : Int) :
    ∀ (n : Nat) (y : Int) (d : Dest), NF (Tga.rleCopyRows i st dimx bpp data f n y d)
  | 0, _, _ => by unfold Tga.rleCopyRows; exact nf_pure _
  | n + 1, y, d => by
    unfold Tga.rleCopyRows
    apply nf_bind (nf_tga_rleRowPixels _ _ _ _ _ _ _); intro px
    apply nf_bind (nf_setRow _ _ _ _); intro d'
    exact nf_tga_rleCopyRows i st dimx bpp data f n _ _

theorem nf_tga_readRleData (i : Tga.Info) (st : Settings) (dimx dimy : Int) (d : Dest) : NF (Tga.readRleData i st dimx dimy d) := by
  unfold Tga.readRleData
  dsimp only
  split
  · exact nf_ioErr
  · apply nf_bind (nf_alloc _); intro _
    apply nf_bind (nf_seekSet _); intro _
    intro s
    apply nfs_fuelHere_bind
    intro fuel hf
    apply NFs.bind (nfs_of_nhs (tga_rleLoop_nhs _ _ fuel 0 [] s hf))
    intro chunks s' _
    split
    · exact nf_stop _ (by intro w; simp) s'
    · exact nf_tga_rleCopyRows _ _ _ _ _ _ _ _ _ s'

theorem nf_tga_apply (i : Tga.Info) (st : Settings) (dimx dimy : Int) (d : Dest) : NF (Tga.apply i st dimx dimy d) := by
  unfold Tga.apply
  repeat' (first | exact nf_ioErr | exact nf_tga_readData _ _ _ _ _ | exact nf_tga_readRleData _ _ _ _ _ | split)

theorem nf_tga_scanRows (i : Tga.Info) (sl : Nat) :
    ∀ (n : Nat) (pos : Int) (buf : List Nat) (acc : List (List Nat)), NF (Tga.scanRows i sl n pos buf acc)
  | 0, _, _, _ => by unfold Tga.scanRows; exact nf_pure _
  | n + 1, pos, buf, acc => by
    unfold Tga.scanRows
    apply nf_bind (nf_seekSet _); intro _
    dsimp only
    apply nf_bind (nf_readInto _ _ _); intro buf'
    exact nf_tga_scanRows i sl n _ _ _

theorem nf_tga_scan (i : Tga.Info) : NF (Tga.scan i) := by
  unfold Tga.scan
  repeat' (first | exact nf_ioErr | split)
  dsimp only
  apply nf_bind (nf_seekSet _); intro _
  apply nf_bind (nf_alloc _); intro _
  apply nf_bind (nf_tga_scanRows _ _ _ _ _ _); intro _
  exact nf_pure _

theorem nf_tga_run (st : Settings) : NF (Tga.run st) := by
  unfold Tga.run
  apply nf_bind (nf_of_se (se_tga_readHeader adm_isErr)); intro i
  dsimp only
  apply nf_bind (nf_checkSettings _ _ _ _ _); intro _
  cases st.entry with
  | info => exact nf_pure _
  | scan => exact nf_tga_scan i
  | view =>
    dsimp only
    apply nf_bind (nf_checkImageSize _ _ _ _ _); intro _
    apply nf_bind (nf_tga_apply _ _ _ _ _); intro _
    exact nf_pure _
  | image =>
    dsimp only
    apply nf_bind (nf_recreateImage _ _ _); intro _
    apply nf_bind (nf_tga_apply _ _ _ _ _); intro _
    exact nf_pure _
  | conv =>
    dsimp only
    apply nf_bind (nf_recreateImage _ _ _); intro _
    apply nf_bind (nf_tga_apply _ _ _ _ _); intro _
    exact nf_pure _


/-! ## PNM -/

theorem tr_getcChecked {t : Bool} : Tr t getcChecked (fun _ => True) := by
  unfold getcChecked
  apply tr_bind (tr_readSome 1); intro got _
  split
  · exact tr_pure trivial
  · exact tr_ioErr

theorem tr_getcUnchecked {t : Bool} : Tr t getcUnchecked (fun _ => True) := by
  unfold getcUnchecked
  apply tr_bind (tr_readSome 1); intro got _
  split <;> exact tr_pure trivial

theorem tr_pnm_skipComment {t : Bool} : ∀ fuel : Nat, Tr t (Pnm.skipComment fuel) (fun _ => True)
  | 0 => by unfold Pnm.skipComment; exact tr_fuel _
  | fuel + 1 => by
    unfold Pnm.skipComment
    apply tr_bind tr_getcChecked; intro c _
    split
    · exact tr_pure trivial
    · exact tr_pnm_skipComment fuel

theorem tr_pnm_readChar {t : Bool} : Tr t Pnm.readChar (fun _ => True) := by
  unfold Pnm.readChar
  apply tr_bind tr_getcChecked; intro c _
  split
  · apply tr_bind tr_fuelHere; intro fuel _
    exact tr_pnm_skipComment fuel
  · exact tr_pure trivial

theorem tr_pnm_skipWs {t : Bool} : ∀ k : Nat, Tr t (Pnm.skipWs k) (fun _ => True)
  | 0 => by unfold Pnm.skipWs; exact tr_fuel _
  | k + 1 => by
    unfold Pnm.skipWs
    apply tr_bind tr_pnm_readChar; intro c _
    split
    · exact tr_pnm_skipWs k
    · exact tr_pure trivial

theorem tr_pnm_digitsLoop {t : Bool} : ∀ (k c val : Nat), Pnm.isDigit c = true →
    Tr t (Pnm.digitsLoop k c val) (fun v => 0 ≤ v ∧ v ≤ 2147483647)
  | 0, _, _, _ => by unfold Pnm.digitsLoop; exact tr_fuel _
  | k + 1, c, val, hc => by
    unfold Pnm.digitsLoop
    dsimp only
    have hd : 48 ≤ c ∧ c ≤ 57 := by simpa [Pnm.isDigit] using hc
    split
    · exact tr_ioErr
    · rename_i hle
      apply tr_bind tr_pnm_readChar; intro c' _
      split
      · rename_i hc'
        exact tr_pnm_digitsLoop k c' _ hc'
      · apply tr_pure
        constructor
        · exact Int.natCast_nonneg _
        · have : val * 10 + (c - 48) ≤ 2147483647 := by omega
          simp only [Int.ofNat_eq_natCast]
          exact_mod_cast this

theorem tr_pnm_readInt {t : Bool} : Tr t Pnm.readInt (fun v => 0 ≤ v ∧ v ≤ 2147483647) := by
  unfold Pnm.readInt
  apply tr_bind tr_fuelHere; intro f1 _
  apply tr_bind (tr_pnm_skipWs f1); intro c _
  split
  · exact tr_ioErr
  · rename_i hc
    apply tr_bind tr_fuelHere; intro f2 _
    exact tr_pnm_digitsLoop f2 c 0 (by simpa using hc)

/-- what `read_header` guarantees -/
def PnmHdr (i : Pnm.Info) : Prop :=
  1 ≤ i.width ∧ i.width ≤ 2147483647 ∧ 1 ≤ i.height ∧ 1 ≤ i.type ∧ i.type ≤ 6

theorem tr_pnm_readHeader {t : Bool} : Tr t Pnm.readHeader PnmHdr := by
  unfold Pnm.readHeader
  apply tr_bind tr_pnm_readChar; intro p _
  split
  · exact tr_ioErr
  · apply tr_bind tr_pnm_readChar; intro ty _
    split
    · exact tr_ioErr
    · rename_i hty
      dsimp only
      apply tr_bind tr_pnm_readInt; intro w hw
      apply tr_bind tr_pnm_readInt; intro h hh
      have hT : 1 ≤ Int.ofNat (ty - 48) ∧ Int.ofNat (ty - 48) ≤ 6 := by
        simp only [Int.ofNat_eq_natCast]; omega
      split
      · exact tr_ioErr
      · split
        · exact tr_pure (by unfold PnmHdr; dsimp only; omega)
        · apply tr_bind tr_pnm_readInt; intro m _
          split
          · exact tr_ioErr
          · exact tr_pure (by unfold PnmHdr; dsimp only; omega)


theorem tr_pnm_token {t : Bool} (site : String) : ∀ (fuel : Nat) (acc : List Nat), Tr t (Pnm.token site fuel acc) (fun _ => True)
  | 0, _ => by unfold Pnm.token; exact tr_fuel _
  | fuel + 1, acc => by
    unfold Pnm.token
    apply tr_bind tr_getcUnchecked; intro c _
    split
    · repeat' (first | exact tr_ioErr | exact tr_pure trivial | exact tr_pnm_token site fuel _ | split)
    · split <;> exact tr_pure trivial

theorem tr_pnm_textSamples {t : Bool} (site : String) (maxv : Int) (process : Bool) :
    ∀ (n x : Nat) (row : List Nat), Tr t (Pnm.textSamples site maxv process n x row) (fun r => r.length = row.length)
  | 0, _, row => by unfold Pnm.textSamples; exact tr_pure rfl
  | n + 1, x, row => by
    unfold Pnm.textSamples
    apply tr_bind tr_fuelHere; intro fuel _
    apply tr_bind (tr_pnm_token site fuel []); intro tk _
    split
    · exact tr_ioErr
    · split
      · exact tr_mono (tr_pnm_textSamples site maxv process n _ _) (fun r hr => by simpa using hr)
      · exact tr_pnm_textSamples site maxv process n _ _

/-- bytes per destination pixel of the gray conversions -/
def grayCh (dst : Dst) : Nat := if dst = .rgb8 then 3 else 1

theorem gray8To_length (dst : Dst) (xs : List Nat) : (Pnm.gray8To dst xs).length = xs.length * grayCh dst := by
  unfold Pnm.gray8To grayCh
  cases dst <;> simp [List.length_flatMap]
  induction xs with
  | nil => rfl
  | cons x xs ih => simp [ih]; omega

theorem gray1To_length (dst : Dst) (xs : List Nat) : (Pnm.gray1To dst xs).length = xs.length * grayCh dst := by
  unfold Pnm.gray1To grayCh
  cases dst <;> simp [List.length_flatMap]
  induction xs with
  | nil => rfl
  | cons x xs ih => simp [ih]; omega

theorem grayCh_eq_nch {dst : Dst} (h : dst = .gray8 ∨ dst = .rgb8 ∨ dst = .gray1) : grayCh dst = dst.nch := by
  rcases h with h | h | h <;> subst h <;> rfl

/-- `len ≤ dimx` gray samples converted to the destination fit `vw` destination pixels -/
theorem gray_fits {dst : Dst} (hd : dst = .gray8 ∨ dst = .rgb8 ∨ dst = .gray1) {len : Nat} {dimx vw : Int}
    (hl : (len : Int) ≤ dimx) (hvw : dimx ≤ vw) : ((len * grayCh dst : Nat) : Int) ≤ vw * dst.nch := by
  rw [grayCh_eq_nch hd]
  push_cast
  have : (0 : Int) ≤ dst.nch := Int.natCast_nonneg _
  nlinarith


theorem tr_pnm_textRows {t : Bool} (i : Pnm.Info) (st : Settings) (dimx : Int) (sl srcCh : Nat) (site : String) {vw vh : Int}
    (hsrc : srcCh = 1 ∨ srcCh = 3)
    (hd1 : srcCh = 1 → st.dst = .gray8 ∨ st.dst = .rgb8) (hd3 : srcCh = 3 → st.dst = .rgb8)
    (hx0 : 0 ≤ st.x0) (hdx : 0 ≤ dimx) (hxsl : (st.x0 + dimx) * srcCh ≤ sl) (hvw : dimx ≤ vw) :
    ∀ (n : Nat) (process : Bool) (y : Int) (row : List Nat) (d : Dest), row.length = sl → Shape d vw vh st.dst.nch →
      (process = true → 0 ≤ y ∧ y + n ≤ vh) →
      Tr t (Pnm.textRows i st dimx sl srcCh site n process y row d) (fun d' => Shape d' vw vh st.dst.nch)
  | 0, _, _, _, d, _, hd, _ => by unfold Pnm.textRows; exact tr_pure hd
  | n + 1, process, y, row, d, hrow, hd, hy => by
    unfold Pnm.textRows
    apply tr_bind (tr_pnm_textSamples site i.maxValue process sl 0 row); intro row' hrow'
    have hlen : row'.length = sl := by omega
    split
    · rename_i hp
      have hy' := hy hp
      apply tr_bind (tr_sliceRow _ row' srcCh st.x0 dimx hx0 (by rw [hlen]; exact_mod_cast hxsl)); intro px hpx
      have hfit : ((if srcCh == 1 then Pnm.gray8To st.dst px else px).length : Int) ≤ vw * st.dst.nch := by
        have hn : (0 : Int) ≤ st.dst.nch := Int.natCast_nonneg _
        rcases hsrc with h1 | h3
        · subst h1
          simp only [beq_self_eq_true, if_true]
          rw [gray8To_length]
          have hdd := hd1 rfl
          have hl : (px.length : Int) ≤ dimx := by
            rcases hpx with h | ⟨_, h⟩
            · simpa using h
            · subst h; simpa using hdx
          exact gray_fits (by rcases hdd with h | h <;> simp [h]) hl hvw
        · subst h3
          have hdd := hd3 rfl
          simp only [show ((3 : Nat) == 1) = false from rfl]
          rw [hdd]
          show (px.length : Int) ≤ vw * 3
          rcases hpx with h | ⟨_, h⟩
          · push_cast at h; omega
          · subst h; simp; omega
      apply tr_bind (tr_setRow _ d y _ hd hy'.1 (by push_cast at hy'; omega) hfit); intro d' hd'
      exact tr_pnm_textRows i st dimx sl srcCh site hsrc hd1 hd3 hx0 hdx hxsl hvw n process (y + 1) row' d' hlen hd'
        (fun _ => ⟨by omega, by push_cast at hy' ⊢; omega⟩)
    · rename_i hp
      exact tr_pnm_textRows i st dimx sl srcCh site hsrc hd1 hd3 hx0 hdx hxsl hvw n process (y + 1) row' d hlen hd
        (fun h => absurd h hp)

theorem tr_pnm_readTextData {t : Bool} (i : Pnm.Info) (st : Settings) (dimx : Int) (srcCh : Nat) (d : Dest) {vw vh : Int}
    (hw : 1 ≤ i.width) (hsrc : srcCh = 1 ∨ srcCh = 3)
    (hd1 : srcCh = 1 → st.dst = .gray8 ∨ st.dst = .rgb8) (hd3 : srcCh = 3 → st.dst = .rgb8)
    (hx0 : 0 ≤ st.x0) (hdx : 0 ≤ dimx) (hxw : st.x0 + dimx ≤ i.width) (hvw : dimx ≤ vw) (hvh0 : 0 ≤ vh)
    (hd : Shape d vw vh st.dst.nch) :
    Tr t (Pnm.readTextData i st dimx (i.width * srcCh) srcCh d) (fun d' => Shape d' vw vh st.dst.nch) := by
  unfold Pnm.readTextData
  apply tr_bind (tr_alloc _); intro _ _
  dsimp only
  have hsl : 1 ≤ i.width * srcCh := by rcases hsrc with h | h <;> subst h <;> push_cast <;> omega
  rw [if_neg (by intro hc; have : i.width * ↑srcCh = 0 := by simpa using hc.1
                 omega)]
  have hlen : (List.replicate (i.width * ↑srcCh).toNat 0).length = (i.width * ↑srcCh).toNat := List.length_replicate
  have hxsl : (st.x0 + dimx) * srcCh ≤ ((i.width * ↑srcCh).toNat : Int) := by
    rw [Int.toNat_of_nonneg (by omega)]
    have : (0 : Int) ≤ srcCh := Int.natCast_nonneg _
    nlinarith
  apply tr_bind (tr_pnm_textRows i st dimx _ srcCh _ hsrc hd1 hd3 hx0 hdx hxsl hvw _ false 0 _ d hlen hd (fun h => by cases h)); intro d' hd'
  have hvh : d.vh = vh := hd.2.1
  exact tr_pnm_textRows i st dimx _ srcCh _ hsrc hd1 hd3 hx0 hdx hxsl hvw _ true 0 _ d' hlen hd'
    (fun _ => ⟨le_refl _, by
      rw [hvh]
      by_cases hp : vh > 0
      · rw [if_pos hp, Int.toNat_of_nonneg (by omega)]; omega
      · rw [if_neg hp]; push_cast; omega⟩)


theorem manipBits_length (row : List Nat) : (Pnm.manipBits row).length = row.length := by
  unfold Pnm.manipBits; simp

theorem tr_pnm_skipBinRows {t : Bool} (site : String) (sl : Nat) :
    ∀ (n : Nat) (buf : List Nat), buf.length = sl → Tr t (Pnm.skipBinRows site sl n buf) (fun b => b.length = sl)
  | 0, buf, hb => by unfold Pnm.skipBinRows; exact tr_pure hb
  | n + 1, buf, hb => by
    unfold Pnm.skipBinRows
    apply tr_bind (tr_readInto site buf sl (by omega)); intro buf' hb'
    exact tr_pnm_skipBinRows site sl n buf' (by omega)

/-- destination types the PNM pixel paths can reach (from `is_allowed` or the modelled conversion target) -/
structure PnmDstOk (i : Pnm.Info) (st : Settings) : Prop where
  gray : (i.type = 1 ∨ i.type = 2 ∨ i.type = 5) → st.dst = .gray8 ∨ st.dst = .rgb8
  rgb : (i.type = 3 ∨ i.type = 6) → st.dst = .rgb8
  bits : i.type = 4 → st.dst = .gray1 ∨ st.dst = .rgb8

theorem tr_pnm_binRows {t : Bool} (i : Pnm.Info) (st : Settings) (dimx : Int) (sl : Nat) (site : String) {vw vh : Int}
    (hty : i.type = 4 ∨ i.type = 5 ∨ i.type = 6) (hdst : PnmDstOk i st)
    (hx0 : 0 ≤ st.x0) (hdx : 0 ≤ dimx) (hvw : dimx ≤ vw)
    (h4 : i.type = 4 → st.x0 + dimx ≤ (sl : Int) * 8) (h56 : i.type ≠ 4 → st.x0 + dimx ≤ (sl : Int)) :
    ∀ (n : Nat) (y : Int) (buf : List Nat) (d : Dest), buf.length = sl → Shape d vw vh st.dst.nch → 0 ≤ y → y + n ≤ vh →
      Tr t (Pnm.binRows i st dimx sl site n y buf d) (fun d' => Shape d' vw vh st.dst.nch)
  | 0, _, _, d, _, hd, _, _ => by unfold Pnm.binRows; exact tr_pure hd
  | n + 1, y, buf, d, hb, hd, hy0, hy1 => by
    unfold Pnm.binRows
    apply tr_bind (tr_readInto site buf sl (by omega)); intro buf' hb'
    have hlen : buf'.length = sl := by omega
    have hrec : ∀ (b : List Nat) (d' : Dest), b.length = sl → Shape d' vw vh st.dst.nch →
        Tr t (Pnm.binRows i st dimx sl site n (y + 1) b d') (fun d' => Shape d' vw vh st.dst.nch) :=
      fun b d' hb2 hd2 => tr_pnm_binRows i st dimx sl site hty hdst hx0 hdx hvw h4 h56 n (y + 1) b d' hb2 hd2 (by omega)
        (by push_cast at hy1 ⊢; omega)
    have hy1' : y < vh := by push_cast at hy1; omega
    split
    · rename_i h4t
      have ht4 : i.type = 4 := by simpa using h4t
      dsimp only
      split
      · exact hrec _ d (by rw [manipBits_length]; exact hlen) hd
      · split
        · rename_i hc
          have := h4 ht4
          simp only [Int.ofNat_eq_natCast] at hc
          omega
        · have hfit : ((Pnm.gray1To st.dst (List.take dimx.toNat (List.drop st.x0.toNat (Pnm.bitsOf (Pnm.manipBits buf'))))).length : Int)
              ≤ vw * st.dst.nch := by
            rw [gray1To_length]
            have hl : ((List.take dimx.toNat (List.drop st.x0.toNat (Pnm.bitsOf (Pnm.manipBits buf')))).length : Int) ≤ dimx := by
              have : (List.take dimx.toNat (List.drop st.x0.toNat (Pnm.bitsOf (Pnm.manipBits buf')))).length ≤ dimx.toNat :=
                List.length_take_le _ _
              have h2 : ((dimx.toNat : Nat) : Int) = dimx := Int.toNat_of_nonneg hdx
              omega
            exact gray_fits (by rcases hdst.bits ht4 with h | h <;> simp [h]) hl hvw
          apply tr_bind (tr_setRow site d y _ hd hy0 hy1' hfit); intro d' hd'
          exact hrec _ d' (by rw [manipBits_length]; exact hlen) hd'
    · rename_i h4t
      have ht4 : i.type ≠ 4 := by simpa using h4t
      dsimp only
      split
      · exact hrec _ d hlen hd
      · split
        · rename_i hc
          have := h56 ht4
          simp only [Int.ofNat_eq_natCast] at hc
          omega
        · by_cases h6 : i.type = 6
          · -- rgb8 source, rgb8 destination
            have hd6 := hdst.rgb (Or.inr h6)
            simp only [h6, beq_self_eq_true, if_true, show ((3 : Nat) == 1) = false from rfl]
            have hfit : ((List.take (dimx.toNat * 3) (List.drop (st.x0.toNat * 3) (buf' ++ List.replicate (sl * 3 - sl) 0))).length : Int)
                ≤ vw * st.dst.nch := by
              have : (List.take (dimx.toNat * 3) (List.drop (st.x0.toNat * 3) (buf' ++ List.replicate (sl * 3 - sl) 0))).length ≤ dimx.toNat * 3 :=
                List.length_take_le _ _
              have h2 : ((dimx.toNat : Nat) : Int) = dimx := Int.toNat_of_nonneg hdx
              rw [hd6]
              show _ ≤ vw * 3
              omega
            apply tr_bind (tr_setRow site d y _ hd hy0 hy1' hfit); intro d' hd'
            exact hrec _ d' hlen hd'
          · have h5 : i.type = 5 := by omega
            have hd5 := hdst.gray (Or.inr (Or.inr h5))
            simp only [h5, show ((5 : Int) == 6) = false from rfl, beq_self_eq_true, if_true, Bool.false_eq_true, if_false]
            have hfit : ((Pnm.gray8To st.dst (List.take (dimx.toNat * 1) (List.drop (st.x0.toNat * 1) (buf' ++ List.replicate (sl * 1 - sl) 0)))).length : Int)
                ≤ vw * st.dst.nch := by
              rw [gray8To_length]
              have hl : ((List.take (dimx.toNat * 1) (List.drop (st.x0.toNat * 1) (buf' ++ List.replicate (sl * 1 - sl) 0))).length : Int) ≤ dimx := by
                have : (List.take (dimx.toNat * 1) (List.drop (st.x0.toNat * 1) (buf' ++ List.replicate (sl * 1 - sl) 0))).length ≤ dimx.toNat * 1 :=
                  List.length_take_le _ _
                have h2 : ((dimx.toNat : Nat) : Int) = dimx := Int.toNat_of_nonneg hdx
                omega
              exact gray_fits (by rcases hd5 with h | h <;> simp [h]) hl hvw
            apply tr_bind (tr_setRow site d y _ hd hy0 hy1' hfit); intro d' hd'
            exact hrec _ d' hlen hd'


theorem tr_pnm_readBinData {t : Bool} (i : Pnm.Info) (st : Settings) (dimx sl : Int) (d : Dest) {vw vh : Int}
    (hty : i.type = 4 ∨ i.type = 5 ∨ i.type = 6) (hdst : PnmDstOk i st) (hsl : 1 ≤ sl)
    (hx0 : 0 ≤ st.x0) (hdx : 0 ≤ dimx) (hvw : dimx ≤ vw) (hvh0 : 0 ≤ vh)
    (h4 : i.type = 4 → st.x0 + dimx ≤ sl * 8) (h56 : i.type ≠ 4 → st.x0 + dimx ≤ sl)
    (hd : Shape d vw vh st.dst.nch) :
    Tr t (Pnm.readBinData i st dimx sl d) (fun d' => Shape d' vw vh st.dst.nch) := by
  unfold Pnm.readBinData
  dsimp only
  apply tr_bind (tr_alloc _); intro _ _
  have hne : ¬ ((sl == 0) = true) := by simp; omega
  rw [if_neg (fun hc => hne hc.1), if_neg (fun hc => hne hc.1)]
  have hslc : ((sl.toNat : Nat) : Int) = sl := Int.toNat_of_nonneg (by omega)
  apply tr_bind (tr_pnm_skipBinRows _ sl.toNat _ _ List.length_replicate); intro buf hbuf
  have hvh : d.vh = vh := hd.2.1
  refine tr_pnm_binRows i st dimx sl.toNat _ hty hdst hx0 hdx hvw (by rw [hslc]; exact h4) (by rw [hslc]; exact h56) _ 0 buf d hbuf hd (le_refl _) ?_
  rw [hvh]
  by_cases hp : vh > 0
  · rw [if_pos hp, Int.toNat_of_nonneg (by omega)]; omega
  · rw [if_neg hp]; push_cast; omega

theorem wrapU32_small {x : Int} (h0 : 0 ≤ x) (h1 : x < 4294967296) : wrapU 32 x = x := by
  unfold wrapU
  have : ((2 : Int) ^ 32) = 4294967296 := by norm_num
  rw [this]
  omega

theorem pnmDstOk_of_allowed {i : Pnm.Info} {st : Settings} (hi : PnmHdr i) (hal : Pnm.isAllowed i st = true)
    (hc : ConvOk .pnm st) : PnmDstOk i st := by
  unfold Pnm.isAllowed at hal
  by_cases he : st.entry = .conv
  · have hd : st.dst = .rgb8 := hc he
    exact ⟨fun _ => Or.inr hd, fun _ => hd, fun _ => Or.inr hd⟩
  · have he' : (st.entry == Entry.conv) = false := by simpa using he
    rw [he'] at hal
    simp only [Bool.false_eq_true, if_false] at hal
    obtain ⟨_, _, _, ht1, ht6⟩ := hi
    cases hdst : st.dst <;> rw [hdst] at hal <;> simp at hal <;>
      refine ⟨fun h => ?_, fun h => ?_, fun h => ?_⟩ <;> first | (simp [hdst]; done) | (exfalso; omega)


theorem tr_pnm_apply {t : Bool} (i : Pnm.Info) (st : Settings) (dimx : Int) (d : Dest) {vw vh : Int}
    (hi : PnmHdr i) (hconv : ConvOk .pnm st)
    (hx0 : 0 ≤ st.x0) (hdx : 0 ≤ dimx) (hxw : st.x0 + dimx ≤ i.width) (hvw : dimx ≤ vw) (hvh0 : 0 ≤ vh)
    (hd : Shape d vw vh st.dst.nch) :
    Tr t (Pnm.apply i st dimx d) (fun d' => Shape d' vw vh st.dst.nch) := by
  unfold Pnm.apply
  obtain ⟨hw1, hw2, hh1, ht1, ht6⟩ := hi
  split
  · exact tr_ioErr
  · rename_i hal
    have hdst := pnmDstOk_of_allowed ⟨hw1, hw2, hh1, ht1, ht6⟩ (by simpa using hal) hconv
    split
    · rename_i h12
      have := tr_pnm_readTextData (t := t) i st dimx 1 d hw1 (Or.inl rfl)
        (fun _ => hdst.gray (by rcases h12 with h | h <;> simp at h <;> omega)) (fun h => by cases h) hx0 hdx hxw hvw hvh0 hd
      simpa using this
    · split
      · rename_i h3
        exact tr_pnm_readTextData i st dimx 3 d hw1 (Or.inr rfl) (fun h => by cases h)
          (fun _ => hdst.rgb (Or.inl (by simpa using h3))) hx0 hdx hxw hvw hvh0 hd
      · split
        · rename_i h4
          have ht4 : i.type = 4 := by simpa using h4
          have hwr : wrapU 32 (i.width + 7) = i.width + 7 := wrapU32_small (by omega) (by omega)
          rw [hwr]
          exact tr_pnm_readBinData i st dimx _ d (Or.inl ht4) hdst (by omega) hx0 hdx hvw hvh0 (fun _ => by omega)
            (fun h => absurd ht4 h) hd
        · split
          · rename_i h5
            have ht5 : i.type = 5 := by simpa using h5
            exact tr_pnm_readBinData i st dimx _ d (Or.inr (Or.inl ht5)) hdst hw1 hx0 hdx hvw hvh0 (fun h => by omega)
              (fun _ => hxw) hd
          · rename_i h12 h3 h4 h5
            have ht6' : i.type = 6 := by
              simp at h12 h3 h4 h5; omega
            exact tr_pnm_readBinData i st dimx _ d (Or.inr (Or.inr ht6')) hdst (by omega) hx0 hdx hvw hvh0 (fun h => by omega)
              (fun _ => by omega) hd

theorem tr_pnm_scanRows {t : Bool} (sl : Nat) (rowFn : List Nat → M (List Nat))
    (hrow : ∀ b : List Nat, b.length = sl → Tr t (rowFn b) (fun b' => b'.length = sl)) :
    ∀ (n : Nat) (buf : List Nat) (acc : List (List Nat)), buf.length = sl → Tr t (Pnm.scanRows rowFn n buf acc) (fun _ => True)
  | 0, _, _, _ => by unfold Pnm.scanRows; exact tr_pure trivial
  | n + 1, buf, acc, hb => by
    unfold Pnm.scanRows
    apply tr_bind (hrow buf hb); intro buf' hb'
    exact tr_pnm_scanRows sl rowFn hrow n buf' _ hb'

theorem tr_pnm_scanWith {t : Bool} (i : Pnm.Info) (sl : Int) (hsl : 1 ≤ sl) : Tr t (Pnm.scanWith i sl) (fun _ => True) := by
  unfold Pnm.scanWith
  split
  · exact tr_stop_err _
  · apply tr_bind (tr_alloc _); intro _ _
    rw [if_neg (by simp; omega)]
    dsimp only
    apply tr_bind (tr_pnm_scanRows sl.toNat _ (fun b hb => by
        split
        · unfold Pnm.scanTextRow
          exact tr_mono (tr_pnm_textSamples _ _ _ _ _ b) (fun r hr => by omega)
        · apply tr_bind (tr_readInto _ b _ (by omega)); intro row hrow
          apply tr_pure
          split
          · rw [manipBits_length]; omega
          · omega) _ _ _ List.length_replicate); intro _ _
    exact tr_pure trivial

theorem tr_pnm_scan {t : Bool} (i : Pnm.Info) (hi : PnmHdr i) : Tr t (Pnm.scan i) (fun _ => True) := by
  unfold Pnm.scan
  obtain ⟨hw1, hw2, hh1, ht1, ht6⟩ := hi
  apply tr_pnm_scanWith
  unfold Pnm.scanLen
  rw [wrapU32_small (by omega) (by omega)]
  split
  · omega
  · split <;> omega

theorem tr_pnm_run {t : Bool} (st : Settings) (hconv : ConvOk .pnm st) : Tr t (Pnm.run st) (fun _ => True) := by
  unfold Pnm.run
  apply tr_bind tr_pnm_readHeader; intro i hi
  dsimp only
  apply tr_bind (tr_checkSettings _ _ _ _ _); intro _ hs
  obtain ⟨hx0, hy0, hdx, hdy, hxw, hyh⟩ := hs
  have hdx1 := dim_pos hi.1 (by simpa using hdx)
  have hdy1 := dim_pos hi.2.2.1 (by simpa using hdy)
  simp only [beq_iff_eq] at hdx1 hdy1 hdx hdy hxw hyh ⊢
  cases he : st.entry with
  | info => exact tr_pure trivial
  | scan => exact tr_pnm_scan i hi
  | view =>
    dsimp only
    apply tr_bind (tr_checkImageSize _ _ _ _ _); intro _ hv
    apply tr_bind (tr_pnm_apply i st _ _ hi hconv hx0 hdx hxw (hv.1 (by omega)) (by have := hv.2 (by omega); omega) (mk'_shape _ _ _ _)); intro _ _
    exact tr_pure trivial
  | image =>
    dsimp only
    apply tr_bind (tr_recreateImage st _ _ (by omega) (by omega)); intro d hd
    apply tr_bind (tr_pnm_apply i st _ _ hi hconv hx0 hdx hxw (le_refl _) (by omega) hd); intro _ _
    exact tr_pure trivial
  | conv =>
    dsimp only
    apply tr_bind (tr_recreateImage st _ _ (by omega) (by omega)); intro d hd
    apply tr_bind (tr_pnm_apply i st _ _ hi hconv hx0 hdx hxw (le_refl _) (by omega) hd); intro _ _
    exact tr_pure trivial


/-! ### PNM never runs out of fuel -/

theorem nf_pnm_textRows (i : Pnm.Info) (st : Settings) (dimx : Int) (sl srcCh : Nat) (site : String) :
    ∀ (n : Nat) (process : Bool) (y : Int) (row : List Nat) (d : Dest), NF (Pnm.textRows i st dimx sl srcCh site n process y row d)
  | 0, _, _, _, _ => by unfold Pnm.textRows; exact nf_pure _
  | n + 1, process, y, row, d => by
    unfold Pnm.textRows
    apply nf_bind (nf_of_nh (nh_pnm_textSamples _ _ _ _ _ _)); intro row'
    split
    · apply nf_bind (nf_sliceRow _ _ _ _ _); intro px
      dsimp only
      apply nf_bind (nf_setRow _ _ _ _); intro d'
      exact nf_pnm_textRows i st dimx sl srcCh site n _ _ _ _
    · exact nf_pnm_textRows i st dimx sl srcCh site n _ _ _ _

theorem nf_pnm_readTextData (i : Pnm.Info) (st : Settings) (dimx sl : Int) (srcCh : Nat) (d : Dest) :
    NF (Pnm.readTextData i st dimx sl srcCh d) := by
  unfold Pnm.readTextData
  apply nf_bind (nf_alloc _); intro _
  dsimp only
  apply nf_ite
  · exact nf_ubAt _ _
  · apply nf_bind (nf_pnm_textRows _ _ _ _ _ _ _ _ _ _ _); intro _
    exact nf_pnm_textRows _ _ _ _ _ _ _ _ _ _ _

theorem nf_pnm_skipBinRows (site : String) (sl : Nat) : ∀ (n : Nat) (buf : List Nat), NF (Pnm.skipBinRows site sl n buf)
  | 0, _ => by unfold Pnm.skipBinRows; exact nf_pure _
  | n + 1, buf => by
    unfold Pnm.skipBinRows
    apply nf_bind (nf_readInto _ _ _); intro _
    exact nf_pnm_skipBinRows site sl n _

theorem nf_pnm_binRows (i : Pnm.Info) (st : Settings) (dimx : Int) (sl : Nat) (site : String) :
    ∀ (n : Nat) (y : Int) (buf : List Nat) (d : Dest), NF (Pnm.binRows i st dimx sl site n y buf d)
  | 0, _, _, _ => by unfold Pnm.binRows; exact nf_pure _
  | n + 1, y, buf, d => by
    unfold Pnm.binRows
    apply nf_bind (nf_readInto _ _ _); intro buf'
    have ih := nf_pnm_binRows i st dimx sl site n
    split
    · dsimp only
      split
      · exact ih _ _ _
      · split
        · exact nf_ubAt _ _
        · apply nf_bind (nf_setRow _ _ _ _); intro _; exact ih _ _ _
    · dsimp only
      split
      · exact ih _ _ _
      · split
        · exact nf_ubAt _ _
        · apply nf_bind (nf_setRow _ _ _ _); intro _; exact ih _ _ _

theorem nf_pnm_readBinData (i : Pnm.Info) (st : Settings) (dimx sl : Int) (d : Dest) : NF (Pnm.readBinData i st dimx sl d) := by
  unfold Pnm.readBinData
  dsimp only
  apply nf_bind (nf_alloc _); intro _
  apply nf_ite
  · exact nf_ubAt _ _
  · apply nf_ite
    · exact nf_ubAt _ _
    · apply nf_bind (nf_pnm_skipBinRows _ _ _ _); intro _
      exact nf_pnm_binRows _ _ _ _ _ _ _ _ _

theorem nf_pnm_apply (i : Pnm.Info) (st : Settings) (dimx : Int) (d : Dest) : NF (Pnm.apply i st dimx d) := by
  unfold Pnm.apply
  repeat' (first | exact nf_ioErr | exact nf_pnm_readTextData _ _ _ _ _ _ | exact nf_pnm_readBinData _ _ _ _ _ | split)

theorem nf_pnm_scanRows (rowFn : List Nat → M (List Nat)) (h : ∀ b, NF (rowFn b)) :
    ∀ (n : Nat) (buf : List Nat) (acc : List (List Nat)), NF (Pnm.scanRows rowFn n buf acc)
  | 0, _, _ => by unfold Pnm.scanRows; exact nf_pure _
  | n + 1, buf, acc => by
    unfold Pnm.scanRows
    apply nf_bind (h buf); intro _
    exact nf_pnm_scanRows rowFn h n _ _

theorem nf_pnm_scan (i : Pnm.Info) : NF (Pnm.scan i) := by
  unfold Pnm.scan Pnm.scanWith
  split
  · exact nf_stop _ (by intro w; simp)
  · apply nf_bind (nf_alloc _); intro _
    split
    · exact nf_ubAt _ _
    · dsimp only
      apply nf_bind (nf_pnm_scanRows _ (fun b => by
          split
          · unfold Pnm.scanTextRow; exact nf_of_nh (nh_pnm_textSamples _ _ _ _ _ _)
          · apply nf_bind (nf_readInto _ _ _); intro _; exact nf_pure _) _ _ _); intro _
      exact nf_pure _

theorem nf_pnm_run (st : Settings) : NF (Pnm.run st) := by
  unfold Pnm.run
  apply nf_bind (nf_of_nh nh_pnm_readHeader); intro i
  dsimp only
  apply nf_bind (nf_checkSettings _ _ _ _ _); intro _
  cases st.entry with
  | info => exact nf_pure _
  | scan => exact nf_pnm_scan i
  | view =>
    dsimp only
    apply nf_bind (nf_checkImageSize _ _ _ _ _); intro _
    apply nf_bind (nf_pnm_apply _ _ _ _); intro _
    exact nf_pure _
  | image =>
    dsimp only
    apply nf_bind (nf_recreateImage _ _ _); intro _
    apply nf_bind (nf_pnm_apply _ _ _ _); intro _
    exact nf_pure _
  | conv =>
    dsimp only
    apply nf_bind (nf_recreateImage _ _ _); intro _
    apply nf_bind (nf_pnm_apply _ _ _ _); intro _
    exact nf_pure _

end GilVerif.Lemmas.C11
